(* C03 — the protoc plugin's output implements the schema.
   Property-level statements only; every proof is a single [exact] of a lemma from Proofs/PluginP.v,
   Proofs/PluginWitP.v or Proofs/C03Bridge{A,B,C,D,E,Wit}.v, followed by Print Assumptions.

   Reading guide
     descriptor          Spec/Descriptor.v   FileDescriptorSet as protoc emits it (any number of files, messages, nesting depth)
     protoc_wf D         Spec/Descriptor.v   what protoc guarantees: identifiers, type names resolve to the right kind,
                                             oneof_index in range, map-entry types named MapEntryName(field) with key = 1, value = 2,
                                             nested type names distinct
     class_table_of      Spec/Descriptor.v   the MEANING of D: one class per message / enum, fields with number, proto type,
                                             cardinality (hint shape, optional flag, map types), oneof group, wrapper /
                                             Timestamp / Duration mapping, enum members with their numbers
     compile, reflect    Model/Plugin.v      what the plugin emits (heuristics included) and what Python makes of it
     names_ok            Proofs/PluginP.v    the naming side conditions; each conjunct is a known-finding class when false:
                                             pkg_names_ok (K2), flat_dotted_ok + class_nodup (K1), fields_nodup + members_nodup (K8),
                                             map_keys_ok (K13), wraps_ok (K14)
     schema_of_table     Model/C03Bridge.v   THE BRIDGE to the runtime codec model (Model/Object.v): the class table as a runtime
                                             schema, numbered the way harness/msggen.py numbers it (11 bundled classes, one cdesc per
                                             message class, synthetic Entry classes after them, enum table, references by index)
     table_ok, bridge_ok Model/C03Bridge.v   decidable side conditions of the bridge on a table / on a descriptor set (each conjunct
                                             of bridge_ok is marked there: guaranteed by protoc / limit of the runtime model's
                                             wf_schema / outside the classes the runtime model has)
     c01_schema_ok       Model/C01Def.v      the schema hypothesis of the runtime theorems (C01 C02 C04 C08 C10 ...): wf_schema +
                                             builtins_exact + entries_ok
   The naming functions field_name / class_name / enum_member_name (pythonize_field_name, pythonize_class_name,
   pythonize_enum_member_name of compile/naming.py; property C19) are universally quantified: the theorems hold for
   EVERY choice of them that satisfies names_ok on D, and the harness evaluates names_ok with the real functions. *)
(* the runtime model first: where it and Spec.Descriptor use the same constructor names (PyInt ...), the unqualified
   name is Spec.Descriptor's, as in the theorems about the plugin below *)
From BP Require Import Model.Types Model.Object Model.Eq Model.Encode Model.Decode Model.WellFormed Model.C01Def.
From BP Require Import Base.Prelude Spec.Descriptor gen.C03Tables Model.Plugin Proofs.PluginP Proofs.PluginWitP.
From BP Require Import Model.C03Bridge Proofs.C03BridgeA Proofs.C03BridgeC Proofs.C03BridgeD Proofs.C03BridgeE Proofs.C03BridgeWit.
From Coq Require Import String.
Open Scope list_scope.
Open Scope Z_scope.

(* For every descriptor set protoc can emit (no bound on files, messages, fields or nesting depth) and every
   naming that is injective per scope: the class table Python builds from the plugin's output IS the class
   table the schema denotes — one class per message and enum (nested ones included, map-entry types
   excepted), and per field its number, proto type, cardinality, map key/value types, oneof group, wraps,
   optional flag and resolved type hint; per enum member its number. *)
Theorem C03_field_faithful :
  forall (field_name class_name : str -> str) (enum_member_name : str -> str -> str) (D : descriptor),
    protoc_wf D = true -> names_ok field_name class_name enum_member_name D = true ->
    exists t, class_table_of field_name class_name enum_member_name D = Some t
              /\ reflect (compile field_name class_name enum_member_name D) = Ok t.
Proof. exact field_faithful. Qed.
Print Assumptions C03_field_faithful.

(* the is_map name heuristic never misses a map field of a descriptor protoc emitted (no naming condition) ... *)
Theorem C03_is_map_complete :
  forall D f p m x, protoc_wf D = true -> In f D -> In (p, m) (file_msgs f) -> In x (md_fields m) ->
    spec_is_map (fl_package f) p m x = true -> is_map x m = true.
Proof. exact is_map_no_false_negative. Qed.
Print Assumptions C03_is_map_complete.

(* ... and coincides with the specification's reading exactly when map_keys_ok holds *)
Theorem C03_is_map_exact :
  forall D f p m x, protoc_wf D = true -> map_keys_ok D = true ->
    In f D -> In (p, m) (file_msgs f) -> In x (md_fields m) ->
    is_map x m = spec_is_map (fl_package f) p m x.
Proof. exact is_map_exact. Qed.
Print Assumptions C03_is_map_exact.

(* the package regex of parse_source_type_name splits every type name of D where the symbol table does,
   provided packages are capital-free and top-level type names contain a capital *)
Theorem C03_type_name_split :
  forall D tn s, protoc_wf D = true -> pkg_names_ok D = true -> resolve D tn = Some s ->
    parse_source_type_name tn = (sym_pkg s, dotted (sym_path s)).
Proof. exact type_name_split. Qed.
Print Assumptions C03_type_name_split.

(* MapEntryName and the heuristic's key: lower(strip_(CamelCase(name) + "Entry")) = lower(strip_(name)) + "entry" *)
Theorem C03_map_entry_key :
  forall name, lower (strip_us (map_entry_name name)) = lower (strip_us name) ++ s_entry
               /\ lower (map_entry_name name) = lower (strip_us name) ++ s_entry.
Proof. exact (fun n => conj (lower_strip_map_entry_name n) (lower_map_entry_name n)). Qed.
Print Assumptions C03_map_entry_key.

(* both bundled google.protobuf libraries (std and pydantic, with their .compiler modules) agree with
   descriptor.proto / plugin.proto / the well-known-type protos on every field number they share
   (finite sweep over the regenerated tables) *)
Theorem C03_bundled_agree : forallb agree_on_shared_numbers bundled_vs_reference = true.
Proof. exact bundled_agree. Qed.
Print Assumptions C03_bundled_agree.

Theorem C03_bundled_enums_agree : forallb enum_agree_on_shared_names bundled_enums_vs_reference = true.
Proof. exact bundled_enums_agree. Qed.
Print Assumptions C03_bundled_enums_agree.

(* every output package directory, each of its ancestors and the root are in the set of directories that
   receive an __init__.py *)
Theorem C03_output_dirs :
  forall D p q, In p (output_packages D) -> In q (prefixes (pkg_dir p)) -> In q (output_dirs D).
Proof. exact output_dirs_complete. Qed.
Print Assumptions C03_output_dirs.

Theorem C03_output_dirs_self_and_root :
  forall D p, In p (output_packages D) -> In (pkg_dir p) (output_dirs D) /\ In [] (output_dirs D).
Proof. exact (fun D p H => conj (output_dirs_complete D p _ H (prefixes_self_in _)) (output_dirs_complete D p _ H (prefixes_nil_in _))). Qed.
Print Assumptions C03_output_dirs_self_and_root.

(* ---- where the pinned plugin violates the full statement (names_ok cannot be dropped) ---- *)
Theorem C03_collision_refuted :
  protoc_wf D_k1 = true
  /\ reflect (compile w_field_name w_class_name w_member_name D_k1)
     <> res_of_opt (class_table_of w_field_name w_class_name w_member_name D_k1).
Proof. exact collision_refuted. Qed.
Print Assumptions C03_collision_refuted.

Theorem C03_member_collision_refuted :
  protoc_wf D_k8 = true
  /\ reflect (compile w_field_name w_class_name w_member_name D_k8)
     <> res_of_opt (class_table_of w_field_name w_class_name w_member_name D_k8).
Proof. exact member_collision_refuted. Qed.
Print Assumptions C03_member_collision_refuted.

Theorem C03_package_regex_refuted :
  protoc_wf D_k2 = true
  /\ reflect (compile w_field_name w_class_name w_member_name D_k2)
     <> res_of_opt (class_table_of w_field_name w_class_name w_member_name D_k2)
  /\ parse_source_type_name (b ".wp.lower.inner") = (b "wp.lower", b "inner").
Proof. exact package_regex_refuted. Qed.
Print Assumptions C03_package_regex_refuted.

Theorem C03_is_map_refuted :
  protoc_wf D_k13 = true
  /\ exists f p m x, In f D_k13 /\ In (p, m) (file_msgs f) /\ In x (md_fields m)
       /\ is_map x m = true /\ spec_is_map (fl_package f) p m x = false.
Proof. exact is_map_refuted. Qed.
Print Assumptions C03_is_map_refuted.

Theorem C03_wraps_refuted :
  field_wraps (b ".google.protobuf.EnumValue") = Some (b "enum")
  /\ lookup (b ".google.protobuf.EnumValue") wkt_wrappers = None.
Proof. exact wraps_refuted. Qed.
Print Assumptions C03_wraps_refuted.

(* ---- the bridge: what the plugin emits satisfies the hypotheses of the runtime theorems ----
   Tables: a class table whose fields all have a shape the runtime model knows (table_ok: field numbers in
   1 .. 2^29-1 and pairwise distinct per class, TYPE_ strings known, hint / proto type / wraps / optional / group /
   map types consistent, every class reference resolvable BY NAME inside the table) is translated to a schema that
   satisfies c01_schema_ok: class and enum indices in range, every map field's fentry is the index of its own
   synthetic Entry class and that class is annotated like the map, group indices below cngroups, bundled classes
   first and exact. No bound on the number of modules, classes, fields. *)
Theorem C03_table_schema_ok :
  forall t : class_table, table_ok t = true -> c01_schema_ok (schema_of_table t) = true.
Proof. exact table_schema_ok. Qed.
Print Assumptions C03_table_schema_ok.

(* Descriptors: for every descriptor set protoc can emit (protoc_wf), every naming with names_ok, and bridge_ok D:
   the class table Python builds from the plugin's output (= the one the schema denotes, C03_field_faithful)
   satisfies table_ok, and its runtime schema satisfies c01_schema_ok. Any number of files, messages, nesting depth.
   bridge_ok D (Model/C03Bridge.v), per message of a generated package:
     [protoc guarantees] field numbers pairwise distinct and in 1 .. 2^29-1; map keys of an integral / bool / string
                         kind; a repeated field is neither a oneof member nor proto3-optional; wrapper / Timestamp /
                         Duration names are used as MESSAGE types; no field refers to a map-entry type directly;
     [runtime model]     a wrapper-typed field (google.protobuf.Int32Value ...) is singular, outside every oneof and not
                         proto3-optional (betterproto handles these; wf_schema, and with it the C01 .. C10 theorems, do not);
     [runtime defect]    a map's value type is not a wrapper (C03_map_wrapper_value_refuted below: the real classes fail);
     [no class]          no field refers to another google.protobuf type (Any, Struct, Empty, FieldMask, NullValue ...):
                         the runtime model has only Timestamp, Duration and the nine wrappers.
   proto2 groups are excluded by protoc_wf (a TYPE_GROUP field has no reading in class_table_of); `required` is read
   like a singular field and needs no condition. *)
Theorem C03_generated_schema_ok :
  forall (field_name class_name : str -> str) (enum_member_name : str -> str -> str) (D : descriptor),
    protoc_wf D = true -> names_ok field_name class_name enum_member_name D = true -> bridge_ok D = true ->
    exists t, class_table_of field_name class_name enum_member_name D = Some t
              /\ reflect (compile field_name class_name enum_member_name D) = Ok t
              /\ table_ok t = true
              /\ c01_schema_ok (schema_of_table t) = true.
Proof. exact generated_schema_ok. Qed.
Print Assumptions C03_generated_schema_ok.

(* ... hence C01's round trip holds of every generated message class and every c01_value_ok value of it
   (the conclusion of C01_roundtrip, instantiated at the generated schema; the same instantiation gives C02, C04,
   C08, C10 ... whose schema hypothesis is c01_schema_ok or its conjunct wf_schema) *)
Theorem C03_generated_roundtrip :
  forall (field_name class_name : str -> str) (enum_member_name : str -> str -> str) (D : descriptor),
    protoc_wf D = true -> names_ok field_name class_name enum_member_name D = true -> bridge_ok D = true ->
    exists t, reflect (compile field_name class_name enum_member_name D) = Ok t /\
      let sc := schema_of_table t in
      forall m, c01_value_ok sc m = true ->
        exists bs, enc_obj sc m = Ok bs /\
          (Zlength bs < 2 ^ 64 ->
           exists m', parse sc (ocls m) bs = Ok m' /\ m' = norm_obj sc m /\
             (deep nan_free (PMsg m) = true -> obj_eq sc m m' = true) /\
             (forall g, which_one_of m' g = which_one_of m g) /\
             (sow_ok sc m = true -> obs_top sc m m' = true) /\
             enc_obj sc m' = Ok bs).
Proof. exact generated_roundtrip. Qed.
Print Assumptions C03_generated_roundtrip.

(* references BY INDEX are right, not merely in range: the class index schema_of_table gives to a reference to message
   M of a generated package is the index of the class generated for M itself (its fields, in order, carry M's field
   numbers and the Python names of M's fields), and the enum index given to a reference to enum E is the position of
   E's own member table (member names as the plugin pythonises them, with E's numbers). Needs only that class names are
   distinct per package (class_nodup, a conjunct of names_ok). *)
Theorem C03_message_reference_faithful :
  forall (field_name class_name : str -> str) (enum_member_name : str -> str -> str) (D : descriptor) (t : class_table),
    class_table_of field_name class_name enum_member_name D = Some t -> class_nodup class_name D = true ->
    forall pkg p m, In (SymMsg pkg p m) (symbols D) -> pkg <> google_protobuf -> md_map_entry m = false ->
      exists c, pyty_of (class_rows t) (PyRef (module_of_package pkg) (class_name (dotted p))) = Some (PyMsg c)
        /\ (NB <= c < NB + List.length (msg_rows (class_rows t)))%nat
        /\ map fnum (cfields (get_class (schema_of_table t) c)) = map fd_number (md_fields m)
        /\ map fname (cfields (get_class (schema_of_table t) c)) = map (fun x => field_name (fd_name x)) (md_fields m).
Proof. exact message_ref_faithful. Qed.
Print Assumptions C03_message_reference_faithful.

Theorem C03_enum_reference_faithful :
  forall (field_name class_name : str -> str) (enum_member_name : str -> str -> str) (D : descriptor) (t : class_table),
    class_table_of field_name class_name enum_member_name D = Some t -> class_nodup class_name D = true ->
    forall pkg p e, In (SymEnum pkg p e) (symbols D) -> pkg <> google_protobuf ->
      exists j, pyty_of (class_rows t) (PyRef (module_of_package pkg) (class_name (dotted p))) = Some (PyEnum j)
        /\ nth_error (enums (schema_of_table t)) j
           = Some (mkE (map (fun nv => (enum_member_name (fst nv) (flat p), snd nv)) (ed_values e))).
Proof. exact enum_ref_faithful. Qed.
Print Assumptions C03_enum_reference_faithful.

(* ... and the class generated for M agrees with M's descriptor FIELD BY FIELD (field_agrees, Model/C03Bridge.v): number,
   Python name, proto type as descriptor.proto numbers it (ptype_of_dtype: no TYPE_ strings involved), for a map its key
   and value proto types, Dict hint and no group / wraps / optional; otherwise the proto3-optional flag, the wrapped
   scalar type read off the wrapper's NAME (wrapper_ptypes), membership in a real oneof, and the hint shape (List iff
   repeated, Optional iff proto3-optional or wrapper-typed, plain otherwise).  Under bridge_ok (it is what excludes an
   ENUM-typed field named like a wrapper). *)
Theorem C03_class_faithful :
  forall (field_name class_name : str -> str) (enum_member_name : str -> str -> str) (D : descriptor) (t : class_table),
    class_table_of field_name class_name enum_member_name D = Some t -> class_nodup class_name D = true ->
    bridge_ok D = true ->
    forall pkg p m, In (SymMsg pkg p m) (symbols D) -> pkg <> google_protobuf -> md_map_entry m = false ->
      exists c, pyty_of (class_rows t) (PyRef (module_of_package pkg) (class_name (dotted p))) = Some (PyMsg c)
        /\ Forall2 (field_agrees field_name pkg p m) (md_fields m) (cfields (get_class (schema_of_table t) c)).
Proof. exact class_faithful. Qed.
Print Assumptions C03_class_faithful.

(* bridge_ok cannot be dropped.  `map<string, google.protobuf.Int32Value> mw = 1;`: protoc accepts it, the plugin
   compiles it as the specification says (hint Dict[str, Optional[int]], map_types (string, message), nowhere to record
   that the VALUE is wrapped), and the generated schema is not wf: a REAL defect, the generated class cannot parse
   the bytes the reference writes for {"a": 1} (AttributeError: 'int' object has no attribute 'parse') and writes wrong
   bytes itself (known finding K34, replayed against the real classes on every run) *)
Theorem C03_map_wrapper_value_refuted :
  protoc_wf D_map_wrapper = true /\ names_ok w_field_name w_class_name w_member_name D_map_wrapper = true
  /\ bridge_ok D_map_wrapper = false
  /\ exists t, class_table_of w_field_name w_class_name w_member_name D_map_wrapper = Some t
               /\ reflect (compile w_field_name w_class_name w_member_name D_map_wrapper) = Ok t
               /\ table_ok t = false /\ wf_schema (schema_of_table t) = false.
Proof. exact map_wrapper_value_not_wf. Qed.
Print Assumptions C03_map_wrapper_value_refuted.

(* ... and two shapes that betterproto handles but the runtime MODEL does not cover: `repeated google.protobuf.Int32Value`
   (wf_schema has no wrapped list elements) and a field of type google.protobuf.Any (no class for it in the model) *)
Theorem C03_bridge_scope_refuted : gen_not_wf D_rep_wrapper /\ gen_not_wf D_any.
Proof. exact (conj rep_wrapper_not_wf any_ref_not_wf). Qed.
Print Assumptions C03_bridge_scope_refuted.

(* ---- non-vacuity ---- *)
(* a schema with nesting, recursion, two maps, a oneof, proto3 optional, repeated, a negative enum number,
   Timestamp and a wrapper satisfies both premises of C03_field_faithful ... *)
Example C03_ex_premises :
  protoc_wf D_ok = true /\ names_ok w_field_name w_class_name w_member_name D_ok = true.
Proof. exact D_ok_premises. Qed.
(* ... and its class table is the expected non-trivial one *)
Example C03_ex_table :
  match class_table_of w_field_name w_class_name w_member_name D_ok with
  | Some [(pkg, classes)] => pkg = b "p.q" /\ map fst classes = [b "Color"; b "OuterInnerKind"; b "Outer"; b "OuterInner"]
  | _ => False
  end.
Proof. exact (proj2 D_ok_table). Qed.
Example C03_ex_field :
  match class_table_of w_field_name w_class_name w_member_name D_ok with
  | Some [(_, [_; _; (_, ClsMessage (f1 :: _)); _])] =>
      f1 = mkPyField (b "by_name") 1 (b "map") (Some (b "string", b "message")) None None false
                     (PyDict PyStr (PyRef (b "p.q") (b "OuterInner")))
  | _ => False
  end.
Proof. exact D_ok_field. Qed.
(* the premise of C03_is_map_exact holds on it, and a map field is recognised *)
Example C03_ex_map_keys : map_keys_ok D_ok = true.
Proof. vm_compute. reflexivity. Qed.
(* the bundled sweep compares at least 40 classes, 300 shared field numbers and 10 enums *)
Example C03_ex_bundled :
  (40 <=? Zlength bundled_vs_reference) = true
  /\ (300 <=? fold_right Z.add 0 (map shared_numbers bundled_vs_reference)) = true
  /\ (10 <=? Zlength bundled_enums_vs_reference) = true.
Proof. exact bundled_nonvacuous. Qed.
Example C03_ex_parse : parse_source_type_name (b ".a.b.Outer.Inner") = (b "a.b", b "Outer.Inner").
Proof. vm_compute. reflexivity. Qed.
(* the bridge is not vacuous: D_ok (nested messages, two enums, a map of messages and a map of enums, a oneof, a proto3
   optional, a repeated message field, a Timestamp and a wrapper) satisfies all three premises; its generated schema has
   11 + 2 message classes + 2 Entry classes and 2 enums, and is c01_schema_ok ... *)
Example C03_ex_bridge :
  protoc_wf D_ok = true /\ names_ok w_field_name w_class_name w_member_name D_ok = true /\ bridge_ok D_ok = true
  /\ class_table_of w_field_name w_class_name w_member_name D_ok = Some T_ok
  /\ table_ok T_ok = true /\ c01_schema_ok S_ok = true
  /\ List.length (classes S_ok) = 15%nat /\ List.length (enums S_ok) = 2%nat.
Proof. exact D_ok_bridge. Qed.
Example C03_ex_bridge_schema : S_ok = schema_of_table T_ok.
Proof. exact S_ok_eq. Qed.
(* ... the generated class Outer is what one expects (number, proto type, hint, group, Entry class per field) ... *)
Example C03_ex_bridge_outer :
  map (fun f => (fnum f, fty f, fhint f, fgroup f, fentry f)) (cfields (get_class S_ok 11)) =
  [(1, TMap, HDict Object.PyStr (PyMsg 12), None, 13%nat); (2, TInt32, HPlain Object.PyInt, Some 0%nat, 0%nat);
   (3, TEnum, HPlain (PyEnum 0), Some 0%nat, 0%nat); (4, TDouble, HOptional Object.PyFloat, None, 0%nat);
   (5, TMessage, HList (PyMsg 12), None, 0%nat); (6, TMessage, HPlain Object.PyDatetime, None, 0%nat);
   (7, TMessage, HOptional Object.PyBool, None, 0%nat); (8, TMap, HDict Object.PyInt (PyEnum 0), None, 14%nat)].
Proof. exact S_ok_outer. Qed.
(* ... and a value of it that uses the map, the oneof (negative enum member selected), the optional, the repeated field,
   the Timestamp and the wrapper satisfies c01_value_ok and round-trips (the premise of C03_generated_roundtrip is met) *)
Example C03_ex_bridge_value :
  c01_value_ok S_ok ok_outer = true /\ deep nan_free (PMsg ok_outer) = true /\ c01_holds S_ok ok_outer = true
  /\ match enc_obj S_ok ok_outer with Ok bs => (30 < List.length bs)%nat | Err _ => False end.
Proof. exact ok_outer_value. Qed.
(* the reference theorems apply to D_ok: Outer.Inner (a nested message, class name OuterInner) is class 12, the nested
   enum Outer.Inner.Kind is enum 1 *)
Example C03_ex_bridge_refs :
  In (SymMsg (b "p.q") [b "Outer"; b "Inner"] (mkMsg (b "Inner")
        [mkField (b "back") 1 1 11 (b ".p.q.Outer") None false; mkField (b "k") 2 1 14 (b ".p.q.Outer.Inner.Kind") None false]
        [] [mkEnum (b "Kind") [(b "ZERO", 0)]] [] false)) (symbols D_ok)
  /\ class_nodup w_class_name D_ok = true
  /\ pyty_of (class_rows T_ok) (PyRef (b "p.q") (b "OuterInner")) = Some (PyMsg 12)
  /\ pyty_of (class_rows T_ok) (PyRef (b "p.q") (b "OuterInnerKind")) = Some (PyEnum 1).
Proof. vm_compute. repeat split; try reflexivity. right. right. right. right. right. right. right. right. right. right. right. left. reflexivity. Qed.
