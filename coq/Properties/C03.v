(* C03 — plugin output implements the schema. Property-level statements only. (work in progress) *)
From BP Require Import Base.Prelude Spec.Descriptor gen.C03Tables Model.Plugin Proofs.PluginP.

Example C03_ex_parse : parse_source_type_name [x2e; x61; x2e; x42] = ([x61], [x42]).
Proof. vm_compute. reflexivity. Qed.
