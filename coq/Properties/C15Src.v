(* C15 - source-translation tie of the Timestamp / Duration conversions (second, tighter tie next to the sampled
   correspondence), part "convert".
   gen/C15Src.v holds Gallina definitions src_* obtained MECHANICALLY (harness/gen_c15_src.py, Python `ast`) from the CURRENT
   source text of datetime_default_gen / DATETIME_ZERO / _Timestamp.from_datetime / to_datetime / _Duration.from_timedelta /
   to_timedelta.  The theorems below say that each translated function IS the hand-written model function of Model/Time.v,
   for every input (no loops, no fuel), so every theorem of Properties/C15.v about from_datetime / to_datetime /
   from_timedelta / to_timedelta is a theorem about the translated source; the headline ones are restated directly over src_*.
   Reading: datetime = an AWARE datetime (wall, off); timedelta = its microseconds; self = (self.seconds, self.nanos);
   cls(a, b) = the pair (a, b)  (Model/C15SrcLib.v, trusted with the translator).
   THIS FILE IS BUILT ONLY BY THE "source tie" STAGE of harness/props/c15.py.  A behaviour-preserving rewrite of the Python
   functions can make the translator reject or these proofs fail although C15 still holds; the stage then records
   "source-translation tie did not hold" in the evidence and the sampled correspondence and the oracles decide.
   Properties/C15.v does not depend on this file.
   Only statements here; every proof is one [exact] of a lemma of Proofs/C15Src.v. *)
From BP Require Import Base.Prelude Model.Time Spec.Time Model.C16SrcLib Model.C15SrcLib gen.C15Src.
From BP Require Import Proofs.TimeP Proofs.C15Src.

(* ---- the translation is the model ---- *)
Theorem C15_src_DATETIME_ZERO_is_model : src_datetime_default_gen = Ok DATETIME_ZERO /\ src_DATETIME_ZERO = Ok DATETIME_ZERO.
Proof. exact (conj src_default_gen_is_model src_DATETIME_ZERO_is_model). Qed.
Print Assumptions C15_src_DATETIME_ZERO_is_model.

Theorem C15_src_from_datetime_is_model : forall dt, src_from_datetime dt = Ok (from_datetime dt).
Proof. exact src_from_datetime_is_model. Qed.
Print Assumptions C15_src_from_datetime_is_model.

Theorem C15_src_to_datetime_is_model : forall s n, src_to_datetime s n = to_datetime s n.
Proof. exact src_to_datetime_is_model. Qed.
Print Assumptions C15_src_to_datetime_is_model.

Theorem C15_src_from_timedelta_is_model : forall d, src_from_timedelta d = Ok (from_timedelta d).
Proof. exact src_from_timedelta_is_model. Qed.
Print Assumptions C15_src_from_timedelta_is_model.

Theorem C15_src_to_timedelta_is_model : forall s n, src_to_timedelta s n = to_timedelta s n.
Proof. exact src_to_timedelta_is_model. Qed.
Print Assumptions C15_src_to_timedelta_is_model.

(* ---- Timestamp: C15_ts_exact / C15_ts_tz / C15_ts_roundtrip_pair / C15_ts_decode(_overflow) over the source ---- *)
Theorem C15_src_ts_exact : forall dt, src_from_datetime dt = Ok (ts_of_us (instant dt)).
Proof. exact src_ts_exact. Qed.
Print Assumptions C15_src_ts_exact.

Theorem C15_src_ts_tz : forall a b, instant a = instant b -> src_from_datetime a = src_from_datetime b.
Proof. exact src_ts_tz. Qed.
Print Assumptions C15_src_ts_tz.

Theorem C15_src_ts_roundtrip : forall dt, in_ts_range (instant dt) ->
  bind (src_from_datetime dt) (fun '(s, n) => src_to_datetime s n) = Ok (mkdt (instant dt) 0).
Proof. exact src_ts_roundtrip. Qed.
Print Assumptions C15_src_ts_roundtrip.

Theorem C15_src_ts_decode : forall s n, in_ts_range (ts_to_us s n) -> src_to_datetime s n = Ok (mkdt (ts_to_us s n) 0).
Proof. exact src_ts_decode. Qed.
Print Assumptions C15_src_ts_decode.

Theorem C15_src_ts_decode_overflow : forall s n,
  0 <= n < 1000000000 -> ~ in_ts_range (ts_to_us s n) -> src_to_datetime s n = Err EOverflow.
Proof. exact src_ts_decode_overflow. Qed.
Print Assumptions C15_src_ts_decode_overflow.

(* ---- Duration: C15_dur_exact / C15_dur_roundtrip_pair(_any_timedelta) / C15_dur_decode over the source ---- *)
Theorem C15_src_dur_exact : forall d, src_from_timedelta d = Ok (dur_of_us d).
Proof. exact src_dur_exact. Qed.
Print Assumptions C15_src_dur_exact.

Theorem C15_src_dur_roundtrip : forall d, in_dur_range d ->
  bind (src_from_timedelta d) (fun '(s, n) => src_to_timedelta s n) = Ok d.
Proof. exact src_dur_roundtrip_range. Qed.
Print Assumptions C15_src_dur_roundtrip.

Theorem C15_src_dur_roundtrip_any_timedelta : forall d, Z.abs (td_days d) <= 999999999 ->
  bind (src_from_timedelta d) (fun '(s, n) => src_to_timedelta s n) = Ok d.
Proof. exact src_dur_roundtrip. Qed.
Print Assumptions C15_src_dur_roundtrip_any_timedelta.

Theorem C15_src_dur_decode : forall s n, Z.abs (td_days (dur_to_us s n)) <= 999999999 -> src_to_timedelta s n = Ok (dur_to_us s n).
Proof. exact src_dur_decode. Qed.
Print Assumptions C15_src_dur_decode.

Theorem C15_src_dur_decode_overflow : forall s n, Z.abs (td_days (dur_to_us s n)) > 999999999 -> src_to_timedelta s n = Err EOverflow.
Proof. exact src_dur_decode_overflow. Qed.
Print Assumptions C15_src_dur_decode_overflow.

(* ---- non-vacuity: the translated functions computed on concrete values (hypotheses met, expected results) ---- *)
Example C15_src_ex_flag : src_c15_convert_translated = true.
Proof. reflexivity. Qed.

(* 1969-12-31T23:59:59.999999Z, and the same instant written at +05:30 *)
Example C15_src_ex_ts : src_from_datetime (mkdt (-1) 0) = Ok (-1, 999999000) /\
                        src_from_datetime (mkdt (-1 + 19800000000) 19800000000) = Ok (-1, 999999000) /\
                        in_ts_range (instant (mkdt (-1 + 19800000000) 19800000000)) /\
                        src_to_datetime (-1) 999999000 = Ok (mkdt (-1) 0) /\
                        src_to_datetime 253402300800 0 = Err EOverflow /\ ~ in_ts_range (ts_to_us 253402300800 0).
Proof. vm_compute. repeat split; try reflexivity; try discriminate. intros [_ H]. apply H. reflexivity. Qed.

Example C15_src_ex_dur : src_from_timedelta (-1500000) = Ok (-1, -500000000) /\ src_from_timedelta (-1) = Ok (0, -1000) /\
                         src_from_timedelta (2 ^ 53 + 1) = Ok (9007199254, 740993000) /\
                         in_dur_range (-1500000) /\ Z.abs (td_days (2 ^ 53 + 1)) <= 999999999 /\
                         src_to_timedelta (-1) (-500000000) = Ok (-1500000) /\ src_to_timedelta 0 (-1999) = Ok (-1) /\
                         src_to_timedelta (86400 * 1000000000) 0 = Err EOverflow /\
                         Z.abs (td_days (dur_to_us (86400 * 1000000000) 0)) > 999999999.
Proof. vm_compute. repeat split; try reflexivity; discriminate. Qed.
