(* C19 — name mapping is total and safe, and JSON keys map back to their fields. *)
From BP Require Import Base.Prelude Model.Casing Proofs.CasingP.

Theorem C19_regexes_as_modelled : regexes_as_modelled = true.
Proof. exact regexes_ok. Qed.
Print Assumptions C19_regexes_as_modelled.
