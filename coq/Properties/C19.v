(* C19 — Name mapping is total and safe, and JSON keys map back to their fields.
   Only property-level statements; every proof is an [exact] of a lemma from Proofs/CasingP*.v
   (or a vm_compute on a concrete witness), followed by Print Assumptions.

   Strings are the UTF-8 bytes of the Python str.  Unless a hypothesis says otherwise the
   statements hold for EVERY byte string, not only for proto identifiers. *)
From BP Require Import Base.Prelude Model.Casing Model.C19Norm Spec.C19Regex Spec.C19Unicode.
From BP Require Import Proofs.CasingP Proofs.CasingP2 Proofs.CasingP3 Proofs.CasingP4.
From BP Require Import Proofs.CasingX1 Proofs.CasingX2 Proofs.CasingX3 Proofs.CasingX6 Proofs.CasingX8.
From BP Require Import Model.C19GapDefs Proofs.C19GapA Proofs.C19GapB.
From BP Require Spec.JsonMap.
From Coq Require Import String.
Local Notation b := list_byte_of_string.

(* T1: the regex source strings and the patterns handed to re.sub are the ones the scanner models *)
Theorem C19_regexes_as_modelled : regexes_as_modelled = true.
Proof. exact regexes_ok. Qed.
Print Assumptions C19_regexes_as_modelled.

(* ---- identifier-ness and non-keyword-ness ---- *)
(* field and method names: for every input string whatsoever *)
Theorem C19_field_ident : forall s,
  is_identifier (pythonize_field_name s) = true /\ is_keyword (pythonize_field_name s) = false.
Proof. exact safe_snake_ok. Qed.
Print Assumptions C19_field_ident.

Theorem C19_method_ident : forall s,
  is_identifier (pythonize_method_name s) = true /\ is_keyword (pythonize_method_name s) = false.
Proof. exact safe_snake_ok. Qed.
Print Assumptions C19_method_ident.

(* sanitize_name on any string over [A-Za-z0-9_] (what enum members go through) *)
Theorem C19_sanitize_ident : forall x, ident_chars x = true ->
  is_identifier (sanitize_name x) = true /\ is_keyword (sanitize_name x) = false.
Proof. exact sanitize_ok. Qed.
Print Assumptions C19_sanitize_ident.

(* enum member names, whatever the enum is called *)
Theorem C19_enum_member_ident : forall name enum_name, ident_chars name = true ->
  is_identifier (pythonize_enum_member_name name enum_name) = true /\
  is_keyword (pythonize_enum_member_name name enum_name) = false.
Proof. exact enum_member_ok. Qed.
Print Assumptions C19_enum_member_ident.

(* class names: under the exact side condition class_name_ok (first word starts with a letter, and the
   name is not none/true/false in any capitalisation) *)
Theorem C19_class_ident : forall s, class_name_ok s = true ->
  is_identifier (pythonize_class_name s) = true /\ is_keyword (pythonize_class_name s) = false.
Proof. exact class_name_ident. Qed.
Print Assumptions C19_class_ident.

(* ... and without it the statement is false on the pinned code (K11): _ -> "", _1 -> "1", none -> None *)
Theorem C19_class_ident_refuted :
  Forall (fun s => proto_ident s = true /\
                   (is_identifier (pythonize_class_name s) = false \/ is_keyword (pythonize_class_name s) = true))
         [b "_"; b "_1"; b "none"].
Proof. repeat apply Forall_cons; try apply Forall_nil; (split; [reflexivity|]); vm_compute; auto. Qed.
Print Assumptions C19_class_ident_refuted.

(* ---- idempotence ---- *)
Theorem C19_snake_idem : forall s, safe_snake_case (safe_snake_case s) = safe_snake_case s.
Proof. exact safe_snake_idem. Qed.
Print Assumptions C19_snake_idem.

Theorem C19_snake_case_idem : forall s, snake_case (snake_case s) = snake_case s.
Proof. exact snake_snake. Qed.
Print Assumptions C19_snake_case_idem.

Theorem C19_pascal_idem : forall s, pascal_stable s = true ->
  pythonize_class_name (pythonize_class_name s) = pythonize_class_name s.
Proof. exact pascal_idem. Qed.
Print Assumptions C19_pascal_idem.

(* K10: a_b -> AB -> Ab *)
Theorem C19_pascal_idem_refuted : exists s, proto_ident s = true /\ pascal_stable s = false /\
  pythonize_class_name (pythonize_class_name s) <> pythonize_class_name s.
Proof. exists (b "a_b"). vm_compute. repeat split; discriminate. Qed.
Print Assumptions C19_pascal_idem_refuted.

(* ---- keys map back: the casing functions alone (what the pinned from_dict relies on) ---- *)
(* snake_case keys and the original proto name always map back; camelCase keys under key_safe *)
Theorem C19_key_back : forall s, key_safe s = true ->
  let F := safe_snake_case s in
  safe_snake_case (camel_key F) = F /\ safe_snake_case (snake_key F) = F /\ safe_snake_case s = F.
Proof. intros s K. split; [exact (camel_key_back s K)|split; [exact (snake_key_back s)|reflexivity]]. Qed.
Print Assumptions C19_key_back.

Theorem C19_snake_key_back : forall s,
  safe_snake_case (snake_key (safe_snake_case s)) = safe_snake_case s.
Proof. exact snake_key_back. Qed.
Print Assumptions C19_snake_key_back.

Theorem C19_key_back_pinned_lookup : forall fs s, In (safe_snake_case s) fs -> key_safe s = true ->
  field_for_key_pinned fs (camel_key (safe_snake_case s)) = Some (safe_snake_case s).
Proof. exact field_for_key_pinned_back. Qed.
Print Assumptions C19_key_back_pinned_lookup.

(* F9: without key_safe the camelCase key is lost by a lookup through safe_snake_case only *)
Theorem C19_key_refuted :
  Forall (fun s => proto_ident s = true /\ key_safe s = false /\
                   let F := safe_snake_case s in
                   safe_snake_case (camel_key F) <> F /\ field_for_key_pinned [F] (camel_key F) = None)
         [b "address_line_1"; b "x_y_z"].
Proof.
  repeat apply Forall_cons; try apply Forall_nil; vm_compute;
    (split; [reflexivity|split; [reflexivity|split; [discriminate|reflexivity]]]).
Qed.
Print Assumptions C19_key_refuted.

(* ---- keys map back: from_dict with the table of camelCase keys (fixes/c19-from-dict-key-lookup.patch) ----
   For ANY field names fs (hand-written classes included): a key addresses field f whenever f is the only
   field whose to_dict key it is, and it is f's to_dict key or safe_snake_case sends it to f. *)
Theorem C19_from_dict_key_back : forall fs k f, In f fs ->
  (forall g, In g fs -> camel_key g = k -> g = f) ->
  camel_key f = k \/ safe_snake_case k = f ->
  field_for_key fs k = Some f.
Proof. exact field_for_key_back. Qed.
Print Assumptions C19_from_dict_key_back.

(* camelCase keys: pairwise distinct to_dict keys are all that is needed (no key_safe) *)
Theorem C19_from_dict_camel_back : forall fs f, In f fs ->
  (forall g, In g fs -> camel_key g = camel_key f -> g = f) ->
  field_for_key fs (camel_key f) = Some f.
Proof. intros fs f I U. exact (field_for_key_back fs (camel_key f) f I U (or_introl eq_refl)). Qed.
Print Assumptions C19_from_dict_camel_back.

(* a message with one generated field: all three keys map back, for every proto name, no hypothesis *)
Theorem C19_one_field_roundtrip : forall s,
  let F := safe_snake_case s in
  field_for_key [F] (camel_key F) = Some F /\ field_for_key [F] (snake_key F) = Some F /\ field_for_key [F] s = Some F.
Proof.
  intros s F. assert (forall k g, In g [F] -> camel_key g = k -> g = F) as U by (intros k g [<-|[]] _; reflexivity).
  split; [|split].
  - exact (field_for_key_back [F] _ F (or_introl eq_refl) (U _) (or_introl eq_refl)).
  - exact (field_for_key_back [F] _ F (or_introl eq_refl) (U _) (or_intror (snake_key_back s))).
  - exact (field_for_key_back [F] _ F (or_introl eq_refl) (U _) (or_intror eq_refl)).
Qed.
Print Assumptions C19_one_field_roundtrip.

Theorem C19_from_dict_only_fields : forall fs k f, field_for_key fs k = Some f -> In f fs.
Proof. exact field_for_key_in. Qed.
Print Assumptions C19_from_dict_only_fields.

(* the .rstrip("_") in to_dict / to_pydict never removes anything: for every field name whatsoever *)
Theorem C19_rstrip_is_noop : forall f, camel_key f = camel_case f /\ snake_key f = snake_case f.
Proof. intros f. split; [exact (camel_key_is_camel_case f)|exact (snake_key_is_snake_case f)]. Qed.
Print Assumptions C19_rstrip_is_noop.

(* key_safe names never collide: their camelCase keys are pairwise distinct *)
Theorem C19_camel_keys_distinct : forall s1 s2, key_safe s1 = true -> key_safe s2 = true ->
  camel_key (safe_snake_case s1) = camel_key (safe_snake_case s2) -> safe_snake_case s1 = safe_snake_case s2.
Proof. exact camel_keys_distinct. Qed.
Print Assumptions C19_camel_keys_distinct.

(* ---- the side conditions are exact: checked for every string of length <= 5 over {a,b,A,B,0,1,_,.}
   (partial: sufficiency is proved above for all strings; necessity only on this finite set, and by the
   harness sweep against the real functions) ---- *)
Theorem C19_side_conditions_exact_len5_partial : all_strings alphabet8 5 [] side_conditions_exact = true.
Proof. exact side_conditions_exact_len5. Qed.
Print Assumptions C19_side_conditions_exact_len5_partial.

(* ---- the side conditions are exact, for EVERY byte string (no bound on the length, no alphabet) ----
   Each decidable side condition is necessary as well as sufficient: it DECIDES the unconditional statement.
   (Proofs/CasingX1.v, CasingX2.v.)  The finding classes key-safety / K10 / K11 of the check are assigned by
   these predicates, so the classes are exactly the sets of names on which the property fails. *)

(* (a) camelCase keys: the key maps back through the casing functions alone iff key_safe *)
Theorem C19_key_safe_necessary : forall s, key_safe s = false ->
  safe_snake_case (camel_key (safe_snake_case s)) <> safe_snake_case s.
Proof. exact key_unsafe_not_back. Qed.
Print Assumptions C19_key_safe_necessary.

Theorem C19_key_safe_iff : forall s, key_safe s = true <->
  safe_snake_case (camel_key (safe_snake_case s)) = safe_snake_case s.
Proof. exact key_safe_iff. Qed.
Print Assumptions C19_key_safe_iff.

(* the same with camel_case itself (the .rstrip("_") of to_dict is a no-op, C19_rstrip_is_noop) *)
Theorem C19_key_safe_iff_camel_case : forall s, key_safe s = true <->
  safe_snake_case (camel_case (safe_snake_case s)) = safe_snake_case s.
Proof. exact key_safe_iff_camel_case. Qed.
Print Assumptions C19_key_safe_iff_camel_case.

(* the pinned from_dict lookup finds the field from its camelCase key iff key_safe; with that field alone the
   key addresses nothing at all (the value is silently dropped) *)
Theorem C19_pinned_lookup_iff : forall fs s, In (safe_snake_case s) fs ->
  (field_for_key_pinned fs (camel_key (safe_snake_case s)) = Some (safe_snake_case s) <-> key_safe s = true).
Proof. exact field_for_key_pinned_iff. Qed.
Print Assumptions C19_pinned_lookup_iff.

Theorem C19_pinned_lookup_lost : forall s, key_safe s = false ->
  field_for_key_pinned [safe_snake_case s] (camel_key (safe_snake_case s)) = None.
Proof. exact field_for_key_pinned_lost. Qed.
Print Assumptions C19_pinned_lookup_lost.

(* (b) PascalCase is idempotent on s iff pascal_stable s  (K10 = exactly the names with pascal_stable = false) *)
Theorem C19_pascal_stable_necessary : forall s, pascal_stable s = false ->
  pythonize_class_name (pythonize_class_name s) <> pythonize_class_name s.
Proof. exact pascal_unstable. Qed.
Print Assumptions C19_pascal_stable_necessary.

Theorem C19_pascal_stable_iff : forall s, pascal_stable s = true <->
  pythonize_class_name (pythonize_class_name s) = pythonize_class_name s.
Proof. exact pascal_stable_iff. Qed.
Print Assumptions C19_pascal_stable_iff.

(* (c) the class name is an identifier and not a keyword iff class_name_ok  (K11 = exactly class_name_ok = false) *)
Theorem C19_class_name_ok_necessary : forall s, class_name_ok s = false ->
  is_identifier (pythonize_class_name s) = false \/ is_keyword (pythonize_class_name s) = true.
Proof. exact class_name_bad. Qed.
Print Assumptions C19_class_name_ok_necessary.

Theorem C19_class_name_ok_iff : forall s, class_name_ok s = true <->
  is_identifier (pythonize_class_name s) = true /\ is_keyword (pythonize_class_name s) = false.
Proof. exact class_name_ok_iff. Qed.
Print Assumptions C19_class_name_ok_iff.

(* the boolean swept by C19_side_conditions_exact_len5_partial is true of EVERY string; hence the sweep over any
   alphabet, any length, any prefix (the _partial theorem is the instance alphabet8, 5, []) *)
Theorem C19_side_conditions_exact : forall s, side_conditions_exact s = true.
Proof. exact side_conditions_exact_all. Qed.
Print Assumptions C19_side_conditions_exact.

Theorem C19_side_conditions_exact_sweep : forall alphabet n p, all_strings alphabet n p side_conditions_exact = true.
Proof. exact side_conditions_exact_sweep. Qed.
Print Assumptions C19_side_conditions_exact_sweep.

(* ---- the image of snake_case, for every byte string (non-ASCII input included: such bytes are delimiters) ---- *)
(* every value is over [a-z0-9_] *)
Theorem C19_snake_alphabet : forall s, forallb snake_alphabet (snake_case s) = true.
Proof. exact snake_alphabet_all. Qed.
Print Assumptions C19_snake_alphabet.

(* ... and the values are EXACTLY the strings in the decidable normal form snake_nf (Model/C19Norm.v):
   [a-z0-9_]*, no "_" at either end, no "__", no digit directly followed by a lower-case letter *)
Theorem C19_snake_image : forall x, (exists s, snake_case s = x) <-> snake_nf x = true.
Proof. exact snake_image. Qed.
Print Assumptions C19_snake_image.

Theorem C19_snake_fixed_iff : forall x, snake_nf x = true <-> snake_case x = x.
Proof. exact snake_nf_iff_fixed. Qed.
Print Assumptions C19_snake_fixed_iff.

(* the generated field / method names are exactly the fixed points of safe_snake_case *)
Theorem C19_field_name_image : forall x, (exists s, pythonize_field_name s = x) <-> pythonize_field_name x = x.
Proof. exact safe_snake_image. Qed.
Print Assumptions C19_field_name_image.

(* sanitize_name is idempotent on [A-Za-z0-9_]*; an enum member name is a fixed point of it *)
Theorem C19_sanitize_idem : forall x, ident_chars x = true -> sanitize_name (sanitize_name x) = sanitize_name x.
Proof. exact sanitize_idem. Qed.
Print Assumptions C19_sanitize_idem.

(* [A-Za-z0-9_]* is exactly where sanitize_name yields an identifier (the hypothesis of C19_sanitize_ident is necessary) *)
Theorem C19_sanitize_ident_iff : forall x, is_identifier (sanitize_name x) = true <-> ident_chars x = true.
Proof. exact sanitize_ident_iff. Qed.
Print Assumptions C19_sanitize_ident_iff.

Theorem C19_enum_member_fixed : forall name enum_name, ident_chars name = true ->
  sanitize_name (pythonize_enum_member_name name enum_name) = pythonize_enum_member_name name enum_name.
Proof. exact enum_member_sanitize_fixed. Qed.
Print Assumptions C19_enum_member_fixed.

(* ---- from_dict with the key table: pairwise distinct to_dict keys are NECESSARY as well as sufficient ---- *)
Theorem C19_from_dict_camel_back_iff : forall fs,
  (forall f, In f fs -> field_for_key fs (camel_key f) = Some f) <->
  (forall f g, In f fs -> In g fs -> camel_key f = camel_key g -> f = g).
Proof. exact field_for_key_camel_iff. Qed.
Print Assumptions C19_from_dict_camel_back_iff.

(* a class of generated field names (fixed points of safe_snake_case) with pairwise distinct camelCase keys:
   BOTH keys to_dict can emit address their own field (no key_safe needed) *)
Theorem C19_from_dict_generated_keys_back : forall fs,
  (forall f, In f fs -> safe_snake_case f = f) ->
  (forall f g, In f fs -> In g fs -> camel_key f = camel_key g -> f = g) ->
  forall f, In f fs -> field_for_key fs (camel_key f) = Some f /\ field_for_key fs (snake_key f) = Some f.
Proof. exact field_for_key_generated. Qed.
Print Assumptions C19_from_dict_generated_keys_back.

(* ---- the scanner IS re.sub over the live pattern strings (Spec/C19Regex.v) ----
   snake_case_spec / pascal_case_spec parse the pattern text captured from the live module (gen/C19Tables.v) into a
   regex AST, run a generic backtracking matcher (Python priority order, captures, negative lookahead) inside the
   re.sub loop of CPython (empty matches, must_advance) and apply casing.py's substitute_word callbacks.
   The hand-derived scanner of Model/Casing.v computes exactly that, for every byte string. *)
Theorem C19_snake_case_is_re_sub : forall s, snake_case_spec s = Some (snake_case s).
Proof. exact snake_case_meets_spec. Qed.
Print Assumptions C19_snake_case_is_re_sub.

Theorem C19_pascal_case_is_re_sub : forall s, pascal_case_spec s = Some (pascal_case s).
Proof. exact pascal_case_meets_spec. Qed.
Print Assumptions C19_pascal_case_is_re_sub.

Theorem C19_camel_case_is_re_sub : forall s, camel_case_spec s = Some (camel_case s).
Proof. exact camel_case_meets_spec. Qed.
Print Assumptions C19_camel_case_is_re_sub.

(* ---- a str as code points (CPython) versus a str as UTF-8 bytes (this framework) ----
   Spec/C19Unicode.v runs the same regex specification on the CODE POINTS of the string (a character set then matches
   one code point) with the callbacks of casing.py; encoding the result as UTF-8 gives exactly what the model gives on
   the UTF-8 bytes of the input.  For every string of code points below 0x110000. *)
Theorem C19_snake_case_code_points : forall s, forallb valid_cp s = true ->
  option_map utf8 (snake_case_cp s) = Some (snake_case (utf8 s)).
Proof. exact snake_case_code_points. Qed.
Print Assumptions C19_snake_case_code_points.

Theorem C19_pascal_case_code_points : forall s, forallb valid_cp s = true ->
  option_map utf8 (pascal_case_cp s) = Some (pascal_case (utf8 s)).
Proof. exact pascal_case_code_points. Qed.
Print Assumptions C19_pascal_case_code_points.

Theorem C19_camel_case_code_points : forall s, forallb valid_cp s = true ->
  option_map utf8 (camel_case_cp s) = Some (camel_case (utf8 s)).
Proof. exact camel_case_code_points. Qed.
Print Assumptions C19_camel_case_code_points.

(* ---- non-vacuity ---- *)
Example C19_ex_field : map (fun s => string_of_list_byte (pythonize_field_name (b s)))
    ["HTTPStatus"; "address_line_1"; "from"; "_"; "_1"; "fooBAR"; "None"]%string
  = ["http_status"; "address_line_1"; "from_"; "_"; "_1"; "foo_bar"; "none"]%string.
Proof. vm_compute. reflexivity. Qed.
Example C19_ex_key_safe : key_safe (b "ipv4_address") = true /\ camel_key (b "ipv4_address") = b "ipv4Address"
  /\ key_safe (b "x_y1_z") = true /\ key_safe (b "x_y_zz") = true /\ key_safe (b "from") = true.
Proof. vm_compute. repeat split. Qed.
Example C19_ex_pascal_stable : pascal_stable (b "HTTPStatus") = true /\ pythonize_class_name (b "HTTPStatus") = b "HttpStatus"
  /\ pascal_stable (b "address_line_1") = true /\ pascal_stable (b "a_bc") = true.
Proof. vm_compute. repeat split. Qed.
Example C19_ex_class_ok : class_name_ok (b "Foo.Bar") = true /\ pythonize_class_name (b "Foo.Bar") = b "FooBar"
  /\ class_name_ok (b "nonempty") = true.
Proof. vm_compute. repeat split. Qed.
Example C19_ex_enum : pythonize_enum_member_name (b "COLOR_RED") (b "Color") = b "RED"
  /\ pythonize_enum_member_name (b "FOO_NONE") (b "Foo") = b "NONE"
  /\ pythonize_enum_member_name (b "FOO_None") (b "Foo") = b "None_"
  /\ pythonize_enum_member_name (b "FOO_1") (b "Foo") = b "_1" /\ ident_chars (b "FOO_1") = true.
Proof. vm_compute. repeat split. Qed.
(* the fixed lookup on the F9 witnesses, and with two fields whose keys differ only in case *)
Example C19_ex_from_dict : field_for_key [b "address_line_1"] (b "addressLine1") = Some (b "address_line_1")
  /\ field_for_key [b "x_yz"; b "x_y_z"] (b "xYZ") = Some (b "x_y_z")
  /\ field_for_key [b "x_yz"; b "x_y_z"] (b "xYz") = Some (b "x_yz")
  /\ field_for_key [b "x_yz"; b "x_y_z"] (b "x_y_z") = Some (b "x_y_z")
  /\ field_for_key [b "from_"] (b "from") = Some (b "from_").
Proof. vm_compute. repeat split. Qed.
(* both sides of every iff are inhabited, also outside the swept alphabet (keywords, non-ASCII bytes, other symbols) *)
Example C19_ex_exact :
  map key_safe [b "ipv4_address"; b "address_line_1"; b "x_y_z"; b "x-y:z9"; b "from"; [x63; x61; x66; xc3; xa9; x5f; x31]]
    = [true; false; false; false; true; false]
  /\ map pascal_stable [b "HTTPStatus"; b "a_b"; b "x.y"; b "a_1b"; b "q_r2"; b "a_bc"] = [true; false; false; true; false; true]
  /\ map class_name_ok [b "Foo.Bar"; b "_"; b "_1"; b "none"; b "NONE"; b "_true_"; b "none_x"; [xc3; xa9]]
    = [true; false; false; false; false; false; true; false].
Proof. vm_compute. repeat split. Qed.
Example C19_ex_snake_nf : map snake_nf [b "http_server1_x"; b ""; b "a1_b"; b "a1b"; b "_a"; b "a_"; b "a__b"; b "aB"; b "1_2"]
    = [true; true; true; false; false; false; false; false; true]
  /\ snake_case (b "a1b") = b "a1_b".
Proof. vm_compute. repeat split. Qed.
(* the regex specification really runs: the pattern strings parse, backtracking happens (HTTPServer gives the S back),
   the empty match at the end is replaced by "", re.sub keeps unmatched text and honours must_advance (x* on "abxd") *)
Example C19_ex_regex_spec :
  snake_case_spec (b "__HTTPServer1x.fooBar_XY9z") = Some (b "http_server1_x_foo_bar_xy9_z")
  /\ pascal_case_spec (b "__HTTPServer1x.fooBar_XY9z") = Some (b "HttpServer1XFooBarXy9Z")
  /\ camel_case_spec (b "address_line_1") = Some (b "addressLine1")
  /\ option_map (fun r => re_sub byte_code r (fun _ => b "-") (b "abxd")) (parse (b "x*")) = Some (b "-a-b--d-")
  /\ option_map (fun r => re_sub byte_code r (fun caps => b "[" ++ group_str 1 caps ++ b "]") (b "baac")) (parse (b "(a|)")) = Some (b "[]b[a][a][]c[]")
  /\ parse (b "a*?") = None /\ parse (b "\\d") = None.
Proof. vm_compute. repeat split. Qed.
Example C19_ex_generated_keys :
  let fs := [b "x_yz"; b "x_y_z"; b "from_"; b "a1"] in
  forallb (fun f => str_eqb (safe_snake_case f) f) fs = true
  /\ map camel_key fs = [b "xYz"; b "xYZ"; b "from"; b "a1"]
  /\ map key_safe fs = [true; false; true; true].
Proof. vm_compute. repeat split. Qed.
(* "naïveÉName中1x" as code points: the non-ASCII letters are delimiters *)
Example C19_ex_code_points :
  let s := [110; 97; 239; 118; 101; 201; 78; 97; 109; 101; 20013; 49; 120]%N in
  forallb valid_cp s = true
  /\ utf8 s = [x6e; x61; xc3; xaf; x76; x65; xc3; x89; x4e; x61; x6d; x65; xe4; xb8; xad; x31; x78]
  /\ option_map utf8 (snake_case_cp s) = Some (b "na_ve_name_1_x")
  /\ option_map utf8 (pascal_case_cp s) = Some (b "NaVeName1X")
  /\ option_map utf8 (camel_case_cp s) = Some (b "naVeName1X")
  /\ utf8 [128512%N] = [xf0; x9f; x98; x80].
Proof. vm_compute. repeat split. Qed.

(* ==================================================================================================================
   GAP CLOSING against the property text (clause-by-clause table: header of Proofs/C19GapA.v; definitions:
   Model/C19GapDefs.v).  A message class is given by the list [names] of the PROTO names of its fields; its Python
   attributes are fields_of names = map pythonize_field_name names.
   ================================================================================================================== *)

(* ---- (5) the keys to_dict emits are the casings of the PROTO name: the decoration sanitize_name adds to the attribute
   (from_ , _1) never reaches the JSON.  Every byte string. ---- *)
Theorem C19_keys_of_proto_name : forall s,
  camel_key (pythonize_field_name s) = camel_case s /\ snake_key (pythonize_field_name s) = snake_case s.
Proof. exact keys_of_proto_name. Qed.
Print Assumptions C19_keys_of_proto_name.

(* quantifier "all Python keywords": a lower-case keyword k becomes the attribute k_ , its snake key is k itself and the
   key k addresses the attribute *)
Theorem C19_keyword_field_key : forall k, is_keyword k = true -> snake_case k = k ->
  pythonize_field_name k = k ++ [us] /\ snake_key (pythonize_field_name k) = k /\
  field_for_key [pythonize_field_name k] k = Some (pythonize_field_name k).
Proof. exact keyword_field_key. Qed.
Print Assumptions C19_keyword_field_key.

(* ---- (7) "no field is silently dropped": to_dict with Casing.SNAKE never merges two generated attributes
   (no hypothesis on the class); for Casing.CAMEL the condition is exact by C19_from_dict_camel_back_iff ---- *)
Theorem C19_snake_keys_distinct : forall f g,
  safe_snake_case f = f -> safe_snake_case g = g -> snake_key f = snake_key g -> f = g.
Proof. exact snake_keys_distinct. Qed.
Print Assumptions C19_snake_keys_distinct.

(* the lower-cased camelCase key of the attribute generated for s is s without its non-alphanumerics, lower-cased; for a
   proto identifier that is protoc's ToLowercaseWithoutUnderscores(s) *)
Theorem C19_camel_key_lowered : forall s,
  lower (camel_key (pythonize_field_name s)) = alnum_key s /\ (ident_chars s = true -> alnum_key s = legacy_key s).
Proof. intros s. split; [exact (lower_camel_key s)|exact (alnum_key_legacy s)]. Qed.
Print Assumptions C19_camel_key_lowered.

(* ---- (1a) the mapping of a CLASS: under the proto3 rule of protoc <= 21 (field names unique after lower-casing and
   removing underscores) different proto fields get different attributes, different camelCase keys, different snake keys ---- *)
Theorem C19_field_names_distinct_legacy : forall names,
  (forall s, In s names -> ident_chars s = true) ->
  (forall s t, In s names -> In t names -> legacy_key s = legacy_key t -> s = t) ->
  forall s t, In s names -> In t names ->
    (pythonize_field_name s = pythonize_field_name t -> s = t) /\
    (camel_key (pythonize_field_name s) = camel_key (pythonize_field_name t) -> s = t) /\
    (snake_key (pythonize_field_name s) = snake_key (pythonize_field_name t) -> s = t).
Proof. exact field_names_distinct_legacy. Qed.
Print Assumptions C19_field_names_distinct_legacy.

(* ---- (6b) ... and ALL THREE keys of EVERY field of the class map back to that field (the hypothesis "pairwise distinct
   camelCase keys" of C19_from_dict_generated_keys_back and the note "no sibling's key equals the proto name" discharged) ---- *)
Theorem C19_class_keys_back_legacy : forall names,
  (forall s, In s names -> ident_chars s = true) ->
  (forall s t, In s names -> In t names -> legacy_key s = legacy_key t -> s = t) ->
  forall s, In s names ->
    let fs := fields_of names in let F := pythonize_field_name s in
    field_for_key fs (camel_key F) = Some F /\ field_for_key fs (snake_key F) = Some F /\ field_for_key fs s = Some F.
Proof. exact legacy_class_keys_back. Qed.
Print Assumptions C19_class_keys_back_legacy.

(* ---- (6a) the EXACT condition for a class, any names whatsoever: all three keys of all fields map back iff the
   camelCase keys of the attributes are pairwise distinct and no attribute's camelCase key is the proto name of a
   field with another attribute ---- *)
Theorem C19_class_keys_back_iff : forall names,
  let fs := fields_of names in
  (forall s, In s names -> let F := pythonize_field_name s in
      field_for_key fs (camel_key F) = Some F /\ field_for_key fs (snake_key F) = Some F /\ field_for_key fs s = Some F)
  <->
  ((forall f g, In f fs -> In g fs -> camel_key f = camel_key g -> f = g) /\
   (forall s t, In s names -> In t names -> camel_key (pythonize_field_name t) = s ->
      pythonize_field_name t = pythonize_field_name s)).
Proof. exact class_keys_back_iff. Qed.
Print Assumptions C19_class_keys_back_iff.

(* which keys address the field f of a class with attributes fs, exactly: the keys of the camelCase table whose LAST entry
   is f, and the keys outside the table that safe_snake_case sends to f *)
Theorem C19_from_dict_key_iff : forall fs k f,
  field_for_key fs k = Some f <->
  In f fs /\ (assoc_last k (key_table fs) = Some f \/
              ((forall g, In g fs -> camel_key g <> k) /\ safe_snake_case k = f)).
Proof. exact from_dict_key_iff. Qed.
Print Assumptions C19_from_dict_key_iff.

(* ---- the rule protoc >= 22 enforces (default JSON names pairwise distinct, case-sensitively: libprotoc 35.1 accepts
   message M { int32 FooBar = 1; int32 foo_bar = 2; } in proto3) is NOT enough: both fields get the attribute foo_bar.
   On the real plugin the class then has the attribute twice and M.FromString(08 05 10 07) = M(foo_bar=7): field 1 is
   silently dropped (reported; not a K-finding of this check yet). ---- *)
Theorem C19_json_rule_collision_refuted :
  exists names s t, json_rule_ok names = true /\ In s names /\ In t names /\ s <> t /\
    pythonize_field_name s = pythonize_field_name t /\ legacy_rule_ok names = false.
Proof. exact json_rule_collision_refuted. Qed.
Print Assumptions C19_json_rule_collision_refuted.

(* ---- (2) class names of proto identifiers: class_name_ok read off the name ---- *)
Theorem C19_class_name_ok_proto_ident : forall s, ident_chars s = true -> class_name_ok s = class_name_ok_ident s.
Proof. exact class_name_ok_proto_ident. Qed.
Print Assumptions C19_class_name_ok_proto_ident.

(* a proto identifier that starts with a letter: the class name is a non-keyword identifier iff snake_case s is not
   one of none / true / false *)
Theorem C19_class_ident_letter_start : forall s, ident_chars s = true -> starts_letter s = true ->
  ((is_identifier (pythonize_class_name s) = true /\ is_keyword (pythonize_class_name s) = false) <->
   mem_bytes (snake_case s) (map lower capital_keywords) = false).
Proof. exact class_ident_letter_start. Qed.
Print Assumptions C19_class_ident_letter_start.

(* ---- (3) enum members: the hypothesis ident_chars of C19_enum_member_ident holds for every proto identifier ---- *)
Theorem C19_enum_member_ident_proto : forall name enum_name, proto_ident name = true ->
  is_identifier (pythonize_enum_member_name name enum_name) = true /\
  is_keyword (pythonize_enum_member_name name enum_name) = false.
Proof. exact enum_member_ident_proto. Qed.
Print Assumptions C19_enum_member_ident_proto.

(* "idempotent" for enum members: only when the enum prefix does not occur in the result *)
Theorem C19_enum_member_idem : forall name enum_name, ident_chars name = true ->
  after_first (upper (snake_case enum_name)) (pythonize_enum_member_name name enum_name) = None ->
  pythonize_enum_member_name (pythonize_enum_member_name name enum_name) enum_name = pythonize_enum_member_name name enum_name.
Proof. exact enum_member_idem. Qed.
Print Assumptions C19_enum_member_idem.

Theorem C19_enum_member_idem_refuted : exists name enum_name, proto_ident name = true /\ proto_ident enum_name = true /\
  after_first (upper (snake_case enum_name)) (pythonize_enum_member_name name enum_name) <> None /\
  pythonize_enum_member_name (pythonize_enum_member_name name enum_name) enum_name <> pythonize_enum_member_name name enum_name.
Proof. exact enum_member_idem_refuted. Qed.
Print Assumptions C19_enum_member_idem_refuted.

(* ---- non-vacuity of the gap-closing theorems ---- *)
(* a proto3 class (legacy rule holds) with names the casing functions alone do not invert (address_line_1, x_y_z), a keyword,
   mixed case: every key of every field maps back; and the two rules on the FooBar / foo_bar class *)
Example C19_ex_gap_class :
  let names := [b "address_line_1"; b "x_y_z"; b "from"; b "HTTPStatus"; b "ipv4_address"; b "_1"] in
  legacy_rule_ok names = true /\ json_rule_ok names = true /\ forallb (keys_back names) names = true
  /\ map (fun s => string_of_list_byte (camel_key (pythonize_field_name (b s)))) ["from"; "_1"; "HTTPStatus"]%string
     = ["from"; "1"; "httpStatus"]%string
  /\ json_rule_ok [b "FooBar"; b "foo_bar"] = true /\ legacy_rule_ok [b "FooBar"; b "foo_bar"] = false
  /\ fields_of [b "FooBar"; b "foo_bar"] = [b "foo_bar"; b "foo_bar"]
  /\ (* a class where the proto name xYZ of one field is the camelCase key of its sibling: exactly the third key fails *)
     map (keys_back [b "xYZ"; b "x_y_z"]) [b "xYZ"; b "x_y_z"] = [false; true]
  /\ legacy_key (b "x_Y_z") = b "xyz".
Proof. vm_compute. repeat split. Qed.
Example C19_ex_gap_class_names :
  map class_name_ok_ident [b "Foo_Bar"; b "_"; b "__1x"; b "_x1"; b "None"; b "NONE"; b "n_one"] = [true; false; false; true; false; false; true]
  /\ starts_letter (b "HTTPStatus") = true /\ starts_letter (b "_x") = false
  /\ is_keyword (b "from") = true /\ snake_case (b "from") = b "from"
  /\ pythonize_enum_member_name (b "COLOR_RED") (b "Color") = b "RED"
  /\ after_first (upper (snake_case (b "Color"))) (b "RED") = None
  /\ pythonize_enum_member_name (b "COLOR_COLOR_RED") (b "Color") = b "COLOR_RED".
Proof. vm_compute. repeat split. Qed.

(* ---- the class-level statements in boolean form (Proofs/C19GapB.v): the hypotheses are the decidable predicates
   legacy_rule_ok / keys_back of Model/C19GapDefs.v, which can be evaluated on any list of proto field names ---- *)
(* keys_back DECIDES "the three keys of the field named s address that field" *)
Theorem C19_keys_back_iff : forall names s,
  keys_back names s = true <->
  (let fs := fields_of names in let F := pythonize_field_name s in
   field_for_key fs (camel_key F) = Some F /\ field_for_key fs (snake_key F) = Some F /\ field_for_key fs s = Some F).
Proof. exact keys_back_iff. Qed.
Print Assumptions C19_keys_back_iff.

(* headline of clause (6): a class whose field names are proto identifiers, unique after lower-casing and removing
   underscores (proto3 under protoc <= 21), loses no key: camelCase key, snake_case key and proto name of every field *)
Theorem C19_legacy_rule_keys_back : forall names, legacy_rule_ok names = true -> forallb (keys_back names) names = true.
Proof. exact legacy_rule_keys_back. Qed.
Print Assumptions C19_legacy_rule_keys_back.

(* ... and no two of its fields share an attribute, a camelCase key or a snake_case key *)
Theorem C19_legacy_rule_attrs_distinct : forall names, legacy_rule_ok names = true ->
  forall s t, In s names -> In t names ->
    (pythonize_field_name s = pythonize_field_name t \/ camel_key (pythonize_field_name s) = camel_key (pythonize_field_name t)
     \/ snake_key (pythonize_field_name s) = snake_key (pythonize_field_name t)) -> s = t.
Proof. exact legacy_rule_attrs_distinct. Qed.
Print Assumptions C19_legacy_rule_attrs_distinct.

(* the two protoc rules: ToLowercaseWithoutUnderscores(s) is the lower-cased ToJsonName(s) (Spec/JsonMap.v), hence every
   class accepted under the old rule is accepted under the new one; the converse fails (C19_json_rule_collision_refuted) *)
Theorem C19_legacy_key_json_name : forall s, legacy_key s = lower (JsonMap.protoc_json_name s).
Proof. exact legacy_key_json_name. Qed.
Print Assumptions C19_legacy_key_json_name.

Theorem C19_legacy_rule_implies_json_rule : forall names, legacy_rule_ok names = true -> json_rule_ok names = true.
Proof. exact legacy_rule_implies_json_rule. Qed.
Print Assumptions C19_legacy_rule_implies_json_rule.

Example C19_ex_gap_rules :
  legacy_rule_ok [b "x_yz"; b "x_y_z"] = false /\ json_rule_ok [b "x_yz"; b "x_y_z"] = true
  /\ forallb (keys_back [b "x_yz"; b "x_y_z"]) [b "x_yz"; b "x_y_z"] = true      (* the legacy rule is sufficient, not necessary *)
  /\ forallb (keys_back [b "FooBar"; b "foo_bar"]) [b "FooBar"; b "foo_bar"] = true   (* same attribute: from_dict cannot tell; the loss is in the class *)
  /\ JsonMap.protoc_json_name (b "x_y_z") = b "xYZ" /\ legacy_key (b "x_y_z") = b "xyz".
Proof. vm_compute. repeat split. Qed.
