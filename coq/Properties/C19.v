(* C19 — Name mapping is total and safe, and JSON keys map back to their fields.
   Only property-level statements; every proof is an [exact] of a lemma from Proofs/CasingP*.v
   (or a vm_compute on a concrete witness), followed by Print Assumptions.

   Strings are the UTF-8 bytes of the Python str.  Unless a hypothesis says otherwise the
   statements hold for EVERY byte string, not only for proto identifiers. *)
From BP Require Import Base.Prelude Model.Casing.
From BP Require Import Proofs.CasingP Proofs.CasingP2 Proofs.CasingP3 Proofs.CasingP4.
From Coq Require Import String.
Local Notation b := list_byte_of_string.

(* T1: the regex source strings and the patterns handed to re.sub are the ones the scanner models *)
Theorem C19_regexes_as_modelled : regexes_as_modelled = true.
Proof. exact regexes_ok. Qed.
Print Assumptions C19_regexes_as_modelled.

(* ---- identifier-ness and non-keyword-ness ---- *)
(* field and method names: for every input string whatsoever *)
Theorem C19_field_ident : forall s,
  is_identifier (pythonize_field_name s) = true /\ is_keyword (pythonize_field_name s) = false.
Proof. exact safe_snake_ok. Qed.
Print Assumptions C19_field_ident.

Theorem C19_method_ident : forall s,
  is_identifier (pythonize_method_name s) = true /\ is_keyword (pythonize_method_name s) = false.
Proof. exact safe_snake_ok. Qed.
Print Assumptions C19_method_ident.

(* sanitize_name on any string over [A-Za-z0-9_] (what enum members go through) *)
Theorem C19_sanitize_ident : forall x, ident_chars x = true ->
  is_identifier (sanitize_name x) = true /\ is_keyword (sanitize_name x) = false.
Proof. exact sanitize_ok. Qed.
Print Assumptions C19_sanitize_ident.

(* enum member names, whatever the enum is called *)
Theorem C19_enum_member_ident : forall name enum_name, ident_chars name = true ->
  is_identifier (pythonize_enum_member_name name enum_name) = true /\
  is_keyword (pythonize_enum_member_name name enum_name) = false.
Proof. exact enum_member_ok. Qed.
Print Assumptions C19_enum_member_ident.

(* class names: under the exact side condition class_name_ok (first word starts with a letter, and the
   name is not none/true/false in any capitalisation) *)
Theorem C19_class_ident : forall s, class_name_ok s = true ->
  is_identifier (pythonize_class_name s) = true /\ is_keyword (pythonize_class_name s) = false.
Proof. exact class_name_ident. Qed.
Print Assumptions C19_class_ident.

(* ... and without it the statement is false on the pinned code (K11): _ -> "", _1 -> "1", none -> None *)
Theorem C19_class_ident_refuted :
  Forall (fun s => proto_ident s = true /\
                   (is_identifier (pythonize_class_name s) = false \/ is_keyword (pythonize_class_name s) = true))
         [b "_"; b "_1"; b "none"].
Proof. repeat apply Forall_cons; try apply Forall_nil; (split; [reflexivity|]); vm_compute; auto. Qed.
Print Assumptions C19_class_ident_refuted.

(* ---- idempotence ---- *)
Theorem C19_snake_idem : forall s, safe_snake_case (safe_snake_case s) = safe_snake_case s.
Proof. exact safe_snake_idem. Qed.
Print Assumptions C19_snake_idem.

Theorem C19_snake_case_idem : forall s, snake_case (snake_case s) = snake_case s.
Proof. exact snake_snake. Qed.
Print Assumptions C19_snake_case_idem.

Theorem C19_pascal_idem : forall s, pascal_stable s = true ->
  pythonize_class_name (pythonize_class_name s) = pythonize_class_name s.
Proof. exact pascal_idem. Qed.
Print Assumptions C19_pascal_idem.

(* K10: a_b -> AB -> Ab *)
Theorem C19_pascal_idem_refuted : exists s, proto_ident s = true /\ pascal_stable s = false /\
  pythonize_class_name (pythonize_class_name s) <> pythonize_class_name s.
Proof. exists (b "a_b"). vm_compute. repeat split; discriminate. Qed.
Print Assumptions C19_pascal_idem_refuted.

(* ---- keys map back: the casing functions alone (what the pinned from_dict relies on) ---- *)
(* snake_case keys and the original proto name always map back; camelCase keys under key_safe *)
Theorem C19_key_back : forall s, key_safe s = true ->
  let F := safe_snake_case s in
  safe_snake_case (camel_key F) = F /\ safe_snake_case (snake_key F) = F /\ safe_snake_case s = F.
Proof. intros s K. split; [exact (camel_key_back s K)|split; [exact (snake_key_back s)|reflexivity]]. Qed.
Print Assumptions C19_key_back.

Theorem C19_snake_key_back : forall s,
  safe_snake_case (snake_key (safe_snake_case s)) = safe_snake_case s.
Proof. exact snake_key_back. Qed.
Print Assumptions C19_snake_key_back.

Theorem C19_key_back_pinned_lookup : forall fs s, In (safe_snake_case s) fs -> key_safe s = true ->
  field_for_key_pinned fs (camel_key (safe_snake_case s)) = Some (safe_snake_case s).
Proof. exact field_for_key_pinned_back. Qed.
Print Assumptions C19_key_back_pinned_lookup.

(* F9: without key_safe the camelCase key is lost by a lookup through safe_snake_case only *)
Theorem C19_key_refuted :
  Forall (fun s => proto_ident s = true /\ key_safe s = false /\
                   let F := safe_snake_case s in
                   safe_snake_case (camel_key F) <> F /\ field_for_key_pinned [F] (camel_key F) = None)
         [b "address_line_1"; b "x_y_z"].
Proof.
  repeat apply Forall_cons; try apply Forall_nil; vm_compute;
    (split; [reflexivity|split; [reflexivity|split; [discriminate|reflexivity]]]).
Qed.
Print Assumptions C19_key_refuted.

(* ---- keys map back: from_dict with the table of camelCase keys (fixes/c19-from-dict-key-lookup.patch) ----
   For ANY field names fs (hand-written classes included): a key addresses field f whenever f is the only
   field whose to_dict key it is, and it is f's to_dict key or safe_snake_case sends it to f. *)
Theorem C19_from_dict_key_back : forall fs k f, In f fs ->
  (forall g, In g fs -> camel_key g = k -> g = f) ->
  camel_key f = k \/ safe_snake_case k = f ->
  field_for_key fs k = Some f.
Proof. exact field_for_key_back. Qed.
Print Assumptions C19_from_dict_key_back.

(* camelCase keys: pairwise distinct to_dict keys are all that is needed (no key_safe) *)
Theorem C19_from_dict_camel_back : forall fs f, In f fs ->
  (forall g, In g fs -> camel_key g = camel_key f -> g = f) ->
  field_for_key fs (camel_key f) = Some f.
Proof. intros fs f I U. exact (field_for_key_back fs (camel_key f) f I U (or_introl eq_refl)). Qed.
Print Assumptions C19_from_dict_camel_back.

(* a message with one generated field: all three keys map back, for every proto name, no hypothesis *)
Theorem C19_one_field_roundtrip : forall s,
  let F := safe_snake_case s in
  field_for_key [F] (camel_key F) = Some F /\ field_for_key [F] (snake_key F) = Some F /\ field_for_key [F] s = Some F.
Proof.
  intros s F. assert (forall k g, In g [F] -> camel_key g = k -> g = F) as U by (intros k g [<-|[]] _; reflexivity).
  split; [|split].
  - exact (field_for_key_back [F] _ F (or_introl eq_refl) (U _) (or_introl eq_refl)).
  - exact (field_for_key_back [F] _ F (or_introl eq_refl) (U _) (or_intror (snake_key_back s))).
  - exact (field_for_key_back [F] _ F (or_introl eq_refl) (U _) (or_intror eq_refl)).
Qed.
Print Assumptions C19_one_field_roundtrip.

Theorem C19_from_dict_only_fields : forall fs k f, field_for_key fs k = Some f -> In f fs.
Proof. exact field_for_key_in. Qed.
Print Assumptions C19_from_dict_only_fields.

(* the .rstrip("_") in to_dict / to_pydict never removes anything: for every field name whatsoever *)
Theorem C19_rstrip_is_noop : forall f, camel_key f = camel_case f /\ snake_key f = snake_case f.
Proof. intros f. split; [exact (camel_key_is_camel_case f)|exact (snake_key_is_snake_case f)]. Qed.
Print Assumptions C19_rstrip_is_noop.

(* key_safe names never collide: their camelCase keys are pairwise distinct *)
Theorem C19_camel_keys_distinct : forall s1 s2, key_safe s1 = true -> key_safe s2 = true ->
  camel_key (safe_snake_case s1) = camel_key (safe_snake_case s2) -> safe_snake_case s1 = safe_snake_case s2.
Proof. exact camel_keys_distinct. Qed.
Print Assumptions C19_camel_keys_distinct.

(* ---- the side conditions are exact: checked for every string of length <= 5 over {a,b,A,B,0,1,_,.}
   (partial: sufficiency is proved above for all strings; necessity only on this finite set, and by the
   harness sweep against the real functions) ---- *)
Theorem C19_side_conditions_exact_len5_partial : all_strings alphabet8 5 [] side_conditions_exact = true.
Proof. exact side_conditions_exact_len5. Qed.
Print Assumptions C19_side_conditions_exact_len5_partial.

(* ---- non-vacuity ---- *)
Example C19_ex_field : map (fun s => string_of_list_byte (pythonize_field_name (b s)))
    ["HTTPStatus"; "address_line_1"; "from"; "_"; "_1"; "fooBAR"; "None"]%string
  = ["http_status"; "address_line_1"; "from_"; "_"; "_1"; "foo_bar"; "none"]%string.
Proof. vm_compute. reflexivity. Qed.
Example C19_ex_key_safe : key_safe (b "ipv4_address") = true /\ camel_key (b "ipv4_address") = b "ipv4Address"
  /\ key_safe (b "x_y1_z") = true /\ key_safe (b "x_y_zz") = true /\ key_safe (b "from") = true.
Proof. vm_compute. repeat split. Qed.
Example C19_ex_pascal_stable : pascal_stable (b "HTTPStatus") = true /\ pythonize_class_name (b "HTTPStatus") = b "HttpStatus"
  /\ pascal_stable (b "address_line_1") = true /\ pascal_stable (b "a_bc") = true.
Proof. vm_compute. repeat split. Qed.
Example C19_ex_class_ok : class_name_ok (b "Foo.Bar") = true /\ pythonize_class_name (b "Foo.Bar") = b "FooBar"
  /\ class_name_ok (b "nonempty") = true.
Proof. vm_compute. repeat split. Qed.
Example C19_ex_enum : pythonize_enum_member_name (b "COLOR_RED") (b "Color") = b "RED"
  /\ pythonize_enum_member_name (b "FOO_NONE") (b "Foo") = b "NONE"
  /\ pythonize_enum_member_name (b "FOO_None") (b "Foo") = b "None_"
  /\ pythonize_enum_member_name (b "FOO_1") (b "Foo") = b "_1" /\ ident_chars (b "FOO_1") = true.
Proof. vm_compute. repeat split. Qed.
(* the fixed lookup on the F9 witnesses, and with two fields whose keys differ only in case *)
Example C19_ex_from_dict : field_for_key [b "address_line_1"] (b "addressLine1") = Some (b "address_line_1")
  /\ field_for_key [b "x_yz"; b "x_y_z"] (b "xYZ") = Some (b "x_y_z")
  /\ field_for_key [b "x_yz"; b "x_y_z"] (b "xYz") = Some (b "x_yz")
  /\ field_for_key [b "x_yz"; b "x_y_z"] (b "x_y_z") = Some (b "x_y_z")
  /\ field_for_key [b "from_"] (b "from") = Some (b "from_").
Proof. vm_compute. repeat split. Qed.
