(* C02 — wire interoperability with the reference implementation, every legal alternative encoding.

   Spec/Wire.v (L0) says what a byte string means as a proto3 message of a schema: records
   ([wire_ok] / [parse_wire], padded varints included), and the denotation [sem] of a record list
   (last-wins scalars, oneof groups, repeated fields in any mix of packed chunks and single elements,
   map entries merged by key, unknown fields kept in order, nested messages by recursion).  The harness
   validates it against google.protobuf on every run (tie T3).

   The theorems say that betterproto's decoder — the Gallina mirror Model/Decode.v, tied to the code by
   tie T2 — computes exactly that denotation on EVERY legal byte string: every permutation, packing
   toggle, chunk split, varint padding, duplicate and interleaved unknown field is just another record
   list.  [supported] (Proofs/C02Abs.v) names the scope limits; none of them is in C02's list of
   alternative encodings, each is witnessed below and in corpus/C02.json. *)
From BP Require Import Base.Prelude Model.Types Model.Varint Model.Object Model.Decode Model.WellFormed Model.Canon.
From BP Require Import Spec.Varint Spec.Wire.
From BP Require Import Model.Encode Proofs.C02Abs Proofs.C02WireP Proofs.C02FinalP Proofs.C02EncP.
From BP Require Import Model.C01Def Proofs.C02LegalMain Proofs.C02LegalFaith3.

(* ---- framing layer: the relation and the function of the specification agree ---- *)
Theorem C02_wire_ok_parse : forall bs rs, wire_ok bs rs -> parse_wire bs = Some rs.
Proof. exact wire_ok_parse. Qed.
Print Assumptions C02_wire_ok_parse.

Theorem C02_parse_wire_sound : forall bs rs, parse_wire bs = Some rs -> wire_ok bs rs.
Proof. exact parse_wire_sound. Qed.
Print Assumptions C02_parse_wire_sound.

(* serialisations concatenate: the basis of "merge = parse the concatenation" and of unknown-field storage *)
Theorem C02_parse_wire_app : forall a ra b rb,
  parse_wire a = Some ra -> parse_wire b = Some rb -> parse_wire (a ++ b) = Some (ra ++ rb).
Proof. exact parse_wire_app. Qed.
Print Assumptions C02_parse_wire_app.

(* ---- betterproto's field reader agrees with the specification record by record, groups included;
        ParsedField.raw is exactly the bytes the record occupied ---- *)
Theorem C02_reader_agrees : forall a r fuel rest,
  rec_ok a r -> (length a <= fuel)%nat ->
  exists tb rest1,
    load_varint (a ++ rest) = Ok (fst r * 8 + wt_of (snd r), tb, rest1) /\
    load_field fuel rest1 (fst r * 8 + wt_of (snd r)) tb = Ok (parsed_of r a, rest).
Proof. exact model_reads_record. Qed.
Print Assumptions C02_reader_agrees.

(* ---- the decoder refines the specification on every legal byte string ---- *)
Theorem C02_decode_refines : forall sc c bs rs a,
  wf_schema sc = true -> builtins_std sc = true ->
  parse_wire bs = Some rs ->
  sem (S (length bs)) sc c rs = Some a ->
  supported (S (length bs)) sc c rs = true ->
  exists m', parse sc c bs = Ok m' /\ abs_obj sc m' = a.
Proof. exact decode_refines. Qed.
Print Assumptions C02_decode_refines.

Theorem C02_decode_refines_rel : forall sc c bs rs a,
  wf_schema sc = true -> builtins_std sc = true ->
  wire_ok bs rs ->
  sem (S (length bs)) sc c rs = Some a ->
  supported (S (length bs)) sc c rs = true ->
  exists m', parse sc c bs = Ok m' /\ abs_obj sc m' = a.
Proof. exact decode_refines_rel. Qed.
Print Assumptions C02_decode_refines_rel.

(* ---- encoder side: every message betterproto writes is a LEGAL proto3 serialisation (record grammar of the
        independent specification: canonical tags and lengths of at most five bytes, canonical value varints) whose
        denotation under the specification is the message itself, and which lies inside [supported] - so
        C02_decode_refines applies to it and the reference reads it as that message.
   Hypotheses (the ones of C01_roundtrip, all decidable, all evaluated on every generated case by the checks):
     c01_schema_ok sc  = wf_schema + the first classes ARE the bundled ones + a map's Entry class is annotated like the map;
     c01_value_ok sc m = in_range (ints in the declared range, valid UTF-8, float32 fields float32-representable or NaN,
                         datetimes / timedeltas in range) + recursively: a oneof member other than the selected one holds
                         PLACEHOLDER, _group_current names members of its own group, no unknown bytes, dict keys distinct;
     Zlength bs < 2^35 : the record grammar allows length prefixes of at most five bytes ([tag_max]), i.e. payloads below
                         2^35 bytes (real implementations stop at 2 GiB; no Python object gets near either).
   The denotation is stated as abs_obj (norm_obj m): [norm_obj] (Model/C01Def.v) is the closed form of the decoded object
   (C01_roundtrip: parse (enc_obj m) = norm_obj m), i.e. m with float32 fields rounded to float32, values equal to their
   default dropped and _serialized_on_wire raised - what the bytes can say about m.
   Covers nested and recursive messages, packed and unpacked repeated fields, maps (entries without unknown fields), oneofs
   (one member per group, the selected member written even when default), proto3 optional, wrappers, Timestamp / Duration
   (exact (seconds, nanos) pairs), float32 (four bytes whatever the rounding), 32-bit varints (never wider than 32 bits),
   a singular message field written at most once. ---- *)
Theorem C02_encode_legal : forall sc m,
  c01_schema_ok sc = true -> c01_value_ok sc m = true ->
  exists bs, enc_obj sc m = Ok bs /\
    (Zlength bs < 2 ^ 35 ->
     exists rs a, parse_wire bs = Some rs /\
       sem (S (length bs)) sc (ocls m) rs = Some a /\ a = abs_obj sc (norm_obj sc m) /\
       supported (S (length bs)) sc (ocls m) rs = true).
Proof. exact c02_encode_legal. Qed.
Print Assumptions C02_encode_legal.

(* the same in relational form, at every nesting depth the byte string can need *)
Theorem C02_encode_legal_rel : forall sc m bs,
  c01_schema_ok sc = true -> c01_value_ok sc m = true -> enc_obj sc m = Ok bs -> Zlength bs < 2 ^ 35 ->
  exists rs, wire_ok bs rs /\
    forall n, (length bs < n)%nat ->
      sem n sc (ocls m) rs = Some (abs_obj sc (norm_obj sc m)) /\ supported n sc (ocls m) rs = true.
Proof. exact c02_encode_legal_rel. Qed.
Print Assumptions C02_encode_legal_rel.

(* ---- ... and that denotation is the message ITSELF when the object state holds no more than its bytes can say:
        [enc_faithful] (Proofs/C02Abs.v, decidable, evaluated on every generated case) = in_range + recursively: unknown
        bytes parse, no -0.0 in a float/double field without presence or inside a wrapper (it equals the default and is
        skipped), float32 fields hold float32 values (anything else is rounded on the wire), a plain Timestamp/Duration
        field is not at the epoch / zero (datetime has no presence), a plain sub-message with non-default content has
        _serialized_on_wire up (K12 of C06), dict keys unique.  Then abs_obj (norm_obj m) = abs_obj m. ---- *)
Theorem C02_decoded_denotes_message : forall sc m,
  c01_schema_ok sc = true -> c01_value_ok sc m = true -> enc_faithful sc m = true ->
  abs_obj sc (norm_obj sc m) = abs_obj sc m.
Proof. exact c02_norm_abs. Qed.
Print Assumptions C02_decoded_denotes_message.

(* C02_encode_legal of the design: wire_ok (enc m) rs /\ sem rs = abs m *)
Theorem C02_encode_denotes : forall sc m,
  c01_schema_ok sc = true -> c01_value_ok sc m = true -> enc_faithful sc m = true ->
  exists bs, enc_obj sc m = Ok bs /\
    (Zlength bs < 2 ^ 35 ->
     exists rs, parse_wire bs = Some rs /\
       sem (S (length bs)) sc (ocls m) rs = Some (abs_obj sc m) /\
       supported (S (length bs)) sc (ocls m) rs = true).
Proof. exact c02_encode_denotes. Qed.
Print Assumptions C02_encode_denotes.

(* ---- the leaf layer of the above on its own (kept from before the message-level theorem was proved; subsumed by it
        for fields of a message, but stated for any field number and value on its own): the record _serialize_single
        writes for an in-range scalar is a legal record and denotes that value.  float32 is covered by C02_encode_legal. ---- *)
Theorem C02_encode_scalar_legal_partial : forall msg num t v se bs,
  1 <= num < 2 ^ 29 -> scalar_in_range t v = true -> t <> TFloat ->
  (forall s, v = PStr s \/ v = PBytes s -> Zlength s < 2 ^ 31) ->
  serialize_with msg num t v se None = Ok bs ->
  (bs = [] /\ se = false /\ (v = PStr [] \/ v = PBytes [])) \/
  exists p, rec_ok bs (num, p) /\ scalar_of t p = Some (abs_scalar v) /\
            (match p with Len _ => packable t = false | _ => True end).
Proof. exact enc_scalar_record. Qed.
Print Assumptions C02_encode_scalar_legal_partial.

(* ---- non-vacuity and scope limits ---- *)
Definition s_ (l : list byte) := l.
Definition ex_sc : schema :=
  mkS (builtin_classes ++
       [mkC [mkF [x61] 1 TInt32 None None None false (HPlain PyInt) 0;
             mkF [x72] 2 TInt32 None None None false (HList PyInt) 0;
             mkF [x73] 3 TString None (Some 0%nat) None false (HPlain PyStr) 0;
             mkF [x6e] 4 TInt64 None (Some 0%nat) None false (HPlain PyInt) 0;
             mkF [x6d] 5 TMap (Some (TString, TInt32)) None None false (HDict PyStr PyInt) 12;
             mkF [x75] 6 TMessage None None None false (HPlain (PyMsg 11)) 0;
             mkF [x65] 7 TEnum None None None false (HPlain (PyEnum 0)) 0;
             mkF [x77] 8 TMessage None None (Some TUInt32) false (HOptional PyInt) 0;
             mkF [x74] 9 TMessage None None None false (HPlain PyDatetime) 0] 1;
        mkC [mkF [x6b] 1 TString None None None false (HPlain PyStr) 0;
             mkF [x76] 2 TInt32 None None None false (HPlain PyInt) 0] 0])
      [mkE [([x5a], 0); ([x4e], -1)]].

(* a = 5; r = [1,2] packed, 3 unpacked, [4] packed; oneof: s = "A" then n = 7; m = {"k": 9}; u = {a = 1};
   unknown field 9...; a again as a padded varint; e = -1 (ten-byte varint); w = 3; t = 1 s *)
Definition ex_bs : list byte :=
  [x08; x05; x12; x02; x01; x02; x10; x03; x12; x01; x04; x1a; x01; x41; x20; x07;
   x2a; x05; x0a; x01; x6b; x10; x09; x32; x02; x08; x01; xd8; x04; x01;
   x08; x86; x80; x00; x38; xff; xff; xff; xff; xff; xff; xff; xff; xff; x01;
   x42; x02; x08; x03; x4a; x02; x08; x01].

Example C02_nonvacuous :
  wf_schema ex_sc = true /\ builtins_std ex_sc = true /\
  supported_bytes ex_sc 11 ex_bs = true /\
  cv_eqb (cv_of_aval_opt (sem_bytes ex_sc 11 ex_bs)) (cv_abs_res ex_sc (parse ex_sc 11 ex_bs)) = true /\
  sem_bytes ex_sc 11 ex_bs =
    Some (AMsg [AInt 6; AList [AInt 1; AInt 2; AInt 3; AInt 4]; ANone; ASome (AInt 7);
                AMap [(AStr [x6b], AInt 9)];
                ASome (AMsg [AInt 1; AList []; ANone; ANone; AMap []; ANone; AInt 0; ANone; ANone] []);
                AInt (-1); ASome (AMsg [AInt 3] []); ASome (AMsg [AInt 1; AInt 0] [])]
               [(75, Varint 1)]).
Proof. vm_compute. repeat split. Qed.

Example C02_encode_scalar_nonvacuous :
  serialize_with no_msg 16 TSInt32 (PInt (-3)) false None = Ok [x80; x01; x05] /\
  scalar_in_range TSInt32 (PInt (-3)) = true /\
  parse_wire [x80; x01; x05] = Some [(16, Varint 5)] /\ scalar_of TSInt32 (Varint 5) = Some (AInt (-3)).
Proof. vm_compute. repeat split. Qed.

(* a message that uses every field of ex_sc: a = 5; r = [1,-2] (packed); oneof: n = 7 selected, s unselected;
   m = {"k": 9}; u = {a = 1}; e = -1; w = 3 (wrapper); t = 1 s *)
Definition ex_inner : obj :=
  Obj 11 [PInt 1; PPlaceholder; PPlaceholder; PPlaceholder; PPlaceholder; PPlaceholder; PPlaceholder; PPlaceholder; PPlaceholder]
      true [] [None].
Definition ex_msg : obj :=
  Obj 11 [PInt 5; PList [PInt 1; PInt (-2)]; PPlaceholder; PInt 7; PDict [(PStr [x6b], PInt 9)]; PMsg ex_inner;
          PInt (-1); PInt 3; PDatetime 1000000]
      true [] [Some 3%nat].
Example C02_encode_legal_nonvacuous :
  c01_schema_ok ex_sc = true /\ c01_value_ok ex_sc ex_msg = true /\
  match enc_obj ex_sc ex_msg with
  | Ok bs =>
      (Zlength bs <? 2 ^ 35) = true /\ (40 <? length bs)%nat = true /\
      match parse_wire bs with
      | Some rs =>
          length rs = 8%nat /\
          sem (S (length bs)) ex_sc 11 rs = Some (abs_obj ex_sc (norm_obj ex_sc ex_msg)) /\
          supported (S (length bs)) ex_sc 11 rs = true
      | None => False
      end
  | Err _ => False
  end.
Proof. vm_compute. repeat split. Qed.

(* enc_faithful is needed for "the message itself": -0.0 in a double field without presence equals the default, is
   skipped by the encoder and comes back as +0.0 (a note of C16, not a finding: the two are equal under ==) *)
Definition nz_sc : schema := mkS (builtin_classes ++ [mkC [mkF [x64] 1 TDouble None None None false (HPlain PyFloat) 0] 0]) [].
Definition nz_msg : obj := Obj 11 [PFloat 9223372036854775808] true [] [].
Theorem C02_encode_denotes_unfaithful_refuted :
  exists sc m, c01_schema_ok sc = true /\ c01_value_ok sc m = true /\ enc_faithful sc m = false /\
    cv_eqb (cv_of_aval (abs_obj sc (norm_obj sc m))) (cv_of_aval (abs_obj sc m)) = false.
Proof. exists nz_sc, nz_msg. vm_compute. repeat split. Qed.
Print Assumptions C02_encode_denotes_unfaithful_refuted.

Example C02_encode_denotes_nonvacuous :
  enc_faithful ex_sc ex_msg = true /\
  match enc_obj ex_sc ex_msg with
  | Ok bs => match parse_wire bs with
             | Some rs => sem (S (length bs)) ex_sc 11 rs = Some (abs_obj ex_sc ex_msg)
             | None => False
             end
  | Err _ => False
  end.
Proof. vm_compute. repeat split. Qed.

(* The scope limits are real: without [supported] the statement fails on the current tree.
   Witness: a singular message field occurring twice — the reference (and sem) merge the two occurrences,
   betterproto keeps the last one. *)
Definition merge_bs : list byte := [x32; x02; x08; x01; x32; x02; x10; x02].      (* u = {a = 1}, then u = {r = [2]} *)
Definition merge_rs : list record := match parse_wire merge_bs with Some rs => rs | None => [] end.
Definition merge_sem : aval := match sem (S (length merge_bs)) ex_sc 11 merge_rs with Some a => a | None => ANone end.
Definition merge_obj : obj := match parse ex_sc 11 merge_bs with Ok m => m | Err _ => new ex_sc 11 end.
Theorem C02_decode_refines_unrestricted_refuted :
  exists sc c bs rs a m',
    wf_schema sc = true /\ builtins_std sc = true /\ parse_wire bs = Some rs /\
    sem (S (length bs)) sc c rs = Some a /\ parse sc c bs = Ok m' /\
    cv_eqb (cv_of_aval (abs_obj sc m')) (cv_of_aval a) = false /\ supported (S (length bs)) sc c rs = false.
Proof.
  exists ex_sc, 11%nat, merge_bs, merge_rs, merge_sem, merge_obj.
  vm_compute. repeat split.
Qed.
Print Assumptions C02_decode_refines_unrestricted_refuted.

(* ==================================================================================================================
   GAP CLOSURE (clause-by-clause table: header of Proofs/C02GapA.v).
   ================================================================================================================== *)
From BP Require Import Model.C02GapDef Proofs.C02GapA Proofs.C02GapB Proofs.C02GapC Proofs.C02GapE.
From BP Require Import Model.C17Typed Model.C17Nested Model.Len Model.History Model.C07Ops Model.C01Reach Model.C01Parse.

(* ---- (b) C02_decode_refines at ANY depth above the length of the input (the depth index S |bs| of the headline
        theorem is one admissible choice; two encodings of one message can be compared at a common depth) ---- *)
Theorem C02_decode_refines_depth : forall sc c bs rs a n,
  wf_schema sc = true -> builtins_std sc = true ->
  wire_ok bs rs -> (length bs < n)%nat ->
  sem n sc c rs = Some a -> supported n sc c rs = true ->
  exists m', parse sc c bs = Ok m' /\ abs_obj sc m' = a.
Proof. exact decode_refines_depth. Qed.
Print Assumptions C02_decode_refines_depth.

(* ---- (c4) non-minimal varints: two serialisations of the same records (they differ in the padding of tags, lengths
        and value varints only) are decoded to the same message ---- *)
Theorem C02_same_records_same_message : forall sc c bs bs' rs a n,
  wf_schema sc = true -> builtins_std sc = true ->
  wire_ok bs rs -> wire_ok bs' rs -> (length bs < n)%nat -> (length bs' < n)%nat ->
  sem n sc c rs = Some a -> supported n sc c rs = true ->
  exists m m', parse sc c bs = Ok m /\ parse sc c bs' = Ok m' /\ abs_obj sc m = a /\ abs_obj sc m' = a.
Proof. exact same_records_same_message. Qed.
Print Assumptions C02_same_records_same_message.

(* ---- (c) the SPECIFICATION reads the alternative encodings of C02's list as the same message.  All four are statements
        about Spec/Wire.v alone, at every depth n, for every schema (no well-formedness needed). ---- *)
(* (c1) any field order: [reorder] = exchanges of neighbouring records that are not both unknown and, when both are
        delivered, go to different fields outside a common oneof group (the permutation of wiregen.reencode) *)
Theorem C02_sem_reorder : forall n sc c rs rs',
  reorder sc (cfields (get_class sc c)) rs rs' -> sem n sc c rs = sem n sc c rs'.
Proof. exact sem_reorder. Qed.
Print Assumptions C02_sem_reorder.

(* (c6) an unknown field (undeclared number, or a wire type the declared field does not take) inserted anywhere:
        defined exactly when it was, every declared field reads the same, the unknown list gains the record in place *)
Theorem C02_sem_unknown_insert : forall n sc c pre u post,
  slot sc (cfields (get_class sc c)) u = None ->
  match sem n sc c (pre ++ post) with
  | Some (AMsg fields unk) =>
      sem n sc c (pre ++ u :: post) =
      Some (AMsg fields (unk_of sc (cfields (get_class sc c)) pre ++ u :: unk_of sc (cfields (get_class sc c)) post)) /\
      unk = unk_of sc (cfields (get_class sc c)) pre ++ unk_of sc (cfields (get_class sc c)) post
  | Some _ => False
  | None => sem n sc c (pre ++ u :: post) = None
  end.
Proof. exact sem_unknown_insert. Qed.
Print Assumptions C02_sem_unknown_insert.

(* (c5) repeated occurrences of a singular scalar: an earlier occurrence that is valid by itself is overridden by any
        later occurrence (without "valid by itself" the reference rejects the message: bad UTF-8 in the earlier string) *)
Theorem C02_sem_duplicate_scalar : forall n sc c pre r post i f,
  slot sc (cfields (get_class sc c)) r = Some (i, f) -> singular_scalar f = true ->
  is_some (scalar_of (fty f) (snd r)) = true ->
  later_for sc (cfields (get_class sc c)) i post = true ->
  sem n sc c (pre ++ r :: post) = sem n sc c (pre ++ post).
Proof. exact sem_duplicate_scalar. Qed.
Print Assumptions C02_sem_duplicate_scalar.

(* (c2) (c3) packed / unpacked / chunk split / mixed forms / padded packed elements: inside a repeated field a non-empty
        run of records may be replaced by any other non-empty run that carries the same elements *)
Theorem C02_sem_repeated_rewrite : forall n sc c pre mid mid' post i f,
  all_slot sc (cfields (get_class sc c)) i f mid -> all_slot sc (cfields (get_class sc c)) i f mid' ->
  mid <> [] -> mid' <> [] -> card_of f = Repeated ->
  (forall nested, elems_all nested f mid = elems_all nested f mid') ->
  sem n sc c (pre ++ mid ++ post) = sem n sc c (pre ++ mid' ++ post).
Proof. exact sem_repeated_rewrite. Qed.
Print Assumptions C02_sem_repeated_rewrite.

(* the general form behind the last two: only field i's payload list changes, and its interpretation does not *)
Theorem C02_sem_local : forall n sc c rs rs' i f,
  nth_error (cfields (get_class sc c)) i = Some f ->
  (forall nested, forallb (record_valid nested sc (cfields (get_class sc c))) rs =
                  forallb (record_valid nested sc (cfields (get_class sc c))) rs') ->
  unk_of sc (cfields (get_class sc c)) rs = unk_of sc (cfields (get_class sc c)) rs' ->
  (forall k fk, nth_error (cfields (get_class sc c)) k = Some fk -> k <> i ->
                proj sc (cfields (get_class sc c)) k fk rs = proj sc (cfields (get_class sc c)) k fk rs') ->
  (forall nested, interp_field nested sc f (proj sc (cfields (get_class sc c)) i f rs) =
                  interp_field nested sc f (proj sc (cfields (get_class sc c)) i f rs')) ->
  sem n sc c rs = sem n sc c rs'.
Proof. exact sem_local. Qed.
Print Assumptions C02_sem_local.

(* ---- ... and the decoder follows: rs' read by the specification as rs (any chain of the rewrites above), both inside
        [supported]: the bytes of rs' are decoded to the message the bytes of rs are decoded to ---- *)
Theorem C02_alt_encoding_decodes : forall sc c bs bs' rs rs' a n,
  wf_schema sc = true -> builtins_std sc = true ->
  wire_ok bs rs -> wire_ok bs' rs' -> (length bs < n)%nat -> (length bs' < n)%nat ->
  sem n sc c rs = Some a -> sem n sc c rs' = sem n sc c rs ->
  supported n sc c rs = true -> supported n sc c rs' = true ->
  exists m m', parse sc c bs = Ok m /\ parse sc c bs' = Ok m' /\ abs_obj sc m' = abs_obj sc m /\ abs_obj sc m = a.
Proof. exact alt_encoding_decodes. Qed.
Print Assumptions C02_alt_encoding_decodes.

(* ---- (d) composition with C01: every supported alternative encoding of bytes(m) is decoded to an object with the
        abstraction of parse(bytes(m)) = norm_obj m; under enc_faithful that is abs_obj m itself ---- *)
Theorem C02_alt_of_encoding : forall sc m bs bs' rs' n,
  c01_schema_ok sc = true -> c01_value_ok sc m = true -> enc_obj sc m = Ok bs -> Zlength bs < 2 ^ 35 ->
  wire_ok bs' rs' -> (length bs < n)%nat -> (length bs' < n)%nat ->
  (forall rs, wire_ok bs rs -> sem n sc (ocls m) rs' = sem n sc (ocls m) rs) ->
  supported n sc (ocls m) rs' = true ->
  parse sc (ocls m) bs = Ok (norm_obj sc m) /\
  exists m', parse sc (ocls m) bs' = Ok m' /\ abs_obj sc m' = abs_obj sc (norm_obj sc m) /\
             (enc_faithful sc m = true -> abs_obj sc m' = abs_obj sc m).
Proof. exact alt_of_encoding. Qed.
Print Assumptions C02_alt_of_encoding.

(* ---- (d) composition with C17_accept_iff: the specification's legal, supported strings lie inside the decoder's exact
        acceptance set, and a string outside [valid] is rejected by the specification or outside [supported] ---- *)
Theorem C02_spec_legal_is_valid : forall sc c bs rs a n,
  wf_schema sc = true -> builtins_std sc = true -> has_builtins sc -> entries_agree sc = true ->
  wire_ok bs rs -> (length bs < n)%nat ->
  sem n sc c rs = Some a -> supported n sc c rs = true ->
  valid sc c bs.
Proof. exact spec_legal_is_valid. Qed.
Print Assumptions C02_spec_legal_is_valid.

Theorem C02_invalid_not_spec_legal : forall sc c bs rs n,
  wf_schema sc = true -> builtins_std sc = true -> has_builtins sc -> entries_agree sc = true ->
  wire_ok bs rs -> (length bs < n)%nat -> ~ valid sc c bs ->
  sem n sc c rs = None \/ supported n sc c rs = false.
Proof. exact invalid_not_spec_legal. Qed.
Print Assumptions C02_invalid_not_spec_legal.

(* ---- (a) "any message": the value hypothesis of C02_encode_legal holds for every object a public-API history builds
        (C01_reachable_value_ok_parse: constructor, assignments at any depth, from_dict, copies, pickle, parse of clean
        bytes), and len(m) is the length of those bytes (C09_len) ---- *)
Theorem C02_encode_legal_reachable : forall sc c ops m,
  c01_schema_ok sc = true -> hist_ok op_value_ok_p sc (new sc c) ops = true ->
  run7 sc (new sc c) ops = Ok m ->
  exists bs, enc_obj sc m = Ok bs /\ len_obj sc m = Ok (Zlength bs) /\
    (Zlength bs < 2 ^ 35 ->
     exists rs, wire_ok bs rs /\
       forall n, (length bs < n)%nat ->
         sem n sc (ocls m) rs = Some (abs_obj sc (norm_obj sc m)) /\ supported n sc (ocls m) rs = true).
Proof. exact encode_legal_reachable. Qed.
Print Assumptions C02_encode_legal_reachable.

(* ---- exactness of [supported]: each of its scope limits is needed (the merge witness is above).  In every case the
        record list is legal, sem is defined, parse succeeds, and the two values differ. ---- *)
Definition lim_differs (bs : list byte) : Prop :=
  exists rs a m', parse_wire bs = Some rs /\ sem (S (length bs)) ex_sc 11 rs = Some a /\ parse ex_sc 11 bs = Ok m' /\
    cv_eqb (cv_of_aval (abs_obj ex_sc m')) (cv_of_aval a) = false /\ supported (S (length bs)) ex_sc 11 rs = false.
Ltac lim_witness bs :=
  let rs := eval vm_compute in (match parse_wire bs with Some rs => rs | None => [] end) in
  let a := eval vm_compute in (match sem (S (length bs)) ex_sc 11 rs with Some a => a | None => ANone end) in
  let m := eval vm_compute in (match parse ex_sc 11 bs with Ok m => m | Err _ => new ex_sc 11 end) in
  exists rs, a, m; vm_compute; repeat split.

(* a map entry that carries a third field: the reference sets the entry aside as an unknown field *)
Theorem C02_map_entry_extra_refuted : lim_differs [x2a; x07; x0a; x01; x6b; x10; x09; x18; x01].
Proof. lim_witness [x2a; x07; x0a; x01; x6b; x10; x09; x18; x01]. Qed.
Print Assumptions C02_map_entry_extra_refuted.
(* an unknown field inside a wrapper payload: the bare scalar cannot carry it *)
Theorem C02_wrapper_unknown_refuted : lim_differs [x42; x04; x08; x03; x18; x01].
Proof. lim_witness [x42; x04; x08; x03; x18; x01]. Qed.
Print Assumptions C02_wrapper_unknown_refuted.
(* a Timestamp with nanos = 1: datetime holds microseconds *)
Theorem C02_timestamp_inexact_refuted : lim_differs [x4a; x04; x08; x01; x10; x01].
Proof. lim_witness [x4a; x04; x08; x01; x10; x01]. Qed.
Print Assumptions C02_timestamp_inexact_refuted.
(* a varint of 33 bits on a uint32 value: the reference keeps the low 32 bits *)
Theorem C02_wide_varint_refuted : lim_differs [x42; x06; x08; xff; xff; xff; xff; x1f].
Proof. lim_witness [x42; x06; x08; xff; xff; xff; xff; x1f]. Qed.
Print Assumptions C02_wide_varint_refuted.

(* ---- exactness of [enc_faithful] (besides -0.0, above): the conjuncts that can fail for a c01_value_ok message ---- *)
Definition pp_ := PPlaceholder.
Definition faith_differs (m : obj) : Prop :=
  c01_schema_ok ex_sc = true /\ c01_value_ok ex_sc m = true /\ enc_faithful ex_sc m = false /\
  cv_eqb (cv_of_aval (abs_obj ex_sc (norm_obj ex_sc m))) (cv_of_aval (abs_obj ex_sc m)) = false.
(* a plain Timestamp field at the epoch is not written (datetime has no presence) *)
Theorem C02_encode_denotes_epoch_refuted :
  faith_differs (Obj 11 [PInt 5; pp_; pp_; pp_; pp_; pp_; pp_; pp_; PDatetime 0] true [] [None]).
Proof. vm_compute. repeat split. Qed.
Print Assumptions C02_encode_denotes_epoch_refuted.
(* K12: a plain sub-message with content but _serialized_on_wire down is written although betterproto reports it unset *)
Theorem C02_encode_denotes_k12_refuted :
  faith_differs (Obj 11 [PInt 5; pp_; pp_; pp_; pp_;
                         PMsg (Obj 11 [PInt 1; pp_; pp_; pp_; pp_; pp_; pp_; pp_; pp_] false [] [None]);
                         pp_; pp_; pp_] true [] [None]).
Proof. vm_compute. repeat split. Qed.
Print Assumptions C02_encode_denotes_k12_refuted.

(* ---- non-vacuity of the gap theorems (class 11 of ex_sc: a = 1 int32, r = 2 repeated int32, oneof {s = 3, n = 4},
        m = 5 map, u = 6 message, e = 7 enum, w = 8 wrapper, t = 9 Timestamp) ---- *)
Definition ex_fs := cfields (get_class ex_sc 11).

Example C02_decode_refines_depth_nonvacuous :
  match parse_wire ex_bs with
  | Some rs => (length ex_bs < 100)%nat /\ is_some (sem 100 ex_sc 11 rs) = true /\ supported 100 ex_sc 11 rs = true
  | None => False
  end.
Proof. vm_compute. repeat split; repeat constructor. Qed.

(* the same records with the value of a padded (08 85 00) and canonical (08 05) *)
Example C02_same_records_nonvacuous :
  parse_wire [x08; x85; x00; x10; x03] = parse_wire [x08; x05; x10; x03] /\
  parse_wire [x08; x05; x10; x03] = Some [(1, Varint 5); (2, Varint 3)] /\
  sem 9 ex_sc 11 [(1, Varint 5); (2, Varint 3)] <> None /\ supported 9 ex_sc 11 [(1, Varint 5); (2, Varint 3)] = true.
Proof. vm_compute. repeat split; discriminate. Qed.

Example C02_sem_reorder_nonvacuous :
  indep ex_sc ex_fs (1, Varint 5) (2, Varint 3) = true /\
  indep ex_sc ex_fs (3, Len [x41]) (4, Varint 7) = false /\            (* members of one oneof group stay in order *)
  indep ex_sc ex_fs (75, Varint 1) (76, Varint 1) = false /\           (* so do unknown fields *)
  reorder ex_sc ex_fs ([(9, Len [x08; x01])] ++ (1, Varint 5) :: (2, Varint 3) :: [(75, Varint 1)])
                      ([(9, Len [x08; x01])] ++ (2, Varint 3) :: (1, Varint 5) :: [(75, Varint 1)]) /\
  sem 9 ex_sc 11 [(9, Len [x08; x01]); (1, Varint 5); (2, Varint 3); (75, Varint 1)] <> None.
Proof.
  split; [vm_compute; reflexivity|]. split; [vm_compute; reflexivity|]. split; [vm_compute; reflexivity|].
  split; [apply ro_swap; vm_compute; reflexivity | vm_compute; discriminate].
Qed.

Example C02_sem_unknown_insert_nonvacuous :
  slot ex_sc ex_fs (75, Varint 1) = None /\ slot ex_sc ex_fs (1, Fixed32 [x00; x00; x00; x00]) = None /\
  sem 9 ex_sc 11 ([(1, Varint 5)] ++ [(2, Varint 3)]) <> None.
Proof. vm_compute. repeat split; discriminate. Qed.

Example C02_sem_duplicate_scalar_nonvacuous :
  slot ex_sc ex_fs (1, Varint 9) = Some (0%nat, nth 0 ex_fs (plain_field [] 2 TBytes)) /\
  singular_scalar (nth 0 ex_fs (plain_field [] 2 TBytes)) = true /\
  is_some (scalar_of TInt32 (Varint 9)) = true /\
  later_for ex_sc ex_fs 0 [(2, Varint 3); (1, Varint 5)] = true /\
  sem 9 ex_sc 11 ([] ++ (1, Varint 9) :: [(2, Varint 3); (1, Varint 5)]) <> None /\
  singular_scalar (nth 2 ex_fs (plain_field [] 2 TBytes)) = false.         (* a oneof member is not covered by this theorem *)
Proof. vm_compute. repeat split; discriminate. Qed.

(* r = [1, 2] packed in one chunk  ~  element 1 unpacked, then a packed chunk with element 2 as a padded varint *)
Example C02_sem_repeated_rewrite_nonvacuous :
  let f := nth 1 ex_fs (plain_field [] 2 TBytes) in
  let mid := [(2, Len [x01; x02])] in
  let mid' := [(2, Varint 1); (2, Len [x82; x00])] in
  all_slot ex_sc ex_fs 1 f mid /\ all_slot ex_sc ex_fs 1 f mid' /\ card_of f = Repeated /\
  (forall nested, elems_all nested f mid = elems_all nested f mid') /\
  (forall nested, elems_all nested f mid = Some [AInt 1; AInt 2]) /\
  sem 9 ex_sc 11 ([(1, Varint 5)] ++ mid ++ [(2, Varint 3)]) <> None.
Proof.
  cbv zeta. split; [intros r [<-|[]]; vm_compute; reflexivity|].
  split; [intros r [<-|[<-|[]]]; vm_compute; reflexivity|].
  split; [vm_compute; reflexivity|]. split; [intros nested; vm_compute; reflexivity|].
  split; [intros nested; vm_compute; reflexivity | vm_compute; discriminate].
Qed.

(* bytes(m) = 08 05 12 02 01 02 (a = 5, r = [1, 2] packed) against r unpacked first, then a as a padded varint *)
Definition ex_small : obj := Obj 11 [PInt 5; PList [PInt 1; PInt 2]; pp_; pp_; pp_; pp_; pp_; pp_; pp_] true [] [None].
Definition ex_small_alt : list byte := [x10; x01; x10; x02; x08; x85; x00].
Example C02_alt_of_encoding_nonvacuous :
  c01_schema_ok ex_sc = true /\ c01_value_ok ex_sc ex_small = true /\ enc_faithful ex_sc ex_small = true /\
  enc_obj ex_sc ex_small = Ok [x08; x05; x12; x02; x01; x02] /\
  parse_wire ex_small_alt = Some [(2, Varint 1); (2, Varint 2); (1, Varint 5)] /\
  supported 9 ex_sc 11 [(2, Varint 1); (2, Varint 2); (1, Varint 5)] = true /\
  (forall rs, wire_ok [x08; x05; x12; x02; x01; x02] rs ->
              sem 9 ex_sc 11 [(2, Varint 1); (2, Varint 2); (1, Varint 5)] = sem 9 ex_sc 11 rs) /\
  sem 9 ex_sc 11 [(2, Varint 1); (2, Varint 2); (1, Varint 5)] = Some (abs_obj ex_sc ex_small).
Proof.
  split; [vm_compute; reflexivity|]. split; [vm_compute; reflexivity|]. split; [vm_compute; reflexivity|].
  split; [vm_compute; reflexivity|]. split; [vm_compute; reflexivity|]. split; [vm_compute; reflexivity|].
  split; [|vm_compute; reflexivity].
  intros rs W. apply C02_wire_ok_parse in W. vm_compute in W. injection W as <-. vm_compute. reflexivity.
Qed.

Example C02_spec_legal_is_valid_nonvacuous :
  has_builtins ex_sc /\ entries_agree ex_sc = true.
Proof. split; [eexists; reflexivity | vm_compute; reflexivity]. Qed.

Example C02_encode_legal_reachable_nonvacuous :
  let ops := [OConstruct [(0%nat, PInt 5); (1%nat, PList [PInt 1; PInt 2])]; OBase (OSet [] 3 (PInt 7));
              OBase (OParse [x10; x03; x32; x02; x08; x01])] in
  hist_ok op_value_ok_p ex_sc (new ex_sc 11) ops = true /\
  match run7 ex_sc (new ex_sc 11) ops with
  | Ok m => match enc_obj ex_sc m with Ok bs => (8 < length bs)%nat | Err _ => False end
  | Err _ => False
  end.
Proof. vm_compute. repeat split; repeat constructor. Qed.

(* ---- (c3) (c2) the two named instances of C02_sem_repeated_rewrite, for every packable type and every payload ---- *)
From BP Require Import Proofs.C02GapD.

(* the elements of a packed payload b1 ++ b2 whose first part is a whole number of elements *)
Theorem C02_unpack_app : forall t b1 b2 l1,
  unpack t b1 = Some l1 -> unpack t (b1 ++ b2) = (let? l2 := unpack t b2 in Some (l1 ++ l2)).
Proof. exact unpack_app. Qed.
Print Assumptions C02_unpack_app.

(* a packed record split into two chunks at an element boundary (iterate for more chunks) *)
Theorem C02_sem_chunk_split : forall n sc c pre num b1 b2 post i f,
  slot sc (cfields (get_class sc c)) (num, Len (b1 ++ b2)) = Some (i, f) ->
  card_of f = Repeated -> packable (fty f) = true -> is_some (unpack (fty f) b1) = true ->
  sem n sc c (pre ++ (num, Len (b1 ++ b2)) :: post) = sem n sc c (pre ++ (num, Len b1) :: (num, Len b2) :: post).
Proof. exact sem_chunk_split. Qed.
Print Assumptions C02_sem_chunk_split.

(* one packed record against any non-empty run of records of the field with the same elements (all unpacked, mixed,
   chunked, elements as padded varints) *)
Theorem C02_sem_packed_toggle : forall n sc c pre num b mid' post i f l,
  slot sc (cfields (get_class sc c)) (num, Len b) = Some (i, f) ->
  card_of f = Repeated -> packable (fty f) = true -> unpack (fty f) b = Some l ->
  all_slot sc (cfields (get_class sc c)) i f mid' -> mid' <> [] ->
  (forall nested, elems_all nested f mid' = Some l) ->
  sem n sc c (pre ++ (num, Len b) :: post) = sem n sc c (pre ++ mid' ++ post).
Proof. exact sem_packed_toggle. Qed.
Print Assumptions C02_sem_packed_toggle.

Example C02_sem_chunk_split_nonvacuous :
  let f := nth 1 ex_fs (plain_field [] 2 TBytes) in
  slot ex_sc ex_fs (2, Len ([x01; x82; x00] ++ [x03])) = Some (1%nat, f) /\ card_of f = Repeated /\
  packable (fty f) = true /\ unpack (fty f) [x01; x82; x00] = Some [AInt 1; AInt 2] /\
  unpack (fty f) [x01; x82] = None /\                                   (* a split inside an element is not a chunk split *)
  sem 9 ex_sc 11 ([(1, Varint 5)] ++ (2, Len ([x01; x82; x00] ++ [x03])) :: []) <> None.
Proof. vm_compute. repeat split; discriminate. Qed.

Example C02_sem_packed_toggle_nonvacuous :
  let f := nth 1 ex_fs (plain_field [] 2 TBytes) in
  let mid' := [(2, Varint 1); (2, Varint 2); (2, Varint 3)] in
  unpack (fty f) [x01; x02; x03] = Some [AInt 1; AInt 2; AInt 3] /\
  all_slot ex_sc ex_fs 1 f mid' /\ (forall nested, elems_all nested f mid' = Some [AInt 1; AInt 2; AInt 3]).
Proof.
  cbv zeta. split; [vm_compute; reflexivity|].
  split; [intros r [<-|[<-|[<-|[]]]]; vm_compute; reflexivity | intros nested; vm_compute; reflexivity].
Qed.

(* ---- exactness of the side conditions of the re-encoding theorems ---- *)
(* "valid by itself" in C02_sem_duplicate_scalar: an earlier occurrence with invalid UTF-8 makes the reference reject
   the message although a later, valid occurrence overrides it (class 12 of ex_sc: k = 1 string) *)
Theorem C02_sem_duplicate_invalid_refuted :
  exists sc c pre r post i f n,
    slot sc (cfields (get_class sc c)) r = Some (i, f) /\ singular_scalar f = true /\
    later_for sc (cfields (get_class sc c)) i post = true /\
    is_some (scalar_of (fty f) (snd r)) = false /\
    sem n sc c (pre ++ r :: post) = None /\ is_some (sem n sc c (pre ++ post)) = true.
Proof.
  exists ex_sc, 12%nat, [], (1, Len [xff]), [(1, Len [x41])], 0%nat,
         (nth 0 (cfields (get_class ex_sc 12)) (plain_field [] 2 TBytes)), 9%nat.
  vm_compute. repeat split.
Qed.
Print Assumptions C02_sem_duplicate_invalid_refuted.

(* [indep] in C02_sem_reorder: two members of one oneof group do not commute (the last one wins) *)
Theorem C02_sem_reorder_oneof_refuted :
  exists sc c r1 r2 n,
    indep sc (cfields (get_class sc c)) r1 r2 = false /\
    cv_eqb (cv_of_aval_opt (sem n sc c [r1; r2])) (cv_of_aval_opt (sem n sc c [r2; r1])) = false.
Proof. exists ex_sc, 11%nat, (3, Len [x41]), (4, Varint 7), 9%nat. vm_compute. repeat split. Qed.
Print Assumptions C02_sem_reorder_oneof_refuted.

(* oneof members, last one wins: an instance (the general theorem for oneof groups is not proved - see the report) *)
Example C02_sem_oneof_last_wins_instance :
  fields_of (sem 9 ex_sc 11 [(3, Len [x41]); (4, Varint 7)]) = fields_of (sem 9 ex_sc 11 [(4, Varint 7)]) /\
  fields_of (sem 9 ex_sc 11 [(4, Varint 1); (3, Len [x41]); (4, Varint 7)]) = fields_of (sem 9 ex_sc 11 [(4, Varint 7)]) /\
  fields_of (sem 9 ex_sc 11 [(4, Varint 7)]) <> None.
Proof. vm_compute. repeat split; discriminate. Qed.
