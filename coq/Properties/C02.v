(* C02 — wire interoperability: betterproto's decoder refines the wire-format specification
   (Spec/Wire.v) on every legal byte string; its encoder emits a legal encoding of the
   message it holds.  Theorems are added below as they are proved. *)
From BP Require Import Base.Prelude Model.Types Model.Object Model.Decode Spec.Wire Proofs.C02Abs.
