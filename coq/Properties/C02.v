(* C02 — wire interoperability with the reference implementation, every legal alternative encoding.

   Spec/Wire.v (L0) says what a byte string means as a proto3 message of a schema: records
   ([wire_ok] / [parse_wire], padded varints included), and the denotation [sem] of a record list
   (last-wins scalars, oneof groups, repeated fields in any mix of packed chunks and single elements,
   map entries merged by key, unknown fields kept in order, nested messages by recursion).  The harness
   validates it against google.protobuf on every run (tie T3).

   The theorems say that betterproto's decoder — the Gallina mirror Model/Decode.v, tied to the code by
   tie T2 — computes exactly that denotation on EVERY legal byte string: every permutation, packing
   toggle, chunk split, varint padding, duplicate and interleaved unknown field is just another record
   list.  [supported] (Proofs/C02Abs.v) names the scope limits; none of them is in C02's list of
   alternative encodings, each is witnessed below and in corpus/C02.json. *)
From BP Require Import Base.Prelude Model.Types Model.Varint Model.Object Model.Decode Model.WellFormed Model.Canon.
From BP Require Import Spec.Varint Spec.Wire.
From BP Require Import Model.Encode Proofs.C02Abs Proofs.C02WireP Proofs.C02FinalP Proofs.C02EncP.
From BP Require Import Model.C01Def Proofs.C02LegalMain Proofs.C02LegalFaith3.

(* ---- framing layer: the relation and the function of the specification agree ---- *)
Theorem C02_wire_ok_parse : forall bs rs, wire_ok bs rs -> parse_wire bs = Some rs.
Proof. exact wire_ok_parse. Qed.
Print Assumptions C02_wire_ok_parse.

Theorem C02_parse_wire_sound : forall bs rs, parse_wire bs = Some rs -> wire_ok bs rs.
Proof. exact parse_wire_sound. Qed.
Print Assumptions C02_parse_wire_sound.

(* serialisations concatenate: the basis of "merge = parse the concatenation" and of unknown-field storage *)
Theorem C02_parse_wire_app : forall a ra b rb,
  parse_wire a = Some ra -> parse_wire b = Some rb -> parse_wire (a ++ b) = Some (ra ++ rb).
Proof. exact parse_wire_app. Qed.
Print Assumptions C02_parse_wire_app.

(* ---- betterproto's field reader agrees with the specification record by record, groups included;
        ParsedField.raw is exactly the bytes the record occupied ---- *)
Theorem C02_reader_agrees : forall a r fuel rest,
  rec_ok a r -> (length a <= fuel)%nat ->
  exists tb rest1,
    load_varint (a ++ rest) = Ok (fst r * 8 + wt_of (snd r), tb, rest1) /\
    load_field fuel rest1 (fst r * 8 + wt_of (snd r)) tb = Ok (parsed_of r a, rest).
Proof. exact model_reads_record. Qed.
Print Assumptions C02_reader_agrees.

(* ---- the decoder refines the specification on every legal byte string ---- *)
Theorem C02_decode_refines : forall sc c bs rs a,
  wf_schema sc = true -> builtins_std sc = true ->
  parse_wire bs = Some rs ->
  sem (S (length bs)) sc c rs = Some a ->
  supported (S (length bs)) sc c rs = true ->
  exists m', parse sc c bs = Ok m' /\ abs_obj sc m' = a.
Proof. exact decode_refines. Qed.
Print Assumptions C02_decode_refines.

Theorem C02_decode_refines_rel : forall sc c bs rs a,
  wf_schema sc = true -> builtins_std sc = true ->
  wire_ok bs rs ->
  sem (S (length bs)) sc c rs = Some a ->
  supported (S (length bs)) sc c rs = true ->
  exists m', parse sc c bs = Ok m' /\ abs_obj sc m' = a.
Proof. exact decode_refines_rel. Qed.
Print Assumptions C02_decode_refines_rel.

(* ---- encoder side: every message betterproto writes is a LEGAL proto3 serialisation (record grammar of the
        independent specification: canonical tags and lengths of at most five bytes, canonical value varints) whose
        denotation under the specification is the message itself, and which lies inside [supported] - so
        C02_decode_refines applies to it and the reference reads it as that message.
   Hypotheses (the ones of C01_roundtrip, all decidable, all evaluated on every generated case by the checks):
     c01_schema_ok sc  = wf_schema + the first classes ARE the bundled ones + a map's Entry class is annotated like the map;
     c01_value_ok sc m = in_range (ints in the declared range, valid UTF-8, float32 fields float32-representable or NaN,
                         datetimes / timedeltas in range) + recursively: a oneof member other than the selected one holds
                         PLACEHOLDER, _group_current names members of its own group, no unknown bytes, dict keys distinct;
     Zlength bs < 2^35 : the record grammar allows length prefixes of at most five bytes ([tag_max]), i.e. payloads below
                         2^35 bytes (real implementations stop at 2 GiB; no Python object gets near either).
   The denotation is stated as abs_obj (norm_obj m): [norm_obj] (Model/C01Def.v) is the closed form of the decoded object
   (C01_roundtrip: parse (enc_obj m) = norm_obj m), i.e. m with float32 fields rounded to float32, values equal to their
   default dropped and _serialized_on_wire raised - what the bytes can say about m.
   Covers nested and recursive messages, packed and unpacked repeated fields, maps (entries without unknown fields), oneofs
   (one member per group, the selected member written even when default), proto3 optional, wrappers, Timestamp / Duration
   (exact (seconds, nanos) pairs), float32 (four bytes whatever the rounding), 32-bit varints (never wider than 32 bits),
   a singular message field written at most once. ---- *)
Theorem C02_encode_legal : forall sc m,
  c01_schema_ok sc = true -> c01_value_ok sc m = true ->
  exists bs, enc_obj sc m = Ok bs /\
    (Zlength bs < 2 ^ 35 ->
     exists rs a, parse_wire bs = Some rs /\
       sem (S (length bs)) sc (ocls m) rs = Some a /\ a = abs_obj sc (norm_obj sc m) /\
       supported (S (length bs)) sc (ocls m) rs = true).
Proof. exact c02_encode_legal. Qed.
Print Assumptions C02_encode_legal.

(* the same in relational form, at every nesting depth the byte string can need *)
Theorem C02_encode_legal_rel : forall sc m bs,
  c01_schema_ok sc = true -> c01_value_ok sc m = true -> enc_obj sc m = Ok bs -> Zlength bs < 2 ^ 35 ->
  exists rs, wire_ok bs rs /\
    forall n, (length bs < n)%nat ->
      sem n sc (ocls m) rs = Some (abs_obj sc (norm_obj sc m)) /\ supported n sc (ocls m) rs = true.
Proof. exact c02_encode_legal_rel. Qed.
Print Assumptions C02_encode_legal_rel.

(* ---- ... and that denotation is the message ITSELF when the object state holds no more than its bytes can say:
        [enc_faithful] (Proofs/C02Abs.v, decidable, evaluated on every generated case) = in_range + recursively: unknown
        bytes parse, no -0.0 in a float/double field without presence or inside a wrapper (it equals the default and is
        skipped), float32 fields hold float32 values (anything else is rounded on the wire), a plain Timestamp/Duration
        field is not at the epoch / zero (datetime has no presence), a plain sub-message with non-default content has
        _serialized_on_wire up (K12 of C06), dict keys unique.  Then abs_obj (norm_obj m) = abs_obj m. ---- *)
Theorem C02_decoded_denotes_message : forall sc m,
  c01_schema_ok sc = true -> c01_value_ok sc m = true -> enc_faithful sc m = true ->
  abs_obj sc (norm_obj sc m) = abs_obj sc m.
Proof. exact c02_norm_abs. Qed.
Print Assumptions C02_decoded_denotes_message.

(* C02_encode_legal of the design: wire_ok (enc m) rs /\ sem rs = abs m *)
Theorem C02_encode_denotes : forall sc m,
  c01_schema_ok sc = true -> c01_value_ok sc m = true -> enc_faithful sc m = true ->
  exists bs, enc_obj sc m = Ok bs /\
    (Zlength bs < 2 ^ 35 ->
     exists rs, parse_wire bs = Some rs /\
       sem (S (length bs)) sc (ocls m) rs = Some (abs_obj sc m) /\
       supported (S (length bs)) sc (ocls m) rs = true).
Proof. exact c02_encode_denotes. Qed.
Print Assumptions C02_encode_denotes.

(* ---- the leaf layer of the above on its own (kept from before the message-level theorem was proved; subsumed by it
        for fields of a message, but stated for any field number and value on its own): the record _serialize_single
        writes for an in-range scalar is a legal record and denotes that value.  float32 is covered by C02_encode_legal. ---- *)
Theorem C02_encode_scalar_legal_partial : forall msg num t v se bs,
  1 <= num < 2 ^ 29 -> scalar_in_range t v = true -> t <> TFloat ->
  (forall s, v = PStr s \/ v = PBytes s -> Zlength s < 2 ^ 31) ->
  serialize_with msg num t v se None = Ok bs ->
  (bs = [] /\ se = false /\ (v = PStr [] \/ v = PBytes [])) \/
  exists p, rec_ok bs (num, p) /\ scalar_of t p = Some (abs_scalar v) /\
            (match p with Len _ => packable t = false | _ => True end).
Proof. exact enc_scalar_record. Qed.
Print Assumptions C02_encode_scalar_legal_partial.

(* ---- non-vacuity and scope limits ---- *)
Definition s_ (l : list byte) := l.
Definition ex_sc : schema :=
  mkS (builtin_classes ++
       [mkC [mkF [x61] 1 TInt32 None None None false (HPlain PyInt) 0;
             mkF [x72] 2 TInt32 None None None false (HList PyInt) 0;
             mkF [x73] 3 TString None (Some 0%nat) None false (HPlain PyStr) 0;
             mkF [x6e] 4 TInt64 None (Some 0%nat) None false (HPlain PyInt) 0;
             mkF [x6d] 5 TMap (Some (TString, TInt32)) None None false (HDict PyStr PyInt) 12;
             mkF [x75] 6 TMessage None None None false (HPlain (PyMsg 11)) 0;
             mkF [x65] 7 TEnum None None None false (HPlain (PyEnum 0)) 0;
             mkF [x77] 8 TMessage None None (Some TUInt32) false (HOptional PyInt) 0;
             mkF [x74] 9 TMessage None None None false (HPlain PyDatetime) 0] 1;
        mkC [mkF [x6b] 1 TString None None None false (HPlain PyStr) 0;
             mkF [x76] 2 TInt32 None None None false (HPlain PyInt) 0] 0])
      [mkE [([x5a], 0); ([x4e], -1)]].

(* a = 5; r = [1,2] packed, 3 unpacked, [4] packed; oneof: s = "A" then n = 7; m = {"k": 9}; u = {a = 1};
   unknown field 9...; a again as a padded varint; e = -1 (ten-byte varint); w = 3; t = 1 s *)
Definition ex_bs : list byte :=
  [x08; x05; x12; x02; x01; x02; x10; x03; x12; x01; x04; x1a; x01; x41; x20; x07;
   x2a; x05; x0a; x01; x6b; x10; x09; x32; x02; x08; x01; xd8; x04; x01;
   x08; x86; x80; x00; x38; xff; xff; xff; xff; xff; xff; xff; xff; xff; x01;
   x42; x02; x08; x03; x4a; x02; x08; x01].

Example C02_nonvacuous :
  wf_schema ex_sc = true /\ builtins_std ex_sc = true /\
  supported_bytes ex_sc 11 ex_bs = true /\
  cv_eqb (cv_of_aval_opt (sem_bytes ex_sc 11 ex_bs)) (cv_abs_res ex_sc (parse ex_sc 11 ex_bs)) = true /\
  sem_bytes ex_sc 11 ex_bs =
    Some (AMsg [AInt 6; AList [AInt 1; AInt 2; AInt 3; AInt 4]; ANone; ASome (AInt 7);
                AMap [(AStr [x6b], AInt 9)];
                ASome (AMsg [AInt 1; AList []; ANone; ANone; AMap []; ANone; AInt 0; ANone; ANone] []);
                AInt (-1); ASome (AMsg [AInt 3] []); ASome (AMsg [AInt 1; AInt 0] [])]
               [(75, Varint 1)]).
Proof. vm_compute. repeat split. Qed.

Example C02_encode_scalar_nonvacuous :
  serialize_with no_msg 16 TSInt32 (PInt (-3)) false None = Ok [x80; x01; x05] /\
  scalar_in_range TSInt32 (PInt (-3)) = true /\
  parse_wire [x80; x01; x05] = Some [(16, Varint 5)] /\ scalar_of TSInt32 (Varint 5) = Some (AInt (-3)).
Proof. vm_compute. repeat split. Qed.

(* a message that uses every field of ex_sc: a = 5; r = [1,-2] (packed); oneof: n = 7 selected, s unselected;
   m = {"k": 9}; u = {a = 1}; e = -1; w = 3 (wrapper); t = 1 s *)
Definition ex_inner : obj :=
  Obj 11 [PInt 1; PPlaceholder; PPlaceholder; PPlaceholder; PPlaceholder; PPlaceholder; PPlaceholder; PPlaceholder; PPlaceholder]
      true [] [None].
Definition ex_msg : obj :=
  Obj 11 [PInt 5; PList [PInt 1; PInt (-2)]; PPlaceholder; PInt 7; PDict [(PStr [x6b], PInt 9)]; PMsg ex_inner;
          PInt (-1); PInt 3; PDatetime 1000000]
      true [] [Some 3%nat].
Example C02_encode_legal_nonvacuous :
  c01_schema_ok ex_sc = true /\ c01_value_ok ex_sc ex_msg = true /\
  match enc_obj ex_sc ex_msg with
  | Ok bs =>
      (Zlength bs <? 2 ^ 35) = true /\ (40 <? length bs)%nat = true /\
      match parse_wire bs with
      | Some rs =>
          length rs = 8%nat /\
          sem (S (length bs)) ex_sc 11 rs = Some (abs_obj ex_sc (norm_obj ex_sc ex_msg)) /\
          supported (S (length bs)) ex_sc 11 rs = true
      | None => False
      end
  | Err _ => False
  end.
Proof. vm_compute. repeat split. Qed.

(* enc_faithful is needed for "the message itself": -0.0 in a double field without presence equals the default, is
   skipped by the encoder and comes back as +0.0 (a note of C16, not a finding: the two are equal under ==) *)
Definition nz_sc : schema := mkS (builtin_classes ++ [mkC [mkF [x64] 1 TDouble None None None false (HPlain PyFloat) 0] 0]) [].
Definition nz_msg : obj := Obj 11 [PFloat 9223372036854775808] true [] [].
Theorem C02_encode_denotes_unfaithful_refuted :
  exists sc m, c01_schema_ok sc = true /\ c01_value_ok sc m = true /\ enc_faithful sc m = false /\
    cv_eqb (cv_of_aval (abs_obj sc (norm_obj sc m))) (cv_of_aval (abs_obj sc m)) = false.
Proof. exists nz_sc, nz_msg. vm_compute. repeat split. Qed.
Print Assumptions C02_encode_denotes_unfaithful_refuted.

Example C02_encode_denotes_nonvacuous :
  enc_faithful ex_sc ex_msg = true /\
  match enc_obj ex_sc ex_msg with
  | Ok bs => match parse_wire bs with
             | Some rs => sem (S (length bs)) ex_sc 11 rs = Some (abs_obj ex_sc ex_msg)
             | None => False
             end
  | Err _ => False
  end.
Proof. vm_compute. repeat split. Qed.

(* The scope limits are real: without [supported] the statement fails on the current tree.
   Witness: a singular message field occurring twice — the reference (and sem) merge the two occurrences,
   betterproto keeps the last one. *)
Definition merge_bs : list byte := [x32; x02; x08; x01; x32; x02; x10; x02].      (* u = {a = 1}, then u = {r = [2]} *)
Definition merge_rs : list record := match parse_wire merge_bs with Some rs => rs | None => [] end.
Definition merge_sem : aval := match sem (S (length merge_bs)) ex_sc 11 merge_rs with Some a => a | None => ANone end.
Definition merge_obj : obj := match parse ex_sc 11 merge_bs with Ok m => m | Err _ => new ex_sc 11 end.
Theorem C02_decode_refines_unrestricted_refuted :
  exists sc c bs rs a m',
    wf_schema sc = true /\ builtins_std sc = true /\ parse_wire bs = Some rs /\
    sem (S (length bs)) sc c rs = Some a /\ parse sc c bs = Ok m' /\
    cv_eqb (cv_of_aval (abs_obj sc m')) (cv_of_aval a) = false /\ supported (S (length bs)) sc c rs = false.
Proof.
  exists ex_sc, 11%nat, merge_bs, merge_rs, merge_sem, merge_obj.
  vm_compute. repeat split.
Qed.
Print Assumptions C02_decode_refines_unrestricted_refuted.
