(* C07 — oneof exclusivity holds after any history of operations.

   Model: Model/Object.v (new / construct / getattr / setattr / which_one_of), Model/Encode.v (bytes),
   Model/Decode.v (parse), Model/History.v (copy / deepcopy / pickle / nested assignment / observers, [step], [run]),
   Model/C07Ops.v ([step7] / [run7]: construct-with-kwargs and from_dict as operations).
   Invariant [Inv] (Proofs/C07InvP.v), in observable terms: _group_current has one entry per group; for every group g,
     which_one_of = None   -> every member of g raises AttributeError and its raw attribute is the sentinel
     which_one_of = Some i -> i is a member of g, reading it succeeds, reading any other member raises AttributeError.
   No theorem below has a bound on the length of the history, on the schema (except where wf_schema is written) or on
   the values assigned (PLACEHOLDER, None, ill-typed and out-of-range values included). *)
From BP Require Import Base.Prelude Model.Types Model.Object Model.Eq Model.Encode Model.Decode.
From BP Require Import Model.History Model.C07Ops Model.C07Step Model.C07Wire Model.WellFormed.
From BP Require Import Proofs.C07InvP Proofs.C07LoadP Proofs.C07HistP Proofs.C07WireP Proofs.C07ParseP Proofs.C07EncP Proofs.C07ObsP.
From BP Require Import Proofs.C07ValP Model.Json Proofs.C07JsonP.

(* ---- the invariant: initial states ---- *)
Theorem C07_inv_init_new : forall sc c, Inv sc (new sc c).
Proof. exact inv_new. Qed.
Print Assumptions C07_inv_init_new.

Theorem C07_inv_init_construct : forall sc c kw, Inv sc (construct sc c kw).
Proof. exact inv_construct. Qed.
Print Assumptions C07_inv_init_construct.

Theorem C07_inv_init_from_dict : forall sc c kw, Inv sc (C07Ops.from_dict_cls sc c kw).
Proof. exact inv_from_dict_cls. Qed.
Print Assumptions C07_inv_init_from_dict.

Theorem C07_inv_init_parse : forall sc c bs o, parse sc c bs = Ok o -> Inv sc o.
Proof. exact inv_parse. Qed.
Print Assumptions C07_inv_init_parse.

(* ---- every operation preserves it ---- *)
Theorem C07_inv_step : forall sc o p o' x, Inv sc o -> step sc o p = Ok (o', x) -> Inv sc o'.
Proof. exact inv_step. Qed.
Print Assumptions C07_inv_step.

Theorem C07_inv_step7 : forall sc o p o' x, Inv sc o -> step7 sc o p = Ok (o', x) -> Inv sc o'.
Proof. exact inv_step7. Qed.
Print Assumptions C07_inv_step7.

(* ---- every finite history, and every prefix of it ---- *)
Theorem C07_inv_reachable : forall sc c ops o, run7 sc (new sc c) ops = Ok o -> Inv sc o.
Proof. exact inv_reachable. Qed.
Print Assumptions C07_inv_reachable.

Theorem C07_inv_run : forall sc ops o o', Inv sc o -> run7 sc o ops = Ok o' -> Inv sc o'.
Proof. exact inv_run7. Qed.
Print Assumptions C07_inv_run.

Theorem C07_inv_every_prefix : forall sc c ops o,
  run7 sc (new sc c) ops = Ok o ->
  forall k, exists ok, run7 sc (new sc c) (firstn k ops) = Ok ok /\ Inv sc ok.
Proof. exact inv_every_prefix. Qed.
Print Assumptions C07_inv_every_prefix.

(* ---- assigning a member always makes it the selected one — for ANY value, the default included ---- *)
Theorem C07_last_wins : forall sc o i v f g,
  Inv sc o ->
  nth_error (cfs sc o) i = Some f -> fgroup f = Some g -> (g < cngroups (get_class sc (ocls o)))%nat ->
  let o' := setattr sc o i v in
  which_one_of o' g = Some i /\
  (exists x, read sc o' i = Ok x) /\
  (forall j, j <> i -> member sc (ocls o) g j ->
     read sc o' j = Err EAttribute /\ nth j (oraw o') PPlaceholder = PPlaceholder) /\
  (forall g', g' <> g -> which_one_of o' g' = which_one_of o g') /\
  Inv sc o'.
Proof. exact last_wins. Qed.
Print Assumptions C07_last_wins.

Theorem C07_last_wins_step : forall sc o i v f g o' x,
  wf_schema sc = true -> Inv sc o ->
  nth_error (cfs sc o) i = Some f -> fgroup f = Some g ->
  step sc o (OSet [] i v) = Ok (o', x) ->
  which_one_of o' g = Some i.
Proof. exact last_wins_step. Qed.
Print Assumptions C07_last_wins_step.

(* ---- reads, nested assignments, assignments outside the group, copies and observers keep the selection ---- *)
Theorem C07_selection_kept : forall sc o p o' x g,
  step sc o p = Ok (o', x) ->
  match p with
  | OSet [] i _ => forall f, nth_error (cfs sc o) i = Some f -> fgroup f <> Some g
  | OParse _ | OPickle => False
  | _ => True
  end ->
  which_one_of o' g = which_one_of o g.
Proof. exact selection_kept. Qed.
Print Assumptions C07_selection_kept.

(* ---- the constructor selects the LAST member in declaration order that was given a value ---- *)
Theorem C07_constructor_selects_last : forall sc c raw g k f,
  length raw = length (cfields (get_class sc c)) -> (g < cngroups (get_class sc c))%nat ->
  nth_error (cfields (get_class sc c)) k = Some f -> fgroup f = Some g ->
  is_sentinel f (nth k raw PPlaceholder) = false ->
  (forall k' f', (k < k')%nat -> nth_error (cfields (get_class sc c)) k' = Some f' -> fgroup f' = Some g ->
                 is_sentinel f' (nth k' raw PPlaceholder) = true) ->
  which_one_of (post_init sc c raw) g = Some k.
Proof. exact post_init_selects_last. Qed.
Print Assumptions C07_constructor_selects_last.

(* ---- parse(): the selections are a fold over the records read, a record of a declared field with a fitting
        wire type selects that field in its group ---- *)
Theorem C07_parse_fold : forall sc o bs o',
  Inv sc o -> parse_into sc o bs = Ok o' ->
  exists ps, frames (length bs) (S (length bs)) bs = Ok ps /\
             ocur o' = fold_left (sel_record (get_class sc (ocls o))) ps (ocur o).
Proof. intros sc o bs o' H. apply parse_into_selections, InvS_of_Inv, H. Qed.
Print Assumptions C07_parse_fold.

(* ---- parse(), in terms of the records a schema-less reader sees (Model/C07Wire.v [records]):
        the selections after parse() are a fold over those records ---- *)
Theorem C07_parse_records : forall sc o bs rs o',
  Inv sc o -> records bs = Some rs -> parse_into sc o bs = Ok o' ->
  ocur o' = fold_left (sel_rec (get_class sc (ocls o))) rs (ocur o).
Proof. exact parse_records. Qed.
Print Assumptions C07_parse_records.

(* ... so the member of the LAST record that belongs to a member of g (any order, anything interleaved:
   rs1 and rs2 are arbitrary) is the selected one afterwards, and the others are hidden *)
Theorem C07_parse_last : forall sc o bs o' rs1 wt rs2 i f g,
  wf_schema sc = true -> Inv sc o ->
  nth_error (cfs sc o) i = Some f -> fgroup f = Some g -> wire_type_fits f wt = true ->
  records bs = Some (rs1 ++ (fnum f, wt) :: rs2) ->
  (forall r, In r rs2 -> ~ hits (get_class sc (ocls o)) g r) ->
  parse_into sc o bs = Ok o' ->
  which_one_of o' g = Some i /\
  (exists v, read sc o' i = Ok v) /\
  (forall j, j <> i -> member sc (ocls o) g j -> read sc o' j = Err EAttribute) /\
  Inv sc o'.
Proof. exact parse_last_wf. Qed.
Print Assumptions C07_parse_last.

(* ... and a group none of whose members occurs in the input keeps its selection *)
Theorem C07_parse_untouched : forall sc o bs o' rs g,
  Inv sc o -> records bs = Some rs ->
  (forall r, In r rs -> ~ hits (get_class sc (ocls o)) g r) ->
  parse_into sc o bs = Ok o' ->
  which_one_of o' g = which_one_of o g.
Proof. exact parse_untouched. Qed.
Print Assumptions C07_parse_untouched.

(* ---- observable exclusivity of the encoding: bytes(m) = body ++ unknown bytes, and among the records of
        body (schema-less reader) the field numbers of the members of g are: the selected member's number,
        present even when the member holds its default value, and no other member's; none at all when the
        group selects nothing.  Side condition: the selected member holds a value (not None, not a list, not a
        dict — no oneof member is optional, repeated or a map; C07_observable_needs_value shows it is needed). ---- *)
Theorem C07_observable : forall sc o bs,
  wf_schema sc = true -> Inv sc o -> selected_values_ok sc o -> enc_obj sc o = Ok bs ->
  exists body rs,
    bs = body ++ ounk o /\ records body = Some rs /\
    forall g, (g < cngroups (get_class sc (ocls o)))%nat ->
      match which_one_of o g with
      | Some i =>
          exists f, nth_error (cfs sc o) i = Some f /\ In (fnum f) (numbers rs) /\
                    forall j f', j <> i -> nth_error (cfs sc o) j = Some f' -> fgroup f' = Some g ->
                                 ~ In (fnum f') (numbers rs)
      | None =>
          forall j f', nth_error (cfs sc o) j = Some f' -> fgroup f' = Some g -> ~ In (fnum f') (numbers rs)
      end.
Proof. exact observable. Qed.
Print Assumptions C07_observable.

(* ... and the side condition is itself an invariant: after EVERY history over a well-formed schema whose operations
   assign values (not None / list / dict) to oneof members — [op_ok] constrains OSet on a member and the kwargs of
   construct / from_dict, nothing else; parse, pickle, copies, observers, nested assignments are unrestricted *)
Theorem C07_observable_reachable : forall sc c ops o bs,
  wf_schema sc = true -> Forall (op_ok sc c) ops -> run7 sc (new sc c) ops = Ok o -> enc_obj sc o = Ok bs ->
  exists body rs,
    bs = body ++ ounk o /\ records body = Some rs /\
    forall g, (g < cngroups (get_class sc (ocls o)))%nat ->
      match which_one_of o g with
      | Some i =>
          exists f, nth_error (cfs sc o) i = Some f /\ In (fnum f) (numbers rs) /\
                    forall j f', j <> i -> nth_error (cfs sc o) j = Some f' -> fgroup f' = Some g ->
                                 ~ In (fnum f') (numbers rs)
      | None =>
          forall j f', nth_error (cfs sc o) j = Some f' -> fgroup f' = Some g -> ~ In (fnum f') (numbers rs)
      end.
Proof. exact observable_reachable. Qed.
Print Assumptions C07_observable_reachable.

Theorem C07_selected_values_reachable : forall sc c ops o,
  wf_schema sc = true -> Forall (op_ok sc c) ops -> run7 sc (new sc c) ops = Ok o -> selected_values_ok sc o.
Proof. exact selected_values_reachable. Qed.
Print Assumptions C07_selected_values_reachable.

(* every chunk dump() writes for a field is a sequence of records of that field's number — whatever the value *)
Theorem C07_field_chunk : forall enc sc f sel v chunk,
  1 <= fnum f -> emit_field enc sc f sel v = Ok chunk ->
  exists rs, records chunk = Some rs /\ Forall (fun r => fst r = fnum f) rs.
Proof. exact field_chunk. Qed.
Print Assumptions C07_field_chunk.

(* ---- the JSON clauses, over the dict/JSON model of C04 (Model/Json.v): to_dict — both casings, include_default_values
        false AND true — holds the key of the selected member (also when it holds its default) and of no unselected member
        ([keys_distinct]: distinct fields have distinct keys under the casing; name collisions are C19's subject) ---- *)
Theorem C07_json_observable : forall cs incl sc o,
  wf_schema sc = true -> Inv sc o -> selected_values_ok sc o -> keys_distinct cs sc (ocls o) ->
  forall g, (g < cngroups (get_class sc (ocls o)))%nat ->
    match which_one_of o g with
    | Some i =>
        exists f, nth_error (cfs sc o) i = Some f /\ In (key_of_field cs f) (jkeys (to_dict cs incl sc o)) /\
                  forall j f', j <> i -> nth_error (cfs sc o) j = Some f' -> fgroup f' = Some g ->
                               ~ In (key_of_field cs f') (jkeys (to_dict cs incl sc o))
    | None =>
        forall j f', nth_error (cfs sc o) j = Some f' -> fgroup f' = Some g ->
                     ~ In (key_of_field cs f') (jkeys (to_dict cs incl sc o))
    end.
Proof. exact to_dict_observable. Qed.
Print Assumptions C07_json_observable.

Theorem C07_json_observable_reachable : forall cs incl sc c ops o,
  wf_schema sc = true -> Forall (op_ok sc c) ops -> run7 sc (new sc c) ops = Ok o -> keys_distinct cs sc (ocls o) ->
  forall g, (g < cngroups (get_class sc (ocls o)))%nat ->
    match which_one_of o g with
    | Some i =>
        exists f, nth_error (cfs sc o) i = Some f /\ In (key_of_field cs f) (jkeys (to_dict cs incl sc o)) /\
                  forall j f', j <> i -> nth_error (cfs sc o) j = Some f' -> fgroup f' = Some g ->
                               ~ In (key_of_field cs f') (jkeys (to_dict cs incl sc o))
    | None =>
        forall j f', nth_error (cfs sc o) j = Some f' -> fgroup f' = Some g ->
                     ~ In (key_of_field cs f') (jkeys (to_dict cs incl sc o))
    end.
Proof. exact to_dict_observable_reachable. Qed.
Print Assumptions C07_json_observable_reachable.

(* from_dict of the JSON model (JSON values converted by Message._from_dict_init as modelled by C04) *)
Theorem C07_inv_json_from_dict_cls : forall sc c j o, Json.from_dict_cls sc c j = Ok o -> Inv sc o.
Proof. exact json_from_dict_cls_inv. Qed.
Print Assumptions C07_inv_json_from_dict_cls.

Theorem C07_inv_json_from_dict_inst : forall sc o j o', Inv sc o -> Json.from_dict_inst sc o j = Ok o' -> Inv sc o'.
Proof. exact json_from_dict_inst_inv. Qed.
Print Assumptions C07_inv_json_from_dict_inst.

(* ---- non-vacuity ---- *)
Definition ex_sc : schema :=
  mkS (builtin_classes ++
       [mkC [mkF [x61] 1 TInt32 None (Some 0%nat) None false (HPlain PyInt) 0;
             mkF [x62] 2 TString None (Some 0%nat) None false (HPlain PyStr) 0;
             mkF [x63] 3 TMessage None (Some 0%nat) None false (HPlain (PyMsg 12)) 0;
             mkF [x74] 4 TInt32 None None None false (HPlain PyInt) 0;
             mkF [x64] 5 TBool None (Some 1%nat) None false (HPlain PyBool) 0;
             mkF [x65] 6 TSInt64 None (Some 1%nat) None false (HPlain PyInt) 0] 2;
        mkC [mkF [x78] 1 TInt32 None None None false (HPlain PyInt) 0] 0]) [].

Example C07_ex_wf : wf_schema ex_sc = true.
Proof. vm_compute. reflexivity. Qed.

(* construct with two members of one group, assign a default, observe, parse three members, copy, pickle, from_dict *)
Definition ex_ops : list op7 :=
  [OConstruct [(0%nat, PInt 5); (1%nat, PStr [x78])];
   OBase (OSet [] 0 (PInt 0));
   OBase OBytes;
   OBase (OParse [x08; x01; x1a; x00; x12; x01; x78; x28; x00]);
   OBase OCopy; OBase ODeepcopy; OBase OPickle;
   OFromDictInst [(2%nat, PMsg (new ex_sc 12)); (5%nat, PInt 0)];
   OBase (OSet [2%nat] 0 (PInt 7))].

Example C07_ex_history :
  match run7 ex_sc (new ex_sc 11) ex_ops with
  | Ok o => which_one_of o 0 = Some 2%nat /\ which_one_of o 1 = Some 5%nat /\
            read ex_sc o 0 = Err EAttribute /\ read ex_sc o 1 = Err EAttribute /\
            enc_obj ex_sc o = Ok [x1a; x02; x08; x07; x30; x00]
  | Err _ => False
  end.
Proof. vm_compute. repeat split. Qed.

(* after the second op (a = 0, the default) the group selects a, b is reset, and a is on the wire *)
Example C07_ex_default_assignment :
  match run7 ex_sc (new ex_sc 11) (firstn 2 ex_ops) with
  | Ok o => which_one_of o 0 = Some 0%nat /\ read ex_sc o 0 = Ok (PInt 0) /\ read ex_sc o 1 = Err EAttribute /\
            nth 1 (oraw o) PNone = PPlaceholder /\ enc_obj ex_sc o = Ok [x08; x00]
  | Err _ => False
  end.
Proof. vm_compute. repeat split. Qed.

(* the constructor with two members keeps both raw values and hides the loser *)
Example C07_ex_constructor_two_members :
  let o := construct ex_sc 11 [(0%nat, PInt 5); (1%nat, PStr [x78])] in
  oraw o = [PInt 5; PStr [x78]; PPlaceholder; PPlaceholder; PPlaceholder; PPlaceholder] /\
  which_one_of o 0 = Some 1%nat /\ read ex_sc o 0 = Err EAttribute /\ enc_obj ex_sc o = Ok [x12; x01; x78].
Proof. vm_compute. repeat split. Qed.

(* wire-level examples on the same schema: a = 1, c = Leaf(), b = "x" in one input: b (the last) wins *)
Example C07_ex_parse_last :
  records [x08; x01; x1a; x00; x12; x01; x78; x28; x00] = Some [(1, 0); (3, 2); (2, 2); (5, 0)] /\
  match parse_into ex_sc (new ex_sc 11) [x08; x01; x1a; x00; x12; x01; x78; x28; x00] with
  | Ok o => which_one_of o 0 = Some 1%nat /\ which_one_of o 1 = Some 4%nat /\ read ex_sc o 0 = Err EAttribute
  | Err _ => False
  end.
Proof. vm_compute. repeat split. Qed.

(* the selected member is on the wire with its default value, the hidden constructor loser is not *)
Example C07_ex_observable :
  let o := setattr ex_sc (construct ex_sc 11 [(0%nat, PInt 5); (1%nat, PStr [x78]); (3%nat, PInt 9)]) 4 (PBool false) in
  enc_obj ex_sc o = Ok [x12; x01; x78; x20; x09; x28; x00] /\
  records [x12; x01; x78; x20; x09; x28; x00] = Some [(2, 2); (4, 0); (5, 0)].
Proof. vm_compute. repeat split. Qed.

(* the side condition of C07_observable is needed: a member assigned None is selected and emits nothing *)
Example C07_observable_needs_value :
  let o := setattr ex_sc (new ex_sc 11) 0 PNone in
  Inv ex_sc o /\ which_one_of o 0 = Some 0%nat /\ enc_obj ex_sc o = Ok [] /\ ~ selected_values_ok ex_sc o.
Proof.
  split; [apply inv_step with (o := new ex_sc 11) (p := OSet [] 0 PNone) (x := ONone); [apply inv_new | reflexivity]|].
  split; [reflexivity|]. split; [reflexivity|].
  intros H. apply (H 0%nat 0%nat). reflexivity.
Qed.

(* JSON: a = 0 assigned (default), t = 9: with include_default_values the keys are a, t (and no b, c, d, e);
   without it a is still there *)
Example C07_ex_json :
  let o := setattr ex_sc (setattr ex_sc (new ex_sc 11) 3 (PInt 9)) 0 (PInt 0) in
  jkeys (to_dict CAMEL true ex_sc o) = [[x61]; [x74]] /\ jkeys (to_dict CAMEL false ex_sc o) = [[x61]; [x74]] /\
  jkeys (to_dict SNAKE true ex_sc (new ex_sc 11)) = [[x74]].
Proof. vm_compute. repeat split. Qed.

(* the example history satisfies the hypothesis of the *_reachable theorems *)
Example C07_ex_ops_ok : Forall (op_ok ex_sc 11) ex_ops.
Proof.
  unfold ex_ops. repeat constructor; cbn [op_ok]; try exact I; try reflexivity;
    try (intros i v Hin _; cbn [In] in Hin;
         repeat match goal with H : _ \/ _ |- _ => destruct H end; try contradiction;
         match goal with H : (_, _) = (_, _) |- _ => injection H as <- <- end; reflexivity).
Qed.

(* ======================================================================================================================
   GAP CLOSING against the property text (clause-by-clause table: header of Proofs/C07GapA.v; new specification-side
   definitions: Model/C07GapDef.v - the last-writer tracker [track], [touches], the conditions [framed_op] / [pickle_ok_at]).
   ====================================================================================================================== *)
From BP Require Import Model.C01Def Model.C01Reach Model.C01Parse Model.C14Pickle Model.C07GapDef.
From BP Require Import Proofs.C07GapA Proofs.C07GapB.

(* ---- "at most one member of each oneof group is set" / "reading any other member raises": the converses.
        For EVERY object (no invariant, no well-formedness): a member is readable exactly when which_one_of names it, the
        only exception a member read can raise is AttributeError, and it raises exactly when which_one_of names something else
        or nothing ---- *)
Theorem C07_read_iff_selected : forall sc o i f g,
  nth_error (cfs sc o) i = Some f -> fgroup f = Some g ->
  ((exists v, read sc o i = Ok v) <-> which_one_of o g = Some i) /\
  (read sc o i = Err EAttribute <-> which_one_of o g <> Some i) /\
  (forall e, read sc o i = Err e -> e = EAttribute).
Proof. exact read_iff_selected. Qed.
Print Assumptions C07_read_iff_selected.

Theorem C07_at_most_one_readable : forall sc o g i j fi fj vi vj,
  nth_error (cfs sc o) i = Some fi -> fgroup fi = Some g ->
  nth_error (cfs sc o) j = Some fj -> fgroup fj = Some g ->
  read sc o i = Ok vi -> read sc o j = Ok vj -> i = j.
Proof. exact at_most_one_readable. Qed.
Print Assumptions C07_at_most_one_readable.

(* after every history: what which_one_of names is a member of THAT group of the class the history started with (the class
   never changes), the group index is in range, the member is readable; a group index out of range names nothing *)
Theorem C07_reachable_selected_is_member : forall sc c ops o,
  run7 sc (new sc c) ops = Ok o ->
  ocls o = c /\
  (forall g i, which_one_of o g = Some i ->
     (g < cngroups (get_class sc c))%nat /\ member sc c g i /\ exists v, read sc o i = Ok v) /\
  (forall g, (cngroups (get_class sc c) <= g)%nat -> which_one_of o g = None).
Proof. exact reachable_selected_is_member. Qed.
Print Assumptions C07_reachable_selected_is_member.

(* ---- "which_one_of names the member set last (or none)" for a WHOLE history: _group_current is the last-writer tracker
        [track] of Model/C07GapDef.v applied to the history.  [trk_ok] is judged along the run: the bytes of every parse are
        framed for the schema-less reader, every pickle starts from a state meeting C01's value and size conditions.
        No bound on the history, the values assigned (None, PLACEHOLDER, ill-typed included) or the bytes parsed. ---- *)
Theorem C07_track_sound : forall sc c ops o,
  c01_schema_ok sc = true -> hist_ok trk_ok sc (new sc c) ops = true -> run7 sc (new sc c) ops = Ok o ->
  ocur o = track sc c ops /\ forall g, which_one_of o g = nth g (track sc c ops) None.
Proof. exact track_sound. Qed.
Print Assumptions C07_track_sound.

(* ... the pickle condition is discharged for every history that meets C01's operation-level conditions (composition with
   C01_reachable_value_ok_parse's step lemma): conditions on the operations only, evaluated as booleans *)
Theorem C07_track_reachable : forall sc c ops o,
  c01_schema_ok sc = true -> hist_ok op_value_ok_p sc (new sc c) ops = true -> forallb framed_op ops = true ->
  run7 sc (new sc c) ops = Ok o ->
  ocur o = track sc c ops /\ forall g, which_one_of o g = nth g (track sc c ops) None.
Proof. exact track_reachable. Qed.
Print Assumptions C07_track_reachable.

(* ... pickle on its own: the round trip through bytes carries _group_current (composition with C14's pickle theorem) *)
Theorem C07_pickle_keeps_selection : forall sc o o',
  c01_schema_ok sc = true -> c01_value_ok sc o = true -> enc_small sc o = true ->
  pickle_rt sc o = Ok o' ->
  ocur o' = ocur o /\ (forall g, which_one_of o' g = which_one_of o g) /\ enc_obj sc o' = enc_obj sc o.
Proof. exact pickle_keeps_selection. Qed.
Print Assumptions C07_pickle_keeps_selection.

(* ... and the condition is needed: m.a = None selects a, emits nothing, and the unpickled message selects nothing - the
   invariant survives (C07_inv_step) but "names the member set last" does not *)
Theorem C07_pickle_selection_refuted :
  exists sc c ops,
    wf_schema sc = true /\ forallb framed_op ops = true /\ hist_ok trk_ok sc (new sc c) ops = false /\
    match run7 sc (new sc c) ops with
    | Ok o => which_one_of o 0 = None /\ nth 0 (track sc c ops) None = Some 0%nat
    | Err _ => False
    end.
Proof.
  exists ex_sc, 11%nat, [OBase (OSet [] 0 PNone); OBase OPickle]. vm_compute. repeat split.
Qed.
Print Assumptions C07_pickle_selection_refuted.

(* ... reading "set last" off the tracker: the last top-level assignment to a member of g - ANY value, the default included -
   with nothing touching g afterwards (copies, pickles, observers, reads, nested assignments, assignments / records of other
   groups: [touches] is false for them) is what the tracker names; a group nothing touches is named nothing *)
Theorem C07_track_last_assignment : forall sc c ops1 i v ops2 f g,
  nth_error (cfields (get_class sc c)) i = Some f -> fgroup f = Some g -> (g < cngroups (get_class sc c))%nat ->
  forallb (fun p => negb (touches sc c g p)) ops2 = true ->
  nth g (track sc c (ops1 ++ OBase (OSet [] i v) :: ops2)) None = Some i.
Proof. exact track_last_assignment. Qed.
Print Assumptions C07_track_last_assignment.

Theorem C07_track_never_touched : forall sc c ops g,
  forallb (fun p => negb (touches sc c g p)) ops = true -> nth g (track sc c ops) None = None.
Proof. exact track_never_touched. Qed.
Print Assumptions C07_track_never_touched.

(* ... m.from_dict(d) naming several members of one group: the last entry in dict order wins *)
Theorem C07_from_dict_inst_last : forall sc o kw1 i v kw2 f g,
  Inv sc o -> nth_error (cfs sc o) i = Some f -> fgroup f = Some g -> (g < cngroups (get_class sc (ocls o)))%nat ->
  touches sc (ocls o) g (OFromDictInst kw2) = false ->
  which_one_of (C07Ops.from_dict_inst sc o (kw1 ++ (i, v) :: kw2)) g = Some i.
Proof. exact from_dict_inst_last. Qed.
Print Assumptions C07_from_dict_inst_last.

(* ---- "the encoding and the JSON output contain that member and no other member of the group", as an equivalence:
        a member's field number is among the records of bytes(m) / its key is in to_dict(m) IFF which_one_of names it ---- *)
Theorem C07_observable_iff : forall sc o bs,
  wf_schema sc = true -> Inv sc o -> selected_values_ok sc o -> enc_obj sc o = Ok bs ->
  exists body rs,
    bs = body ++ ounk o /\ records body = Some rs /\
    forall g j f', (g < cngroups (get_class sc (ocls o)))%nat ->
      nth_error (cfs sc o) j = Some f' -> fgroup f' = Some g ->
      (In (fnum f') (numbers rs) <-> which_one_of o g = Some j).
Proof. exact observable_iff. Qed.
Print Assumptions C07_observable_iff.

Theorem C07_observable_iff_reachable : forall sc c ops o bs,
  wf_schema sc = true -> Forall (op_ok sc c) ops -> run7 sc (new sc c) ops = Ok o -> enc_obj sc o = Ok bs ->
  exists body rs,
    bs = body ++ ounk o /\ records body = Some rs /\
    forall g j f', (g < cngroups (get_class sc (ocls o)))%nat ->
      nth_error (cfs sc o) j = Some f' -> fgroup f' = Some g ->
      (In (fnum f') (numbers rs) <-> which_one_of o g = Some j).
Proof. exact observable_iff_reachable. Qed.
Print Assumptions C07_observable_iff_reachable.

Theorem C07_json_observable_iff : forall cs incl sc o,
  wf_schema sc = true -> Inv sc o -> selected_values_ok sc o -> keys_distinct cs sc (ocls o) ->
  forall g j f', (g < cngroups (get_class sc (ocls o)))%nat ->
    nth_error (cfs sc o) j = Some f' -> fgroup f' = Some g ->
    (In (key_of_field cs f') (jkeys (to_dict cs incl sc o)) <-> which_one_of o g = Some j).
Proof. exact json_observable_iff. Qed.
Print Assumptions C07_json_observable_iff.

Theorem C07_json_observable_iff_reachable : forall cs incl sc c ops o,
  wf_schema sc = true -> Forall (op_ok sc c) ops -> run7 sc (new sc c) ops = Ok o -> keys_distinct cs sc (ocls o) ->
  forall g j f', (g < cngroups (get_class sc (ocls o)))%nat ->
    nth_error (cfs sc o) j = Some f' -> fgroup f' = Some g ->
    (In (key_of_field cs f') (jkeys (to_dict cs incl sc o)) <-> which_one_of o g = Some j).
Proof. exact json_observable_iff_reachable. Qed.
Print Assumptions C07_json_observable_iff_reachable.

(* ---- "Assigning a member always makes it the selected one, even when assigning its default value", composed with the
        encoding and with to_dict: after m.f = v the record / key of f IS in the output and no sibling's is.  For the default
        value there is no condition on the value at all; for other values the one of C07_observable (not None / list / dict) ---- *)
Theorem C07_assign_on_wire : forall sc o i v f g bs,
  wf_schema sc = true -> Inv sc o -> selected_values_ok sc o ->
  nth_error (cfs sc o) i = Some f -> fgroup f = Some g -> vok v = true ->
  enc_obj sc (setattr sc o i v) = Ok bs ->
  exists body rs,
    bs = body ++ ounk o /\ records body = Some rs /\ In (fnum f) (numbers rs) /\
    forall j f', j <> i -> nth_error (cfs sc o) j = Some f' -> fgroup f' = Some g -> ~ In (fnum f') (numbers rs).
Proof. exact assign_on_wire. Qed.
Print Assumptions C07_assign_on_wire.

Theorem C07_assign_default_on_wire : forall sc o i f g bs,
  wf_schema sc = true -> Inv sc o -> selected_values_ok sc o ->
  nth_error (cfs sc o) i = Some f -> fgroup f = Some g ->
  enc_obj sc (setattr sc o i (default_of sc f)) = Ok bs ->
  which_one_of (setattr sc o i (default_of sc f)) g = Some i /\
  exists body rs,
    bs = body ++ ounk o /\ records body = Some rs /\ In (fnum f) (numbers rs) /\
    forall j f', j <> i -> nth_error (cfs sc o) j = Some f' -> fgroup f' = Some g -> ~ In (fnum f') (numbers rs).
Proof. exact assign_default_on_wire. Qed.
Print Assumptions C07_assign_default_on_wire.

Theorem C07_assign_in_json : forall cs incl sc o i v f g,
  wf_schema sc = true -> Inv sc o -> selected_values_ok sc o -> keys_distinct cs sc (ocls o) ->
  nth_error (cfs sc o) i = Some f -> fgroup f = Some g -> vok v = true ->
  let d := to_dict cs incl sc (setattr sc o i v) in
  In (key_of_field cs f) (jkeys d) /\
  forall j f', j <> i -> nth_error (cfs sc o) j = Some f' -> fgroup f' = Some g -> ~ In (key_of_field cs f') (jkeys d).
Proof. exact assign_in_json. Qed.
Print Assumptions C07_assign_in_json.

Theorem C07_assign_default_in_json : forall cs incl sc o i f g,
  wf_schema sc = true -> Inv sc o -> selected_values_ok sc o -> keys_distinct cs sc (ocls o) ->
  nth_error (cfs sc o) i = Some f -> fgroup f = Some g ->
  let d := to_dict cs incl sc (setattr sc o i (default_of sc f)) in
  In (key_of_field cs f) (jkeys d) /\
  forall j f', j <> i -> nth_error (cfs sc o) j = Some f' -> fgroup f' = Some g -> ~ In (key_of_field cs f') (jkeys d).
Proof. exact assign_default_in_json. Qed.
Print Assumptions C07_assign_default_in_json.

(* ---- non-vacuity of the gap-closing theorems ---- *)
(* construct, assign a default-valued string, observe, parse three members of group 0 and one of group 1, copies, pickle,
   from_dict naming one member of each group, pickle again, assign a = 0 (the default) *)
Definition ex_ops_g : list op7 :=
  [OConstruct [(0%nat, PInt 5); (3%nat, PInt 9)];
   OBase (OSet [] 1 (PStr []));
   OBase OBytes;
   OBase (OParse [x08; x01; x1a; x00; x12; x01; x78; x28; x00]);
   OBase OCopy; OBase ODeepcopy; OBase OPickle;
   OFromDictInst [(2%nat, PMsg (new ex_sc 12)); (5%nat, PInt 0)];
   OBase OPickle;
   OBase (OSet [] 0 (PInt 0))].

(* the hypotheses of C07_track_reachable (hence of C07_track_sound) hold of it, and the tracker's answer is the state's *)
Example C07_ex_track :
  c01_schema_ok ex_sc = true /\ hist_ok op_value_ok_p ex_sc (new ex_sc 11) ex_ops_g = true /\
  forallb framed_op ex_ops_g = true /\ hist_ok trk_ok ex_sc (new ex_sc 11) ex_ops_g = true /\
  track ex_sc 11 ex_ops_g = [Some 0%nat; Some 5%nat] /\
  match run7 ex_sc (new ex_sc 11) ex_ops_g with Ok o => ocur o = [Some 0%nat; Some 5%nat] | Err _ => False end /\
  (* the tracker along the way: after the parse b (index 1, the last record of group 0) and d (index 4) *)
  track ex_sc 11 (firstn 4 ex_ops_g) = [Some 1%nat; Some 4%nat].
Proof. vm_compute. repeat split. Qed.

(* C07_pickle_keeps_selection: a state with two selections (one holding its default) meets the hypotheses *)
Example C07_ex_pickle :
  match run7 ex_sc (new ex_sc 11) (firstn 6 ex_ops_g) with
  | Ok o => c01_value_ok ex_sc o = true /\ enc_small ex_sc o = true /\ ocur o = [Some 1%nat; Some 4%nat] /\
            match pickle_rt ex_sc o with Ok o' => ocur o' = [Some 1%nat; Some 4%nat] | Err _ => False end
  | Err _ => False
  end.
Proof. vm_compute. repeat split. Qed.

(* C07_track_last_assignment: a = 0 (default), then copy, pickle, a read, t = 1, a nested assignment, a parse of a record of
   group 1 only: nothing touches group 0, the tracker still names a *)
Example C07_ex_last_assignment :
  let ops2 := [OBase OCopy; OBase OPickle; OBase (OGet [] 0); OBase (OSet [] 3 (PInt 1)); OBase (OSet [2%nat] 0 (PInt 7));
               OBase (OParse [x28; x01]); OFromDictInst [(4%nat, PBool true)]] in
  forallb (fun p => negb (touches ex_sc 11 0 p)) ops2 = true /\
  nth 0 (track ex_sc 11 ([OConstruct [(1%nat, PStr [x78])]] ++ OBase (OSet [] 0 (PInt 0)) :: ops2)) None = Some 0%nat /\
  forallb (fun p => negb (touches ex_sc 11 1 p)) [OBase (OSet [] 0 (PInt 0)); OBase OPickle] = true.
Proof. vm_compute. repeat split. Qed.

(* C07_from_dict_inst_last: m.from_dict({"a": 1, "c": Leaf(), "t": 3}): c is the last entry of group 0 *)
Example C07_ex_from_dict_inst_last :
  touches ex_sc 11 0 (OFromDictInst [(3%nat, PInt 3)]) = false /\
  which_one_of (C07Ops.from_dict_inst ex_sc (new ex_sc 11) ([(0%nat, PInt 1)] ++ (2%nat, PMsg (new ex_sc 12)) :: [(3%nat, PInt 3)])) 0
    = Some 2%nat.
Proof. vm_compute. repeat split. Qed.

(* C07_assign_default_on_wire / _in_json on a state that selects b = "x" and holds unknown bytes: after a = 0 the record of a
   (number 1) is there with the default, b's (number 2) is gone, the unknown record (number 15) is still at the end *)
Example C07_ex_assign_default :
  match parse ex_sc 11 [x12; x01; x78; x78; x01] with
  | Ok o =>
      which_one_of o 0 = Some 1%nat /\ ounk o = [x78; x01] /\
      nth_error (cfs ex_sc o) 0 = Some (mkF [x61] 1 TInt32 None (Some 0%nat) None false (HPlain PyInt) 0) /\
      enc_obj ex_sc (setattr ex_sc o 0 (PInt 0)) = Ok [x08; x00; x78; x01] /\
      records [x08; x00] = Some [(1, 0)] /\
      jkeys (to_dict CAMEL false ex_sc (setattr ex_sc o 0 (PInt 0))) = [[x61]]
  | Err _ => False
  end.
Proof. vm_compute. repeat split. Qed.

(* ... and that state meets selected_values_ok (it is reachable by an op_ok history: C07_selected_values_reachable) *)
Example C07_ex_assign_default_hyp :
  Forall (op_ok ex_sc 11) [OBase (OParse [x12; x01; x78; x78; x01])] /\
  match run7 ex_sc (new ex_sc 11) [OBase (OParse [x12; x01; x78; x78; x01])] with
  | Ok o => parse ex_sc 11 [x12; x01; x78; x78; x01] = Ok o
  | Err _ => False
  end.
Proof. split; [repeat constructor | vm_compute; reflexivity]. Qed.

(* C07_read_iff_selected / C07_at_most_one_readable: both directions on the constructor state that keeps two raw values *)
Example C07_ex_read_iff :
  let o := construct ex_sc 11 [(0%nat, PInt 5); (1%nat, PStr [x78])] in
  which_one_of o 0 = Some 1%nat /\ read ex_sc o 1 = Ok (PStr [x78]) /\ read ex_sc o 0 = Err EAttribute /\
  read ex_sc o 2 = Err EAttribute /\ nth 0 (oraw o) PNone = PInt 5.
Proof. vm_compute. repeat split. Qed.

(* ---- the clauses composed: after every history meeting C01's operation-level conditions, the encoding / to_dict / attribute
        reads name, for every group, exactly the member the last-writer tracker names.  Every hypothesis except keys_distinct
        (a schema condition, C19's subject) is a boolean evaluated on the history ([op_okb], Model/C07GapOk.v, is the boolean
        form of [op_ok]) ---- *)
From BP Require Import Model.C07GapOk Proofs.C07GapC.

Theorem C07_ops_okb_ok : forall sc c ops, forallb (op_okb sc c) ops = true -> Forall (op_ok sc c) ops.
Proof. exact ops_okb_ok. Qed.
Print Assumptions C07_ops_okb_ok.

Theorem C07_last_writer_on_wire : forall sc c ops o bs,
  c01_schema_ok sc = true -> hist_ok op_value_ok_p sc (new sc c) ops = true ->
  forallb framed_op ops = true -> forallb (op_okb sc c) ops = true ->
  run7 sc (new sc c) ops = Ok o -> enc_obj sc o = Ok bs ->
  exists body rs,
    bs = body ++ ounk o /\ records body = Some rs /\
    forall g j f', (g < cngroups (get_class sc c))%nat ->
      nth_error (cfields (get_class sc c)) j = Some f' -> fgroup f' = Some g ->
      (In (fnum f') (numbers rs) <-> nth g (track sc c ops) None = Some j).
Proof. exact last_writer_on_wire. Qed.
Print Assumptions C07_last_writer_on_wire.

Theorem C07_last_writer_in_json : forall cs incl sc c ops o,
  c01_schema_ok sc = true -> hist_ok op_value_ok_p sc (new sc c) ops = true ->
  forallb framed_op ops = true -> forallb (op_okb sc c) ops = true -> keys_distinct cs sc c ->
  run7 sc (new sc c) ops = Ok o ->
  forall g j f', (g < cngroups (get_class sc c))%nat ->
    nth_error (cfields (get_class sc c)) j = Some f' -> fgroup f' = Some g ->
    (In (key_of_field cs f') (jkeys (to_dict cs incl sc o)) <-> nth g (track sc c ops) None = Some j).
Proof. exact last_writer_in_json. Qed.
Print Assumptions C07_last_writer_in_json.

Theorem C07_last_writer_readable : forall sc c ops o,
  c01_schema_ok sc = true -> hist_ok op_value_ok_p sc (new sc c) ops = true -> forallb framed_op ops = true ->
  run7 sc (new sc c) ops = Ok o ->
  forall g j f', nth_error (cfields (get_class sc c)) j = Some f' -> fgroup f' = Some g ->
    ((exists v, read sc o j = Ok v) <-> nth g (track sc c ops) None = Some j) /\
    (read sc o j = Err EAttribute <-> nth g (track sc c ops) None <> Some j).
Proof. exact last_writer_readable. Qed.
Print Assumptions C07_last_writer_readable.

(* non-vacuity: the example history meets the boolean conditions; its bytes hold a (number 1, default 0) and e (number 6, 0) *)
Example C07_ex_last_writer :
  forallb (op_okb ex_sc 11) ex_ops_g = true /\
  match run7 ex_sc (new ex_sc 11) ex_ops_g with
  | Ok o => enc_obj ex_sc o = Ok [x08; x00; x20; x09; x30; x00] /\ ounk o = [] /\
            jkeys (to_dict CAMEL false ex_sc o) = [[x61]; [x74]; [x65]]
  | Err _ => False
  end /\
  records [x08; x00; x20; x09; x30; x00] = Some [(1, 0); (4, 0); (6, 0)] /\
  (* and the boolean condition does reject m.a = None *)
  op_okb ex_sc 11 (OBase (OSet [] 0 PNone)) = false.
Proof. vm_compute. repeat split. Qed.
