(* C07 — oneof exclusivity holds after any history of operations.

   Model: Model/Object.v (new / construct / getattr / setattr / which_one_of), Model/Encode.v (bytes),
   Model/Decode.v (parse), Model/History.v (copy / deepcopy / pickle / nested assignment / observers, [step], [run]),
   Model/C07Ops.v ([step7] / [run7]: construct-with-kwargs and from_dict as operations).
   Invariant [Inv] (Proofs/C07InvP.v), in observable terms: _group_current has one entry per group; for every group g,
     which_one_of = None   -> every member of g raises AttributeError and its raw attribute is the sentinel
     which_one_of = Some i -> i is a member of g, reading it succeeds, reading any other member raises AttributeError.
   No theorem below has a bound on the length of the history, on the schema (except where wf_schema is written) or on
   the values assigned (PLACEHOLDER, None, ill-typed and out-of-range values included). *)
From BP Require Import Base.Prelude Model.Types Model.Object Model.Eq Model.Encode Model.Decode.
From BP Require Import Model.History Model.C07Ops Model.C07Step Model.C07Wire Model.WellFormed.
From BP Require Import Proofs.C07InvP Proofs.C07LoadP Proofs.C07HistP Proofs.C07WireP Proofs.C07ParseP Proofs.C07EncP Proofs.C07ObsP.
From BP Require Import Proofs.C07ValP Model.Json Proofs.C07JsonP.

(* ---- the invariant: initial states ---- *)
Theorem C07_inv_init_new : forall sc c, Inv sc (new sc c).
Proof. exact inv_new. Qed.
Print Assumptions C07_inv_init_new.

Theorem C07_inv_init_construct : forall sc c kw, Inv sc (construct sc c kw).
Proof. exact inv_construct. Qed.
Print Assumptions C07_inv_init_construct.

Theorem C07_inv_init_from_dict : forall sc c kw, Inv sc (C07Ops.from_dict_cls sc c kw).
Proof. exact inv_from_dict_cls. Qed.
Print Assumptions C07_inv_init_from_dict.

Theorem C07_inv_init_parse : forall sc c bs o, parse sc c bs = Ok o -> Inv sc o.
Proof. exact inv_parse. Qed.
Print Assumptions C07_inv_init_parse.

(* ---- every operation preserves it ---- *)
Theorem C07_inv_step : forall sc o p o' x, Inv sc o -> step sc o p = Ok (o', x) -> Inv sc o'.
Proof. exact inv_step. Qed.
Print Assumptions C07_inv_step.

Theorem C07_inv_step7 : forall sc o p o' x, Inv sc o -> step7 sc o p = Ok (o', x) -> Inv sc o'.
Proof. exact inv_step7. Qed.
Print Assumptions C07_inv_step7.

(* ---- every finite history, and every prefix of it ---- *)
Theorem C07_inv_reachable : forall sc c ops o, run7 sc (new sc c) ops = Ok o -> Inv sc o.
Proof. exact inv_reachable. Qed.
Print Assumptions C07_inv_reachable.

Theorem C07_inv_run : forall sc ops o o', Inv sc o -> run7 sc o ops = Ok o' -> Inv sc o'.
Proof. exact inv_run7. Qed.
Print Assumptions C07_inv_run.

Theorem C07_inv_every_prefix : forall sc c ops o,
  run7 sc (new sc c) ops = Ok o ->
  forall k, exists ok, run7 sc (new sc c) (firstn k ops) = Ok ok /\ Inv sc ok.
Proof. exact inv_every_prefix. Qed.
Print Assumptions C07_inv_every_prefix.

(* ---- assigning a member always makes it the selected one — for ANY value, the default included ---- *)
Theorem C07_last_wins : forall sc o i v f g,
  Inv sc o ->
  nth_error (cfs sc o) i = Some f -> fgroup f = Some g -> (g < cngroups (get_class sc (ocls o)))%nat ->
  let o' := setattr sc o i v in
  which_one_of o' g = Some i /\
  (exists x, read sc o' i = Ok x) /\
  (forall j, j <> i -> member sc (ocls o) g j ->
     read sc o' j = Err EAttribute /\ nth j (oraw o') PPlaceholder = PPlaceholder) /\
  (forall g', g' <> g -> which_one_of o' g' = which_one_of o g') /\
  Inv sc o'.
Proof. exact last_wins. Qed.
Print Assumptions C07_last_wins.

Theorem C07_last_wins_step : forall sc o i v f g o' x,
  wf_schema sc = true -> Inv sc o ->
  nth_error (cfs sc o) i = Some f -> fgroup f = Some g ->
  step sc o (OSet [] i v) = Ok (o', x) ->
  which_one_of o' g = Some i.
Proof. exact last_wins_step. Qed.
Print Assumptions C07_last_wins_step.

(* ---- reads, nested assignments, assignments outside the group, copies and observers keep the selection ---- *)
Theorem C07_selection_kept : forall sc o p o' x g,
  step sc o p = Ok (o', x) ->
  match p with
  | OSet [] i _ => forall f, nth_error (cfs sc o) i = Some f -> fgroup f <> Some g
  | OParse _ | OPickle => False
  | _ => True
  end ->
  which_one_of o' g = which_one_of o g.
Proof. exact selection_kept. Qed.
Print Assumptions C07_selection_kept.

(* ---- the constructor selects the LAST member in declaration order that was given a value ---- *)
Theorem C07_constructor_selects_last : forall sc c raw g k f,
  length raw = length (cfields (get_class sc c)) -> (g < cngroups (get_class sc c))%nat ->
  nth_error (cfields (get_class sc c)) k = Some f -> fgroup f = Some g ->
  is_sentinel f (nth k raw PPlaceholder) = false ->
  (forall k' f', (k < k')%nat -> nth_error (cfields (get_class sc c)) k' = Some f' -> fgroup f' = Some g ->
                 is_sentinel f' (nth k' raw PPlaceholder) = true) ->
  which_one_of (post_init sc c raw) g = Some k.
Proof. exact post_init_selects_last. Qed.
Print Assumptions C07_constructor_selects_last.

(* ---- parse(): the selections are a fold over the records read, a record of a declared field with a fitting
        wire type selects that field in its group ---- *)
Theorem C07_parse_fold : forall sc o bs o',
  Inv sc o -> parse_into sc o bs = Ok o' ->
  exists ps, frames (length bs) (S (length bs)) bs = Ok ps /\
             ocur o' = fold_left (sel_record (get_class sc (ocls o))) ps (ocur o).
Proof. intros sc o bs o' H. apply parse_into_selections, InvS_of_Inv, H. Qed.
Print Assumptions C07_parse_fold.

(* ---- parse(), in terms of the records a schema-less reader sees (Model/C07Wire.v [records]):
        the selections after parse() are a fold over those records ---- *)
Theorem C07_parse_records : forall sc o bs rs o',
  Inv sc o -> records bs = Some rs -> parse_into sc o bs = Ok o' ->
  ocur o' = fold_left (sel_rec (get_class sc (ocls o))) rs (ocur o).
Proof. exact parse_records. Qed.
Print Assumptions C07_parse_records.

(* ... so the member of the LAST record that belongs to a member of g (any order, anything interleaved:
   rs1 and rs2 are arbitrary) is the selected one afterwards, and the others are hidden *)
Theorem C07_parse_last : forall sc o bs o' rs1 wt rs2 i f g,
  wf_schema sc = true -> Inv sc o ->
  nth_error (cfs sc o) i = Some f -> fgroup f = Some g -> wire_type_fits f wt = true ->
  records bs = Some (rs1 ++ (fnum f, wt) :: rs2) ->
  (forall r, In r rs2 -> ~ hits (get_class sc (ocls o)) g r) ->
  parse_into sc o bs = Ok o' ->
  which_one_of o' g = Some i /\
  (exists v, read sc o' i = Ok v) /\
  (forall j, j <> i -> member sc (ocls o) g j -> read sc o' j = Err EAttribute) /\
  Inv sc o'.
Proof. exact parse_last_wf. Qed.
Print Assumptions C07_parse_last.

(* ... and a group none of whose members occurs in the input keeps its selection *)
Theorem C07_parse_untouched : forall sc o bs o' rs g,
  Inv sc o -> records bs = Some rs ->
  (forall r, In r rs -> ~ hits (get_class sc (ocls o)) g r) ->
  parse_into sc o bs = Ok o' ->
  which_one_of o' g = which_one_of o g.
Proof. exact parse_untouched. Qed.
Print Assumptions C07_parse_untouched.

(* ---- observable exclusivity of the encoding: bytes(m) = body ++ unknown bytes, and among the records of
        body (schema-less reader) the field numbers of the members of g are: the selected member's number,
        present even when the member holds its default value, and no other member's; none at all when the
        group selects nothing.  Side condition: the selected member holds a value (not None, not a list, not a
        dict — no oneof member is optional, repeated or a map; C07_observable_needs_value shows it is needed). ---- *)
Theorem C07_observable : forall sc o bs,
  wf_schema sc = true -> Inv sc o -> selected_values_ok sc o -> enc_obj sc o = Ok bs ->
  exists body rs,
    bs = body ++ ounk o /\ records body = Some rs /\
    forall g, (g < cngroups (get_class sc (ocls o)))%nat ->
      match which_one_of o g with
      | Some i =>
          exists f, nth_error (cfs sc o) i = Some f /\ In (fnum f) (numbers rs) /\
                    forall j f', j <> i -> nth_error (cfs sc o) j = Some f' -> fgroup f' = Some g ->
                                 ~ In (fnum f') (numbers rs)
      | None =>
          forall j f', nth_error (cfs sc o) j = Some f' -> fgroup f' = Some g -> ~ In (fnum f') (numbers rs)
      end.
Proof. exact observable. Qed.
Print Assumptions C07_observable.

(* ... and the side condition is itself an invariant: after EVERY history over a well-formed schema whose operations
   assign values (not None / list / dict) to oneof members — [op_ok] constrains OSet on a member and the kwargs of
   construct / from_dict, nothing else; parse, pickle, copies, observers, nested assignments are unrestricted *)
Theorem C07_observable_reachable : forall sc c ops o bs,
  wf_schema sc = true -> Forall (op_ok sc c) ops -> run7 sc (new sc c) ops = Ok o -> enc_obj sc o = Ok bs ->
  exists body rs,
    bs = body ++ ounk o /\ records body = Some rs /\
    forall g, (g < cngroups (get_class sc (ocls o)))%nat ->
      match which_one_of o g with
      | Some i =>
          exists f, nth_error (cfs sc o) i = Some f /\ In (fnum f) (numbers rs) /\
                    forall j f', j <> i -> nth_error (cfs sc o) j = Some f' -> fgroup f' = Some g ->
                                 ~ In (fnum f') (numbers rs)
      | None =>
          forall j f', nth_error (cfs sc o) j = Some f' -> fgroup f' = Some g -> ~ In (fnum f') (numbers rs)
      end.
Proof. exact observable_reachable. Qed.
Print Assumptions C07_observable_reachable.

Theorem C07_selected_values_reachable : forall sc c ops o,
  wf_schema sc = true -> Forall (op_ok sc c) ops -> run7 sc (new sc c) ops = Ok o -> selected_values_ok sc o.
Proof. exact selected_values_reachable. Qed.
Print Assumptions C07_selected_values_reachable.

(* every chunk dump() writes for a field is a sequence of records of that field's number — whatever the value *)
Theorem C07_field_chunk : forall enc sc f sel v chunk,
  1 <= fnum f -> emit_field enc sc f sel v = Ok chunk ->
  exists rs, records chunk = Some rs /\ Forall (fun r => fst r = fnum f) rs.
Proof. exact field_chunk. Qed.
Print Assumptions C07_field_chunk.

(* ---- the JSON clauses, over the dict/JSON model of C04 (Model/Json.v): to_dict — both casings, include_default_values
        false AND true — holds the key of the selected member (also when it holds its default) and of no unselected member
        ([keys_distinct]: distinct fields have distinct keys under the casing; name collisions are C19's subject) ---- *)
Theorem C07_json_observable : forall cs incl sc o,
  wf_schema sc = true -> Inv sc o -> selected_values_ok sc o -> keys_distinct cs sc (ocls o) ->
  forall g, (g < cngroups (get_class sc (ocls o)))%nat ->
    match which_one_of o g with
    | Some i =>
        exists f, nth_error (cfs sc o) i = Some f /\ In (key_of_field cs f) (jkeys (to_dict cs incl sc o)) /\
                  forall j f', j <> i -> nth_error (cfs sc o) j = Some f' -> fgroup f' = Some g ->
                               ~ In (key_of_field cs f') (jkeys (to_dict cs incl sc o))
    | None =>
        forall j f', nth_error (cfs sc o) j = Some f' -> fgroup f' = Some g ->
                     ~ In (key_of_field cs f') (jkeys (to_dict cs incl sc o))
    end.
Proof. exact to_dict_observable. Qed.
Print Assumptions C07_json_observable.

Theorem C07_json_observable_reachable : forall cs incl sc c ops o,
  wf_schema sc = true -> Forall (op_ok sc c) ops -> run7 sc (new sc c) ops = Ok o -> keys_distinct cs sc (ocls o) ->
  forall g, (g < cngroups (get_class sc (ocls o)))%nat ->
    match which_one_of o g with
    | Some i =>
        exists f, nth_error (cfs sc o) i = Some f /\ In (key_of_field cs f) (jkeys (to_dict cs incl sc o)) /\
                  forall j f', j <> i -> nth_error (cfs sc o) j = Some f' -> fgroup f' = Some g ->
                               ~ In (key_of_field cs f') (jkeys (to_dict cs incl sc o))
    | None =>
        forall j f', nth_error (cfs sc o) j = Some f' -> fgroup f' = Some g ->
                     ~ In (key_of_field cs f') (jkeys (to_dict cs incl sc o))
    end.
Proof. exact to_dict_observable_reachable. Qed.
Print Assumptions C07_json_observable_reachable.

(* from_dict of the JSON model (JSON values converted by Message._from_dict_init as modelled by C04) *)
Theorem C07_inv_json_from_dict_cls : forall sc c j o, Json.from_dict_cls sc c j = Ok o -> Inv sc o.
Proof. exact json_from_dict_cls_inv. Qed.
Print Assumptions C07_inv_json_from_dict_cls.

Theorem C07_inv_json_from_dict_inst : forall sc o j o', Inv sc o -> Json.from_dict_inst sc o j = Ok o' -> Inv sc o'.
Proof. exact json_from_dict_inst_inv. Qed.
Print Assumptions C07_inv_json_from_dict_inst.

(* ---- non-vacuity ---- *)
Definition ex_sc : schema :=
  mkS (builtin_classes ++
       [mkC [mkF [x61] 1 TInt32 None (Some 0%nat) None false (HPlain PyInt) 0;
             mkF [x62] 2 TString None (Some 0%nat) None false (HPlain PyStr) 0;
             mkF [x63] 3 TMessage None (Some 0%nat) None false (HPlain (PyMsg 12)) 0;
             mkF [x74] 4 TInt32 None None None false (HPlain PyInt) 0;
             mkF [x64] 5 TBool None (Some 1%nat) None false (HPlain PyBool) 0;
             mkF [x65] 6 TSInt64 None (Some 1%nat) None false (HPlain PyInt) 0] 2;
        mkC [mkF [x78] 1 TInt32 None None None false (HPlain PyInt) 0] 0]) [].

Example C07_ex_wf : wf_schema ex_sc = true.
Proof. vm_compute. reflexivity. Qed.

(* construct with two members of one group, assign a default, observe, parse three members, copy, pickle, from_dict *)
Definition ex_ops : list op7 :=
  [OConstruct [(0%nat, PInt 5); (1%nat, PStr [x78])];
   OBase (OSet [] 0 (PInt 0));
   OBase OBytes;
   OBase (OParse [x08; x01; x1a; x00; x12; x01; x78; x28; x00]);
   OBase OCopy; OBase ODeepcopy; OBase OPickle;
   OFromDictInst [(2%nat, PMsg (new ex_sc 12)); (5%nat, PInt 0)];
   OBase (OSet [2%nat] 0 (PInt 7))].

Example C07_ex_history :
  match run7 ex_sc (new ex_sc 11) ex_ops with
  | Ok o => which_one_of o 0 = Some 2%nat /\ which_one_of o 1 = Some 5%nat /\
            read ex_sc o 0 = Err EAttribute /\ read ex_sc o 1 = Err EAttribute /\
            enc_obj ex_sc o = Ok [x1a; x02; x08; x07; x30; x00]
  | Err _ => False
  end.
Proof. vm_compute. repeat split. Qed.

(* after the second op (a = 0, the default) the group selects a, b is reset, and a is on the wire *)
Example C07_ex_default_assignment :
  match run7 ex_sc (new ex_sc 11) (firstn 2 ex_ops) with
  | Ok o => which_one_of o 0 = Some 0%nat /\ read ex_sc o 0 = Ok (PInt 0) /\ read ex_sc o 1 = Err EAttribute /\
            nth 1 (oraw o) PNone = PPlaceholder /\ enc_obj ex_sc o = Ok [x08; x00]
  | Err _ => False
  end.
Proof. vm_compute. repeat split. Qed.

(* the constructor with two members keeps both raw values and hides the loser *)
Example C07_ex_constructor_two_members :
  let o := construct ex_sc 11 [(0%nat, PInt 5); (1%nat, PStr [x78])] in
  oraw o = [PInt 5; PStr [x78]; PPlaceholder; PPlaceholder; PPlaceholder; PPlaceholder] /\
  which_one_of o 0 = Some 1%nat /\ read ex_sc o 0 = Err EAttribute /\ enc_obj ex_sc o = Ok [x12; x01; x78].
Proof. vm_compute. repeat split. Qed.

(* wire-level examples on the same schema: a = 1, c = Leaf(), b = "x" in one input: b (the last) wins *)
Example C07_ex_parse_last :
  records [x08; x01; x1a; x00; x12; x01; x78; x28; x00] = Some [(1, 0); (3, 2); (2, 2); (5, 0)] /\
  match parse_into ex_sc (new ex_sc 11) [x08; x01; x1a; x00; x12; x01; x78; x28; x00] with
  | Ok o => which_one_of o 0 = Some 1%nat /\ which_one_of o 1 = Some 4%nat /\ read ex_sc o 0 = Err EAttribute
  | Err _ => False
  end.
Proof. vm_compute. repeat split. Qed.

(* the selected member is on the wire with its default value, the hidden constructor loser is not *)
Example C07_ex_observable :
  let o := setattr ex_sc (construct ex_sc 11 [(0%nat, PInt 5); (1%nat, PStr [x78]); (3%nat, PInt 9)]) 4 (PBool false) in
  enc_obj ex_sc o = Ok [x12; x01; x78; x20; x09; x28; x00] /\
  records [x12; x01; x78; x20; x09; x28; x00] = Some [(2, 2); (4, 0); (5, 0)].
Proof. vm_compute. repeat split. Qed.

(* the side condition of C07_observable is needed: a member assigned None is selected and emits nothing *)
Example C07_observable_needs_value :
  let o := setattr ex_sc (new ex_sc 11) 0 PNone in
  Inv ex_sc o /\ which_one_of o 0 = Some 0%nat /\ enc_obj ex_sc o = Ok [] /\ ~ selected_values_ok ex_sc o.
Proof.
  split; [apply inv_step with (o := new ex_sc 11) (p := OSet [] 0 PNone) (x := ONone); [apply inv_new | reflexivity]|].
  split; [reflexivity|]. split; [reflexivity|].
  intros H. apply (H 0%nat 0%nat). reflexivity.
Qed.

(* JSON: a = 0 assigned (default), t = 9: with include_default_values the keys are a, t (and no b, c, d, e);
   without it a is still there *)
Example C07_ex_json :
  let o := setattr ex_sc (setattr ex_sc (new ex_sc 11) 3 (PInt 9)) 0 (PInt 0) in
  jkeys (to_dict CAMEL true ex_sc o) = [[x61]; [x74]] /\ jkeys (to_dict CAMEL false ex_sc o) = [[x61]; [x74]] /\
  jkeys (to_dict SNAKE true ex_sc (new ex_sc 11)) = [[x74]].
Proof. vm_compute. repeat split. Qed.

(* the example history satisfies the hypothesis of the *_reachable theorems *)
Example C07_ex_ops_ok : Forall (op_ok ex_sc 11) ex_ops.
Proof.
  unfold ex_ops. repeat constructor; cbn [op_ok]; try exact I; try reflexivity;
    try (intros i v Hin _; cbn [In] in Hin;
         repeat match goal with H : _ \/ _ |- _ => destruct H end; try contradiction;
         match goal with H : (_, _) = (_, _) |- _ => injection H as <- <- end; reflexivity).
Qed.
