(* C07 — oneof exclusivity over histories (work in progress: the theorems are added as they are proved). *)
From BP Require Import Base.Prelude Model.Types Model.Object Model.C07Ops.

Theorem C07_new_selects_nothing : forall sc c g, which_one_of (new sc c) g = None.
Proof.
  intros sc c g. unfold which_one_of, new. cbn [ocur].
  generalize (cngroups (get_class sc c)) as n. intros n. revert g.
  induction n as [|n IH]; intros [|g]; cbn [repeat nth]; auto.
Qed.
Print Assumptions C07_new_selects_nothing.
