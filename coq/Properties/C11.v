(* C11 — the generated gRPC client stub and the generated server base agree:
   a call made through the stub reaches exactly the handler of the same RPC, once, with the
   requests the caller sent, and the caller receives what that handler produced, in order, for
   all four streaming cardinalities; a method that is not overridden answers UNIMPLEMENTED, a
   handler's GRPCError status reaches the caller, per-call timeout/deadline/metadata win over the
   stub-level defaults.

   Statements only; every proof is one [exact] of a lemma of Proofs/GrpcP.v.  The model
   (Model/Grpc.v) mirrors the two template sites (Stub class body / Base class body and
   __mapping__), plugin/models.py [route], grpc/grpclib_client.py and grpc/grpclib_server.py.
   All theorems quantify over EVERY service (any number of methods, any names, any types), every
   request / response stream (any length) and every handler behaviour.

   PARTIAL: the model treats a request / response stream as a list: it fixes which messages travel and in
   what order, NOT how sending and receiving interleave in time.  That ServiceStub._stream_stream keeps
   sending (background task) while the caller consumes responses — needed by conversational callers whose
   request i+1 depends on response i — is asyncio scheduling; only the harness checks it (ping-pong calls
   under a watchdog for every stream-stream method).  Likewise what grpclib's transport does (HTTP/2 framing, flow control, deadline arithmetic,
   cancellation) and asyncio scheduling are not in the model; the model takes from grpclib only
   "messages of a stream arrive in order, then the trailer status" plus the send-side checks of
   grpclib.server.Stream that decide which messages/status reach the caller.  The real calls of
   harness/props/c11.py go through all of it, the theorems do not speak about it.

   Vocabulary (Proofs/GrpcP.v):
     names_distinct svc    NoDup of the proto method names (protoc guarantees it)
     pynames_distinct svc  NoDup of the Python method names the plugin derives (NOT guaranteed: K8)
     owns svc m            m is the last method of the service with its Python name
     arg_ok m a            the caller passes one message of the declared request class (unary) or a
                           stream of them (client streaming)
     produced ss h inp     the responses a handler body yields/returns, then the status it raises
     handler_ok m h inp    those responses are of the declared class, and for a unary response the
                           handler is an `async def` returning a message or raising
     expected_obs ...      channel.request got (route of m, cardinality of m, declared classes, resolved
                           kwargs); exactly one handler body ran: m's, with the caller's requests;
                           the caller got exactly [produced] *)
From BP Require Import Base.Prelude Model.Grpc.
From BP Require Import Proofs.GrpcP.
From BP Require gen.C11Tables.

(* the stub method of m exists under m's Python name, uses m's route; the mapping sends that route to
   m's entry; the entry's adapter is the one rendered for m; no other RPC's route reaches it *)
Theorem C11_routes : forall svc m,
  names_distinct svc -> pynames_distinct svc -> In m (s_methods svc) ->
  assoc_last (stub_class svc) (m_py m) = Some (stub_method svc m) /\
  dispatch (mapping svc) (sd_route (stub_method svc m)) = Some (handler_entry_of m) /\
  assoc_last (base_adapters svc) (h_rpc (handler_entry_of m)) = Some (m_cs m, m_ss m) /\
  (forall m', In m' (s_methods svc) ->
     dispatch (mapping svc) (route svc m') = Some (handler_entry_of m) -> m' = m).
Proof. exact routes_agree. Qed.
Print Assumptions C11_routes.

(* the exact side condition on Python names: every RPC is callable through the stub attribute
   named after it IF AND ONLY IF the derived Python names are pairwise distinct *)
Theorem C11_routes_exact : forall svc, names_distinct svc ->
  ((forall m, In m (s_methods svc) ->
      assoc_last (stub_class svc) (m_py m) = Some (stub_method svc m))
   <-> pynames_distinct svc).
Proof. exact stub_lookup_exact. Qed.
Print Assumptions C11_routes_exact.

(* ... and per method: the stub attribute named after m is m's own stub method IF AND ONLY IF m is the
   last method of the service with that Python name ([owns]: later `def`s replace earlier ones) *)
Theorem C11_stub_attr_exact : forall svc m, names_distinct svc -> In m (s_methods svc) ->
  (assoc_last (stub_class svc) (m_py m) = Some (stub_method svc m) <-> owns svc m).
Proof. exact stub_attr_iff_owns. Qed.
Print Assumptions C11_stub_attr_exact.

(* every entry of __mapping__ names an adapter and a method body that exist *)
Theorem C11_mapping_closed : forall svc r e,
  dispatch (mapping svc) r = Some e ->
  exists f b, assoc_last (base_adapters svc) (h_rpc e) = Some f /\
              assoc_last (base_defaults svc) (h_rpc e) = Some b.
Proof. exact mapping_adapter_defined. Qed.
Print Assumptions C11_mapping_closed.

(* both template sites and the runtime helper agree on the cardinality, for all four combinations *)
Theorem C11_cardinality : forall m,
  helper_card (stub_helper m) = mapping_card m /\
  card_cs (mapping_card m) = m_cs m /\ card_ss (mapping_card m) = m_ss m /\
  helper_takes_iterator (stub_helper m) = m_cs m /\ helper_returns_iterator (stub_helper m) = m_ss m.
Proof. exact cardinality_agree. Qed.
Print Assumptions C11_cardinality.

Theorem C11_cardinality_four : forall cs ss n p i o, let m := Method n p cs ss i o in
  helper_card (stub_helper m) = mapping_card m /\
  mapping_card m = (if cs then (if ss then STREAM_STREAM else STREAM_UNARY)
                    else (if ss then UNARY_STREAM else UNARY_UNARY)).
Proof. exact cardinality_four. Qed.
Print Assumptions C11_cardinality_four.

(* the call reaches exactly m's handler, once, with the caller's requests in order, and the caller
   receives exactly what the handler produced, in order, then its status *)
Theorem C11_payload : forall svc im skw ckw m h a,
  names_distinct svc -> pynames_distinct svc -> In m (s_methods svc) ->
  im (m_py m) = Some h -> arg_ok m a -> handler_ok m h (hin_of a) ->
  call svc im skw (m_py m) a ckw =
    Some (expected_obs svc m skw ckw a (produced (m_ss m) h (hin_of a))).
Proof. exact payload. Qed.
Print Assumptions C11_payload.

(* the same under the weakest condition on Python names: m is the last method with its name
   (so in a service with a collision the surviving RPC still works end to end) *)
Theorem C11_payload_owner : forall svc im skw ckw m h a,
  names_distinct svc -> owns svc m ->
  im (m_py m) = Some h -> arg_ok m a -> handler_ok m h (hin_of a) ->
  call svc im skw (m_py m) a ckw =
    Some (expected_obs svc m skw ckw a (produced (m_ss m) h (hin_of a))).
Proof. exact payload_owner. Qed.
Print Assumptions C11_payload_owner.

(* server side alone, for ANY client that opens m's route with messages of the declared class (not
   only the generated stub): exactly m's handler runs, once, on those requests; what it produced
   goes on the wire in order, then its status *)
Theorem C11_server_side : forall svc im m h reqs,
  names_distinct svc -> owns svc m -> im (m_py m) = Some h ->
  typed (m_in m) reqs ->
  handler_ok m h (adapter_input (m_cs m) reqs) ->
  let p := produced (m_ss m) h (adapter_input (m_cs m) reqs) in
  serve svc im (route svc m) (map snd reqs) =
    SOut [(m_py m, adapter_input (m_cs m) reqs)] (map snd (fst p)) (snd p).
Proof. exact server_side. Qed.
Print Assumptions C11_server_side.

(* a method the subclass does not override answers UNIMPLEMENTED, whatever the cardinality *)
Theorem C11_unimplemented : forall svc im skw ckw m a,
  names_distinct svc -> pynames_distinct svc -> In m (s_methods svc) ->
  im (m_py m) = None -> arg_ok m a ->
  call svc im skw (m_py m) a ckw = Some (expected_obs svc m skw ckw a ([], Some ST_UNIMPLEMENTED)).
Proof. exact unimplemented. Qed.
Print Assumptions C11_unimplemented.

(* a route that is not in the mapping: grpclib answers UNIMPLEMENTED and no handler runs *)
Theorem C11_unknown_route : forall svc im r bs,
  (forall m, In m (s_methods svc) -> route svc m <> r) ->
  serve svc im r bs = SOut [] [] (Some ST_UNIMPLEMENTED).
Proof. exact unknown_route. Qed.
Print Assumptions C11_unknown_route.

(* a handler that raises GRPCError(s) — possibly after yielding ys — : the caller gets ys, then s *)
Theorem C11_error_status : forall svc im skw ckw m h a ys s,
  names_distinct svc -> pynames_distinct svc -> In m (s_methods svc) ->
  im (m_py m) = Some h -> arg_ok m a -> handler_ok m h (hin_of a) ->
  produced (m_ss m) h (hin_of a) = (ys, Some s) ->
  exists o, call svc im skw (m_py m) a ckw = Some o /\
            ob_res o = CRes ys (CGrpc s) /\ ob_trace o = [(m_py m, hin_of a)].
Proof. exact error_status. Qed.
Print Assumptions C11_error_status.

(* per-call kwargs take precedence, for all 2^3 x 2^3 None/Some combinations (and all values) *)
Theorem C11_kwargs : forall st sd sm ct cd cm,
  resolve_kwargs (Kw st sd sm) (Kw ct cd cm) =
  Kw (match ct with Some x => Some x | None => st end)
     (match cd with Some x => Some x | None => sd end)
     (match cm with Some x => Some x | None => sm end).
Proof. exact resolve_kwargs_spec. Qed.
Print Assumptions C11_kwargs.

(* the precedence test is "is None", not truthiness: a call-level value that is SET BUT FALSY (0 stands for
   timeout=0 / metadata={} / [] / ()) still overrides the stub-level default, for every stub-level value *)
Theorem C11_kwargs_falsy_is_set : forall (A : Type) (falsy : A) (s : option A),
  resolve1 s (Some falsy) = Some falsy /\ resolve1 s None = s.
Proof. exact resolve1_falsy. Qed.
Print Assumptions C11_kwargs_falsy_is_set.

(* ... and whatever the call, these resolved values are what reaches channel.request *)
Theorem C11_kwargs_passed : forall svc im skw py a ckw o,
  call svc im skw py a ckw = Some o -> ri_kw (ob_req o) = resolve_kwargs skw ckw.
Proof. exact call_kwargs. Qed.
Print Assumptions C11_kwargs_passed.

(* K8: with distinct proto names but colliding Python names (GetFoo / get_foo) the full statement is
   false: the stub attribute is the other RPC's method, the mapping entry of GetFoo's route runs the
   other RPC's adapter, and the caller does not receive what the handler returned *)
Theorem C11_pyname_collision_refuted :
  names_distinct collide /\ In m_GetFoo (s_methods collide) /\
  arg_ok m_GetFoo (ArgOne a_msg) /\ handler_ok m_GetFoo (HCoro (fun _ => RetMsg o_msg)) (InOne (Some a_msg)) /\
  assoc_last (stub_class collide) (m_py m_GetFoo) = Some (stub_method collide m_get_foo) /\
  (exists e, dispatch (mapping collide) (route collide m_GetFoo) = Some e /\
             assoc_last (base_adapters collide) (h_rpc e) = Some (m_cs m_get_foo, m_ss m_get_foo)) /\
  (exists o, call collide im_one kw0 (m_py m_GetFoo) (ArgOne a_msg) kw0 = Some o /\
             ri_route (ob_req o) = route collide m_get_foo /\
             ob_res o = CRes [] CDone /\
             o <> expected_obs collide m_GetFoo kw0 kw0 (ArgOne a_msg) ([o_msg], None)).
Proof. exact collision_witness. Qed.
Print Assumptions C11_pyname_collision_refuted.

(* the pinned ServiceBase._call_rpc_handler_server_stream closes a coroutine instead of running it:
   a server-streaming method written without `yield` that raises GRPCError(7) never runs and the
   caller sees OK; the model mirrors the tree with fixes/c11-server-stream-coroutine.patch *)
Theorem C11_ss_coroutine_pinned_refuted :
  exists py inp s, run_adapter_pinned true py (HCoro (fun _ => Raise1 s)) inp = ([], [], None) /\
                   run_adapter true py (HCoro (fun _ => Raise1 s)) inp = ([(py, inp)], [], Some s) /\
                   s <> 0.
Proof. exact pinned_close_skips_handler. Qed.
Print Assumptions C11_ss_coroutine_pinned_refuted.

(* T1: what reflection of the rendered probe service shows (which helper each stub body calls, the
   Cardinality each helper passes and each __mapping__ entry carries, the status of the default
   bodies, the route strings at both sites, with and without a package) is what the model says *)
Theorem C11_tables : tables_ok = true.
Proof. exact tables_agree. Qed.
Print Assumptions C11_tables.

(* ---- non-vacuity ---- *)
Definition ex_svc := C11Tables.probe_service.
Example C11_ex_distinct : names_distinct ex_svc /\ pynames_distinct ex_svc /\ length (s_methods ex_svc) = 4%nat.
Proof. split; [|split]; [apply nodup_strs_ok | apply nodup_strs_ok | ]; vm_compute; reflexivity. Qed.

Definition ex_in (z : byte) : msg := ([x2e; x63; x31; x31; x2e; x70; x72; x6f; x62; x65; x2e; x50; x49; x6e], [x08; z]).
Definition ex_out (z : byte) : msg := ([x2e; x63; x31; x31; x2e; x70; x72; x6f; x62; x65; x2e; x50; x4f; x75; x74], [x08; z]).
(* bidirectional method "mss": three requests in, two responses out, then NOT_FOUND (5) *)
Definition ex_impl : impl := impl_of [([x6d; x73; x73], HGen (fun _ => ([ex_out x01; ex_out x02], Some 5)))].
Example C11_ex_call :
  exists m, In m (s_methods ex_svc) /\ m_py m = [x6d; x73; x73] /\
    arg_ok m (ArgIter [ex_in x01; ex_in x02; ex_in x03]) /\
    handler_ok m (HGen (fun _ => ([ex_out x01; ex_out x02], Some 5))) (InMany [ex_in x01; ex_in x02; ex_in x03]) /\
    option_map ob_res (call ex_svc ex_impl (Kw (Some 1) None None) [x6d; x73; x73]
                         (ArgIter [ex_in x01; ex_in x02; ex_in x03]) (Kw None (Some 2) None))
      = Some (CRes [ex_out x01; ex_out x02] (CGrpc 5)) /\
    option_map (fun o => ri_kw (ob_req o)) (call ex_svc ex_impl (Kw (Some 1) None None) [x6d; x73; x73]
                         (ArgIter [ex_in x01; ex_in x02; ex_in x03]) (Kw None (Some 2) None))
      = Some (Kw (Some 1) (Some 2) None).
Proof.
  exists (Method [x4d; x53; x53] [x6d; x73; x73] true true (fst (ex_in x00)) (fst (ex_out x00))).
  split; [vm_compute; tauto|]. split; [reflexivity|].
  split; [split; [reflexivity | repeat constructor]|].
  split; [split; [repeat constructor | discriminate]|].
  split; vm_compute; reflexivity.
Qed.
Example C11_ex_unimplemented :
  option_map ob_res (call ex_svc (fun _ => None) kw0 [x6d; x75; x75] (ArgOne (ex_in x07)) kw0)
    = Some (CRes [] (CGrpc 12)).
Proof. vm_compute. reflexivity. Qed.
Example C11_ex_kwargs : resolve_kwargs (Kw (Some 11) (Some 21) None) (Kw None (Some 22) (Some 32)) = Kw (Some 11) (Some 22) (Some 32).
Proof. reflexivity. Qed.
(* the surviving method of a colliding pair still works end to end (hypotheses of C11_payload_owner) *)
Example C11_ex_owner :
  owns collide m_get_foo /\ ~ pynames_distinct collide /\
  option_map ob_res (call collide (fun _ => Some (HGen (fun _ => ([o_msg; o_msg], None)))) kw0 (m_py m_get_foo) (ArgOne a_msg) kw0)
    = Some (CRes [o_msg; o_msg] CDone).
Proof.
  split; [exists [m_GetFoo], []; split; [reflexivity | intros []]|].
  split; [|vm_compute; reflexivity].
  unfold pynames_distinct. cbn. intros H. inversion H as [|? ? Hn _]. apply Hn. left. reflexivity.
Qed.
(* Some falsy is not None: stub metadata 31 / timeout 11, call-level metadata={} and timeout=0 (both 0 here) win *)
Example C11_ex_kwargs_falsy :
  resolve_kwargs (Kw (Some 11) (Some 21) (Some 31)) (Kw (Some 0) None (Some 0)) = Kw (Some 0) (Some 21) (Some 0)
  /\ resolve_kwargs (Kw (Some 11) (Some 21) (Some 31)) (Kw None None None) = Kw (Some 11) (Some 21) (Some 31).
Proof. split; reflexivity. Qed.
