(* C11 — the generated gRPC client stub and the generated server base agree:
   a call made through the stub reaches exactly the handler of the same RPC, once, with the
   requests the caller sent, and the caller receives what that handler produced, in order, for
   all four streaming cardinalities; a method that is not overridden answers UNIMPLEMENTED, a
   handler's GRPCError status reaches the caller, per-call timeout/deadline/metadata win over the
   stub-level defaults.

   Statements only; every proof is one [exact] of a lemma of Proofs/GrpcP.v.  The model
   (Model/Grpc.v) mirrors the two template sites (Stub class body / Base class body and
   __mapping__), plugin/models.py [route], grpc/grpclib_client.py and grpc/grpclib_server.py.
   All theorems quantify over EVERY service (any number of methods, any names, any types), every
   request / response stream (any length) and every handler behaviour.

   INTERLEAVING.  Model/Grpc.v treats a request / response stream as a list: it fixes which messages travel and in
   what order, not how sending and receiving interleave in time.  Model/GrpcConv.v adds a small-step semantics of ONE
   call with the tasks the real code has (the sender task that ServiceStub._stream_stream starts with
   asyncio.ensure_future and in which the caller's request generator runs; the caller's response loop; the server-side
   adapter + handler; two FIFO queues for the transport) where one transition = any enabled task takes a step.  The
   C11_conversation_* theorems below are about CONVERSATIONAL callers, whose request i+1 depends on response i:
   for every protocol (request source x handler, any state machines) with a finite sequential dialogue in which the
   handler is told about the end of the request stream before it finishes, every maximal schedule of the real
   _stream_stream ends with exactly the dialogue's requests read and responses received, in order, and the handler's
   status (no deadlock, nothing lost, duplicated or reordered); the final state does not depend on the schedule;
   without response-dependence the small-step model coincides with [call] for all four helpers; and the structure
   "send everything first, then read" never completes any protocol whose request source waits for a response
   (witness: ping-pong).
   The side condition is exact and is a DEFECT of the pinned tree (known finding C11-K2, found by the tie of this
   model): grpclib's client raises ProtocolError('Outgoing stream was not ended') when the caller leaves `async with`
   before the sender task has called stream.end(), so a handler that finishes without reading the request stream to
   its end makes the caller's outcome depend on the schedule (C11_server_ends_first, C11_server_ends_first_refuted);
   without that check every finite dialogue completes (C11_conversation_complete_ideal).

   PARTIAL (runtime, exercised by the real calls of harness/props/c11.py only): HTTP/2 framing and flow control (the
   model's queues are unbounded), grpclib's deadline arithmetic, cancellation (incl. the `except: sending_task.cancel()`
   arm and a send on a stream the server has already closed), and asyncio itself beyond "any enabled task may step"
   (the real FIFO ready queue is one of the schedules the theorems quantify over).  The model takes from grpclib only
   "messages of a stream arrive in order, then the trailer status" plus the send-side checks of grpclib.server.Stream
   that decide which messages/status reach the caller.

   Vocabulary (Proofs/GrpcP.v):
     names_distinct svc    NoDup of the proto method names (protoc guarantees it)
     pynames_distinct svc  NoDup of the Python method names the plugin derives (NOT guaranteed: K8)
     owns svc m            m is the last method of the service with its Python name
     arg_ok m a            the caller passes one message of the declared request class (unary) or a
                           stream of them (client streaming)
     produced ss h inp     the responses a handler body yields/returns, then the status it raises
     handler_ok m h inp    those responses are of the declared class, and for a unary response the
                           handler is an `async def` returning a message or raising
     expected_obs ...      channel.request got (route of m, cardinality of m, declared classes, resolved
                           kwargs); exactly one handler body ran: m's, with the caller's requests;
                           the caller got exactly [produced]
   Vocabulary (Model/GrpcConv.v):
     src_act / hdl_act     one resumption of the caller's request generator (end / yield r / await the next response
                           the caller's loop has seen) / of the server side (done st / send y / recv -> Some r | None)
     step t s              task t (TSender | TCaller | THandler) takes one step from state s, None when it is blocked
                           or finished;  run sch s  follows a schedule (list of task names);  stuckb s  no task can step
     helper_mode h         how helper h is structured: (receives only after sending has finished?, iterates?, grpclib's
                           client checks that the outgoing stream was ended: true for all four);  ideal_mode  the same
                           without that check;  kahn_mode cm  no task tests a flag another task sets (check off or vacuous)
     Dlg ss sf rq hs ib t  the sequential dialogue of the two parties alone ends with transcript
                           t = (requests read, responses emitted, status, was the handler told - by a read returning
                           None - that the request stream had ended);  dialogue  the same with fuel (evaluable)
     observe s             (requests the handler has read, responses the caller has received, how the call ended)
     s_hend s / s_hdone s  the handler has been told about the end of the request stream / has finished with this status *)
From BP Require Import Base.Prelude Model.Grpc Model.GrpcConv.
From BP Require Import Proofs.GrpcP Proofs.GrpcConvP Proofs.GrpcConvSeqP Proofs.GrpcConvRealP Proofs.GrpcConvDlgP Proofs.GrpcConvFunP Proofs.GrpcConvExP.
From BP Require gen.C11Tables.

(* the stub method of m exists under m's Python name, uses m's route; the mapping sends that route to
   m's entry; the entry's adapter is the one rendered for m; no other RPC's route reaches it *)
Theorem C11_routes : forall svc m,
  names_distinct svc -> pynames_distinct svc -> In m (s_methods svc) ->
  assoc_last (stub_class svc) (m_py m) = Some (stub_method svc m) /\
  dispatch (mapping svc) (sd_route (stub_method svc m)) = Some (handler_entry_of m) /\
  assoc_last (base_adapters svc) (h_rpc (handler_entry_of m)) = Some (m_cs m, m_ss m) /\
  (forall m', In m' (s_methods svc) ->
     dispatch (mapping svc) (route svc m') = Some (handler_entry_of m) -> m' = m).
Proof. exact routes_agree. Qed.
Print Assumptions C11_routes.

(* the exact side condition on Python names: every RPC is callable through the stub attribute
   named after it IF AND ONLY IF the derived Python names are pairwise distinct *)
Theorem C11_routes_exact : forall svc, names_distinct svc ->
  ((forall m, In m (s_methods svc) ->
      assoc_last (stub_class svc) (m_py m) = Some (stub_method svc m))
   <-> pynames_distinct svc).
Proof. exact stub_lookup_exact. Qed.
Print Assumptions C11_routes_exact.

(* ... and per method: the stub attribute named after m is m's own stub method IF AND ONLY IF m is the
   last method of the service with that Python name ([owns]: later `def`s replace earlier ones) *)
Theorem C11_stub_attr_exact : forall svc m, names_distinct svc -> In m (s_methods svc) ->
  (assoc_last (stub_class svc) (m_py m) = Some (stub_method svc m) <-> owns svc m).
Proof. exact stub_attr_iff_owns. Qed.
Print Assumptions C11_stub_attr_exact.

(* every entry of __mapping__ names an adapter and a method body that exist *)
Theorem C11_mapping_closed : forall svc r e,
  dispatch (mapping svc) r = Some e ->
  exists f b, assoc_last (base_adapters svc) (h_rpc e) = Some f /\
              assoc_last (base_defaults svc) (h_rpc e) = Some b.
Proof. exact mapping_adapter_defined. Qed.
Print Assumptions C11_mapping_closed.

(* both template sites and the runtime helper agree on the cardinality, for all four combinations *)
Theorem C11_cardinality : forall m,
  helper_card (stub_helper m) = mapping_card m /\
  card_cs (mapping_card m) = m_cs m /\ card_ss (mapping_card m) = m_ss m /\
  helper_takes_iterator (stub_helper m) = m_cs m /\ helper_returns_iterator (stub_helper m) = m_ss m.
Proof. exact cardinality_agree. Qed.
Print Assumptions C11_cardinality.

Theorem C11_cardinality_four : forall cs ss n p i o, let m := Method n p cs ss i o in
  helper_card (stub_helper m) = mapping_card m /\
  mapping_card m = (if cs then (if ss then STREAM_STREAM else STREAM_UNARY)
                    else (if ss then UNARY_STREAM else UNARY_UNARY)).
Proof. exact cardinality_four. Qed.
Print Assumptions C11_cardinality_four.

(* the call reaches exactly m's handler, once, with the caller's requests in order, and the caller
   receives exactly what the handler produced, in order, then its status *)
Theorem C11_payload : forall svc im skw ckw m h a,
  names_distinct svc -> pynames_distinct svc -> In m (s_methods svc) ->
  im (m_py m) = Some h -> arg_ok m a -> handler_ok m h (hin_of a) ->
  call svc im skw (m_py m) a ckw =
    Some (expected_obs svc m skw ckw a (produced (m_ss m) h (hin_of a))).
Proof. exact payload. Qed.
Print Assumptions C11_payload.

(* the same under the weakest condition on Python names: m is the last method with its name
   (so in a service with a collision the surviving RPC still works end to end) *)
Theorem C11_payload_owner : forall svc im skw ckw m h a,
  names_distinct svc -> owns svc m ->
  im (m_py m) = Some h -> arg_ok m a -> handler_ok m h (hin_of a) ->
  call svc im skw (m_py m) a ckw =
    Some (expected_obs svc m skw ckw a (produced (m_ss m) h (hin_of a))).
Proof. exact payload_owner. Qed.
Print Assumptions C11_payload_owner.

(* server side alone, for ANY client that opens m's route with messages of the declared class (not
   only the generated stub): exactly m's handler runs, once, on those requests; what it produced
   goes on the wire in order, then its status *)
Theorem C11_server_side : forall svc im m h reqs,
  names_distinct svc -> owns svc m -> im (m_py m) = Some h ->
  typed (m_in m) reqs ->
  handler_ok m h (adapter_input (m_cs m) reqs) ->
  let p := produced (m_ss m) h (adapter_input (m_cs m) reqs) in
  serve svc im (route svc m) (map snd reqs) =
    SOut [(m_py m, adapter_input (m_cs m) reqs)] (map snd (fst p)) (snd p).
Proof. exact server_side. Qed.
Print Assumptions C11_server_side.

(* a method the subclass does not override answers UNIMPLEMENTED, whatever the cardinality *)
Theorem C11_unimplemented : forall svc im skw ckw m a,
  names_distinct svc -> pynames_distinct svc -> In m (s_methods svc) ->
  im (m_py m) = None -> arg_ok m a ->
  call svc im skw (m_py m) a ckw = Some (expected_obs svc m skw ckw a ([], Some ST_UNIMPLEMENTED)).
Proof. exact unimplemented. Qed.
Print Assumptions C11_unimplemented.

(* a route that is not in the mapping: grpclib answers UNIMPLEMENTED and no handler runs *)
Theorem C11_unknown_route : forall svc im r bs,
  (forall m, In m (s_methods svc) -> route svc m <> r) ->
  serve svc im r bs = SOut [] [] (Some ST_UNIMPLEMENTED).
Proof. exact unknown_route. Qed.
Print Assumptions C11_unknown_route.

(* a handler that raises GRPCError(s) — possibly after yielding ys — : the caller gets ys, then s *)
Theorem C11_error_status : forall svc im skw ckw m h a ys s,
  names_distinct svc -> pynames_distinct svc -> In m (s_methods svc) ->
  im (m_py m) = Some h -> arg_ok m a -> handler_ok m h (hin_of a) ->
  produced (m_ss m) h (hin_of a) = (ys, Some s) ->
  exists o, call svc im skw (m_py m) a ckw = Some o /\
            ob_res o = CRes ys (CGrpc s) /\ ob_trace o = [(m_py m, hin_of a)].
Proof. exact error_status. Qed.
Print Assumptions C11_error_status.

(* per-call kwargs take precedence, for all 2^3 x 2^3 None/Some combinations (and all values) *)
Theorem C11_kwargs : forall st sd sm ct cd cm,
  resolve_kwargs (Kw st sd sm) (Kw ct cd cm) =
  Kw (match ct with Some x => Some x | None => st end)
     (match cd with Some x => Some x | None => sd end)
     (match cm with Some x => Some x | None => sm end).
Proof. exact resolve_kwargs_spec. Qed.
Print Assumptions C11_kwargs.

(* the precedence test is "is None", not truthiness: a call-level value that is SET BUT FALSY (0 stands for
   timeout=0 / metadata={} / [] / ()) still overrides the stub-level default, for every stub-level value *)
Theorem C11_kwargs_falsy_is_set : forall (A : Type) (falsy : A) (s : option A),
  resolve1 s (Some falsy) = Some falsy /\ resolve1 s None = s.
Proof. exact resolve1_falsy. Qed.
Print Assumptions C11_kwargs_falsy_is_set.

(* ... and whatever the call, these resolved values are what reaches channel.request *)
Theorem C11_kwargs_passed : forall svc im skw py a ckw o,
  call svc im skw py a ckw = Some o -> ri_kw (ob_req o) = resolve_kwargs skw ckw.
Proof. exact call_kwargs. Qed.
Print Assumptions C11_kwargs_passed.

(* K8: with distinct proto names but colliding Python names (GetFoo / get_foo) the full statement is
   false: the stub attribute is the other RPC's method, the mapping entry of GetFoo's route runs the
   other RPC's adapter, and the caller does not receive what the handler returned *)
Theorem C11_pyname_collision_refuted :
  names_distinct collide /\ In m_GetFoo (s_methods collide) /\
  arg_ok m_GetFoo (ArgOne a_msg) /\ handler_ok m_GetFoo (HCoro (fun _ => RetMsg o_msg)) (InOne (Some a_msg)) /\
  assoc_last (stub_class collide) (m_py m_GetFoo) = Some (stub_method collide m_get_foo) /\
  (exists e, dispatch (mapping collide) (route collide m_GetFoo) = Some e /\
             assoc_last (base_adapters collide) (h_rpc e) = Some (m_cs m_get_foo, m_ss m_get_foo)) /\
  (exists o, call collide im_one kw0 (m_py m_GetFoo) (ArgOne a_msg) kw0 = Some o /\
             ri_route (ob_req o) = route collide m_get_foo /\
             ob_res o = CRes [] CDone /\
             o <> expected_obs collide m_GetFoo kw0 kw0 (ArgOne a_msg) ([o_msg], None)).
Proof. exact collision_witness. Qed.
Print Assumptions C11_pyname_collision_refuted.

(* the pinned ServiceBase._call_rpc_handler_server_stream closes a coroutine instead of running it:
   a server-streaming method written without `yield` that raises GRPCError(7) never runs and the
   caller sees OK; the model mirrors the tree with fixes/c11-server-stream-coroutine.patch *)
Theorem C11_ss_coroutine_pinned_refuted :
  exists py inp s, run_adapter_pinned true py (HCoro (fun _ => Raise1 s)) inp = ([], [], None) /\
                   run_adapter true py (HCoro (fun _ => Raise1 s)) inp = ([(py, inp)], [], Some s) /\
                   s <> 0.
Proof. exact pinned_close_skips_handler. Qed.
Print Assumptions C11_ss_coroutine_pinned_refuted.

(* T1: what reflection of the rendered probe service shows (which helper each stub body calls, the
   Cardinality each helper passes and each __mapping__ entry carries, the status of the default
   bodies, the route strings at both sites, with and without a package) is what the model says *)
Theorem C11_tables : tables_ok = true.
Proof. exact tables_agree. Qed.
Print Assumptions C11_tables.


(* ======================================================================================================
   conversational calls: the small-step model (Model/GrpcConv.v)
   ====================================================================================================== *)

(* the three tasks of a call commute pairwise, in EVERY state, for every pair of parties, in every mode that is a
   Kahn network (FIFO channels, blocking reads, no task tests a flag another sets): the client-side end-of-stream
   check is off, or vacuous because receiving starts only after stream.end() (the three send-first helpers) *)
Theorem C11_tasks_commute : forall SS HS src_step hdl_step cm single t1 t2 (s s1 s2 : state SS HS),
  kahn_mode cm = true -> t1 <> t2 ->
  step SS HS src_step hdl_step cm single t1 s = Some s1 ->
  step SS HS src_step hdl_step cm single t2 s = Some s2 ->
  exists s3, step SS HS src_step hdl_step cm single t2 s1 = Some s3 /\
             step SS HS src_step hdl_step cm single t1 s2 = Some s3.
Proof. exact step_diamond. Qed.
Print Assumptions C11_tasks_commute.

(* THE REAL _stream_stream (concurrent sender task + response iteration + grpclib's check that the outgoing stream
   was ended).  A protocol whose sequential dialogue is finite, with transcript (rd, em, st), and in which the handler
   is told that the request stream has ended before it finishes (one of its reads returns None: `async for request in
   request_iterator` handlers are): there are N and ONE state fin, stuck, in which the handler has read exactly rd, the
   caller has received exactly em and the call has ended with st, such that EVERY schedule has at most N steps, can be
   continued to fin from wherever it is (no deadlock, no livelock), and every maximal schedule ends exactly in fin *)
Theorem C11_conversation_complete : forall SS HS src_step hdl_step (ss : SS) (hs : HS) rd em st,
  Dlg SS HS src_step hdl_step ss false [] hs [] (rd, em, st, true) ->
  exists N fin,
    stuckb SS HS src_step hdl_step (helper_mode H_stream_stream) false fin = true /\
    observe fin = Observed rd em (Some (end_of st)) /\
    s_hdone fin = Some st /\ s_hend fin = true /\
    forall sch s', run SS HS src_step hdl_step (helper_mode H_stream_stream) false sch (init ss hs) = Some s' ->
      (length sch <= N)%nat /\
      (exists rest, run SS HS src_step hdl_step (helper_mode H_stream_stream) false rest s' = Some fin /\
                    (length sch + length rest = N)%nat) /\
      (stuckb SS HS src_step hdl_step (helper_mode H_stream_stream) false s' = true -> s' = fin).
Proof. exact conversation_complete. Qed.
Print Assumptions C11_conversation_complete.

(* the same for a client WITHOUT grpclib's check (ideal_mode), for every finite dialogue, told or not: what the
   concurrent structure of _stream_stream by itself guarantees *)
Theorem C11_conversation_complete_ideal : forall SS HS src_step hdl_step (ss : SS) (hs : HS) rd em st se,
  Dlg SS HS src_step hdl_step ss false [] hs [] (rd, em, st, se) ->
  exists N fin,
    stuckb SS HS src_step hdl_step (ideal_mode (helper_mode H_stream_stream)) false fin = true /\
    observe fin = Observed rd em (Some (end_of st)) /\
    s_hdone fin = Some st /\ s_hend fin = se /\
    forall sch s', run SS HS src_step hdl_step (ideal_mode (helper_mode H_stream_stream)) false sch (init ss hs) = Some s' ->
      (length sch <= N)%nat /\
      (exists rest, run SS HS src_step hdl_step (ideal_mode (helper_mode H_stream_stream)) false rest s' = Some fin /\
                    (length sch + length rest = N)%nat) /\
      (stuckb SS HS src_step hdl_step (ideal_mode (helper_mode H_stream_stream)) false s' = true -> s' = fin).
Proof. exact conversation_complete_ideal. Qed.
Print Assumptions C11_conversation_complete_ideal.

(* the side condition of C11_conversation_complete is EXACT: when the handler finishes without having been told that
   the request stream has ended, the real helper has a maximal schedule (the dialogue's own order: the handler moves
   while it can) in which every request was read and every response delivered in order, the handler ended with st, and
   the caller's iteration ends with ProtocolError('Outgoing stream was not ended') instead  (known finding C11-K2) *)
Theorem C11_server_ends_first : forall SS HS src_step hdl_step (ss : SS) (hs : HS) rd em st,
  Dlg SS HS src_step hdl_step ss false [] hs [] (rd, em, st, false) ->
  exists sch f,
    run SS HS src_step hdl_step (helper_mode H_stream_stream) false sch (init ss hs) = Some f /\
    stuckb SS HS src_step hdl_step (helper_mode H_stream_stream) false f = true /\
    observe f = Observed rd em (Some CExc) /\ s_hdone f = Some st.
Proof. exact server_ends_first. Qed.
Print Assumptions C11_server_ends_first.

(* witness: ping-pong of length 3 whose handler returns right after its third answer.  Two maximal schedules of the
   real helper, both delivering all three responses in order: sender preferred -> the iteration ends normally;
   caller preferred -> ProtocolError.  The outcome of the call depends on the schedule. *)
Theorem C11_server_ends_first_refuted :
  Dlg tsrc thdl tsrc_step thdl_step (tsrc_init pp3_src) false [] (thdl_init early_hdl None) []
      ([q x01; q x02; q x03], [a x0b; a x0c; a x0d], None, false) /\
  (exists f, run tsrc thdl tsrc_step thdl_step (helper_mode H_stream_stream) false early_sched_ok early_init = Some f /\
             stuckb tsrc thdl tsrc_step thdl_step (helper_mode H_stream_stream) false f = true /\
             observe f = Observed [q x01; q x02; q x03] [a x0b; a x0c; a x0d] (Some CDone)) /\
  (exists f, run tsrc thdl tsrc_step thdl_step (helper_mode H_stream_stream) false early_sched_bad early_init = Some f /\
             stuckb tsrc thdl tsrc_step thdl_step (helper_mode H_stream_stream) false f = true /\
             observe f = Observed [q x01; q x02; q x03] [a x0b; a x0c; a x0d] (Some CExc)).
Proof. exact server_ends_first_witness. Qed.
Print Assumptions C11_server_ends_first_refuted.

(* the final state (hence what both ends observe) does not depend on the schedule: any two maximal schedules
   from the same state end in the same state after the same number of steps - for EVERY protocol, finite dialogue
   or not, in every Kahn mode (the three send-first helpers, and _stream_stream without the end check) *)
Theorem C11_conversation_confluent : forall SS HS src_step hdl_step cm single sch1 sch2 (s f1 f2 : state SS HS),
  kahn_mode cm = true ->
  run SS HS src_step hdl_step cm single sch1 s = Some f1 -> stuckb SS HS src_step hdl_step cm single f1 = true ->
  run SS HS src_step hdl_step cm single sch2 s = Some f2 -> stuckb SS HS src_step hdl_step cm single f2 = true ->
  f1 = f2 /\ length sch1 = length sch2.
Proof. exact conv_confluent. Qed.
Print Assumptions C11_conversation_confluent.

(* ... and if ONE maximal schedule exists, no schedule is longer and every schedule can be continued to its end *)
Theorem C11_conversation_bounded : forall SS HS src_step hdl_step cm single sch1 sch2 (s f a : state SS HS),
  kahn_mode cm = true ->
  run SS HS src_step hdl_step cm single sch1 s = Some f -> stuckb SS HS src_step hdl_step cm single f = true ->
  run SS HS src_step hdl_step cm single sch2 s = Some a ->
  (length sch2 <= length sch1)%nat /\
  exists rest, run SS HS src_step hdl_step cm single rest a = Some f /\ length rest = (length sch1 - length sch2)%nat.
Proof. exact conv_bounded. Qed.
Print Assumptions C11_conversation_bounded.

(* the real _stream_stream: if ONE maximal schedule ends with the handler told about the end of the request stream,
   then no schedule is longer, every schedule can be continued to that final state, and every maximal schedule ends
   in it - whatever the protocol *)
Theorem C11_conversation_confluent_real : forall SS HS src_step hdl_step (ss : SS) (hs : HS) sch1 f1,
  run SS HS src_step hdl_step (helper_mode H_stream_stream) false sch1 (init ss hs) = Some f1 ->
  stuckb SS HS src_step hdl_step (helper_mode H_stream_stream) false f1 = true -> s_hend f1 = true ->
  forall sch2 s2, run SS HS src_step hdl_step (helper_mode H_stream_stream) false sch2 (init ss hs) = Some s2 ->
    (length sch2 <= length sch1)%nat /\
    (exists rest, run SS HS src_step hdl_step (helper_mode H_stream_stream) false rest s2 = Some f1 /\
                  (length sch2 + length rest = length sch1)%nat) /\
    (stuckb SS HS src_step hdl_step (helper_mode H_stream_stream) false s2 = true -> s2 = f1).
Proof. exact conv_confluent_real. Qed.
Print Assumptions C11_conversation_confluent_real.

(* what "the sequential dialogue is finite (and the handler is told about the end)" means, exactly: SOME schedule of
   the real _stream_stream completes the call with the handler told (and then, by the theorems above, every maximal
   schedule does, with the same result) *)
Theorem C11_conversation_exact : forall SS HS src_step hdl_step (ss : SS) (hs : HS),
  (exists rd em st, Dlg SS HS src_step hdl_step ss false [] hs [] (rd, em, st, true)) <->
  (exists sch f, run SS HS src_step hdl_step (helper_mode H_stream_stream) false sch (init ss hs) = Some f /\
                 stuckb SS HS src_step hdl_step (helper_mode H_stream_stream) false f = true /\
                 s_cend f <> None /\ s_hend f = true).
Proof. exact dlg_exact_real. Qed.
Print Assumptions C11_conversation_exact.

(* ... and without the end check: finite dialogue <-> some schedule completes the call *)
Theorem C11_conversation_exact_ideal : forall SS HS src_step hdl_step (ss : SS) (hs : HS),
  (exists t, Dlg SS HS src_step hdl_step ss false [] hs [] t) <->
  (exists sch f, run SS HS src_step hdl_step (ideal_mode (helper_mode H_stream_stream)) false sch (init ss hs) = Some f /\
                 stuckb SS HS src_step hdl_step (ideal_mode (helper_mode H_stream_stream)) false f = true /\ s_cend f <> None).
Proof. exact dlg_exact. Qed.
Print Assumptions C11_conversation_exact_ideal.

(* a protocol has at most one transcript; the evaluator with fuel is sound for Dlg (decidable way to establish it) *)
Theorem C11_dialogue_functional : forall SS HS src_step hdl_step (ss : SS) (hs : HS) t1 t2,
  Dlg SS HS src_step hdl_step ss false [] hs [] t1 -> Dlg SS HS src_step hdl_step ss false [] hs [] t2 -> t1 = t2.
Proof. exact dlg_functional. Qed.
Print Assumptions C11_dialogue_functional.

Theorem C11_dialogue_eval_sound : forall SS HS src_step hdl_step n (ss : SS) sf rq (hs : HS) ib t,
  dialogue SS HS src_step hdl_step n ss sf rq hs ib = Some t -> Dlg SS HS src_step hdl_step ss sf rq hs ib t.
Proof. exact dialogue_sound. Qed.
Print Assumptions C11_dialogue_eval_sound.

(* ... and complete: "finite dialogue" is semi-decided by the evaluator (enough fuel finds it, more fuel agrees) *)
Theorem C11_dialogue_eval_complete : forall SS HS src_step hdl_step (ss : SS) sf rq (hs : HS) ib t,
  Dlg SS HS src_step hdl_step ss sf rq hs ib t ->
  exists n, forall m, (n <= m)%nat -> dialogue SS HS src_step hdl_step m ss sf rq hs ib = Some t.
Proof. exact dialogue_complete. Qed.
Print Assumptions C11_dialogue_eval_complete.

(* the helpers that send first and receive afterwards (_unary_unary, _unary_stream, _stream_unary; it = does the
   caller iterate; chk = the end check, vacuous here): for a request source that yields rs without waiting for a
   response and a handler that, given the closed stream rs, reads rd, emits em and ends with st, every maximal
   schedule ends with that transcript (a unary-response caller keeps the first message, or raises the status) *)
Theorem C11_sequential_helpers_complete : forall SS HS src_step hdl_step it chk single (ss : SS) (hs : HS) rs rd em st,
  SrcPlain SS src_step ss rs -> HdlRuns HS hdl_step single rs hs false (rd, em, st) ->
  exists N fin,
    stuckb SS HS src_step hdl_step (CMode true it chk) single fin = true /\
    observe fin = Observed rd (fst (seq_result it em st)) (Some (snd (seq_result it em st))) /\
    forall sch s', run SS HS src_step hdl_step (CMode true it chk) single sch (init ss hs) = Some s' ->
      (length sch <= N)%nat /\
      (exists rest, run SS HS src_step hdl_step (CMode true it chk) single rest s' = Some fin /\
                    (length sch + length rest = N)%nat) /\
      (stuckb SS HS src_step hdl_step (CMode true it chk) single s' = true -> s' = fin).
Proof. exact seq_complete. Qed.
Print Assumptions C11_sequential_helpers_complete.

(* where the request stream does not depend on responses the small-step model coincides with the functional
   model, for all four cardinalities: the system structured like the helper the stub body names
   (helper_mode (stub_helper m), end check included), with the response cardinality of the mapping entry, the
   caller's list as the source and the functional handler behind the adapter rendered for m ([fun_run],
   Proofs/GrpcConvFunP.v) - every schedule is bounded and can be completed, and every maximal schedule ends with the
   result, and the handler with the input, that [call] computes *)
Theorem C11_conversation_agrees_functional : forall svc im skw ckw m h a,
  names_distinct svc -> owns svc m -> im (m_py m) = Some h ->
  arg_ok m a -> handler_ok m h (hin_of a) ->
  (exists N, forall sch s', fun_run m h sch (init (reqs_of a) (FRead [])) = Some s' ->
     (length sch <= N)%nat /\
     exists rest f, fun_run m h rest s' = Some f /\ fun_stuckb m h f = true) /\
  (forall sch f, fun_run m h sch (init (reqs_of a) (FRead [])) = Some f -> fun_stuckb m h f = true ->
     exists o e, call svc im skw (m_py m) a ckw = Some o /\
                 s_cend f = Some e /\ ob_res o = CRes (s_recv f) e /\
                 ob_trace o = [(m_py m, adapter_input (m_cs m) (s_hread f))]).
Proof. exact conv_agrees_functional. Qed.
Print Assumptions C11_conversation_agrees_functional.

(* the seeded breaking change (the caller reads responses only after the sender has finished: _stream_unary's
   sending with _unary_stream's receiving) NEVER completes a call whose request source waits for a response at
   all, under any schedule, whatever the handler *)
Theorem C11_send_all_first_never_completes : forall SS HS src_step hdl_step single (ss : SS) (hs : HS),
  SrcWaits SS src_step ss ->
  forall sch s, run SS HS src_step hdl_step send_all_first_mode single sch (init ss hs) = Some s ->
    s_cend s = None /\ s_recv s = [].
Proof. exact send_all_first_never_completes. Qed.
Print Assumptions C11_send_all_first_never_completes.

(* witness: ping-pong of length 3 HAS a finite dialogue, yet the variant reaches, after the sender's first request
   and the handler's first answer, a state in which no task can move, the call has not completed, the caller has
   received nothing and the answer sits in the response queue; and no schedule of the variant completes it *)
Theorem C11_send_all_first_deadlocks_refuted :
  (exists t, Dlg tsrc thdl tsrc_step thdl_step (tsrc_init pp3_src) false [] (thdl_init pp3_hdl None) [] t) /\
  (exists sch f,
     run tsrc thdl tsrc_step thdl_step send_all_first_mode false sch (init (tsrc_init pp3_src) (thdl_init pp3_hdl None)) = Some f /\
     stuckb tsrc thdl tsrc_step thdl_step send_all_first_mode false f = true /\
     s_cend f = None /\ s_recv f = [] /\ s_hread f = [q x01] /\ s_respq f = [a x0b]) /\
  (forall sch s,
     run tsrc thdl tsrc_step thdl_step send_all_first_mode false sch (init (tsrc_init pp3_src) (thdl_init pp3_hdl None)) = Some s ->
     s_cend s = None /\ s_recv s = []).
Proof. exact send_all_first_deadlocks. Qed.
Print Assumptions C11_send_all_first_deadlocks_refuted.

(* ---- non-vacuity ---- *)
Definition ex_svc := C11Tables.probe_service.
Example C11_ex_distinct : names_distinct ex_svc /\ pynames_distinct ex_svc /\ length (s_methods ex_svc) = 4%nat.
Proof. split; [|split]; [apply nodup_strs_ok | apply nodup_strs_ok | ]; vm_compute; reflexivity. Qed.

Definition ex_in (z : byte) : msg := ([x2e; x63; x31; x31; x2e; x70; x72; x6f; x62; x65; x2e; x50; x49; x6e], [x08; z]).
Definition ex_out (z : byte) : msg := ([x2e; x63; x31; x31; x2e; x70; x72; x6f; x62; x65; x2e; x50; x4f; x75; x74], [x08; z]).
(* bidirectional method "mss": three requests in, two responses out, then NOT_FOUND (5) *)
Definition ex_impl : impl := impl_of [([x6d; x73; x73], HGen (fun _ => ([ex_out x01; ex_out x02], Some 5)))].
Example C11_ex_call :
  exists m, In m (s_methods ex_svc) /\ m_py m = [x6d; x73; x73] /\
    arg_ok m (ArgIter [ex_in x01; ex_in x02; ex_in x03]) /\
    handler_ok m (HGen (fun _ => ([ex_out x01; ex_out x02], Some 5))) (InMany [ex_in x01; ex_in x02; ex_in x03]) /\
    option_map ob_res (call ex_svc ex_impl (Kw (Some 1) None None) [x6d; x73; x73]
                         (ArgIter [ex_in x01; ex_in x02; ex_in x03]) (Kw None (Some 2) None))
      = Some (CRes [ex_out x01; ex_out x02] (CGrpc 5)) /\
    option_map (fun o => ri_kw (ob_req o)) (call ex_svc ex_impl (Kw (Some 1) None None) [x6d; x73; x73]
                         (ArgIter [ex_in x01; ex_in x02; ex_in x03]) (Kw None (Some 2) None))
      = Some (Kw (Some 1) (Some 2) None).
Proof.
  exists (Method [x4d; x53; x53] [x6d; x73; x73] true true (fst (ex_in x00)) (fst (ex_out x00))).
  split; [vm_compute; tauto|]. split; [reflexivity|].
  split; [split; [reflexivity | repeat constructor]|].
  split; [split; [repeat constructor | discriminate]|].
  split; vm_compute; reflexivity.
Qed.
Example C11_ex_unimplemented :
  option_map ob_res (call ex_svc (fun _ => None) kw0 [x6d; x75; x75] (ArgOne (ex_in x07)) kw0)
    = Some (CRes [] (CGrpc 12)).
Proof. vm_compute. reflexivity. Qed.
Example C11_ex_kwargs : resolve_kwargs (Kw (Some 11) (Some 21) None) (Kw None (Some 22) (Some 32)) = Kw (Some 11) (Some 22) (Some 32).
Proof. reflexivity. Qed.
(* the surviving method of a colliding pair still works end to end (hypotheses of C11_payload_owner) *)
Example C11_ex_owner :
  owns collide m_get_foo /\ ~ pynames_distinct collide /\
  option_map ob_res (call collide (fun _ => Some (HGen (fun _ => ([o_msg; o_msg], None)))) kw0 (m_py m_get_foo) (ArgOne a_msg) kw0)
    = Some (CRes [o_msg; o_msg] CDone).
Proof.
  split; [exists [m_GetFoo], []; split; [reflexivity | intros []]|].
  split; [|vm_compute; reflexivity].
  unfold pynames_distinct. cbn. intros H. inversion H as [|? ? Hn _]. apply Hn. left. reflexivity.
Qed.
(* Some falsy is not None: stub metadata 31 / timeout 11, call-level metadata={} and timeout=0 (both 0 here) win *)
Example C11_ex_kwargs_falsy :
  resolve_kwargs (Kw (Some 11) (Some 21) (Some 31)) (Kw (Some 0) None (Some 0)) = Kw (Some 0) (Some 21) (Some 0)
  /\ resolve_kwargs (Kw (Some 11) (Some 21) (Some 31)) (Kw None None None) = Kw (Some 11) (Some 21) (Some 31).
Proof. split; reflexivity. Qed.

(* ---- non-vacuity of the conversational theorems ---- *)
(* ping-pong of length 3 (each request after the first is chosen by the response just seen, each response by the
   request just read) has a finite dialogue: the hypothesis of C11_conversation_complete *)
Example C11_ex_pingpong3 :
  Dlg tsrc thdl tsrc_step thdl_step (tsrc_init pp3_src) false [] (thdl_init pp3_hdl None) []
      ([q x01; q x02; q x03], [a x0b; a x0c; a x0d], None, true).
Proof. eapply dialogue_sound. exact pp3_dialogue. Qed.
(* the server speaks first, a burst of two responses, the handler reads to the end and ends with NOT_FOUND (5) *)
Example C11_ex_server_first :
  Dlg tsrc thdl tsrc_step thdl_step (tsrc_init greet_src) false [] (thdl_init greet_hdl (Some 5)) []
      ([q x11; q x12], [a x07; a x21; a x22], Some 5, true).
Proof. eapply dialogue_sound. exact greet_dialogue. Qed.
(* the hypothesis is not trivial: a protocol in which each side waits for the other has no dialogue *)
Example C11_ex_no_dialogue :
  ~ exists t, Dlg tsrc thdl tsrc_step thdl_step (tsrc_init stall_src) false [] (thdl_init stall_hdl None) [] t.
Proof. exact stall_no_dialogue. Qed.
(* the _stream_stream system evaluated under three different schedulers gives those transcripts *)
Example C11_ex_schedules :
  option_map observe (table_system (helper_mode H_stream_stream) false 80 [0%nat] pp3_src pp3_hdl None)
    = Some (Observed [q x01; q x02; q x03] [a x0b; a x0c; a x0d] (Some CDone)) /\
  option_map observe (table_system (helper_mode H_stream_stream) false 80 [2%nat; 1%nat] pp3_src pp3_hdl None)
    = Some (Observed [q x01; q x02; q x03] [a x0b; a x0c; a x0d] (Some CDone)) /\
  option_map observe (table_system (helper_mode H_stream_stream) false 80 [1%nat; 0%nat; 2%nat; 2%nat] greet_src greet_hdl (Some 5))
    = Some (Observed [q x11; q x12] [a x07; a x21; a x22] (Some (CGrpc 5))).
Proof. exact pp3_system_schedules. Qed.
(* the ping-pong source waits for a response (hypothesis of C11_send_all_first_never_completes) *)
Example C11_ex_src_waits : SrcWaits tsrc tsrc_step (tsrc_init pp3_src).
Proof. eapply SW_later; [reflexivity|]. eapply SW_now. reflexivity. Qed.
(* hypotheses of C11_sequential_helpers_complete: a list source, a handler that reads two requests and answers *)
Example C11_ex_sequential :
  SrcPlain (list msg) list_src_step [q x01; q x02] [q x01; q x02] /\
  HdlRuns thdl thdl_step false [q x01; q x02] (thdl_init [HI_recv; HI_yield (a x01); HI_recv; HI_recv; HI_yield (a x02)] None) false
          ([q x01; q x02], [a x01; a x02], None).
Proof.
  split; [apply list_src_plain|].
  eapply HR_recv; [reflexivity|]. eapply HR_yield; [reflexivity | reflexivity|].
  eapply HR_recv; [reflexivity|]. eapply HR_recv_end; [reflexivity|].
  eapply HR_yield; [reflexivity | reflexivity|].
  exact (HR_done thdl thdl_step false [] ([], None, None) true None eq_refl).
Qed.
(* a finite dialogue in which the handler is NOT told about the end (hypothesis of C11_server_ends_first) *)
Example C11_ex_server_ends_first :
  Dlg tsrc thdl tsrc_step thdl_step (tsrc_init pp3_src) false [] (thdl_init early_hdl None) []
      ([q x01; q x02; q x03], [a x0b; a x0c; a x0d], None, false).
Proof. eapply dialogue_sound. exact early_dialogue. Qed.
(* the real helpers are Kahn modes except _stream_stream (hypothesis of C11_tasks_commute / _confluent / _bounded) *)
Example C11_ex_kahn_modes :
  kahn_mode (helper_mode H_unary_unary) = true /\ kahn_mode (helper_mode H_unary_stream) = true /\
  kahn_mode (helper_mode H_stream_unary) = true /\ kahn_mode (helper_mode H_stream_stream) = false /\
  kahn_mode (ideal_mode (helper_mode H_stream_stream)) = true.
Proof. repeat split; reflexivity. Qed.


(* ======================================================================================================
   GAP CLOSING (Proofs/C11GapA.v — clause-by-clause table of the property text against the theorems above —,
   Proofs/C11GapB.v; new definitions in Model/C11GapDefs.v).  Nothing above is changed.
   ====================================================================================================== *)
From BP Require Import Model.C11GapDefs Proofs.C11GapA.

(* ---- clause (1), known finding C11-K3: "through the generated client stub" is through an INSTANCE.  ServiceStub.__init__
   stores self.channel / self.timeout / self.deadline / self.metadata; getattr on an instance finds these before the class
   body ([stub_getattr], [call_inst], Model/C11GapDefs.v).  C11_routes / C11_payload / C11_unimplemented hold of the instance
   call under the exact extra side condition shadowedb (m_py m) = false: the Python method name is not one of the four ---- *)
Theorem C11_routes_instance : forall svc m,
  names_distinct svc -> pynames_distinct svc -> In m (s_methods svc) -> shadowedb (m_py m) = false ->
  stub_getattr svc (m_py m) = Some (AttrMethod (stub_method svc m)) /\
  dispatch (mapping svc) (sd_route (stub_method svc m)) = Some (handler_entry_of m) /\
  assoc_last (base_adapters svc) (h_rpc (handler_entry_of m)) = Some (m_cs m, m_ss m) /\
  (forall m', In m' (s_methods svc) ->
     dispatch (mapping svc) (route svc m') = Some (handler_entry_of m) -> m' = m).
Proof. exact routes_inst. Qed.
Print Assumptions C11_routes_instance.

Theorem C11_payload_instance : forall svc im skw ckw m h a,
  names_distinct svc -> owns svc m -> shadowedb (m_py m) = false ->
  im (m_py m) = Some h -> arg_ok m a -> handler_ok m h (hin_of a) ->
  call_inst svc im skw (m_py m) a ckw =
    Some (CallObs (expected_obs svc m skw ckw a (produced (m_ss m) h (hin_of a)))).
Proof. exact payload_inst. Qed.
Print Assumptions C11_payload_instance.

Theorem C11_unimplemented_instance : forall svc im skw ckw m a,
  names_distinct svc -> owns svc m -> shadowedb (m_py m) = false ->
  im (m_py m) = None -> arg_ok m a ->
  call_inst svc im skw (m_py m) a ckw =
    Some (CallObs (expected_obs svc m skw ckw a ([], Some ST_UNIMPLEMENTED))).
Proof. exact unimplemented_inst. Qed.
Print Assumptions C11_unimplemented_instance.

(* off the four names the instance call IS the call of Model/Grpc.v: every theorem above transfers *)
Theorem C11_instance_call_agrees : forall svc im skw py a ckw,
  shadowedb py = false -> call_inst svc im skw py a ckw = option_map CallObs (call svc im skw py a ckw).
Proof. exact call_inst_agrees. Qed.
Print Assumptions C11_instance_call_agrees.

(* the side condition is needed: rpc Timeout.  Every hypothesis of C11_payload holds and the class-body model lets the call
   through, the instance call is a TypeError (nothing reaches channel.request, no handler runs), while the server side alone
   still serves the route (C11_server_side does not depend on the stub) *)
Theorem C11_shadowed_instance_refuted :
  names_distinct shadow_svc_g /\ pynames_distinct shadow_svc_g /\ In m_Timeout (s_methods shadow_svc_g) /\
  im_one (m_py m_Timeout) = Some h_one /\ arg_ok m_Timeout (ArgOne a_msg) /\
  handler_ok m_Timeout h_one (hin_of (ArgOne a_msg)) /\
  shadowedb (m_py m_Timeout) = true /\
  call shadow_svc_g im_one kw0 (m_py m_Timeout) (ArgOne a_msg) kw0 =
    Some (expected_obs shadow_svc_g m_Timeout kw0 kw0 (ArgOne a_msg) ([o_msg], None)) /\
  call_inst shadow_svc_g im_one kw0 (m_py m_Timeout) (ArgOne a_msg) kw0 = Some CallTypeError /\
  serve shadow_svc_g im_one (route shadow_svc_g m_Timeout) [snd a_msg] =
    SOut [(m_py m_Timeout, InOne (Some a_msg))] [snd o_msg] None.
Proof. exact shadowed_inst_witness. Qed.
Print Assumptions C11_shadowed_instance_refuted.

(* ... and it fails for ALL four names, in every service, for every argument, handler and keyword arguments *)
Theorem C11_shadowed_always_typeerror : forall svc im skw py a ckw,
  shadowedb py = true -> call_inst svc im skw py a ckw = Some CallTypeError /\ stub_getattr svc py = Some AttrData.
Proof. exact shadowed_always_typeerror. Qed.
Print Assumptions C11_shadowed_always_typeerror.

Theorem C11_shadowed_iff : forall py, shadowedb py = true <-> In py [key_channel; key_timeout; key_deadline; key_metadata].
Proof. exact shadowedb_iff. Qed.
Print Assumptions C11_shadowed_iff.

(* C11_routes_exact through an instance: every RPC is reachable through the instance attribute named after it IF AND ONLY IF
   the Python names are pairwise distinct (K8) AND none is one of the four instance attributes (C11-K3) *)
Theorem C11_instance_exact : forall svc, names_distinct svc ->
  ((forall m, In m (s_methods svc) -> stub_getattr svc (m_py m) = Some (AttrMethod (stub_method svc m)))
   <-> (pynames_distinct svc /\ unshadowedb svc = true)).
Proof. exact inst_exact. Qed.
Print Assumptions C11_instance_exact.

Theorem C11_kwargs_passed_instance : forall svc im skw py a ckw o,
  call_inst svc im skw py a ckw = Some (CallObs o) -> ri_kw (ob_req o) = resolve_kwargs skw ckw.
Proof. exact kwargs_passed_inst. Qed.
Print Assumptions C11_kwargs_passed_instance.

(* ---- clause (1) "exactly the handler for the same RPC, once", for ALL behaviours: whatever the handler bodies do (wrong
   classes, None, generators where coroutines are expected), whatever the argument, colliding Python names or not - at most ONE
   handler body runs, and it is the one resolved under the Python name that was called ---- *)
Theorem C11_call_at_most_once : forall svc im skw py a ckw o,
  names_distinct svc -> call svc im skw py a ckw = Some o ->
  ob_trace o = [] \/ exists inp, ob_trace o = [(py, inp)].
Proof. exact call_at_most_once. Qed.
Print Assumptions C11_call_at_most_once.

(* ... and what reaches channel.request is the route / cardinality / reply class of ONE RPC of this service that has the called
   Python name (never a foreign route), with the resolved keyword arguments *)
Theorem C11_call_is_some_method : forall svc im skw py a ckw o,
  call svc im skw py a ckw = Some o ->
  exists m, In m (s_methods svc) /\ m_py m = py /\
    ri_route (ob_req o) = route svc m /\ ri_card (ob_req o) = mapping_card m /\ ri_resp_ty (ob_req o) = m_out m /\
    ri_kw (ob_req o) = resolve_kwargs skw ckw.
Proof. exact call_is_some_method. Qed.
Print Assumptions C11_call_is_some_method.

(* server side, any client, any bytes: at most one handler body, that of an RPC with the route that was opened *)
Theorem C11_serve_at_most_once : forall svc im r bs,
  so_trace (serve svc im r bs) = [] \/
  exists m cs ss, In m (s_methods svc) /\ route svc m = r /\
    assoc_last (base_adapters svc) (m_py m) = Some (cs, ss) /\
    so_trace (serve svc im r bs) = [(m_py m, adapter_input cs (map (decode_as (m_in m)) bs))].
Proof. exact serve_trace. Qed.
Print Assumptions C11_serve_at_most_once.

(* ---- routes: uniqueness, and the converse of C11_unknown_route ---- *)
Theorem C11_route_injective : forall svc m m',
  names_distinct svc -> In m (s_methods svc) -> In m' (s_methods svc) -> route svc m = route svc m' -> m = m'.
Proof. exact route_injective. Qed.
Print Assumptions C11_route_injective.

Theorem C11_route_known_iff : forall svc r,
  (exists e, dispatch (mapping svc) r = Some e) <-> stub_known_route svc r = true.
Proof. exact route_known_iff. Qed.
Print Assumptions C11_route_known_iff.

Theorem C11_dispatch_is_some_method : forall svc r e,
  dispatch (mapping svc) r = Some e -> exists m, In m (s_methods svc) /\ route svc m = r /\ e = handler_entry_of m.
Proof. exact dispatch_some_method. Qed.
Print Assumptions C11_dispatch_is_some_method.

(* ---- clauses (6), (7): status in BOTH directions: the call ends with GRPCError(s) iff the handler raised s (so an overridden
   method answers UNIMPLEMENTED only if its own body raises it), normally iff the handler ended normally, never otherwise; and
   the messages are the handler's ---- *)
Theorem C11_status_iff : forall svc im skw ckw m h a,
  names_distinct svc -> owns svc m ->
  im (m_py m) = Some h -> arg_ok m a -> handler_ok m h (hin_of a) ->
  exists o, call svc im skw (m_py m) a ckw = Some o /\
    (forall s, cr_end (ob_res o) = CGrpc s <-> snd (produced (m_ss m) h (hin_of a)) = Some s) /\
    (cr_end (ob_res o) = CDone <-> snd (produced (m_ss m) h (hin_of a)) = None) /\
    cr_end (ob_res o) <> CExc /\
    cr_msgs (ob_res o) = fst (produced (m_ss m) h (hin_of a)).
Proof. exact status_iff. Qed.
Print Assumptions C11_status_iff.

(* C11_unimplemented under the weakest name condition (the surviving method of a colliding pair) *)
Theorem C11_unimplemented_owner : forall svc im skw ckw m a,
  names_distinct svc -> owns svc m -> im (m_py m) = None -> arg_ok m a ->
  call svc im skw (m_py m) a ckw = Some (expected_obs svc m skw ckw a ([], Some ST_UNIMPLEMENTED)).
Proof. exact unimplemented_owner. Qed.
Print Assumptions C11_unimplemented_owner.

(* ---- every hypothesis of the headline theorems is decidable: boolean forms (Model/C11GapDefs.v) ---- *)
Theorem C11_hypotheses_decidable : forall svc m a h inp,
  (names_distinctb svc = true <-> names_distinct svc) /\
  (pynames_distinctb svc = true <-> pynames_distinct svc) /\
  (ownsb svc m = true <-> owns svc m) /\
  (arg_okb m a = true <-> arg_ok m a) /\
  (handler_okb m h inp = true <-> handler_ok m h inp).
Proof.
  intros svc m a h inp.
  exact (conj (names_distinctb_iff svc) (conj (pynames_distinctb_iff svc) (conj (ownsb_iff svc m)
        (conj (arg_okb_iff m a) (handler_okb_iff m h inp))))).
Qed.
Print Assumptions C11_hypotheses_decidable.

(* ---- non-vacuity of the gap theorems ---- *)
(* the probe service (4 methods, all four cardinalities) meets the instance hypotheses, evaluated *)
Example C11_ex_gap_booleans :
  names_distinctb ex_svc = true /\ pynames_distinctb ex_svc = true /\ unshadowedb ex_svc = true /\
  forallb (ownsb ex_svc) (s_methods ex_svc) = true /\
  unshadowedb shadow_svc_g = false /\ pynames_distinctb collide = false /\
  ownsb collide m_get_foo = true /\ ownsb collide m_GetFoo = false /\
  shadowedb (m_py m_get_foo) = false.
Proof. repeat split; vm_compute; reflexivity. Qed.
(* an instance call of the bidirectional probe method: three requests in, two responses and NOT_FOUND out *)
Example C11_ex_instance_call :
  option_map (fun r => match r with CallObs o => Some (ob_res o) | CallTypeError => None end)
     (call_inst ex_svc ex_impl (Kw (Some 1) None None) [x6d; x73; x73]
                (ArgIter [ex_in x01; ex_in x02; ex_in x03]) (Kw None (Some 2) None))
    = Some (Some (CRes [ex_out x01; ex_out x02] (CGrpc 5))) /\
  arg_okb (Method [x4d; x53; x53] [x6d; x73; x73] true true (fst (ex_in x00)) (fst (ex_out x00)))
          (ArgIter [ex_in x01; ex_in x02; ex_in x03]) = true /\
  handler_okb (Method [x4d; x53; x53] [x6d; x73; x73] true true (fst (ex_in x00)) (fst (ex_out x00)))
          (HGen (fun _ => ([ex_out x01; ex_out x02], Some 5))) (InMany [ex_in x01; ex_in x02; ex_in x03]) = true.
Proof. repeat split; vm_compute; reflexivity. Qed.
(* C11_call_at_most_once / C11_call_is_some_method on a call whose handler is NOT handler_ok (yields a message of the wrong class): one body ran, UNKNOWN *)
Example C11_ex_bad_handler_once :
  option_map (fun o => (ob_trace o, ob_res o))
    (call collide (fun _ => Some (HGen (fun _ => ([a_msg], None)))) kw0 (m_py m_get_foo) (ArgOne a_msg) kw0)
    = Some ([(m_py m_get_foo, InOne (Some a_msg))], CRes [] (CGrpc 2)) /\
  handler_okb m_get_foo (HGen (fun _ => ([a_msg], None))) (InOne (Some a_msg)) = false /\
  stub_known_route collide (route collide m_GetFoo) = true /\ stub_known_route collide [x2f; x78] = false.
Proof. repeat split; vm_compute; reflexivity. Qed.


(* ---- second group (Proofs/C11GapB.v) ---- *)
From BP Require Import Proofs.C11GapB.

(* what a call returns for ANY handler body installed under m's Python name (handler_ok or not): the adapter's run, grpclib's
   send checks for the cardinality of the entry, the client's reading - the general form behind C11_payload *)
Theorem C11_call_general : forall svc im skw ckw m h a,
  names_distinct svc -> owns svc m -> resolve_handler svc im (m_py m) = Some h -> arg_ok m a ->
  call svc im skw (m_py m) a ckw =
    Some (Obs (RInfo (route svc m) (mapping_card m) (m_in m) (m_out m) (resolve_kwargs skw ckw))
              (so_trace (so_of m h (hin_of a)))
              (client_recv (stub_helper m) (m_out m) (so_of m h (hin_of a)))).
Proof. exact call_general. Qed.
Print Assumptions C11_call_general.

(* clause (3): handler_ok is EXACT.  Under the other hypotheses of C11_payload_owner the observation is the expected one - m's
   handler ran once on the caller's requests and the caller received exactly what it produced, in order, then its status - IF AND
   ONLY IF handler_ok: a reply of another class, `return None`, or an async generator under a unary reply all lose it *)
Theorem C11_payload_iff_handler_ok : forall svc im skw ckw m h a,
  names_distinct svc -> owns svc m -> im (m_py m) = Some h -> arg_ok m a ->
  (call svc im skw (m_py m) a ckw = Some (expected_obs svc m skw ckw a (produced (m_ss m) h (hin_of a)))
   <-> handler_ok m h (hin_of a)).
Proof. exact payload_iff_handler_ok. Qed.
Print Assumptions C11_payload_iff_handler_ok.

(* clause (2): arg_ok is needed for "a request equal to what the caller sent".  A unary call with a message of ANOTHER class: the
   unary helpers pass type(request) as request_type, the client codec accepts it, the server decodes the same bytes as the
   declared class - the handler runs on an object that is not the caller's *)
Theorem C11_arg_wrong_class_refuted :
  names_distinct svc_one /\ pynames_distinct svc_one /\ In m_GetFoo (s_methods svc_one) /\
  arg_okb m_GetFoo (ArgOne o_msg) = false /\
  exists o, call svc_one im_one kw0 (m_py m_GetFoo) (ArgOne o_msg) kw0 = Some o /\
            ri_req_ty (ob_req o) = fst o_msg /\
            ob_trace o = [(m_py m_GetFoo, InOne (Some (m_in m_GetFoo, snd o_msg)))] /\
            (m_in m_GetFoo, snd o_msg) <> o_msg /\
            ob_trace o <> [(m_py m_GetFoo, hin_of (ArgOne o_msg))].
Proof. exact arg_wrong_class_witness. Qed.
Print Assumptions C11_arg_wrong_class_refuted.

(* clauses (2)/(3) at the level of OBJECTS (quantifier "for all request values"): for ANY class map, serialiser, per-class parser
   and normal form such that parse (class v) (bytes v) = Some (nf v) on the objects in question - which is what C01_roundtrip /
   C01_roundtrip_reachable prove of betterproto's bytes / parse with nf = norm_obj - the handler receives a message that parses
   to the normal form of the caller's object, and the caller one that parses to the normal form of the handler's *)
Theorem C11_payload_objects : forall (O : Type) (cls : O -> str) (ser : O -> list byte) (par : str -> list byte -> option O)
    (nf : O -> O) svc im skw ckw m f (req resp : O),
  names_distinct svc -> owns svc m -> m_cs m = false -> m_ss m = false ->
  cls req = m_in m -> cls resp = m_out m -> rt_ok cls ser par nf req -> rt_ok cls ser par nf resp ->
  im (m_py m) = Some (HCoro f) -> f (InOne (Some (msg_of cls ser req))) = RetMsg (msg_of cls ser resp) ->
  exists o x y, call svc im skw (m_py m) (ArgOne (msg_of cls ser req)) ckw = Some o /\
    ob_trace o = [(m_py m, InOne (Some x))] /\ obj_of par x = Some (nf req) /\
    ob_res o = CRes [y] CDone /\ obj_of par y = Some (nf resp).
Proof. exact @payload_objects. Qed.
Print Assumptions C11_payload_objects.

Theorem C11_payload_objects_stream : forall (O : Type) (cls : O -> str) (ser : O -> list byte)
    (par : str -> list byte -> option O) (nf : O -> O) svc im skw ckw m g (reqs resps : list O) st,
  names_distinct svc -> owns svc m -> m_cs m = true -> m_ss m = true ->
  Forall (fun v => cls v = m_in m) reqs -> Forall (fun v => cls v = m_out m) resps ->
  Forall (rt_ok cls ser par nf) reqs -> Forall (rt_ok cls ser par nf) resps ->
  im (m_py m) = Some (HGen g) -> g (InMany (map (msg_of cls ser) reqs)) = (map (msg_of cls ser) resps, st) ->
  exists o, call svc im skw (m_py m) (ArgIter (map (msg_of cls ser) reqs)) ckw = Some o /\
    ob_trace o = [(m_py m, InMany (map (msg_of cls ser) reqs))] /\
    map (obj_of par) (map (msg_of cls ser) reqs) = map (fun v => Some (nf v)) reqs /\
    ob_res o = CRes (map (msg_of cls ser) resps) (end_of st) /\
    map (obj_of par) (map (msg_of cls ser) resps) = map (fun v => Some (nf v)) resps.
Proof. exact @payload_objects_stream. Qed.
Print Assumptions C11_payload_objects_stream.

(* non-vacuity: both directions of C11_payload_iff_handler_ok are inhabited (an ok handler; `return None` under a unary reply) *)
Example C11_ex_handler_ok_exact :
  handler_okb m_GetFoo h_one (InOne (Some a_msg)) = true /\
  handler_okb m_GetFoo (HCoro (fun _ => RetNone)) (InOne (Some a_msg)) = false /\
  option_map ob_res (call svc_one (fun _ => Some (HCoro (fun _ => RetNone))) kw0 (m_py m_GetFoo) (ArgOne a_msg) kw0)
    = Some (CRes [] (CGrpc 2)) /\
  ownsb svc_one m_GetFoo = true /\ arg_okb m_GetFoo (ArgOne a_msg) = true.
Proof. repeat split; vm_compute; reflexivity. Qed.
(* objects with a part the wire does not carry (normal form resets it): the round-trip hypothesis of C11_payload_objects *)
Example C11_ex_objects :
  let cls := fun v : str * list byte * bool => fst (fst v) in
  let ser := fun v : str * list byte * bool => snd (fst v) in
  let par := fun (t : str) (b : list byte) => Some (t, b, false) in
  let nf := fun v : str * list byte * bool => (fst v, false) in
  rt_ok cls ser par nf (t_In, [x08; x01], true) /\ cls (t_In, [x08; x01], true) = m_in m_GetFoo /\
  nf (t_In, [x08; x01], true) <> (t_In, [x08; x01], true).
Proof. cbv zeta. split; [reflexivity|]. split; [reflexivity | discriminate]. Qed.
