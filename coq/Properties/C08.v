(* C08 — unknown fields survive decode/encode; schema evolution is lossless.

   Models: [parse] / [load] (Model/Decode.v) mirror Message.parse / load, [enc_obj] (Model/Encode.v)
   mirrors bytes(m).  Model/C08Step.v names the pieces of load ([step]: the loop body for one record,
   proved to be the body of [load] by conversion) and defines
     records bs ps        bs is the concatenation of the complete records ps (tag, payload; the four
                          wire types and groups), praw p = the bytes record p occupies
     is_unknown cd p      class cd keeps record p verbatim: number not declared, or declared with a type
                          that cannot arrive with p's wire type (this includes groups)
     unknown_raw / known_raw   concatenation of the raw bytes of the unknown / the other records, in order
     drop_fields masks sc the older schema: any subset of the fields of any class deleted
   Proofs/C08EvoDef.v: masks_ok (the decidable side condition of the headline: bundled and map-Entry classes keep their
   fields); Model/C01Def.v: c01_schema_ok / c01_value_ok / norm_obj (the hypotheses and the decoded form of C01).
   None of the statements below bounds the schema, the byte string, the message or the subset of deleted fields.
   The headline is C08_evolution (unconditional: every premise of the older C08_evolution_partial is discharged). *)
From BP Require Import Base.Prelude Model.Types Model.Varint Model.Object Model.Eq Model.Encode Model.Decode.
From BP Require Import Model.WellFormed Model.C08Step.
From BP Require Import Spec.Varint Spec.C08Wire.
From BP Require Import Proofs.C08FrameP Proofs.C08StepP Proofs.C08UnknownP Proofs.C08CommuteP Proofs.C08EvolutionP Proofs.C08WireP.
From BP Require Model.C01Def.
From BP Require Import Proofs.C08EvoDef Proofs.C08EvoMain.

(* Message.parse is a left-to-right fold of the loop body over the records of the input, and succeeds
   exactly when the input is a sequence of complete records each of which the loop body accepts *)
Theorem C08_parse_is_fold : forall sc c bs m,
  parse sc c bs = Ok m <->
  exists ps, records bs ps /\ fold_steps (length bs) sc (get_class sc c) (touch (new sc c)) ps = Ok m.
Proof. exact parse_fold. Qed.
Print Assumptions C08_parse_is_fold.

(* the records partition the input byte for byte, and the grammar is deterministic *)
Theorem C08_records_partition : forall bs ps, records bs ps -> bs = raw_of ps.
Proof. exact records_raw. Qed.
Print Assumptions C08_records_partition.

Theorem C08_records_deterministic : forall bs ps, records bs ps -> forall ps', records bs ps' -> ps = ps'.
Proof. exact records_det. Qed.
Print Assumptions C08_records_deterministic.

(* [records] against the wire-format specification (Spec/C08Wire.v: wire_records, written with the varint
   representations of Spec/Varint.v — padded ones included — and without any function of the decoder model):
   every byte string the specification calls a concatenation of complete records is one for [records], with the
   same field numbers, wire types and byte extents *)
Theorem C08_spec_records : forall bs rs,
  wire_records bs rs -> exists ps, records bs ps /\ map triple ps = rs.
Proof. exact wire_records_sound. Qed.
Print Assumptions C08_spec_records.

(* C08_raw_preserved and C08_known_undisturbed stated over the specification-level grammar alone *)
Theorem C08_raw_preserved_spec : forall sc c bs rs m,
  wire_records bs rs -> parse sc c bs = Ok m -> ounk m = spec_unknown_raw (get_class sc c) rs.
Proof. exact raw_preserved_spec. Qed.
Print Assumptions C08_raw_preserved_spec.

Theorem C08_known_undisturbed_spec : forall sc c bs rs,
  wire_records bs rs ->
  forall m, parse sc c bs = Ok m <->
            exists m', parse sc c (spec_known_raw (get_class sc c) rs) = Ok m' /\
                       m = set_unk m' (spec_unknown_raw (get_class sc c) rs).
Proof. exact known_undisturbed_spec. Qed.
Print Assumptions C08_known_undisturbed_spec.

(* after parsing, _unknown_fields is exactly the concatenation, in arrival order, of the raw bytes of the
   records the class does not know — any wire type, any position *)
Theorem C08_raw_preserved : forall sc c bs m,
  parse sc c bs = Ok m ->
  exists ps, records bs ps /\ bs = raw_of ps /\ ounk m = unknown_raw (get_class sc c) ps.
Proof. exact raw_preserved. Qed.
Print Assumptions C08_raw_preserved.

(* m.parse(bs) on an existing message: earlier unknown bytes stay, the new ones are appended *)
Theorem C08_raw_preserved_into : forall sc o bs m,
  parse_into sc o bs = Ok m ->
  exists ps, records bs ps /\ ounk m = ounk o ++ unknown_raw (get_class sc (ocls o)) ps.
Proof. exact raw_preserved_into. Qed.
Print Assumptions C08_raw_preserved_into.

(* unknown records never change a known field, _group_current, _serialized_on_wire: parsing bs and
   parsing bs with all unknown records deleted give the same object up to _unknown_fields ... *)
Theorem C08_known_undisturbed : forall sc c bs m,
  parse sc c bs = Ok m ->
  exists ps, records bs ps /\
             parse sc c (known_raw (get_class sc c) ps) = Ok (clear_unk m) /\
             m = set_unk (clear_unk m) (unknown_raw (get_class sc c) ps).
Proof. exact known_undisturbed. Qed.
Print Assumptions C08_known_undisturbed.

(* ... and conversely: inserting complete records the class does not know, anywhere, can neither make
   parsing fail nor change anything but _unknown_fields *)
Theorem C08_known_undisturbed_conv : forall sc c bs ps m',
  records bs ps ->
  parse sc c (known_raw (get_class sc c) ps) = Ok m' ->
  parse sc c bs = Ok (set_unk m' (unknown_raw (get_class sc c) ps)).
Proof. exact known_undisturbed_conv. Qed.
Print Assumptions C08_known_undisturbed_conv.

(* bytes(m) = bytes(m without its unknown bytes) ++ the unknown bytes, verbatim *)
Theorem C08_reemit : forall sc m bs,
  enc_obj sc m = Ok bs <-> exists body, enc_obj sc (clear_unk m) = Ok body /\ bs = body ++ ounk m.
Proof. exact reemit. Qed.
Print Assumptions C08_reemit.

(* an unknown record and a known record can be applied in either order *)
Theorem C08_unknown_commutes : forall fuel' sc cd u k,
  is_unknown cd u = true -> is_unknown cd k = false ->
  forall o o1 o2, step fuel' sc cd o u = Ok o1 -> step fuel' sc cd o1 k = Ok o2 ->
                  exists o1', step fuel' sc cd o k = Ok o1' /\ step fuel' sc cd o1' u = Ok o2.
Proof. exact swap_unknown_known. Qed.
Print Assumptions C08_unknown_commutes.

(* records of two different fields that are not members of one oneof group can be applied in either order:
   records interact only within one field number or one oneof group *)
Theorem C08_records_commute : forall fuel' sc cd u k j fj i fi,
  field_by_number cd (pnum u) = Some (j, fj) -> wire_type_fits fj (pwt u) = true ->
  field_by_number cd (pnum k) = Some (i, fi) -> wire_type_fits fi (pwt k) = true ->
  i <> j -> (fgroup fi = None \/ fgroup fi <> fgroup fj) ->
  forall o o1 o2, cd = get_class sc (ocls o) ->
    step fuel' sc cd o u = Ok o1 -> step fuel' sc cd o1 k = Ok o2 ->
    exists o1', step fuel' sc cd o k = Ok o1' /\ step fuel' sc cd o1' u = Ok o2.
Proof. exact swap_known_known. Qed.
Print Assumptions C08_records_commute.

(* Evolution at the level of bytes.  sn: the newer schema (field numbers of class c unique), so: ANY subset of
   fields of ANY class deleted, bs: ANY byte string made of complete records in which no oneof group has both a
   deleted and a kept member present.  If the older reader/writer turns bs into b2, then b2 is the re-encoded
   known part k2 followed verbatim by the records the older class does not know; and if the newer reader sees in
   k2 what it sees in the original known records (the business of the round-trip property C01: for deletions in
   class c only, k2 IS those records), then the newer reader computes from b2 EXACTLY the object it computes
   from bs: raw attributes, presence, oneof selection and unknown bytes. *)
Theorem C08_evolution_bytes : forall sn masks c,
  nodup_z (map fnum (cfields (get_class sn c))) = true ->
  forall bs ps mo b2 k2 mn,
  records bs ps ->
  split_free (get_class sn c) (get_class (drop_fields masks sn) c) ps = true ->
  parse (drop_fields masks sn) c bs = Ok mo ->
  enc_obj (drop_fields masks sn) mo = Ok b2 ->
  enc_obj (drop_fields masks sn) (clear_unk mo) = Ok k2 ->
  parse sn c k2 = parse sn c (known_raw (get_class (drop_fields masks sn) c) ps) ->
  parse sn c bs = Ok mn ->
  b2 = k2 ++ unknown_raw (get_class (drop_fields masks sn) c) ps /\ parse sn c b2 = Ok mn.
Proof. exact evolution_bytes. Qed.
Print Assumptions C08_evolution_bytes.

(* The conditional form of the headline (kept: it also covers byte strings that are not encodings of a message).
   Its premises — C01-new, C01-old, no-raise of the older reader / writer, split_free — are all DISCHARGED for encodings of
   messages by C08_evolution below (Proofs/C08Evo*.v); C08_split_free_canonical is the encoder-legality part on its own. *)
Theorem C08_evolution_partial : forall sn masks c m b1 m1 ps mo b2,
  nodup_z (map fnum (cfields (get_class sn c))) = true ->
  enc_obj sn m = Ok b1 ->
  parse sn c b1 = Ok m1 -> obj_eq sn m1 m = true ->                                    (* C01-new *)
  records b1 ps ->
  split_free (get_class sn c) (get_class (drop_fields masks sn) c) ps = true ->
  parse (drop_fields masks sn) c b1 = Ok mo ->
  enc_obj (drop_fields masks sn) mo = Ok b2 ->
  enc_obj (drop_fields masks sn) (clear_unk mo) = Ok (known_raw (get_class (drop_fields masks sn) c) ps) ->  (* C01-old *)
  exists m2, parse sn c b2 = Ok m2 /\ m2 = m1 /\ obj_eq sn m2 m = true /\ enc_obj sn m2 = enc_obj sn m1.
Proof.
  intros sn masks c m b1 m1 ps mo b2 Hnd Henc Hp Heq Hrec Hsf Hpo Heo Hk.
  destruct (evolution_bytes sn masks c Hnd b1 ps mo b2 _ m1 Hrec Hsf Hpo Heo Hk eq_refl Hp) as [_ H].
  exists m1. repeat split; assumption.
Qed.
Print Assumptions C08_evolution_partial.

(* Encoder legality as far as evolution needs it: in bytes(m) no oneof group has a deleted and a kept member present,
   for EVERY set of deleted fields (a canonical encoder emits only the selected member of a group). *)
Theorem C08_split_free_canonical : forall sn masks m b1 ps,
  C01Def.c01_schema_ok sn = true -> C01Def.c01_value_ok sn m = true ->
  enc_obj sn m = Ok b1 -> records b1 ps ->
  split_free (get_class sn (ocls m)) (get_class (drop_fields masks sn) (ocls m)) ps = true.
Proof. exact c08_split_free. Qed.
Print Assumptions C08_split_free_canonical.

(* THE HEADLINE, unconditional.  sn: any newer schema meeting C01's decidable well-formedness; masks: ANY set of deleted
   fields of ANY user class — the class of m and every class nested at any depth, also recursively — subject only to
   [masks_ok]: the bundled classes (Timestamp, Duration, wrappers) and the synthetic map-Entry classes are left alone (they are
   not schema-evolvable: the decoder reads their attributes by position; the two _refuted theorems below show what happens
   otherwise); m: any value meeting C01's decidable side conditions.  Then
     bytes(m) exists; the OLDER reader parses it without raising (deleted fields end up, verbatim and in order, in
     _unknown_fields at every nesting level); the OLDER writer re-encodes what it read (same length: a permutation of the
     records at every level); the NEWER reader parses the result to EXACTLY the object it decodes from bytes(m) itself
     (norm_obj sn m: raw attributes, oneof selection, presence flags, nested messages), which is == m with either operand
     on the left (NaN inside containers aside: K7 of C01), agrees on which_one_of, and re-encodes to bytes(m).
   Nothing is lost by passing through any older schema. *)
Theorem C08_evolution : forall sn masks m,
  C01Def.c01_schema_ok sn = true -> masks_ok sn masks = true -> C01Def.c01_value_ok sn m = true ->
  exists b1, enc_obj sn m = Ok b1 /\
    (Zlength b1 < 2 ^ 64 ->
     exists mo b2 m2,
       parse (drop_fields masks sn) (ocls m) b1 = Ok mo /\
       enc_obj (drop_fields masks sn) mo = Ok b2 /\ length b2 = length b1 /\
       parse sn (ocls m) b2 = Ok m2 /\ m2 = C01Def.norm_obj sn m /\
       (C01Def.deep C01Def.nan_free (PMsg m) = true -> obj_eq sn m2 m = true /\ obj_eq sn m m2 = true) /\
       (forall g, which_one_of m2 g = which_one_of m g) /\
       enc_obj sn m2 = Ok b1).
Proof. exact c08_evolution. Qed.
Print Assumptions C08_evolution.

(* the first half on its own: the older reader / writer never raise on what a newer writer produced *)
Theorem C08_older_reader_total : forall sn masks m,
  C01Def.c01_schema_ok sn = true -> masks_ok sn masks = true -> C01Def.c01_value_ok sn m = true ->
  forall b1, enc_obj sn m = Ok b1 -> Zlength b1 < 2 ^ 64 ->
  exists mo b2, parse (drop_fields masks sn) (ocls m) b1 = Ok mo /\
                enc_obj (drop_fields masks sn) mo = Ok b2 /\ length b2 = length b1.
Proof. exact c08_older_reader_total. Qed.
Print Assumptions C08_older_reader_total.

(* ---- non-vacuity ----
   newer class 11: a=1 int32, s=2 string, d=3 double, r=4 repeated sint64, u1=5 string (oneof 0), u2=6 int64 (oneof 0),
   n=7 message(11);  older: d, r, u1 deleted.  The input interleaves an unknown varint (field 99, padded tag), an
   unknown group (field 20) and a fixed32 on the string field's number among the fields. *)
Definition ex_new : schema :=
  mkS (builtin_classes ++
       [mkC [mkF [x61] 1 TInt32 None None None false (HPlain PyInt) 0;
             mkF [x73] 2 TString None None None false (HPlain PyStr) 0;
             mkF [x64] 3 TDouble None None None false (HPlain PyFloat) 0;
             mkF [x72] 4 TSInt64 None None None false (HList PyInt) 0;
             mkF [x75; x31] 5 TString None (Some 0%nat) None false (HPlain PyStr) 0;
             mkF [x75; x32] 6 TInt64 None (Some 0%nat) None false (HPlain PyInt) 0;
             mkF [x6e] 7 TMessage None None None false (HPlain (PyMsg 11)) 0] 1]) [].
Definition ex_masks : list (list bool) :=
  [[]; []; []; []; []; []; []; []; []; []; []; [true; true; false; false; false; true; true]].
Definition ex_old : schema := drop_fields ex_masks ex_new.
Definition ex_m : obj :=
  Obj 11 [PInt 150; PStr [x68; x69]; PFloat 4609434218613702656; PList [PInt (-1); PInt 300];
          PPlaceholder; PInt 7; PMsg (Obj 11 [PInt 1; PPlaceholder; PPlaceholder; PPlaceholder; PPlaceholder; PPlaceholder; PPlaceholder] true [] [None])]
      true [] [Some 5%nat].
Definition ex_get {A} (d : A) (r : result A) : A := match r with Ok a => a | Err _ => d end.
Definition ex_b1 : list byte := Eval vm_compute in ex_get [] (enc_obj ex_new ex_m).
(* b1 with unknown records interleaved: padded-tag varint (99), group (20), fixed32 on number 2 *)
Definition ex_bs : list byte :=
  [x98; x86; x00; x05] ++ firstn 3 ex_b1 ++ [xa3; x01; x08; x05; xa4; x01] ++ skipn 3 ex_b1 ++ [x15; x01; x02; x03; x04].
Definition ex_ps (bs : list byte) : list parsed := match frames (S (length bs)) bs with Some ps => ps | None => [] end.

Definition ex_dummy : obj := Obj 0 [] false [] [].
Definition ex_mo_bs : obj := Eval vm_compute in ex_get ex_dummy (parse ex_old 11 ex_bs).

Example C08_unknown_nonvacuous :
  parse ex_old 11 ex_bs = Ok ex_mo_bs /\
  ounk ex_mo_bs = [x98; x86; x00; x05] ++ [xa3; x01; x08; x05; xa4; x01]
                  ++ unknown_raw (get_class ex_old 11) (ex_ps ex_b1) ++ [x15; x01; x02; x03; x04] /\
  parse ex_old 11 (known_raw (get_class ex_old 11) (ex_ps ex_bs)) = Ok (clear_unk ex_mo_bs) /\
  records ex_bs (ex_ps ex_bs) /\ length (ex_ps ex_bs) = 9%nat /\
  length (filter (is_unknown (get_class ex_old 11)) (ex_ps ex_bs)) = 5%nat.
Proof.
  split; [vm_compute; reflexivity|]. split; [vm_compute; reflexivity|]. split; [vm_compute; reflexivity|].
  split; [apply frames_sound with (n := S (length ex_bs)); vm_compute; reflexivity|]. split; vm_compute; reflexivity.
Qed.

Definition ex_m1 : obj := Eval vm_compute in ex_get ex_dummy (parse ex_new 11 ex_b1).
Definition ex_mo : obj := Eval vm_compute in ex_get ex_dummy (parse ex_old 11 ex_b1).
Definition ex_b2 : list byte := Eval vm_compute in ex_get [] (enc_obj ex_old ex_mo).

Example C08_evolution_nonvacuous :
  let cdo := get_class ex_old 11 in
  let ps := ex_ps ex_b1 in
  nodup_z (map fnum (cfields (get_class ex_new 11))) = true /\
  enc_obj ex_new ex_m = Ok ex_b1 /\
  parse ex_new 11 ex_b1 = Ok ex_m1 /\ obj_eq ex_new ex_m1 ex_m = true /\
  records ex_b1 ps /\ split_free (get_class ex_new 11) cdo ps = true /\
  parse ex_old 11 ex_b1 = Ok ex_mo /\ ounk ex_mo <> [] /\ enc_obj ex_old ex_mo = Ok ex_b2 /\ ex_b2 <> ex_b1 /\
  enc_obj ex_old (clear_unk ex_mo) = Ok (known_raw cdo ps) /\
  parse ex_new 11 ex_b2 = Ok ex_m1.
Proof.
  cbv zeta. split; [vm_compute; reflexivity|]. split; [vm_compute; reflexivity|].
  split; [vm_compute; reflexivity|]. split; [vm_compute; reflexivity|].
  split; [apply frames_sound with (n := S (length ex_b1)); vm_compute; reflexivity|].
  split; [vm_compute; reflexivity|]. split; [vm_compute; reflexivity|]. split; [vm_compute; discriminate|].
  split; [vm_compute; reflexivity|]. split; [vm_compute; discriminate|]. split; vm_compute; reflexivity.
Qed.

(* the oneof side condition is needed: with the deleted member u1 BEFORE the kept member u2 in the input, the older
   writer moves u1 behind u2 and the newer reader then selects u1 instead of u2 (the reference implementation does
   the same: unknown fields are written after the known ones; a canonical encoder never emits two members) *)
Definition ex_conflict : list byte := [x2a; x01; x78; x30; x07].     (* u1 = "x", then u2 = 7 *)
Definition ex_c_mo : obj := Eval vm_compute in ex_get ex_dummy (parse ex_old 11 ex_conflict).
Definition ex_c_b2 : list byte := Eval vm_compute in ex_get [] (enc_obj ex_old ex_c_mo).
Definition ex_c_direct : obj := Eval vm_compute in ex_get ex_dummy (parse ex_new 11 ex_conflict).
Definition ex_c_evolved : obj := Eval vm_compute in ex_get ex_dummy (parse ex_new 11 ex_c_b2).
Example C08_split_oneof_refuted :
  split_free (get_class ex_new 11) (get_class ex_old 11) (ex_ps ex_conflict) = false /\
  parse ex_old 11 ex_conflict = Ok ex_c_mo /\ enc_obj ex_old ex_c_mo = Ok ex_c_b2 /\
  parse ex_new 11 ex_conflict = Ok ex_c_direct /\ parse ex_new 11 ex_c_b2 = Ok ex_c_evolved /\
  which_one_of ex_c_direct 0 = Some 5%nat /\ which_one_of ex_c_evolved 0 = Some 4%nat.
Proof. repeat split; vm_compute; reflexivity. Qed.

Example C08_spec_nonvacuous :
  wire_records ([x98; x86; x00; x05] ++ ([xa3; x01] ++ ([x0d] ++ [x01; x02; x03; x04]) ++ [xa4; x01]) ++ [])
               [(99, 0, [x98; x86; x00; x05]); (20, 3, [xa3; x01] ++ ([x0d] ++ [x01; x02; x03; x04]) ++ [xa4; x01])].
Proof.
  apply (WRS_cons ([x98; x86; x00] ++ [x05]) 99 0). { apply (WR_varint _ _ 99 5); [lia | | ]; repeat split; cbn; lia. }
  apply WRS_cons; [|constructor].
  apply (WR_group [xa3; x01] ([x0d] ++ [x01; x02; x03; x04]) [xa4; x01] 20); [lia | repeat split; cbn; lia | | repeat split; cbn; lia].
  rewrite <- (app_nil_r ([x0d] ++ [x01; x02; x03; x04])).
  apply (WS_cons _ 1 5); [|constructor]. apply (WR_fixed32 [x0d] _ 1); [lia | repeat split; cbn; lia | reflexivity].
Qed.

(* ---- non-vacuity of C08_evolution, and necessity of masks_ok ----
   newer class 11 (recursive): a=1 int32, s=2 string (oneof 0), n=3 message(11) (oneof 0), r=4 repeated message(11),
   m=5 map<string, message(11)> (Entry class 12), t=6 Timestamp as datetime, d=7 double;  older: a, s, t deleted — in the
   top-level message AND in every nested one (oneof member s deleted while member n is kept). *)
Definition ex2_new : schema :=
  mkS (builtin_classes ++
       [mkC [mkF [x61] 1 TInt32 None None None false (HPlain PyInt) 0;
             mkF [x73] 2 TString None (Some 0%nat) None false (HPlain PyStr) 0;
             mkF [x6e] 3 TMessage None (Some 0%nat) None false (HPlain (PyMsg 11)) 0;
             mkF [x72] 4 TMessage None None None false (HList (PyMsg 11)) 0;
             mkF [x6d] 5 TMap (Some (TString, TMessage)) None None false (HDict PyStr (PyMsg 11)) 12;
             mkF [x74] 6 TMessage None None None false (HPlain PyDatetime) 0;
             mkF [x64] 7 TDouble None None None false (HPlain PyFloat) 0] 1;
        mkC [mkF [x6b] 1 TString None None None false (HPlain PyStr) 0;
             mkF [x76] 2 TMessage None None None false (HPlain (PyMsg 11)) 0] 0]) [].
Definition ex2_masks : list (list bool) :=
  [[]; []; []; []; []; []; []; []; []; []; []; [false; false; true; true; true; false; true]].
Definition ex2_leaf1 : obj :=
  Obj 11 [PInt 7; PStr [x78]; PPlaceholder; PPlaceholder; PPlaceholder; PPlaceholder; PFloat 4609434218613702656] true [] [Some 1%nat].
Definition ex2_leaf2 : obj :=
  Obj 11 [PInt (-1); PPlaceholder; PPlaceholder; PPlaceholder; PPlaceholder; PDatetime 1500000; PPlaceholder] true [] [None].
Definition ex2_m : obj :=
  Obj 11 [PInt 150; PPlaceholder; PMsg ex2_leaf1; PList [PMsg ex2_leaf2; PMsg ex2_leaf1];
          PDict [(PStr [x6b], PMsg ex2_leaf2); (PStr [], PMsg ex2_leaf1)]; PDatetime (-1500000); PFloat 9223372036854775808]
      true [] [Some 2%nat].
Definition ex2_old : schema := Eval vm_compute in drop_fields ex2_masks ex2_new.
Definition ex2_b1 : list byte := Eval vm_compute in ex_get [] (enc_obj ex2_new ex2_m).
Definition ex2_mo : obj := Eval vm_compute in ex_get ex_dummy (parse ex2_old 11 ex2_b1).
Definition ex2_b2 : list byte := Eval vm_compute in ex_get [] (enc_obj ex2_old ex2_mo).

Example C08_evolution_hypotheses_nonvacuous :
  C01Def.c01_schema_ok ex2_new = true /\ masks_ok ex2_new ex2_masks = true /\ C01Def.c01_value_ok ex2_new ex2_m = true /\
  C01Def.deep C01Def.nan_free (PMsg ex2_m) = true /\
  enc_obj ex2_new ex2_m = Ok ex2_b1 /\ parse (drop_fields ex2_masks ex2_new) 11 ex2_b1 = Ok ex2_mo /\
  length (ounk ex2_mo) = 22%nat /\ enc_obj (drop_fields ex2_masks ex2_new) ex2_mo = Ok ex2_b2 /\
  ex2_b2 <> ex2_b1 /\ length ex2_b2 = 123%nat /\ length ex2_b1 = 123%nat /\
  parse ex2_new 11 ex2_b2 = Ok (C01Def.norm_obj ex2_new ex2_m).
Proof.
  split; [vm_compute; reflexivity|]. split; [vm_compute; reflexivity|]. split; [vm_compute; reflexivity|].
  split; [vm_compute; reflexivity|]. split; [vm_compute; reflexivity|]. split; [vm_compute; reflexivity|].
  split; [vm_compute; reflexivity|]. split; [vm_compute; reflexivity|]. split; [vm_compute; discriminate|].
  split; [vm_compute; reflexivity|]. split; vm_compute; reflexivity.
Qed.

(* masks_ok is needed: deleting `value` from a synthetic map-Entry class, or `seconds` from the bundled Timestamp, makes the
   older reader raise on bytes(m) (it reads these attributes by position); such "older schemas" do not arise from evolving a
   .proto file *)
Theorem C08_evolution_entry_mask_refuted :
  exists sn masks m b1,
    C01Def.c01_schema_ok sn = true /\ C01Def.c01_value_ok sn m = true /\ masks_ok sn masks = false /\
    enc_obj sn m = Ok b1 /\ parse (drop_fields masks sn) (ocls m) b1 = Err EAttribute.
Proof.
  exists ex2_new, [[]; []; []; []; []; []; []; []; []; []; []; []; [true; false]], ex2_m, ex2_b1.
  repeat split; vm_compute; reflexivity.
Qed.
Print Assumptions C08_evolution_entry_mask_refuted.

Theorem C08_evolution_builtin_mask_refuted :
  exists sn masks m b1,
    C01Def.c01_schema_ok sn = true /\ C01Def.c01_value_ok sn m = true /\ masks_ok sn masks = false /\
    enc_obj sn m = Ok b1 /\ parse (drop_fields masks sn) (ocls m) b1 = Err EType.
Proof.
  exists ex2_new, [[false; true]], ex2_m, ex2_b1.
  repeat split; vm_compute; reflexivity.
Qed.
Print Assumptions C08_evolution_builtin_mask_refuted.

(* ======================================================================================================================
   GAP CLOSING (Proofs/C08GapA.v — clause-by-clause table of the property text against the theorems above —, C08GapB.v,
   C08GapC.v; new definitions in Model/C08GapDefs.v).  Nothing above is changed.
   ====================================================================================================================== *)
From BP Require Import Model.Len Model.C08GapDefs Proofs.C08GapA Proofs.C08GapB.
From BP Require Model.History Model.C07Ops Model.C01Reach Model.C01Parse Model.C17Typed Model.C17Nested.

(* "do not disturb", at full strength: an EQUATION of results.  For every schema, class and byte string of complete records, parse
   returns / raises exactly what it returns / raises on the input with the unknown records deleted, the unknown bytes attached:
   unknown records change neither the object, nor whether parse raises, nor WHICH exception it raises.
   (C08_known_undisturbed / _conv are the Ok-half of this.) *)
Theorem C08_parse_unknown_exact : forall sc c bs ps,
  records bs ps ->
  parse sc c bs = rmap (fun m' => set_unk m' (unknown_raw (get_class sc c) ps))
                       (parse sc c (known_raw (get_class sc c) ps)).
Proof. exact parse_unknown_exact. Qed.
Print Assumptions C08_parse_unknown_exact.

Theorem C08_unknown_err_iff : forall sc c bs ps e,
  records bs ps -> (parse sc c bs = Err e <-> parse sc c (known_raw (get_class sc c) ps) = Err e).
Proof. exact unknown_err_iff. Qed.
Print Assumptions C08_unknown_err_iff.

(* "any position": a well-formed sequence u of records unknown to the class — stated with the decoder-independent grammar
   wire_records: any field numbers, varint / fixed64 / length-delimited / fixed32 / group, padded tags —, inserted between ANY two byte
   strings of complete records, changes the result of parse by exactly this: u sits in _unknown_fields between the unknown bytes of
   what precedes and of what follows (failures are carried over unchanged) *)
Theorem C08_insert_anywhere : forall sc c a pa b pb u rs,
  records a pa -> records b pb -> wire_records u rs -> forallb (t_unknown (get_class sc c)) rs = true ->
  parse sc c (a ++ u ++ b) =
  rmap (fun m => set_unk m (unknown_raw (get_class sc c) pa ++ u ++ unknown_raw (get_class sc c) pb)) (parse sc c (a ++ b)).
Proof. exact insert_anywhere. Qed.
Print Assumptions C08_insert_anywhere.

(* two inputs with the same known subsequence and the same unknown subsequence parse alike, however the two are interleaved *)
Theorem C08_interleaving_irrelevant : forall sc c bs ps bs' ps',
  records bs ps -> records bs' ps' ->
  known_raw (get_class sc c) ps = known_raw (get_class sc c) ps' ->
  unknown_raw (get_class sc c) ps = unknown_raw (get_class sc c) ps' ->
  parse sc c bs = parse sc c bs'.
Proof. exact interleaving_irrelevant. Qed.
Print Assumptions C08_interleaving_irrelevant.

(* what "absent from the receiving schema" means for the model's [is_unknown] / [unknown_nw]: EXACTLY the records whose number no field
   declares, plus those whose (unique) field cannot arrive with that wire type; an undeclared number is unknown with EVERY wire type *)
Theorem C08_field_lookup_none_iff : forall cd num,
  field_by_number cd num = None <-> forall f, In f (cfields cd) -> fnum f <> num.
Proof. exact fbn_none_iff. Qed.
Print Assumptions C08_field_lookup_none_iff.

Theorem C08_unknown_iff : forall cd num wt,
  nodup_z (map fnum (cfields cd)) = true ->
  (unknown_nw cd num wt = true <->
   (forall f, In f (cfields cd) -> fnum f <> num) \/
   (exists f, In f (cfields cd) /\ fnum f = num /\ wire_type_fits f wt = false)).
Proof. exact unknown_iff. Qed.
Print Assumptions C08_unknown_iff.

Theorem C08_undeclared_unknown_all_wire_types : forall cd num,
  (forall f, In f (cfields cd) -> fnum f <> num) -> forall wt, unknown_nw cd num wt = true.
Proof. exact undeclared_unknown_all_wire_types. Qed.
Print Assumptions C08_undeclared_unknown_all_wire_types.

(* "re-emitted byte-for-byte when the message is encoded again", composed: bytes(Cls().parse(bs)) is the encoding of the known state
   followed by the unknown records of bs, verbatim and in arrival order; the known state is what parse builds from the known records *)
Theorem C08_reemit_parse : forall sc c bs m b2,
  parse sc c bs = Ok m -> enc_obj sc m = Ok b2 ->
  exists ps body, records bs ps /\ enc_obj sc (clear_unk m) = Ok body /\
                  b2 = body ++ unknown_raw (get_class sc c) ps /\
                  parse sc c (known_raw (get_class sc c) ps) = Ok (clear_unk m).
Proof. exact reemit_parse. Qed.
Print Assumptions C08_reemit_parse.

Theorem C08_reemit_parse_spec : forall sc c bs rs m b2,
  wire_records bs rs -> parse sc c bs = Ok m -> enc_obj sc m = Ok b2 ->
  exists body, enc_obj sc (clear_unk m) = Ok body /\ b2 = body ++ spec_unknown_raw (get_class sc c) rs.
Proof. exact reemit_parse_spec. Qed.
Print Assumptions C08_reemit_parse_spec.

(* unknown bytes can never make bytes(m) raise *)
Theorem C08_reemit_total : forall sc m body u,
  enc_obj sc (clear_unk m) = Ok body -> enc_obj sc (set_unk m u) = Ok (body ++ u).
Proof. exact reemit_total. Qed.
Print Assumptions C08_reemit_total.

(* composition with C09: len(m) counts the unknown bytes exactly, for every object *)
Theorem C08_len_unknown : forall sc m n,
  len_obj sc m = Ok n <-> exists k, len_obj sc (clear_unk m) = Ok k /\ n = k + Zlength (ounk m).
Proof. exact len_unknown. Qed.
Print Assumptions C08_len_unknown.

Theorem C08_len_parse : forall sc c bs m k,
  parse sc c bs = Ok m -> len_obj sc (clear_unk m) = Ok k ->
  exists ps, records bs ps /\ len_obj sc m = Ok (k + Zlength (unknown_raw (get_class sc c) ps)).
Proof. exact len_parse. Qed.
Print Assumptions C08_len_parse.

(* composition with C17's acceptance criterion (C17_accept_iff: parse returns iff the bytes are [valid]): validity of a byte string of
   complete records does not depend on the records the class does not know, and is closed under inserting / deleting a well-formed
   unknown sequence anywhere *)
Theorem C08_accept_unknown_irrelevant : forall sc c bs ps,
  wf_schema sc = true -> C17Typed.has_builtins sc -> C17Typed.entries_agree sc = true ->
  records bs ps -> (C17Nested.valid sc c bs <-> C17Nested.valid sc c (known_raw (get_class sc c) ps)).
Proof. exact accept_unknown_irrelevant. Qed.
Print Assumptions C08_accept_unknown_irrelevant.

Theorem C08_accept_insert_anywhere : forall sc c a pa b pb u rs,
  wf_schema sc = true -> C17Typed.has_builtins sc -> C17Typed.entries_agree sc = true ->
  records a pa -> records b pb -> wire_records u rs -> forallb (t_unknown (get_class sc c)) rs = true ->
  (C17Nested.valid sc c (a ++ u ++ b) <-> C17Nested.valid sc c (a ++ b)).
Proof. exact accept_insert_anywhere. Qed.
Print Assumptions C08_accept_insert_anywhere.

(* the value hypothesis of C08_evolution, discharged for every object a history of public-API operations produces (composition with
   C01_reachable_value_ok[_parse]; the conditions are C01's decidable ones on the operations); [evolves] is the conclusion of C08_evolution *)
Theorem C08_evolution_reachable : forall sn masks c ops m,
  C01Def.c01_schema_ok sn = true -> masks_ok sn masks = true ->
  C01Reach.hist_ok C01Reach.op_value_ok sn (new sn c) ops = true -> C07Ops.run7 sn (new sn c) ops = Ok m ->
  evolves sn masks m.
Proof. exact evolution_reachable. Qed.
Print Assumptions C08_evolution_reachable.

Theorem C08_evolution_reachable_parse : forall sn masks c ops m,
  C01Def.c01_schema_ok sn = true -> masks_ok sn masks = true ->
  C01Reach.hist_ok C01Parse.op_value_ok_p sn (new sn c) ops = true -> C07Ops.run7 sn (new sn c) ops = Ok m ->
  evolves sn masks m.
Proof. exact evolution_reachable_parse. Qed.
Print Assumptions C08_evolution_reachable_parse.

Theorem C08_evolves_is_evolution : forall sn masks m,
  evolves sn masks m <->
  exists b1, enc_obj sn m = Ok b1 /\
    (Zlength b1 < 2 ^ 64 ->
     exists mo b2 m2,
       parse (drop_fields masks sn) (ocls m) b1 = Ok mo /\
       enc_obj (drop_fields masks sn) mo = Ok b2 /\ length b2 = length b1 /\
       parse sn (ocls m) b2 = Ok m2 /\ m2 = C01Def.norm_obj sn m /\
       (C01Def.deep C01Def.nan_free (PMsg m) = true -> obj_eq sn m2 m = true /\ obj_eq sn m m2 = true) /\
       (forall g, which_one_of m2 g = which_one_of m g) /\
       enc_obj sn m2 = Ok b1).
Proof. intros. reflexivity. Qed.
Print Assumptions C08_evolves_is_evolution.

(* "lossless" as injectivity: what the older writer emits determines what the newer writer wrote *)
Theorem C08_evolution_injective : forall sn masks m m' b1 b1' mo mo' b2,
  C01Def.c01_schema_ok sn = true -> masks_ok sn masks = true ->
  C01Def.c01_value_ok sn m = true -> C01Def.c01_value_ok sn m' = true -> ocls m = ocls m' ->
  enc_obj sn m = Ok b1 -> enc_obj sn m' = Ok b1' -> Zlength b1 < 2 ^ 64 -> Zlength b1' < 2 ^ 64 ->
  parse (drop_fields masks sn) (ocls m) b1 = Ok mo -> parse (drop_fields masks sn) (ocls m') b1' = Ok mo' ->
  enc_obj (drop_fields masks sn) mo = Ok b2 -> enc_obj (drop_fields masks sn) mo' = Ok b2 ->
  b1 = b1' /\ C01Def.norm_obj sn m = C01Def.norm_obj sn m'.
Proof. exact evolution_injective. Qed.
Print Assumptions C08_evolution_injective.

(* any number of passes: (older reader/writer, then newer reader/writer)^n maps bytes(m) to bytes(m) *)
Theorem C08_evolution_relay : forall sn masks m b1,
  C01Def.c01_schema_ok sn = true -> masks_ok sn masks = true -> C01Def.c01_value_ok sn m = true ->
  enc_obj sn m = Ok b1 -> Zlength b1 < 2 ^ 64 ->
  exists b2, relay (drop_fields masks sn) (ocls m) b1 = Ok b2 /\ relay sn (ocls m) b2 = Ok b1 /\ length b2 = length b1.
Proof. exact evolution_relay. Qed.
Print Assumptions C08_evolution_relay.

Theorem C08_evolution_relay_chain : forall sn masks m b1 n,
  C01Def.c01_schema_ok sn = true -> masks_ok sn masks = true -> C01Def.c01_value_ok sn m = true ->
  enc_obj sn m = Ok b1 -> Zlength b1 < 2 ^ 64 ->
  relay_chain (drop_fields masks sn) sn (ocls m) n b1 = Ok b1.
Proof. exact evolution_relay_chain. Qed.
Print Assumptions C08_evolution_relay_chain.

(* composition with C09 under evolution: len() of the older reader's object = len() of the newer object = |bytes(m)|, of which exactly
   |_unknown_fields| bytes are the deleted fields' records *)
Theorem C08_evolution_len : forall sn masks m b1 mo,
  C01Def.c01_schema_ok sn = true -> masks_ok sn masks = true -> C01Def.c01_value_ok sn m = true ->
  enc_obj sn m = Ok b1 -> Zlength b1 < 2 ^ 64 ->
  parse (drop_fields masks sn) (ocls m) b1 = Ok mo ->
  len_obj (drop_fields masks sn) mo = Ok (Zlength b1) /\ len_obj sn m = Ok (Zlength b1) /\
  exists k, len_obj (drop_fields masks sn) (clear_unk mo) = Ok k /\ Zlength b1 = k + Zlength (ounk mo).
Proof. exact evolution_len. Qed.
Print Assumptions C08_evolution_len.

(* ---- non-vacuity of the gap-closing theorems ---- *)
(* an unknown varint (field 99, padded tag) before a string record with invalid UTF-8: the same exception with and without it *)
Definition exg_bad : list byte := [x98; x86; x00; x05] ++ [x12; x01; xff].
Example C08_parse_unknown_exact_nonvacuous :
  records exg_bad (ex_ps exg_bad) /\ length (filter (is_unknown (get_class ex_old 11)) (ex_ps exg_bad)) = 1%nat /\
  parse ex_old 11 exg_bad = Err EUnicode /\
  parse ex_old 11 (known_raw (get_class ex_old 11) (ex_ps exg_bad)) = Err EUnicode /\
  records ex_bs (ex_ps ex_bs) /\
  parse ex_old 11 ex_bs = rmap (fun m' => set_unk m' (unknown_raw (get_class ex_old 11) (ex_ps ex_bs)))
                               (parse ex_old 11 (known_raw (get_class ex_old 11) (ex_ps ex_bs))).
Proof.
  split; [apply frames_sound with (n := S (length exg_bad)); vm_compute; reflexivity|].
  split; [vm_compute; reflexivity|]. split; [vm_compute; reflexivity|]. split; [vm_compute; reflexivity|].
  split; [apply frames_sound with (n := S (length ex_bs)); vm_compute; reflexivity|]. vm_compute. reflexivity.
Qed.

(* the two-record unknown sequence of C08_spec_nonvacuous (varint 99 with padded tag; group 20 holding a fixed32) inserted after the
   first record of bytes(ex_m) *)
Definition exg_u : list byte := [x98; x86; x00; x05] ++ ([xa3; x01] ++ ([x0d] ++ [x01; x02; x03; x04]) ++ [xa4; x01]) ++ [].
Definition exg_rs : list (Z * Z * list byte) :=
  [(99, 0, [x98; x86; x00; x05]); (20, 3, [xa3; x01] ++ ([x0d] ++ [x01; x02; x03; x04]) ++ [xa4; x01])].
Example C08_insert_anywhere_nonvacuous :
  wire_records exg_u exg_rs /\ forallb (t_unknown (get_class ex_old 11)) exg_rs = true /\
  records (firstn 3 ex_b1) (ex_ps (firstn 3 ex_b1)) /\ records (skipn 3 ex_b1) (ex_ps (skipn 3 ex_b1)) /\
  (exists m, parse ex_old 11 (firstn 3 ex_b1 ++ skipn 3 ex_b1) = Ok m /\ ounk m <> []) /\
  (exists m, parse ex_old 11 (firstn 3 ex_b1 ++ exg_u ++ skipn 3 ex_b1) = Ok m /\ (length (ounk m) > length exg_u)%nat).
Proof.
  split; [exact C08_spec_nonvacuous|]. split; [vm_compute; reflexivity|].
  split; [apply frames_sound with (n := 4%nat); vm_compute; reflexivity|].
  split; [apply frames_sound with (n := S (length ex_b1)); vm_compute; reflexivity|].
  split; eexists; (split; [vm_compute; reflexivity | vm_compute; try discriminate; try lia]).
Qed.

Example C08_unknown_iff_nonvacuous :
  nodup_z (map fnum (cfields (get_class ex_old 11))) = true /\
  unknown_nw (get_class ex_old 11) 99 0 = true /\ unknown_nw (get_class ex_old 11) 99 5 = true /\
  unknown_nw (get_class ex_old 11) 3 1 = true /\      (* d = 3 double: deleted from the older class *)
  unknown_nw (get_class ex_old 11) 2 5 = true /\      (* s = 2 string cannot arrive as fixed32 *)
  unknown_nw (get_class ex_old 11) 2 2 = false /\ unknown_nw (get_class ex_new 11) 3 1 = false.
Proof. repeat split; vm_compute; reflexivity. Qed.

Example C08_reemit_len_nonvacuous :
  parse ex_old 11 ex_bs = Ok ex_mo_bs /\ (exists b2, enc_obj ex_old ex_mo_bs = Ok b2 /\ length b2 = 42%nat) /\
  len_obj ex_old ex_mo_bs = Ok 42 /\ len_obj ex_old (clear_unk ex_mo_bs) = Ok 13 /\ Zlength (ounk ex_mo_bs) = 29.
Proof. split; [vm_compute; reflexivity|]. split; [eexists; split; vm_compute; reflexivity|]. repeat split; vm_compute; reflexivity. Qed.

Example C08_accept_nonvacuous :
  wf_schema ex_new = true /\ C17Typed.has_builtins ex_new /\ C17Typed.entries_agree ex_new = true /\
  records ex_bs (ex_ps ex_bs) /\ length (filter (is_unknown (get_class ex_new 11)) (ex_ps ex_bs)) = 3%nat /\
  (exists m, parse ex_new 11 ex_bs = Ok m).
Proof.
  split; [vm_compute; reflexivity|]. split; [eexists; reflexivity|]. split; [vm_compute; reflexivity|].
  split; [apply frames_sound with (n := S (length ex_bs)); vm_compute; reflexivity|].
  split; [vm_compute; reflexivity|]. eexists. vm_compute. reflexivity.
Qed.

(* a history of six public-API operations on the recursive class of ex2_new: constructor, a oneof member, a Timestamp, the sibling member
   (a fresh sub-message), two assignments inside it (one to a field the older schema deleted) *)
Definition exg_hist : list C07Ops.op7 :=
  [C07Ops.OConstruct [(0%nat, PInt 150); (6%nat, PFloat 4609434218613702656)];
   C07Ops.OBase (History.OSet [] 1 (PStr [x78])); C07Ops.OBase (History.OSet [] 5 (PDatetime 1500000));
   C07Ops.OBase (History.OSet [] 2 (PMsg (new ex2_new 11)));
   C07Ops.OBase (History.OSet [2%nat] 0 (PInt 7)); C07Ops.OBase (History.OSet [2%nat] 1 (PStr [x79]))].
Example C08_evolution_reachable_nonvacuous :
  C01Def.c01_schema_ok ex2_new = true /\ masks_ok ex2_new ex2_masks = true /\
  C01Reach.hist_ok C01Reach.op_value_ok ex2_new (new ex2_new 11) exg_hist = true /\
  match C07Ops.run7 ex2_new (new ex2_new 11) exg_hist with
  | Ok m => match enc_obj ex2_new m with
            | Ok b1 => match parse ex2_old 11 b1 with
                       | Ok mo => length b1 = 29%nat /\ length (ounk mo) = 13%nat /\
                                  match enc_obj ex2_old mo with Ok b2 => b2 <> b1 /\ parse ex2_new 11 b2 = Ok (C01Def.norm_obj ex2_new m) | Err _ => False end
                       | Err _ => False
                       end
            | Err _ => False
            end
  | Err _ => False
  end.
Proof.
  split; [vm_compute; reflexivity|]. split; [vm_compute; reflexivity|]. split; [vm_compute; reflexivity|].
  vm_compute. split; [reflexivity|]. split; [reflexivity|]. split; [discriminate | reflexivity].
Qed.

Example C08_relay_nonvacuous :
  relay ex2_old 11 ex2_b1 = Ok ex2_b2 /\ relay ex2_new 11 ex2_b2 = Ok ex2_b1 /\ ex2_b2 <> ex2_b1 /\
  relay_chain ex2_old ex2_new 11 3 ex2_b1 = Ok ex2_b1 /\
  len_obj ex2_old ex2_mo = Ok 123 /\ len_obj ex2_old (clear_unk ex2_mo) = Ok 101.
Proof. repeat split; vm_compute; try reflexivity; discriminate. Qed.

(* Evolution TOGETHER WITH unknown fields (the two halves of the quantifier at once).  bs: bytes(m) with ANY records the NEWER class does
   not know (undeclared numbers, non-fitting wire types, groups) interleaved at ANY position of the top level — stated as: the records of bs
   the newer class knows are, in order, exactly bytes(m).  Then the newer reader reads bs as norm_obj m with those records in
   _unknown_fields; the older reader (ANY masks_ok subset of fields deleted, at every depth) parses bs without raising, the older writer
   re-emits a byte string of the same length, and the newer reader reads from it EXACTLY what it reads from bs: the message and the extra
   records, verbatim and in their original order.  (Not covered: unknown records INSIDE nested messages of m.) *)
From BP Require Import Proofs.C08GapD.
Theorem C08_evolution_with_unknown : forall sn masks m b1 bs ps,
  C01Def.c01_schema_ok sn = true -> masks_ok sn masks = true -> C01Def.c01_value_ok sn m = true ->
  enc_obj sn m = Ok b1 -> Zlength b1 < 2 ^ 64 ->
  records bs ps -> known_raw (get_class sn (ocls m)) ps = b1 ->
  parse sn (ocls m) bs = Ok (set_unk (C01Def.norm_obj sn m) (unknown_raw (get_class sn (ocls m)) ps)) /\
  exists mo b2,
    parse (drop_fields masks sn) (ocls m) bs = Ok mo /\
    enc_obj (drop_fields masks sn) mo = Ok b2 /\ length b2 = length bs /\
    parse sn (ocls m) b2 = Ok (set_unk (C01Def.norm_obj sn m) (unknown_raw (get_class sn (ocls m)) ps)).
Proof. exact evolution_with_unknown. Qed.
Print Assumptions C08_evolution_with_unknown.

(* bytes(ex2_m) with a padded-tag varint (99) in front, a group (20) after the first record and a fixed32 on the string field's number at
   the end: 15 bytes the newer class does not know; the older class additionally does not know a, s, t at every level *)
Definition exg2_bs : list byte :=
  [x98; x86; x00; x05] ++ firstn 3 ex2_b1 ++ [xa3; x01; x08; x05; xa4; x01] ++ skipn 3 ex2_b1 ++ [x15; x01; x02; x03; x04].
Example C08_evolution_with_unknown_nonvacuous :
  records exg2_bs (ex_ps exg2_bs) /\ known_raw (get_class ex2_new 11) (ex_ps exg2_bs) = ex2_b1 /\
  length (unknown_raw (get_class ex2_new 11) (ex_ps exg2_bs)) = 15%nat /\
  match parse ex2_old 11 exg2_bs with
  | Ok mo => (length (ounk mo) > 15)%nat /\
             match enc_obj ex2_old mo with
             | Ok b2 => b2 <> exg2_bs /\ parse ex2_new 11 b2 = parse ex2_new 11 exg2_bs /\
                        parse ex2_new 11 b2 = Ok (set_unk (C01Def.norm_obj ex2_new ex2_m) (unknown_raw (get_class ex2_new 11) (ex_ps exg2_bs)))
             | Err _ => False
             end
  | Err _ => False
  end.
Proof.
  split; [apply frames_sound with (n := S (length exg2_bs)); vm_compute; reflexivity|].
  split; [vm_compute; reflexivity|]. split; [vm_compute; reflexivity|].
  vm_compute. split; [lia|]. split; [discriminate|]. split; reflexivity.
Qed.
