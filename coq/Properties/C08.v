(* C08 — unknown fields survive decode/encode; schema evolution is lossless.  (work in progress) *)
From BP Require Import Base.Prelude Model.Types Model.Varint Model.Object Model.Encode Model.Decode Model.C08Step.
From BP Require Import Proofs.C08StepP.

Theorem C08_reemit : forall sc m bs,
  enc_obj sc m = Ok bs <-> exists body, enc_obj sc (clear_unk m) = Ok body /\ bs = body ++ ounk m.
Proof. exact reemit. Qed.
Print Assumptions C08_reemit.
