(* C08 — unknown fields survive decode/encode; schema evolution is lossless.

   Models: [parse] / [load] (Model/Decode.v) mirror Message.parse / load, [enc_obj] (Model/Encode.v)
   mirrors bytes(m).  Model/C08Step.v names the pieces of load ([step]: the loop body for one record,
   proved to be the body of [load] by conversion) and defines
     records bs ps        bs is the concatenation of the complete records ps (tag, payload; the four
                          wire types and groups), praw p = the bytes record p occupies
     is_unknown cd p      class cd keeps record p verbatim: number not declared, or declared with a type
                          that cannot arrive with p's wire type (this includes groups)
     unknown_raw / known_raw   concatenation of the raw bytes of the unknown / the other records, in order
     drop_fields masks sc the older schema: any subset of the fields of any class deleted
   Proofs/C08EvoDef.v: masks_ok (the decidable side condition of the headline: bundled and map-Entry classes keep their
   fields); Model/C01Def.v: c01_schema_ok / c01_value_ok / norm_obj (the hypotheses and the decoded form of C01).
   None of the statements below bounds the schema, the byte string, the message or the subset of deleted fields.
   The headline is C08_evolution (unconditional: every premise of the older C08_evolution_partial is discharged). *)
From BP Require Import Base.Prelude Model.Types Model.Varint Model.Object Model.Eq Model.Encode Model.Decode.
From BP Require Import Model.WellFormed Model.C08Step.
From BP Require Import Spec.Varint Spec.C08Wire.
From BP Require Import Proofs.C08FrameP Proofs.C08StepP Proofs.C08UnknownP Proofs.C08CommuteP Proofs.C08EvolutionP Proofs.C08WireP.
From BP Require Model.C01Def.
From BP Require Import Proofs.C08EvoDef Proofs.C08EvoMain.

(* Message.parse is a left-to-right fold of the loop body over the records of the input, and succeeds
   exactly when the input is a sequence of complete records each of which the loop body accepts *)
Theorem C08_parse_is_fold : forall sc c bs m,
  parse sc c bs = Ok m <->
  exists ps, records bs ps /\ fold_steps (length bs) sc (get_class sc c) (touch (new sc c)) ps = Ok m.
Proof. exact parse_fold. Qed.
Print Assumptions C08_parse_is_fold.

(* the records partition the input byte for byte, and the grammar is deterministic *)
Theorem C08_records_partition : forall bs ps, records bs ps -> bs = raw_of ps.
Proof. exact records_raw. Qed.
Print Assumptions C08_records_partition.

Theorem C08_records_deterministic : forall bs ps, records bs ps -> forall ps', records bs ps' -> ps = ps'.
Proof. exact records_det. Qed.
Print Assumptions C08_records_deterministic.

(* [records] against the wire-format specification (Spec/C08Wire.v: wire_records, written with the varint
   representations of Spec/Varint.v — padded ones included — and without any function of the decoder model):
   every byte string the specification calls a concatenation of complete records is one for [records], with the
   same field numbers, wire types and byte extents *)
Theorem C08_spec_records : forall bs rs,
  wire_records bs rs -> exists ps, records bs ps /\ map triple ps = rs.
Proof. exact wire_records_sound. Qed.
Print Assumptions C08_spec_records.

(* C08_raw_preserved and C08_known_undisturbed stated over the specification-level grammar alone *)
Theorem C08_raw_preserved_spec : forall sc c bs rs m,
  wire_records bs rs -> parse sc c bs = Ok m -> ounk m = spec_unknown_raw (get_class sc c) rs.
Proof. exact raw_preserved_spec. Qed.
Print Assumptions C08_raw_preserved_spec.

Theorem C08_known_undisturbed_spec : forall sc c bs rs,
  wire_records bs rs ->
  forall m, parse sc c bs = Ok m <->
            exists m', parse sc c (spec_known_raw (get_class sc c) rs) = Ok m' /\
                       m = set_unk m' (spec_unknown_raw (get_class sc c) rs).
Proof. exact known_undisturbed_spec. Qed.
Print Assumptions C08_known_undisturbed_spec.

(* after parsing, _unknown_fields is exactly the concatenation, in arrival order, of the raw bytes of the
   records the class does not know — any wire type, any position *)
Theorem C08_raw_preserved : forall sc c bs m,
  parse sc c bs = Ok m ->
  exists ps, records bs ps /\ bs = raw_of ps /\ ounk m = unknown_raw (get_class sc c) ps.
Proof. exact raw_preserved. Qed.
Print Assumptions C08_raw_preserved.

(* m.parse(bs) on an existing message: earlier unknown bytes stay, the new ones are appended *)
Theorem C08_raw_preserved_into : forall sc o bs m,
  parse_into sc o bs = Ok m ->
  exists ps, records bs ps /\ ounk m = ounk o ++ unknown_raw (get_class sc (ocls o)) ps.
Proof. exact raw_preserved_into. Qed.
Print Assumptions C08_raw_preserved_into.

(* unknown records never change a known field, _group_current, _serialized_on_wire: parsing bs and
   parsing bs with all unknown records deleted give the same object up to _unknown_fields ... *)
Theorem C08_known_undisturbed : forall sc c bs m,
  parse sc c bs = Ok m ->
  exists ps, records bs ps /\
             parse sc c (known_raw (get_class sc c) ps) = Ok (clear_unk m) /\
             m = set_unk (clear_unk m) (unknown_raw (get_class sc c) ps).
Proof. exact known_undisturbed. Qed.
Print Assumptions C08_known_undisturbed.

(* ... and conversely: inserting complete records the class does not know, anywhere, can neither make
   parsing fail nor change anything but _unknown_fields *)
Theorem C08_known_undisturbed_conv : forall sc c bs ps m',
  records bs ps ->
  parse sc c (known_raw (get_class sc c) ps) = Ok m' ->
  parse sc c bs = Ok (set_unk m' (unknown_raw (get_class sc c) ps)).
Proof. exact known_undisturbed_conv. Qed.
Print Assumptions C08_known_undisturbed_conv.

(* bytes(m) = bytes(m without its unknown bytes) ++ the unknown bytes, verbatim *)
Theorem C08_reemit : forall sc m bs,
  enc_obj sc m = Ok bs <-> exists body, enc_obj sc (clear_unk m) = Ok body /\ bs = body ++ ounk m.
Proof. exact reemit. Qed.
Print Assumptions C08_reemit.

(* an unknown record and a known record can be applied in either order *)
Theorem C08_unknown_commutes : forall fuel' sc cd u k,
  is_unknown cd u = true -> is_unknown cd k = false ->
  forall o o1 o2, step fuel' sc cd o u = Ok o1 -> step fuel' sc cd o1 k = Ok o2 ->
                  exists o1', step fuel' sc cd o k = Ok o1' /\ step fuel' sc cd o1' u = Ok o2.
Proof. exact swap_unknown_known. Qed.
Print Assumptions C08_unknown_commutes.

(* records of two different fields that are not members of one oneof group can be applied in either order:
   records interact only within one field number or one oneof group *)
Theorem C08_records_commute : forall fuel' sc cd u k j fj i fi,
  field_by_number cd (pnum u) = Some (j, fj) -> wire_type_fits fj (pwt u) = true ->
  field_by_number cd (pnum k) = Some (i, fi) -> wire_type_fits fi (pwt k) = true ->
  i <> j -> (fgroup fi = None \/ fgroup fi <> fgroup fj) ->
  forall o o1 o2, cd = get_class sc (ocls o) ->
    step fuel' sc cd o u = Ok o1 -> step fuel' sc cd o1 k = Ok o2 ->
    exists o1', step fuel' sc cd o k = Ok o1' /\ step fuel' sc cd o1' u = Ok o2.
Proof. exact swap_known_known. Qed.
Print Assumptions C08_records_commute.

(* Evolution at the level of bytes.  sn: the newer schema (field numbers of class c unique), so: ANY subset of
   fields of ANY class deleted, bs: ANY byte string made of complete records in which no oneof group has both a
   deleted and a kept member present.  If the older reader/writer turns bs into b2, then b2 is the re-encoded
   known part k2 followed verbatim by the records the older class does not know; and if the newer reader sees in
   k2 what it sees in the original known records (the business of the round-trip property C01: for deletions in
   class c only, k2 IS those records), then the newer reader computes from b2 EXACTLY the object it computes
   from bs: raw attributes, presence, oneof selection and unknown bytes. *)
Theorem C08_evolution_bytes : forall sn masks c,
  nodup_z (map fnum (cfields (get_class sn c))) = true ->
  forall bs ps mo b2 k2 mn,
  records bs ps ->
  split_free (get_class sn c) (get_class (drop_fields masks sn) c) ps = true ->
  parse (drop_fields masks sn) c bs = Ok mo ->
  enc_obj (drop_fields masks sn) mo = Ok b2 ->
  enc_obj (drop_fields masks sn) (clear_unk mo) = Ok k2 ->
  parse sn c k2 = parse sn c (known_raw (get_class (drop_fields masks sn) c) ps) ->
  parse sn c bs = Ok mn ->
  b2 = k2 ++ unknown_raw (get_class (drop_fields masks sn) c) ps /\ parse sn c b2 = Ok mn.
Proof. exact evolution_bytes. Qed.
Print Assumptions C08_evolution_bytes.

(* The conditional form of the headline (kept: it also covers byte strings that are not encodings of a message).
   Its premises — C01-new, C01-old, no-raise of the older reader / writer, split_free — are all DISCHARGED for encodings of
   messages by C08_evolution below (Proofs/C08Evo*.v); C08_split_free_canonical is the encoder-legality part on its own. *)
Theorem C08_evolution_partial : forall sn masks c m b1 m1 ps mo b2,
  nodup_z (map fnum (cfields (get_class sn c))) = true ->
  enc_obj sn m = Ok b1 ->
  parse sn c b1 = Ok m1 -> obj_eq sn m1 m = true ->                                    (* C01-new *)
  records b1 ps ->
  split_free (get_class sn c) (get_class (drop_fields masks sn) c) ps = true ->
  parse (drop_fields masks sn) c b1 = Ok mo ->
  enc_obj (drop_fields masks sn) mo = Ok b2 ->
  enc_obj (drop_fields masks sn) (clear_unk mo) = Ok (known_raw (get_class (drop_fields masks sn) c) ps) ->  (* C01-old *)
  exists m2, parse sn c b2 = Ok m2 /\ m2 = m1 /\ obj_eq sn m2 m = true /\ enc_obj sn m2 = enc_obj sn m1.
Proof.
  intros sn masks c m b1 m1 ps mo b2 Hnd Henc Hp Heq Hrec Hsf Hpo Heo Hk.
  destruct (evolution_bytes sn masks c Hnd b1 ps mo b2 _ m1 Hrec Hsf Hpo Heo Hk eq_refl Hp) as [_ H].
  exists m1. repeat split; assumption.
Qed.
Print Assumptions C08_evolution_partial.

(* Encoder legality as far as evolution needs it: in bytes(m) no oneof group has a deleted and a kept member present,
   for EVERY set of deleted fields (a canonical encoder emits only the selected member of a group). *)
Theorem C08_split_free_canonical : forall sn masks m b1 ps,
  C01Def.c01_schema_ok sn = true -> C01Def.c01_value_ok sn m = true ->
  enc_obj sn m = Ok b1 -> records b1 ps ->
  split_free (get_class sn (ocls m)) (get_class (drop_fields masks sn) (ocls m)) ps = true.
Proof. exact c08_split_free. Qed.
Print Assumptions C08_split_free_canonical.

(* THE HEADLINE, unconditional.  sn: any newer schema meeting C01's decidable well-formedness; masks: ANY set of deleted
   fields of ANY user class — the class of m and every class nested at any depth, also recursively — subject only to
   [masks_ok]: the bundled classes (Timestamp, Duration, wrappers) and the synthetic map-Entry classes are left alone (they are
   not schema-evolvable: the decoder reads their attributes by position; the two _refuted theorems below show what happens
   otherwise); m: any value meeting C01's decidable side conditions.  Then
     bytes(m) exists; the OLDER reader parses it without raising (deleted fields end up, verbatim and in order, in
     _unknown_fields at every nesting level); the OLDER writer re-encodes what it read (same length: a permutation of the
     records at every level); the NEWER reader parses the result to EXACTLY the object it decodes from bytes(m) itself
     (norm_obj sn m: raw attributes, oneof selection, presence flags, nested messages), which is == m with either operand
     on the left (NaN inside containers aside: K7 of C01), agrees on which_one_of, and re-encodes to bytes(m).
   Nothing is lost by passing through any older schema. *)
Theorem C08_evolution : forall sn masks m,
  C01Def.c01_schema_ok sn = true -> masks_ok sn masks = true -> C01Def.c01_value_ok sn m = true ->
  exists b1, enc_obj sn m = Ok b1 /\
    (Zlength b1 < 2 ^ 64 ->
     exists mo b2 m2,
       parse (drop_fields masks sn) (ocls m) b1 = Ok mo /\
       enc_obj (drop_fields masks sn) mo = Ok b2 /\ length b2 = length b1 /\
       parse sn (ocls m) b2 = Ok m2 /\ m2 = C01Def.norm_obj sn m /\
       (C01Def.deep C01Def.nan_free (PMsg m) = true -> obj_eq sn m2 m = true /\ obj_eq sn m m2 = true) /\
       (forall g, which_one_of m2 g = which_one_of m g) /\
       enc_obj sn m2 = Ok b1).
Proof. exact c08_evolution. Qed.
Print Assumptions C08_evolution.

(* the first half on its own: the older reader / writer never raise on what a newer writer produced *)
Theorem C08_older_reader_total : forall sn masks m,
  C01Def.c01_schema_ok sn = true -> masks_ok sn masks = true -> C01Def.c01_value_ok sn m = true ->
  forall b1, enc_obj sn m = Ok b1 -> Zlength b1 < 2 ^ 64 ->
  exists mo b2, parse (drop_fields masks sn) (ocls m) b1 = Ok mo /\
                enc_obj (drop_fields masks sn) mo = Ok b2 /\ length b2 = length b1.
Proof. exact c08_older_reader_total. Qed.
Print Assumptions C08_older_reader_total.

(* ---- non-vacuity ----
   newer class 11: a=1 int32, s=2 string, d=3 double, r=4 repeated sint64, u1=5 string (oneof 0), u2=6 int64 (oneof 0),
   n=7 message(11);  older: d, r, u1 deleted.  The input interleaves an unknown varint (field 99, padded tag), an
   unknown group (field 20) and a fixed32 on the string field's number among the fields. *)
Definition ex_new : schema :=
  mkS (builtin_classes ++
       [mkC [mkF [x61] 1 TInt32 None None None false (HPlain PyInt) 0;
             mkF [x73] 2 TString None None None false (HPlain PyStr) 0;
             mkF [x64] 3 TDouble None None None false (HPlain PyFloat) 0;
             mkF [x72] 4 TSInt64 None None None false (HList PyInt) 0;
             mkF [x75; x31] 5 TString None (Some 0%nat) None false (HPlain PyStr) 0;
             mkF [x75; x32] 6 TInt64 None (Some 0%nat) None false (HPlain PyInt) 0;
             mkF [x6e] 7 TMessage None None None false (HPlain (PyMsg 11)) 0] 1]) [].
Definition ex_masks : list (list bool) :=
  [[]; []; []; []; []; []; []; []; []; []; []; [true; true; false; false; false; true; true]].
Definition ex_old : schema := drop_fields ex_masks ex_new.
Definition ex_m : obj :=
  Obj 11 [PInt 150; PStr [x68; x69]; PFloat 4609434218613702656; PList [PInt (-1); PInt 300];
          PPlaceholder; PInt 7; PMsg (Obj 11 [PInt 1; PPlaceholder; PPlaceholder; PPlaceholder; PPlaceholder; PPlaceholder; PPlaceholder] true [] [None])]
      true [] [Some 5%nat].
Definition ex_get {A} (d : A) (r : result A) : A := match r with Ok a => a | Err _ => d end.
Definition ex_b1 : list byte := Eval vm_compute in ex_get [] (enc_obj ex_new ex_m).
(* b1 with unknown records interleaved: padded-tag varint (99), group (20), fixed32 on number 2 *)
Definition ex_bs : list byte :=
  [x98; x86; x00; x05] ++ firstn 3 ex_b1 ++ [xa3; x01; x08; x05; xa4; x01] ++ skipn 3 ex_b1 ++ [x15; x01; x02; x03; x04].
Definition ex_ps (bs : list byte) : list parsed := match frames (S (length bs)) bs with Some ps => ps | None => [] end.

Definition ex_dummy : obj := Obj 0 [] false [] [].
Definition ex_mo_bs : obj := Eval vm_compute in ex_get ex_dummy (parse ex_old 11 ex_bs).

Example C08_unknown_nonvacuous :
  parse ex_old 11 ex_bs = Ok ex_mo_bs /\
  ounk ex_mo_bs = [x98; x86; x00; x05] ++ [xa3; x01; x08; x05; xa4; x01]
                  ++ unknown_raw (get_class ex_old 11) (ex_ps ex_b1) ++ [x15; x01; x02; x03; x04] /\
  parse ex_old 11 (known_raw (get_class ex_old 11) (ex_ps ex_bs)) = Ok (clear_unk ex_mo_bs) /\
  records ex_bs (ex_ps ex_bs) /\ length (ex_ps ex_bs) = 9%nat /\
  length (filter (is_unknown (get_class ex_old 11)) (ex_ps ex_bs)) = 5%nat.
Proof.
  split; [vm_compute; reflexivity|]. split; [vm_compute; reflexivity|]. split; [vm_compute; reflexivity|].
  split; [apply frames_sound with (n := S (length ex_bs)); vm_compute; reflexivity|]. split; vm_compute; reflexivity.
Qed.

Definition ex_m1 : obj := Eval vm_compute in ex_get ex_dummy (parse ex_new 11 ex_b1).
Definition ex_mo : obj := Eval vm_compute in ex_get ex_dummy (parse ex_old 11 ex_b1).
Definition ex_b2 : list byte := Eval vm_compute in ex_get [] (enc_obj ex_old ex_mo).

Example C08_evolution_nonvacuous :
  let cdo := get_class ex_old 11 in
  let ps := ex_ps ex_b1 in
  nodup_z (map fnum (cfields (get_class ex_new 11))) = true /\
  enc_obj ex_new ex_m = Ok ex_b1 /\
  parse ex_new 11 ex_b1 = Ok ex_m1 /\ obj_eq ex_new ex_m1 ex_m = true /\
  records ex_b1 ps /\ split_free (get_class ex_new 11) cdo ps = true /\
  parse ex_old 11 ex_b1 = Ok ex_mo /\ ounk ex_mo <> [] /\ enc_obj ex_old ex_mo = Ok ex_b2 /\ ex_b2 <> ex_b1 /\
  enc_obj ex_old (clear_unk ex_mo) = Ok (known_raw cdo ps) /\
  parse ex_new 11 ex_b2 = Ok ex_m1.
Proof.
  cbv zeta. split; [vm_compute; reflexivity|]. split; [vm_compute; reflexivity|].
  split; [vm_compute; reflexivity|]. split; [vm_compute; reflexivity|].
  split; [apply frames_sound with (n := S (length ex_b1)); vm_compute; reflexivity|].
  split; [vm_compute; reflexivity|]. split; [vm_compute; reflexivity|]. split; [vm_compute; discriminate|].
  split; [vm_compute; reflexivity|]. split; [vm_compute; discriminate|]. split; vm_compute; reflexivity.
Qed.

(* the oneof side condition is needed: with the deleted member u1 BEFORE the kept member u2 in the input, the older
   writer moves u1 behind u2 and the newer reader then selects u1 instead of u2 (the reference implementation does
   the same: unknown fields are written after the known ones; a canonical encoder never emits two members) *)
Definition ex_conflict : list byte := [x2a; x01; x78; x30; x07].     (* u1 = "x", then u2 = 7 *)
Definition ex_c_mo : obj := Eval vm_compute in ex_get ex_dummy (parse ex_old 11 ex_conflict).
Definition ex_c_b2 : list byte := Eval vm_compute in ex_get [] (enc_obj ex_old ex_c_mo).
Definition ex_c_direct : obj := Eval vm_compute in ex_get ex_dummy (parse ex_new 11 ex_conflict).
Definition ex_c_evolved : obj := Eval vm_compute in ex_get ex_dummy (parse ex_new 11 ex_c_b2).
Example C08_split_oneof_refuted :
  split_free (get_class ex_new 11) (get_class ex_old 11) (ex_ps ex_conflict) = false /\
  parse ex_old 11 ex_conflict = Ok ex_c_mo /\ enc_obj ex_old ex_c_mo = Ok ex_c_b2 /\
  parse ex_new 11 ex_conflict = Ok ex_c_direct /\ parse ex_new 11 ex_c_b2 = Ok ex_c_evolved /\
  which_one_of ex_c_direct 0 = Some 5%nat /\ which_one_of ex_c_evolved 0 = Some 4%nat.
Proof. repeat split; vm_compute; reflexivity. Qed.

Example C08_spec_nonvacuous :
  wire_records ([x98; x86; x00; x05] ++ ([xa3; x01] ++ ([x0d] ++ [x01; x02; x03; x04]) ++ [xa4; x01]) ++ [])
               [(99, 0, [x98; x86; x00; x05]); (20, 3, [xa3; x01] ++ ([x0d] ++ [x01; x02; x03; x04]) ++ [xa4; x01])].
Proof.
  apply (WRS_cons ([x98; x86; x00] ++ [x05]) 99 0). { apply (WR_varint _ _ 99 5); [lia | | ]; repeat split; cbn; lia. }
  apply WRS_cons; [|constructor].
  apply (WR_group [xa3; x01] ([x0d] ++ [x01; x02; x03; x04]) [xa4; x01] 20); [lia | repeat split; cbn; lia | | repeat split; cbn; lia].
  rewrite <- (app_nil_r ([x0d] ++ [x01; x02; x03; x04])).
  apply (WS_cons _ 1 5); [|constructor]. apply (WR_fixed32 [x0d] _ 1); [lia | repeat split; cbn; lia | reflexivity].
Qed.

(* ---- non-vacuity of C08_evolution, and necessity of masks_ok ----
   newer class 11 (recursive): a=1 int32, s=2 string (oneof 0), n=3 message(11) (oneof 0), r=4 repeated message(11),
   m=5 map<string, message(11)> (Entry class 12), t=6 Timestamp as datetime, d=7 double;  older: a, s, t deleted — in the
   top-level message AND in every nested one (oneof member s deleted while member n is kept). *)
Definition ex2_new : schema :=
  mkS (builtin_classes ++
       [mkC [mkF [x61] 1 TInt32 None None None false (HPlain PyInt) 0;
             mkF [x73] 2 TString None (Some 0%nat) None false (HPlain PyStr) 0;
             mkF [x6e] 3 TMessage None (Some 0%nat) None false (HPlain (PyMsg 11)) 0;
             mkF [x72] 4 TMessage None None None false (HList (PyMsg 11)) 0;
             mkF [x6d] 5 TMap (Some (TString, TMessage)) None None false (HDict PyStr (PyMsg 11)) 12;
             mkF [x74] 6 TMessage None None None false (HPlain PyDatetime) 0;
             mkF [x64] 7 TDouble None None None false (HPlain PyFloat) 0] 1;
        mkC [mkF [x6b] 1 TString None None None false (HPlain PyStr) 0;
             mkF [x76] 2 TMessage None None None false (HPlain (PyMsg 11)) 0] 0]) [].
Definition ex2_masks : list (list bool) :=
  [[]; []; []; []; []; []; []; []; []; []; []; [false; false; true; true; true; false; true]].
Definition ex2_leaf1 : obj :=
  Obj 11 [PInt 7; PStr [x78]; PPlaceholder; PPlaceholder; PPlaceholder; PPlaceholder; PFloat 4609434218613702656] true [] [Some 1%nat].
Definition ex2_leaf2 : obj :=
  Obj 11 [PInt (-1); PPlaceholder; PPlaceholder; PPlaceholder; PPlaceholder; PDatetime 1500000; PPlaceholder] true [] [None].
Definition ex2_m : obj :=
  Obj 11 [PInt 150; PPlaceholder; PMsg ex2_leaf1; PList [PMsg ex2_leaf2; PMsg ex2_leaf1];
          PDict [(PStr [x6b], PMsg ex2_leaf2); (PStr [], PMsg ex2_leaf1)]; PDatetime (-1500000); PFloat 9223372036854775808]
      true [] [Some 2%nat].
Definition ex2_old : schema := Eval vm_compute in drop_fields ex2_masks ex2_new.
Definition ex2_b1 : list byte := Eval vm_compute in ex_get [] (enc_obj ex2_new ex2_m).
Definition ex2_mo : obj := Eval vm_compute in ex_get ex_dummy (parse ex2_old 11 ex2_b1).
Definition ex2_b2 : list byte := Eval vm_compute in ex_get [] (enc_obj ex2_old ex2_mo).

Example C08_evolution_hypotheses_nonvacuous :
  C01Def.c01_schema_ok ex2_new = true /\ masks_ok ex2_new ex2_masks = true /\ C01Def.c01_value_ok ex2_new ex2_m = true /\
  C01Def.deep C01Def.nan_free (PMsg ex2_m) = true /\
  enc_obj ex2_new ex2_m = Ok ex2_b1 /\ parse (drop_fields ex2_masks ex2_new) 11 ex2_b1 = Ok ex2_mo /\
  length (ounk ex2_mo) = 22%nat /\ enc_obj (drop_fields ex2_masks ex2_new) ex2_mo = Ok ex2_b2 /\
  ex2_b2 <> ex2_b1 /\ length ex2_b2 = 123%nat /\ length ex2_b1 = 123%nat /\
  parse ex2_new 11 ex2_b2 = Ok (C01Def.norm_obj ex2_new ex2_m).
Proof.
  split; [vm_compute; reflexivity|]. split; [vm_compute; reflexivity|]. split; [vm_compute; reflexivity|].
  split; [vm_compute; reflexivity|]. split; [vm_compute; reflexivity|]. split; [vm_compute; reflexivity|].
  split; [vm_compute; reflexivity|]. split; [vm_compute; reflexivity|]. split; [vm_compute; discriminate|].
  split; [vm_compute; reflexivity|]. split; vm_compute; reflexivity.
Qed.

(* masks_ok is needed: deleting `value` from a synthetic map-Entry class, or `seconds` from the bundled Timestamp, makes the
   older reader raise on bytes(m) (it reads these attributes by position); such "older schemas" do not arise from evolving a
   .proto file *)
Theorem C08_evolution_entry_mask_refuted :
  exists sn masks m b1,
    C01Def.c01_schema_ok sn = true /\ C01Def.c01_value_ok sn m = true /\ masks_ok sn masks = false /\
    enc_obj sn m = Ok b1 /\ parse (drop_fields masks sn) (ocls m) b1 = Err EAttribute.
Proof.
  exists ex2_new, [[]; []; []; []; []; []; []; []; []; []; []; []; [true; false]], ex2_m, ex2_b1.
  repeat split; vm_compute; reflexivity.
Qed.
Print Assumptions C08_evolution_entry_mask_refuted.

Theorem C08_evolution_builtin_mask_refuted :
  exists sn masks m b1,
    C01Def.c01_schema_ok sn = true /\ C01Def.c01_value_ok sn m = true /\ masks_ok sn masks = false /\
    enc_obj sn m = Ok b1 /\ parse (drop_fields masks sn) (ocls m) b1 = Err EType.
Proof.
  exists ex2_new, [[false; true]], ex2_m, ex2_b1.
  repeat split; vm_compute; reflexivity.
Qed.
Print Assumptions C08_evolution_builtin_mask_refuted.
