(* C15 - source-translation tie, part "ts_json": _Timestamp.timestamp_to_json.  gen/C15Src.v holds src_timestamp_to_json
   obtained MECHANICALLY (harness/gen_c15_src.py) from the CURRENT source text, calendar text included: the isoformat() the
   source calls is Model/Json.v cal_text (Model/C15SrcLib.v py_isoformat_naive_s), the float arithmetic nanos =
   dt.microsecond * 1e3, %, // is integer-valued and exact (ifloat), f"{x:09d}" on a float is ValueError.
   Inside the range of UTC wall clocks (year 1..9999, [utc_in_range], decidable) the translation IS the model's
   timestamp_to_json with that calendar text, and the ValueError branch is dead; outside it the source raises OverflowError
   in dt.astimezone(timezone.utc), which the model - taking [cal] from outside - does not represent (witness below).
   BUILT ONLY BY THE "source tie" STAGE of harness/props/c15.py (non-alarming; see Properties/C15Src.v).
   Only statements here; every proof is one [exact] of a lemma of Proofs/C15SrcTsJson.v. *)
From BP Require Import Base.Prelude Model.Time Spec.Time Model.C16SrcLib Model.C15SrcLib gen.C15Src.
From BP Require Model.Json Spec.JsonMap.
From BP Require Import Proofs.TimeP Proofs.C15SrcTsJson.

Theorem C15_src_timestamp_to_json_is_model : forall dt, utc_in_range dt = true ->
  src_timestamp_to_json dt = timestamp_to_json (Model.Json.cal_text (instant dt / 1000000)) dt.
Proof. exact src_timestamp_to_json_is_model. Qed.
Print Assumptions C15_src_timestamp_to_json_is_model.

Theorem C15_src_timestamp_to_json_out_of_range : forall dt, utc_in_range dt = false -> src_timestamp_to_json dt = Err EOverflow.
Proof. exact src_timestamp_to_json_out_of_range. Qed.
Print Assumptions C15_src_timestamp_to_json_out_of_range.

(* the full equality with the model is false outside the range: datetime.min carrying +01:00 is a valid aware datetime,
   the source raises OverflowError on it, the model answers for any calendar text *)
Theorem C15_src_timestamp_to_json_is_model_refuted :
  exists dt, utc_in_range dt = false /\ DT_MIN_US <= wall dt <= DT_MAX_US /\ src_timestamp_to_json dt = Err EOverflow /\
             forall cal, timestamp_to_json cal dt = Ok (cal ++ [cZ]).
Proof. exact model_has_no_overflow_arm. Qed.
Print Assumptions C15_src_timestamp_to_json_is_model_refuted.

(* C15_json_ts over the source: RFC 3339 with 0 / 3 / 6 fractional digits and "Z"; never the broken fourth branch *)
Theorem C15_src_json_ts : forall dt, utc_in_range dt = true ->
  src_timestamp_to_json dt = Ok (ts_json (Model.Json.cal_text (instant dt / 1000000)) (snd (ts_of_us (instant dt)))).
Proof. exact src_json_ts. Qed.
Print Assumptions C15_src_json_ts.

(* C15_json_ts_calendar over the source: the text is the canonical RFC 3339 UTC string of the reference's pair, a conforming
   reader reads that pair from it, and betterproto's own reader (the isoparse model) returns the same instant *)
Theorem C15_src_json_ts_calendar : forall dt, utc_in_range dt = true ->
  exists text,
    src_timestamp_to_json dt = Ok text /\
    text = Spec.JsonMap.ts_str (fst (ts_of_us (instant dt))) (snd (ts_of_us (instant dt))) /\
    Spec.JsonMap.ts_parse text = Some (ts_of_us (instant dt)) /\
    Model.Json.iso_parse text = Ok (instant dt).
Proof. exact src_json_ts_calendar. Qed.
Print Assumptions C15_src_json_ts_calendar.

(* any fixed UTC offset: only the instant matters (the repaired order: fraction taken AFTER the conversion to UTC) *)
Theorem C15_src_json_ts_tz : forall a b, instant a = instant b -> src_timestamp_to_json a = src_timestamp_to_json b.
Proof. exact src_json_ts_tz. Qed.
Print Assumptions C15_src_json_ts_tz.

(* non-vacuity: 0001-01-01T00:00:00.000001+05:30 (UTC instant still inside year 1) and a sub-second UTC offset *)
Example C15_src_ex_ts_json :
  src_c15_ts_json_translated = true /\
  (let dt := mkdt (-62135596800000000 + 19800000000 + 1) 19800000000 in
   utc_in_range dt = true /\
   src_timestamp_to_json dt =
     Ok [x30; x30; x30; x31; x2d; x30; x31; x2d; x30; x31; x54; x30; x30; x3a; x30; x30; x3a; x30; x30; x2e;
         x30; x30; x30; x30; x30; x31; x5a]) /\
  (* 1970-01-01T00:00:01.500Z written with the offset +0.5 s: the fraction is the UTC one *)
  src_timestamp_to_json (mkdt 2000000 500000) =
     Ok [x31; x39; x37; x30; x2d; x30; x31; x2d; x30; x31; x54; x30; x30; x3a; x30; x30; x3a; x30; x31; x2e; x35; x30; x30; x5a] /\
  utc_in_range (mkdt (-62135596800000000) 3600000000) = false.
Proof. vm_compute. repeat split; reflexivity. Qed.
