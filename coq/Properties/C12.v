(* C12 — AsyncChannel: exactly-once ordered delivery, no stranded receiver, under every schedule.
   Statements only; every proof is one [exact] of a lemma of Proofs/ChannelP*.v.

   [Reach c s]: s is reachable from the initial state of configuration c (ANY number of tasks, ANY programs
   over send / send_from / receive / receive-loop / async-for / close / cancel / sleep(0), any buffer limit)
   by letting an arbitrary task run one atomic segment at a time — a superset of the schedules of asyncio's
   ready queue (C12_schedules_reachable).  [c_pinned c = false] selects the repaired receive/__anext__
   (fixes/c12-task-done.patch, F10); the pinned variant is refuted below. *)
From BP Require Import Base.Prelude Model.Channel.
From BP Require Import Proofs.ChannelP1 Proofs.ChannelP2 Proofs.ChannelP3 Proofs.ChannelP4 Proofs.ChannelP5
                       Proofs.ChannelP6 Proofs.ChannelP7 Proofs.ChannelP8.
Local Open Scope nat_scope.

(* every run of the event loop (one ready handle at a time, each run to its next suspension point) is in Reach *)
Theorem C12_schedules_reachable : forall c fuel sch s',
  run_final fuel (init c) sch = Some s' -> Reach c s'.
Proof. exact sched_reach. Qed.
Print Assumptions C12_schedules_reachable.

(* conservation + global FIFO, cancellation included: the log of completed sends is exactly the receive log
   (in dequeue order) followed by the real items still queued; no item occurs twice *)
Theorem C12_conserve : forall c s, Reach c s -> c_pinned c = false ->
  sent s = received s ++ reals (q s) /\ NoDup (sent s).
Proof. exact conserve. Qed.
Print Assumptions C12_conserve.

(* exactly once, nothing invented, nothing lost *)
Theorem C12_exactly_once : forall c s, Reach c s -> c_pinned c = false ->
  NoDup (received s) /\ (forall x, In x (received s) -> In x (sent s)) /\
  (forall x, In x (sent s) -> In x (received s) \/ In x (q s)) /\
  (forall x, In x (received s) -> ~ In x (q s)).
Proof. exact received_once. Qed.
Print Assumptions C12_exactly_once.

(* per sender: the items received from sender v are its items number 0,1,..,k-1 in that order *)
Theorem C12_fifo : forall c s, Reach c s -> c_pinned c = false -> forall v,
  filter (from v) (received s) = map (Msg v) (seq 0 (length (filter (from v) (received s)))) /\
  length (filter (from v) (received s)) <= nsent_of s v.
Proof. exact fifo. Qed.
Print Assumptions C12_fifo.

(* _waiting_receivers is exactly the number of receivers between W += 1 and W -= 1 (pinned or repaired, with cancellation) *)
Theorem C12_W : forall c s, Reach c s -> W s = sumf in_get (tasks s).
Proof. exact W_exact. Qed.
Print Assumptions C12_W.

(* no stranded receiver: without cancellation (pinned or repaired code), once closed and nothing can run any more,
   no receiver is blocked, and if some receiver observed the end then the items sent before close() are exactly
   the first npre received items *)
Theorem C12_no_strand : forall c s, Reach c s -> cfg_nocancel c = true -> closed s = true -> quiescent s = true ->
  sumf (is_st BlkGet) (tasks s) = 0 /\
  (drained s = true -> sent_before_close s = firstn (npre s) (received s)).
Proof. exact no_strand. Qed.
Print Assumptions C12_no_strand.

Theorem C12_no_strand_items : forall c s, Reach c s -> cfg_nocancel c = true -> closed s = true -> quiescent s = true ->
  drained s = true -> forall x, In x (sent_before_close s) -> In x (received s).
Proof. exact no_strand_items. Qed.
Print Assumptions C12_no_strand_items.

(* ... every task has finished or is a sender / the flush task blocked in put (bounded buffer) *)
Theorem C12_no_blocked_receiver : forall c s, Reach c s -> cfg_nocancel c = true -> closed s = true -> quiescent s = true ->
  forall T, In T (tasks s) -> blocked_receiver T = false /\ (exists o, st T = Fin o) \/ st T = BlkPut.
Proof. exact no_blocked_receiver. Qed.
Print Assumptions C12_no_blocked_receiver.

(* the same with cancellation / timeouts of any of the configuration's tasks, pinned or repaired code: the channel stays
   usable — after close no receiver is left blocked.  ([cfg_cancel_ok]: every cancel() names a task of the configuration,
   i.e. nobody cancels the internal _flush_queue task, which user code cannot reach.) *)
Theorem C12_no_blocked_receiver_cancel : forall c s, Reach c s -> cfg_cancel_ok c = true -> closed s = true ->
  quiescent s = true -> sumf (is_st BlkGet) (tasks s) = 0.
Proof. exact no_blocked_general. Qed.
Print Assumptions C12_no_blocked_receiver_cancel.

Theorem C12_quiescent_tasks_cancel : forall c s, Reach c s -> cfg_cancel_ok c = true -> closed s = true -> quiescent s = true ->
  forall T, In T (tasks s) -> (exists o, st T = Fin o) \/ st T = BlkPut.
Proof. exact no_blocked_general_tasks. Qed.
Print Assumptions C12_quiescent_tasks_cancel.

(* after close *)
Theorem C12_closed_stable : forall s t s', step s t = Some s' -> closed s = true -> closed s' = true.
Proof. exact closed_stable. Qed.
Print Assumptions C12_closed_stable.

Theorem C12_send_after_close : forall s t T p, closed s = true -> nth_error (tasks s) t = Some T ->
  st T = Ready -> mc T = false -> (prog T = ISend :: p \/ exists n cl, prog T = ISendFrom n cl :: p) ->
  exists s', step s t = Some s' /\ outcome_of s' t = Some OClosed /\ q s' = q s /\ sent s' = sent s.
Proof. exact send_after_close. Qed.
Print Assumptions C12_send_after_close.

Theorem C12_receive_when_done : forall s t T p, done s = true -> nth_error (tasks s) t = Some T ->
  st T = Ready -> mc T = false ->
  (prog T = IRecv :: p -> exists s', step s t = Some s' /\ outcome_of s' t = Some ODone /\ q s' = q s) /\
  (forall o, (o = IRecvLoop \/ exists y, o = IIter y) -> prog T = o :: p ->
     exists s' T', step s t = Some s' /\ nth_error (tasks s') t = Some T' /\ st T' = Ready /\ prog T' = p /\ q s' = q s).
Proof. exact receive_when_done. Qed.
Print Assumptions C12_receive_when_done.

Theorem C12_sentinel_ends_receive : forall s t T o p r, nth_error (tasks s) t = Some T -> st T = WokeGet -> mc T = false ->
  prog T = o :: p -> (o = IRecv \/ o = IRecvLoop \/ exists y, o = IIter y) -> q s = Flush :: r -> unfin s <> 0 ->
  exists s' T', step s t = Some s' /\ nth_error (tasks s') t = Some T' /\ st T' = Ready /\ prog T' = p /\
                recv s' = recv s /\ drained s' = true.
Proof. exact sentinel_ends_receive. Qed.
Print Assumptions C12_sentinel_ends_receive.

(* cancellation safety (repaired code): a receiver cancelled / timed out inside get() ends with CancelledError /
   TimeoutError, takes nothing, restores W, and the channel's invariants hold afterwards *)
Theorem C12_cancel_safe : forall c s t T, Reach c s -> c_pinned c = false ->
  nth_error (tasks s) t = Some T -> cancelled_in_get T ->
  exists s', step s t = Some s' /\ outcome_of s' t = Some (cancel_out T) /\
             q s' = q s /\ recv s' = recv s /\ sent s' = sent s /\ W s' = W s - 1 /\
             W s' = sumf in_get (tasks s') /\ sent s' = received s' ++ reals (q s').
Proof. exact cancel_safe. Qed.
Print Assumptions C12_cancel_safe.

(* F10 on the pinned code: the cancelled receiver gets ValueError ... *)
Theorem C12_cancel_error_refuted : exists c s t T,
  c_pinned c = true /\ Reach c s /\ nth_error (tasks s) t = Some T /\ cancelled_in_get T /\
  exists s', step s t = Some s' /\ outcome_of s' t = Some OValueErr.
Proof. exact cancel_error_refuted. Qed.
Print Assumptions C12_cancel_error_refuted.

(* ... and a later receiver loses an item that was sent before close() *)
Theorem C12_cancel_lost_refuted : exists c s x,
  c_pinned c = true /\ Reach c s /\ quiescent s = true /\
  In x (sent_before_close s) /\ ~ In x (received s) /\ ~ In x (q s).
Proof. exact cancel_lost_refuted. Qed.
Print Assumptions C12_cancel_lost_refuted.

(* K6 on the repaired code: with one cancellation C12_no_strand_items fails — every task has finished, a receiver
   observed the end, and an item sent before close() is still queued (not lost, but never received) *)
Theorem C12_cancel_strands_refuted : exists c s x,
  c_pinned c = false /\ Reach c s /\ closed s = true /\ quiescent s = true /\ drained s = true /\
  forallb (fun T => is_fin (st T)) (tasks s) = true /\
  outcome_of s 1 = Some OCancelled /\
  In x (sent_before_close s) /\ ~ In x (received s) /\ In x (q s).
Proof. exact cancel_strands_refuted. Qed.
Print Assumptions C12_cancel_strands_refuted.

(* What is NOT proved (and cannot be, see the refutation above): with cancellation, that every item sent before close()
   is received.  Modelling limits: the wait_for timer is a cancel() whose target reports TimeoutError; asyncio itself
   (event loop, Task.__step, Future callbacks) is mirrored by the transition system and tied to the real classes by the
   stepping loop, not verified. *)

(* non-vacuity *)
Example C12_ex_quiescent :
  let s := final cfg_ex sch_ex in
  cfg_nocancel cfg_ex = true /\ Reach cfg_ex s /\ closed s = true /\ quiescent s = true /\ drained s = true /\
  length (sent_before_close s) = 5 /\ length (received s) = 5.
Proof. exact no_strand_nonvacuous. Qed.
Example C12_ex_cancel_fixed : outcome_of (final (cfg_f10 false) [0; 1; 0]) 0 = Some OCancelled.
Proof. vm_compute. reflexivity. Qed.
Example C12_ex_cancel_safe_hyp : exists T, nth_error (tasks (final (cfg_f10 false) [0; 1])) 0 = Some T /\ cancelled_in_get T.
Proof. eexists. split; [vm_compute; reflexivity|]. left. reflexivity. Qed.
Example C12_ex_lost_fixed :
  received (final (cfg_f10_loss false) [0; 1; 2; 0; 3; 4]) = [Msg 2 0; Msg 2 1].
Proof. vm_compute. reflexivity. Qed.
Example C12_ex_cancel_ok : cfg_cancel_ok cfg_k6 = true /\ cfg_cancel_ok (cfg_f10 true) = true.
Proof. vm_compute. auto. Qed.
Example C12_ex_send_after_close :
  outcome_of (final (mkC 0 false [([UClose], false); ([USend], false)]) [0; 1]) 1 = Some OClosed.
Proof. vm_compute. reflexivity. Qed.
(* observation (not a finding): bounded buffer, a send_from past its closed-check stays blocked in put() for ever *)
Example C12_obs_sender_blocked :
  let s := final cfg_obs [1; 0; 0; 1; 2; 1; 3; 2; 0] in
  quiescent s = true /\ closed s = true /\ (exists T, nth_error (tasks s) 0 = Some T /\ st T = BlkPut) /\
  sent_before_close s = [Msg 0 0] /\ received s = [Msg 0 0] /\ q s = [Msg 0 1].
Proof. exact sender_blocked_after_close. Qed.
