(* C12 — AsyncChannel: exactly-once ordered delivery, no stranded receiver, under every schedule.
   Statements only; every proof is one [exact] of a lemma of Proofs/ChannelP*.v.

   [Reach c s]: s is reachable from the initial state of configuration c (ANY number of tasks, ANY programs
   over send / send_from / receive / receive-loop / async-for / close / cancel / sleep(0), any buffer limit)
   by letting an arbitrary task run one atomic segment at a time — a superset of the schedules of asyncio's
   ready queue (C12_schedules_reachable).  [c_pinned c = false] selects the repaired receive/__anext__
   (fixes/c12-task-done.patch, F10); the pinned variant is refuted below. *)
From BP Require Import Base.Prelude Model.Channel Model.C12X Model.C12Gap.
From BP Require Import Proofs.ChannelP1 Proofs.ChannelP2 Proofs.ChannelP3 Proofs.ChannelP4 Proofs.ChannelP5
                       Proofs.ChannelP6 Proofs.ChannelP7 Proofs.ChannelP8.
From BP Require Import Proofs.ChannelX1 Proofs.ChannelX2 Proofs.ChannelX3 Proofs.ChannelX4 Proofs.ChannelX5 Proofs.ChannelX6 Proofs.ChannelX7.
From BP Require Import Proofs.C12GapA Proofs.C12GapB.
From Coq Require Import Sorted.
Local Open Scope nat_scope.

(* every run of the event loop (one ready handle at a time, each run to its next suspension point) is in Reach *)
Theorem C12_schedules_reachable : forall c fuel sch s',
  run_final fuel (init c) sch = Some s' -> Reach c s'.
Proof. exact sched_reach. Qed.
Print Assumptions C12_schedules_reachable.

(* conservation + global FIFO, cancellation included: the log of completed sends is exactly the receive log
   (in dequeue order) followed by the real items still queued; no item occurs twice *)
Theorem C12_conserve : forall c s, Reach c s -> c_pinned c = false ->
  sent s = received s ++ reals (q s) /\ NoDup (sent s).
Proof. exact conserve. Qed.
Print Assumptions C12_conserve.

(* exactly once, nothing invented, nothing lost *)
Theorem C12_exactly_once : forall c s, Reach c s -> c_pinned c = false ->
  NoDup (received s) /\ (forall x, In x (received s) -> In x (sent s)) /\
  (forall x, In x (sent s) -> In x (received s) \/ In x (q s)) /\
  (forall x, In x (received s) -> ~ In x (q s)).
Proof. exact received_once. Qed.
Print Assumptions C12_exactly_once.

(* per sender: the items received from sender v are its items number 0,1,..,k-1 in that order *)
Theorem C12_fifo : forall c s, Reach c s -> c_pinned c = false -> forall v,
  filter (from v) (received s) = map (Msg v) (seq 0 (length (filter (from v) (received s)))) /\
  length (filter (from v) (received s)) <= nsent_of s v.
Proof. exact fifo. Qed.
Print Assumptions C12_fifo.

(* _waiting_receivers is exactly the number of receivers between W += 1 and W -= 1 (pinned or repaired, with cancellation) *)
Theorem C12_W : forall c s, Reach c s -> W s = sumf in_get (tasks s).
Proof. exact W_exact. Qed.
Print Assumptions C12_W.

(* no stranded receiver: without cancellation (pinned or repaired code), once closed and nothing can run any more,
   no receiver is blocked, and if some receiver observed the end then the items sent before close() are exactly
   the first npre received items *)
Theorem C12_no_strand : forall c s, Reach c s -> cfg_nocancel c = true -> closed s = true -> quiescent s = true ->
  sumf (is_st BlkGet) (tasks s) = 0 /\
  (drained s = true -> sent_before_close s = firstn (npre s) (received s)).
Proof. exact no_strand. Qed.
Print Assumptions C12_no_strand.

Theorem C12_no_strand_items : forall c s, Reach c s -> cfg_nocancel c = true -> closed s = true -> quiescent s = true ->
  drained s = true -> forall x, In x (sent_before_close s) -> In x (received s).
Proof. exact no_strand_items. Qed.
Print Assumptions C12_no_strand_items.

(* ... every task has finished or is a sender / the flush task blocked in put (bounded buffer) *)
Theorem C12_no_blocked_receiver : forall c s, Reach c s -> cfg_nocancel c = true -> closed s = true -> quiescent s = true ->
  forall T, In T (tasks s) -> blocked_receiver T = false /\ (exists o, st T = Fin o) \/ st T = BlkPut.
Proof. exact no_blocked_receiver. Qed.
Print Assumptions C12_no_blocked_receiver.

(* the same with cancellation / timeouts of any of the configuration's tasks, pinned or repaired code: the channel stays
   usable — after close no receiver is left blocked.  ([cfg_cancel_ok]: every cancel() names a task of the configuration,
   i.e. nobody cancels the internal _flush_queue task, which user code cannot reach.) *)
Theorem C12_no_blocked_receiver_cancel : forall c s, Reach c s -> cfg_cancel_ok c = true -> closed s = true ->
  quiescent s = true -> sumf (is_st BlkGet) (tasks s) = 0.
Proof. exact no_blocked_general. Qed.
Print Assumptions C12_no_blocked_receiver_cancel.

Theorem C12_quiescent_tasks_cancel : forall c s, Reach c s -> cfg_cancel_ok c = true -> closed s = true -> quiescent s = true ->
  forall T, In T (tasks s) -> (exists o, st T = Fin o) \/ st T = BlkPut.
Proof. exact no_blocked_general_tasks. Qed.
Print Assumptions C12_quiescent_tasks_cancel.

(* after close *)
Theorem C12_closed_stable : forall s t s', step s t = Some s' -> closed s = true -> closed s' = true.
Proof. exact closed_stable. Qed.
Print Assumptions C12_closed_stable.

Theorem C12_send_after_close : forall s t T p, closed s = true -> nth_error (tasks s) t = Some T ->
  st T = Ready -> mc T = false -> (prog T = ISend :: p \/ exists n cl, prog T = ISendFrom n cl :: p) ->
  exists s', step s t = Some s' /\ outcome_of s' t = Some OClosed /\ q s' = q s /\ sent s' = sent s.
Proof. exact send_after_close. Qed.
Print Assumptions C12_send_after_close.

Theorem C12_receive_when_done : forall s t T p, done s = true -> nth_error (tasks s) t = Some T ->
  st T = Ready -> mc T = false ->
  (prog T = IRecv :: p -> exists s', step s t = Some s' /\ outcome_of s' t = Some ODone /\ q s' = q s) /\
  (forall o, (o = IRecvLoop \/ exists y, o = IIter y) -> prog T = o :: p ->
     exists s' T', step s t = Some s' /\ nth_error (tasks s') t = Some T' /\ st T' = Ready /\ prog T' = p /\ q s' = q s).
Proof. exact receive_when_done. Qed.
Print Assumptions C12_receive_when_done.

Theorem C12_sentinel_ends_receive : forall s t T o p r, nth_error (tasks s) t = Some T -> st T = WokeGet -> mc T = false ->
  prog T = o :: p -> (o = IRecv \/ o = IRecvLoop \/ exists y, o = IIter y) -> q s = Flush :: r -> unfin s <> 0 ->
  exists s' T', step s t = Some s' /\ nth_error (tasks s') t = Some T' /\ st T' = Ready /\ prog T' = p /\
                recv s' = recv s /\ drained s' = true.
Proof. exact sentinel_ends_receive. Qed.
Print Assumptions C12_sentinel_ends_receive.

(* cancellation safety (repaired code): a receiver cancelled / timed out inside get() ends with CancelledError /
   TimeoutError, takes nothing, restores W, and the channel's invariants hold afterwards *)
Theorem C12_cancel_safe : forall c s t T, Reach c s -> c_pinned c = false ->
  nth_error (tasks s) t = Some T -> cancelled_in_get T ->
  exists s', step s t = Some s' /\ outcome_of s' t = Some (cancel_out T) /\
             q s' = q s /\ recv s' = recv s /\ sent s' = sent s /\ W s' = W s - 1 /\
             W s' = sumf in_get (tasks s') /\ sent s' = received s' ++ reals (q s').
Proof. exact cancel_safe. Qed.
Print Assumptions C12_cancel_safe.

(* F10 on the pinned code: the cancelled receiver gets ValueError ... *)
Theorem C12_cancel_error_refuted : exists c s t T,
  c_pinned c = true /\ Reach c s /\ nth_error (tasks s) t = Some T /\ cancelled_in_get T /\
  exists s', step s t = Some s' /\ outcome_of s' t = Some OValueErr.
Proof. exact cancel_error_refuted. Qed.
Print Assumptions C12_cancel_error_refuted.

(* ... and a later receiver loses an item that was sent before close() *)
Theorem C12_cancel_lost_refuted : exists c s x,
  c_pinned c = true /\ Reach c s /\ quiescent s = true /\
  In x (sent_before_close s) /\ ~ In x (received s) /\ ~ In x (q s).
Proof. exact cancel_lost_refuted. Qed.
Print Assumptions C12_cancel_lost_refuted.

(* K6 on the repaired code: with one cancellation C12_no_strand_items fails — every task has finished, a receiver
   observed the end, and an item sent before close() is still queued (not lost, but never received) *)
Theorem C12_cancel_strands_refuted : exists c s x,
  c_pinned c = false /\ Reach c s /\ closed s = true /\ quiescent s = true /\ drained s = true /\
  forallb (fun T => is_fin (st T)) (tasks s) = true /\
  outcome_of s 1 = Some OCancelled /\
  In x (sent_before_close s) /\ ~ In x (received s) /\ In x (q s).
Proof. exact cancel_strands_refuted. Qed.
Print Assumptions C12_cancel_strands_refuted.

(* ================================================================ extension: capacity, termination, done(), per-receiver order
   (definitions: Model/C12X.v; proofs: Proofs/ChannelX1..X5.v).  All for every configuration and every reachable state. *)

(* (1) capacity.  With buffer_limit n > 0 the queue never holds more than n entries — items AND flush sentinels —
   pinned or repaired code, cancellation included; [within_capacity] is the boolean form (n = 0: unbounded) *)
Theorem C12_capacity : forall c s, Reach c s ->
  (c_maxsize c > 0 -> length (q s) <= c_maxsize c) /\ within_capacity s = true.
Proof. exact capacity. Qed.
Print Assumptions C12_capacity.

(* ... and with buffer_limit 0 there is no bound: every queue length is reached *)
Theorem C12_capacity_unbounded : forall n, exists c s, c_maxsize c = 0 /\ Reach c s /\ length (q s) = n.
Proof. exact capacity_unbounded. Qed.
Print Assumptions C12_capacity_unbounded.

(* close() never fails, on ANY state (any number of blocked receivers, queue full or not): it sets _closed, spawns the
   _flush_queue task and goes on; it touches neither the queue nor the deques nor the counters.  There is no put_nowait in
   it, so nothing can report QueueFull (the model's outcomes have no such case: put_nowait is only reached through put()'s
   full-check) *)
Theorem C12_close_never_fails : forall s t T p, nth_error (tasks s) t = Some T -> st T = Ready -> mc T = false ->
  prog T = IClose :: p ->
  exists s', step s t = Some s' /\ closed s' = true /\ q s' = q s /\ getters s' = getters s /\ putters s' = putters s /\
             W s' = W s /\ unfin s' = unfin s /\ flushed s' = flushed s /\
             tasks s' = upd (tasks s) t (set_prog T p) ++ [flush_task] /\
             nth_error (tasks s') t = Some (set_prog T p) /\ outcome_of s' t = None.
Proof. exact close_never_fails. Qed.
Print Assumptions C12_close_never_fails.

(* _flush_queue up to its first put never fails either: the first call commits to max(0, W - qsize) sentinels *)
Theorem C12_flush_body : forall s t T p, nth_error (tasks s) t = Some T -> st T = Ready -> mc T = false ->
  prog T = IFlush :: p ->
  exists s' T', step s t = Some s' /\ flushed s' = true /\ q s' = q s /\ W s' = W s /\ nth_error (tasks s') t = Some T' /\
                st T' = Ready /\
                prog T' = (if flushed s then [] else repeat IPutFlush (W s - length (q s))) ++ p.
Proof. exact flush_body. Qed.
Print Assumptions C12_flush_body.

(* the sentinel put on a full queue: the _flush_queue task parks in _putters (BlkPut) and the queue is untouched;
   otherwise the sentinel goes to the back of the queue *)
Theorem C12_flush_put : forall s t T p, nth_error (tasks s) t = Some T -> (st T = Ready \/ st T = WokePut) -> mc T = false ->
  prog T = IPutFlush :: p ->
  exists s' T', step s t = Some s' /\ nth_error (tasks s') t = Some T' /\
    if full s then q s' = q s /\ st T' = BlkPut /\ prog T' = IPutFlush :: p /\ putters s' = putters s ++ [t]
    else q s' = q s ++ [Flush] /\ st T' = Ready /\ prog T' = p /\ sent s' = sent s.
Proof. exact flush_put. Qed.
Print Assumptions C12_flush_put.

(* (2) termination.  [measure] (Model/C12X.v: per task 1 if it can run + the weight of its remaining operations, 2 per queue
   entry, and the sentinels _flush_queue may still commit to) strictly decreases with EVERY step of EVERY task: a receive
   loop cannot spin (each round consumes a queue entry, blocks, or ends), a woken getter / putter that finds the queue
   empty / full again is paid for by the put / get that woke it *)
Theorem C12_measure_decreases : forall c s t s', Reach c s -> step s t = Some s' -> measure s' < measure s.
Proof. exact measure_decreases. Qed.
Print Assumptions C12_measure_decreases.

(* every run from a reachable state is finite: at most [measure s] <= [bound c] = measure (init c) segments *)
Theorem C12_termination : forall c s sch s', Reach c s -> exec s sch = Some s' ->
  length sch + measure s' <= measure s /\ measure s <= bound c /\ length sch <= bound c.
Proof. exact run_bounded. Qed.
Print Assumptions C12_termination.

Theorem C12_no_infinite_run : forall c s (f : nat -> state), Reach c s -> f 0 = s ->
  (forall i, exists t, step (f i) t = Some (f (S i))) -> False.
Proof. exact no_infinite_run. Qed.
Print Assumptions C12_no_infinite_run.

(* nothing can move exactly in the quiescent states, and a state that is not quiescent can move *)
Theorem C12_stuck_iff_quiescent : forall c s, Reach c s -> (stuck s <-> quiescent s = true).
Proof. exact stuck_iff_quiescent. Qed.
Print Assumptions C12_stuck_iff_quiescent.

Theorem C12_progress : forall c s, Reach c s -> quiescent s = false -> exists t s', step s t = Some s'.
Proof. exact progress. Qed.
Print Assumptions C12_progress.

(* every maximal run reaches a quiescent state within [bound c] steps *)
Theorem C12_maximal_run_quiescent : forall c s sch s', Reach c s -> exec s sch = Some s' -> stuck s' ->
  quiescent s' = true /\ length sch <= bound c /\ Reach c s'.
Proof. exact maximal_run_quiescent. Qed.
Print Assumptions C12_maximal_run_quiescent.

(* the same as a statement about schedulers: any rule that picks a task able to move whenever one exists has reached a
   quiescent state after [bound c] segments *)
Theorem C12_scheduler_terminates : forall c ch, (forall s, Reach c s -> quiescent s = false -> step s (ch s) <> None) ->
  forall s, Reach c s -> quiescent (drive ch (bound c) s) = true /\ Reach c (drive ch (bound c) s).
Proof. exact scheduler_terminates. Qed.
Print Assumptions C12_scheduler_terminates.

(* the event loop's own schedules (each entry runs one ready handle to its next suspension, >= 1 segment) are bounded too *)
Theorem C12_event_loop_bounded : forall c fuel sch s s', Reach c s -> run_final fuel s sch = Some s' ->
  length sch + measure s' <= measure s /\ length sch <= bound c.
Proof. exact run_final_bounded. Qed.
Print Assumptions C12_event_loop_bounded.

(* no lost wake-up, closed or not, cancellation included: when nothing can run any more, a receiver is blocked only on an
   empty queue, and a sender / the _flush_queue task only on a full one *)
Theorem C12_no_lost_wakeup : forall c s, Reach c s -> quiescent s = true ->
  (sumf (is_st BlkGet) (tasks s) > 0 -> q s = []) /\
  (sumf (is_st BlkPut) (tasks s) > 0 -> full s = true).
Proof. exact no_lost_wakeup. Qed.
Print Assumptions C12_no_lost_wakeup.

(* with the no-blocked-receiver theorem: once closed, every run that cannot be extended ends, after at most [bound c]
   segments, with every task finished or blocked in put — every blocked or future receive / iteration terminates;
   cancellation and timeouts included *)
Theorem C12_receivers_terminate : forall c s sch s', Reach c s -> cfg_cancel_ok c = true -> closed s = true ->
  exec s sch = Some s' -> stuck s' ->
  length sch <= bound c /\ quiescent s' = true /\
  forall T, In T (tasks s') -> (exists o, st T = Fin o) \/ st T = BlkPut.
Proof. exact receivers_terminate. Qed.
Print Assumptions C12_receivers_terminate.

Theorem C12_receivers_terminate_nocancel : forall c s sch s', Reach c s -> cfg_nocancel c = true -> c_pinned c = false ->
  closed s = true -> exec s sch = Some s' -> stuck s' ->
  length sch <= bound c /\
  forall t T, nth_error (tasks s') t = Some T ->
    (exists o, st T = Fin o /\ (o = ORet \/ o = OClosed \/ o = ODone)) \/ st T = BlkPut.
Proof. exact receivers_terminate_nocancel. Qed.
Print Assumptions C12_receivers_terminate_nocancel.

(* (3) done() = closed and qsize <= waiting receivers is NOT monotone, with or without cancellation.
   One step, any configuration: only a cancelled getter leaving get() (W -= 1, nothing dequeued) or a put can end it *)
Theorem C12_done_step_cases : forall c s t s' T, Reach c s -> done s = true -> step s t = Some s' ->
  nth_error (tasks s) t = Some T ->
  done s' = true \/ cancelled_in_get_b T = true \/ at_put T = true.
Proof. exact done_step_cases. Qed.
Print Assumptions C12_done_step_cases.

(* the positive statement, any configuration: done() stays true for ever from a state in which, besides done(),
   no send / send_from is past its closed-check with an item to put ([senders_idle]), the sentinels _flush_queue still
   has to put fit under the waiting receivers ([sentinels_fit]: qsize + pending sentinels <= W) and no cancel() is still
   to be issued or delivered ([no_cancel_pending]).  Each of the three conditions is needed: the three refutations below
   fail exactly one of them each *)
Theorem C12_done_stable : forall c s t s', Reach c s -> done_settled s = true -> step s t = Some s' ->
  done_settled s' = true /\ done s' = true.
Proof. exact done_settled_step. Qed.
Print Assumptions C12_done_stable.

Theorem C12_done_stable_run : forall c sch s s', Reach c s -> done_settled s = true -> exec s sch = Some s' ->
  done_settled s' = true /\ done s' = true.
Proof. exact done_settled_run. Qed.
Print Assumptions C12_done_stable_run.

(* the same with cancellations in flight, under the weaker [no_get_cancel]: no cancel() is still to be issued and no receiver
   INSIDE get() carries an undelivered cancellation; cancellations pending on any other task (a sender, the closer, a task
   about to start) are allowed.  [done_settled] is the special case without any pending cancellation *)
Theorem C12_done_stable_cancel : forall c s t s', Reach c s -> done_settled_c s = true -> step s t = Some s' ->
  done_settled_c s' = true /\ done s' = true.
Proof. exact done_settled_c_step. Qed.
Print Assumptions C12_done_stable_cancel.

Theorem C12_done_stable_cancel_run : forall c sch s s', Reach c s -> done_settled_c s = true -> exec s sch = Some s' ->
  done_settled_c s' = true /\ done s' = true.
Proof. exact done_settled_c_run. Qed.
Print Assumptions C12_done_stable_cancel_run.

Theorem C12_done_settled_weaker : forall s, done_settled s = true -> done_settled_c s = true.
Proof. exact settled_implies_c. Qed.
Print Assumptions C12_done_settled_weaker.

(* configurations for which done() IS monotone: no cancellation, unbounded buffer, no send_from (every send is one
   atomic segment, so nobody is past its closed-check when close() runs) *)
Theorem C12_done_stable_atomic : forall c s t s', Reach c s -> cfg_nocancel c = true -> cfg_atomic_send c = true ->
  done s = true -> step s t = Some s' -> done s' = true.
Proof. exact done_stable_atomic. Qed.
Print Assumptions C12_done_stable_atomic.

(* with cancellation: a receiver that was handed an item (WokeGet) and is cancelled before it runs leaves with
   CancelledError; W drops, the item stays queued, done() goes back to false (repaired code) *)
Theorem C12_done_stable_cancel_refuted : exists c s t T s',
  c_pinned c = false /\ Reach c s /\ done s = true /\ senders_idle s = true /\ sentinels_fit s = true /\
  nth_error (tasks s) t = Some T /\ st T = WokeGet /\ mc T = true /\
  step s t = Some s' /\ outcome_of s' t = Some OCancelled /\ q s' = q s /\ W s' = W s - 1 /\ done s' = false.
Proof. exact done_cancel_refuted. Qed.
Print Assumptions C12_done_stable_cancel_refuted.

(* WITHOUT cancellation (the statement "cfg_nocancel -> done() is stable" is false): bounded buffer, a sender blocked in
   put() past its closed-check completes its put after done() became true — a real ready-queue schedule *)
Theorem C12_done_stable_nocancel_refuted : exists c s t s',
  cfg_nocancel c = true /\ c_pinned c = false /\ Reach c s /\ done s = true /\
  sentinels_fit s = true /\ no_cancel_pending s = true /\ senders_idle s = false /\
  step s t = Some s' /\ done s' = false /\ q s' = [Msg 0 1].
Proof. exact done_nocancel_refuted. Qed.
Print Assumptions C12_done_stable_nocancel_refuted.

(* ... and with every sender idle: a surplus sentinel of _flush_queue (its receiver was served by a late put) *)
Theorem C12_done_stable_sentinel_refuted : exists c s t s',
  cfg_nocancel c = true /\ c_pinned c = false /\ Reach c s /\ done s = true /\
  senders_idle s = true /\ no_cancel_pending s = true /\ sentinels_fit s = false /\
  step s t = Some s' /\ done s' = false /\ q s' = [Flush].
Proof. exact done_sentinel_refuted. Qed.
Print Assumptions C12_done_stable_sentinel_refuted.

(* (4) what ONE receiver sees ([received_by s r]: the items of the dequeue log [recv s] that went to task r):
   an order-preserving sub-sequence of the global receive log, without repetition; what it got from sender v is an
   order-preserving sub-sequence of what v sent, so the item numbers strictly increase *)
Theorem C12_receiver_order : forall c s, Reach c s -> c_pinned c = false -> forall r,
  sublist (received_by s r) (received s) /\ NoDup (received_by s r) /\
  forall v, sublist (filter (from v) (received_by s r)) (map (Msg v) (seq 0 (nsent_of s v))) /\
            StronglySorted lt (map msg_num (filter (from v) (received_by s r))).
Proof. exact receiver_order. Qed.
Print Assumptions C12_receiver_order.

(* (5) exactly ONE receiver per received item, and the per-receiver logs cover the receive log *)
Theorem C12_one_receiver : forall c s, Reach c s -> c_pinned c = false ->
  (forall r1 r2 x, In x (received_by s r1) -> In x (received_by s r2) -> r1 = r2) /\
  (forall x, In x (received s) <-> exists r, In x (received_by s r)).
Proof. exact one_receiver. Qed.
Print Assumptions C12_one_receiver.

(* repaired code: no task ever ends with task_done()'s ValueError (cancellation included) ... *)
Theorem C12_no_value_error : forall c s t o, Reach c s -> c_pinned c = false -> outcome_of s t = Some o ->
  outcome_is_error o = false.
Proof. exact no_value_error. Qed.
Print Assumptions C12_no_value_error.

(* ... and without cancellation a task ends by returning, with ChannelClosed or with ChannelDone, nothing else *)
Theorem C12_outcomes_nocancel : forall c s t o, Reach c s -> c_pinned c = false -> cfg_nocancel c = true ->
  outcome_of s t = Some o -> o = ORet \/ o = OClosed \/ o = ODone.
Proof. exact outcomes_nocancel. Qed.
Print Assumptions C12_outcomes_nocancel.

(* "receivers that keep receiving until the channel is done": a task of the configuration that contains a receive loop /
   an async-for over the channel and has returned has observed the end of the channel (pinned or repaired, cancellation
   included) — this discharges the [drained] premise of C12_no_strand ... *)
Theorem C12_loop_drains : forall c s i T, Reach c s -> loop_task c i = true -> nth_error (tasks s) i = Some T ->
  st T = Fin ORet -> drained s = true.
Proof. exact loop_drains. Qed.
Print Assumptions C12_loop_drains.

(* ... so the delivery clause reads in full: no cancellation, repaired code; closed, nothing can run any more, and some
   such receiver has returned: every item whose send completed before close() has been received — the first npre entries
   of the receive log, in send order — each by exactly one receiver *)
Theorem C12_delivery : forall c s i T, Reach c s -> cfg_nocancel c = true -> c_pinned c = false ->
  closed s = true -> quiescent s = true ->
  loop_task c i = true -> nth_error (tasks s) i = Some T -> st T = Fin ORet ->
  sent_before_close s = firstn (npre s) (received s) /\
  forall x, In x (sent_before_close s) ->
    exists r, In x (received_by s r) /\ forall r', In x (received_by s r') -> r' = r.
Proof. exact delivery. Qed.
Print Assumptions C12_delivery.

(* What is NOT proved (and cannot be, see the refutation above): with cancellation, that every item sent before close()
   is received.  Modelling limits: the wait_for timer is a cancel() whose target reports TimeoutError; asyncio itself
   (event loop, Task.__step, Future callbacks) is mirrored by the transition system and tied to the real classes by the
   stepping loop, not verified. *)

(* non-vacuity *)
Example C12_ex_quiescent :
  let s := final cfg_ex sch_ex in
  cfg_nocancel cfg_ex = true /\ Reach cfg_ex s /\ closed s = true /\ quiescent s = true /\ drained s = true /\
  length (sent_before_close s) = 5 /\ length (received s) = 5.
Proof. exact no_strand_nonvacuous. Qed.
Example C12_ex_cancel_fixed : outcome_of (final (cfg_f10 false) [0; 1; 0]) 0 = Some OCancelled.
Proof. vm_compute. reflexivity. Qed.
Example C12_ex_cancel_safe_hyp : exists T, nth_error (tasks (final (cfg_f10 false) [0; 1])) 0 = Some T /\ cancelled_in_get T.
Proof. eexists. split; [vm_compute; reflexivity|]. left. reflexivity. Qed.
Example C12_ex_lost_fixed :
  received (final (cfg_f10_loss false) [0; 1; 2; 0; 3; 4]) = [Msg 2 0; Msg 2 1].
Proof. vm_compute. reflexivity. Qed.
Example C12_ex_cancel_ok : cfg_cancel_ok cfg_k6 = true /\ cfg_cancel_ok (cfg_f10 true) = true.
Proof. vm_compute. auto. Qed.
Example C12_ex_send_after_close :
  outcome_of (final (mkC 0 false [([UClose], false); ([USend], false)]) [0; 1]) 1 = Some OClosed.
Proof. vm_compute. reflexivity. Qed.
(* observation (not a finding): bounded buffer, a send_from past its closed-check stays blocked in put() for ever *)
Example C12_obs_sender_blocked :
  let s := final cfg_obs [1; 0; 0; 1; 2; 1; 3; 2; 0] in
  quiescent s = true /\ closed s = true /\ (exists T, nth_error (tasks s) 0 = Some T /\ st T = BlkPut) /\
  sent_before_close s = [Msg 0 0] /\ received s = [Msg 0 0] /\ q s = [Msg 0 1].
Proof. exact sender_blocked_after_close. Qed.

(* non-vacuity of the extension theorems *)
Example C12_ex_capacity_flush_blocks :
  let s := final cfg_fb [0; 1; 2; 3] in
  Reach cfg_fb s /\ c_maxsize cfg_fb = 1 /\ q s = [Flush] /\ full s = true /\ W s = 2 /\ putters s = [3] /\
  (exists T, nth_error (tasks s) 3 = Some T /\ st T = BlkPut /\ prog T = [IPutFlush]) /\
  quiescent (final cfg_fb [0; 1; 2; 3; 0; 3; 1]) = true /\
  forallb (fun T => is_fin (st T)) (tasks (final cfg_fb [0; 1; 2; 3; 0; 3; 1])) = true.
Proof. exact ex_capacity_flush_blocks. Qed.
Example C12_ex_close_hyp :
  let s := final cfg_fb [0; 1] in
  sumf (is_st BlkGet) (tasks s) = 2 /\
  exists T, nth_error (tasks s) 2 = Some T /\ st T = Ready /\ mc T = false /\ prog T = [IClose].
Proof. exact ex_close_hyp. Qed.
Example C12_ex_capacity_attained :
  let s := final cfg_obs [1; 0; 0; 1; 2; 1; 3; 2; 0] in
  Reach cfg_obs s /\ within_capacity s = true /\ length (q s) = c_maxsize cfg_obs.
Proof. exact ex_capacity_attained. Qed.
Example C12_ex_bounds : bound cfg_ex = 51 /\ bound cfg_k6 = 23 /\ bound (cfg_f10 false) = 9 /\ bound cfg_obs = 30.
Proof. exact ex_bounds. Qed.
Example C12_ex_drive :
  quiescent (drive pick_first (bound cfg_ex) (init cfg_ex)) = true /\
  quiescent (drive pick_first (bound cfg_k6) (init cfg_k6)) = true /\
  quiescent (init cfg_ex) = false /\ measure (final cfg_ex sch_ex) = 0.
Proof. exact ex_drive. Qed.
Example C12_ex_pick_first_fair : forall c s, Reach c s -> quiescent s = false -> step s (pick_first s) <> None.
Proof. exact pick_first_fair. Qed.
Example C12_ex_done_settled :
  let s := final cfg_st [0; 1] in
  Reach cfg_st s /\ cfg_nocancel cfg_st = true /\ cfg_atomic_send cfg_st = true /\ done_settled s = true /\ q s = [Msg 1 0] /\
  (exists s', step s 0 = Some s' /\ done s' = true /\ q s' = []) /\ (exists s', step s 2 = Some s' /\ done s' = true).
Proof. exact ex_done_settled. Qed.
Example C12_ex_done_k6 : exists s t T s',
  Reach cfg_k6 s /\ done s = true /\ nth_error (tasks s) t = Some T /\ st T = CancGet /\
  step s t = Some s' /\ q s' = q s /\ done s' = false.
Proof. exact done_cancel_blocked_refuted. Qed.
Example C12_ex_receiver_logs :
  let s := final cfg_ex sch_ex in
  received s = [Msg 1 0; Msg 1 1; Msg 0 0; Msg 0 1; Msg 0 2] /\
  received_by s 3 = [Msg 0 0; Msg 0 2] /\ received_by s 4 = [Msg 0 1] /\ received_by s 5 = [Msg 1 0; Msg 1 1].
Proof. exact ex_receiver_logs. Qed.
Example C12_ex_outcomes :
  map (outcome_of (final cfg_ex sch_ex)) [0; 1; 2; 3; 4; 5; 6] = repeat (Some ORet) 7 /\
  outcome_of (final (mkC 0 false [([UClose], false); ([URecv], false)]) [0; 1]) 1 = Some ODone.
Proof. exact ex_outcomes. Qed.
Example C12_ex_delivery :
  let s := final cfg_ex sch_ex in
  loop_task cfg_ex 3 = true /\ c_pinned cfg_ex = false /\ outcome_of s 3 = Some ORet /\ closed s = true /\
  quiescent s = true /\ sent_before_close s = [Msg 1 0; Msg 1 1; Msg 0 0; Msg 0 1; Msg 0 2].
Proof. vm_compute. repeat split; reflexivity. Qed.
Example C12_ex_event_loop : length sch_ex = 12 /\ bound cfg_ex = 51 /\
  (let s := final cfg_obs [1; 0; 0; 1; 2; 1; 3; 2; 0] in quiescent s = true /\ sumf (is_st BlkPut) (tasks s) = 1 /\ full s = true).
Proof. vm_compute. repeat split; reflexivity. Qed.
Example C12_ex_done_settled_c :
  let s := final cfg_stc [0; 1; 2] in
  Reach cfg_stc s /\ done_settled_c s = true /\ done_settled s = false /\ no_cancel_pending s = false /\
  (exists T, nth_error (tasks s) 1 = Some T /\ st T = Ready /\ mc T = true) /\
  (exists s', step s 1 = Some s' /\ outcome_of s' 1 = Some OCancelled /\ done s' = true) /\
  (exists s', step s 0 = Some s' /\ done s' = true).
Proof. exact ex_done_settled_c. Qed.

(* ================================================================ gap closing against the property text (clause table: header of
   Proofs/C12GapA.v; definitions: Model/C12Gap.v; proofs: Proofs/C12GapA.v, C12GapB.v) *)

(* (A) the PINNED tree without cancellation.  [cfg_sound c] = repaired code, or no cancel() / wait_for in the configuration.
   Under it the conservation equation, task_done()'s counter, exactly-once, FIFO, the per-receiver order and the
   one-receiver statement hold in every reachable state; C12_conserve .. C12_one_receiver are the special case c_pinned = false *)
Theorem C12_conserve_sound : forall c s, Reach c s -> cfg_sound c = true ->
  sent s = received s ++ reals (q s) /\ NoDup (sent s) /\ unfin s = length (q s).
Proof. exact conserve_g. Qed.
Print Assumptions C12_conserve_sound.

Theorem C12_exactly_once_sound : forall c s, Reach c s -> cfg_sound c = true ->
  NoDup (received s) /\ (forall x, In x (received s) -> In x (sent s)) /\ (forall x, In x (sent s) -> In x (received s) \/ In x (q s)) /\
  (forall x, In x (received s) -> ~ In x (q s)).
Proof. exact received_once_g. Qed.
Print Assumptions C12_exactly_once_sound.

Theorem C12_fifo_sound : forall c s, Reach c s -> cfg_sound c = true -> forall v,
  filter (from v) (received s) = map (Msg v) (seq 0 (length (filter (from v) (received s)))) /\
  length (filter (from v) (received s)) <= nsent_of s v.
Proof. exact fifo_g. Qed.
Print Assumptions C12_fifo_sound.

Theorem C12_receiver_order_sound : forall c s, Reach c s -> cfg_sound c = true -> forall r,
  sublist (received_by s r) (received s) /\ NoDup (received_by s r) /\
  forall v, sublist (filter (from v) (received_by s r)) (map (Msg v) (seq 0 (nsent_of s v))) /\
            StronglySorted lt (map msg_num (filter (from v) (received_by s r))).
Proof. exact receiver_order_g. Qed.
Print Assumptions C12_receiver_order_sound.

Theorem C12_one_receiver_sound : forall c s, Reach c s -> cfg_sound c = true ->
  (forall r1 r2 x, In x (received_by s r1) -> In x (received_by s r2) -> r1 = r2) /\
  (forall x, In x (received s) <-> exists r, In x (received_by s r)).
Proof. exact one_receiver_g. Qed.
Print Assumptions C12_one_receiver_sound.

(* the delivery clause for the pinned AND the repaired code (C12_delivery without its c_pinned premise) *)
Theorem C12_delivery_nocancel : forall c s i T, Reach c s -> cfg_nocancel c = true ->
  closed s = true -> quiescent s = true ->
  loop_task c i = true -> nth_error (tasks s) i = Some T -> st T = Fin ORet ->
  sent_before_close s = firstn (npre s) (received s) /\
  forall x, In x (sent_before_close s) ->
    exists r, In x (received_by s r) /\ forall r', In x (received_by s r') -> r' = r.
Proof. exact delivery_g. Qed.
Print Assumptions C12_delivery_nocancel.

Theorem C12_no_value_error_sound : forall c s t o, Reach c s -> cfg_sound c = true -> outcome_of s t = Some o ->
  outcome_is_error o = false.
Proof. exact no_value_error_g. Qed.
Print Assumptions C12_no_value_error_sound.

Theorem C12_outcomes_nocancel_any : forall c s t o, Reach c s -> cfg_nocancel c = true ->
  outcome_of s t = Some o -> o = ORet \/ o = OClosed \/ o = ODone.
Proof. exact outcomes_nocancel_g. Qed.
Print Assumptions C12_outcomes_nocancel_any.

(* [cfg_sound] is exact: pinned code and one cancellation — the conservation equation fails and a receiver ends with ValueError *)
Theorem C12_sound_exact_refuted : exists c s,
  cfg_sound c = false /\ Reach c s /\ sent s <> received s ++ reals (q s) /\
  (exists t, outcome_of s t = Some OValueErr).
Proof. exact sound_exact_refuted. Qed.
Print Assumptions C12_sound_exact_refuted.

(* (B) "whose send completed before the channel was closed" is well defined: empty before close(), and fixed by the first
   close() — whatever runs afterwards only appends to the send log *)
Theorem C12_before_close_def : forall c s, Reach c s ->
  npre s <= length (sent s) /\ (closed s = false -> sent_before_close s = []).
Proof. exact before_close_def. Qed.
Print Assumptions C12_before_close_def.

Theorem C12_before_close_frozen : forall c sch s s', Reach c s -> closed s = true -> exec s sch = Some s' ->
  sent_before_close s' = sent_before_close s /\ npre s' = npre s /\ exists l, sent s' = sent s ++ l.
Proof. exact before_close_frozen_run. Qed.
Print Assumptions C12_before_close_frozen.

(* (C) "under every interleaving": every run of the configuration from its initial state that cannot be extended, pinned or
   repaired code, no cancellation: if it ends closed with a returned receive loop / async-for, it took at most [bound c]
   segments and every item sent before close() was received by exactly one receiver, nothing twice, nothing invented,
   per sender in the order sent *)
Theorem C12_delivery_every_run : forall c sch s i T, exec (init c) sch = Some s -> stuck s ->
  cfg_nocancel c = true -> closed s = true ->
  loop_task c i = true -> nth_error (tasks s) i = Some T -> st T = Fin ORet ->
  length sch <= bound c /\ quiescent s = true /\
  sent_before_close s = firstn (npre s) (received s) /\
  (forall x, In x (sent_before_close s) ->
     exists r, In x (received_by s r) /\ forall r', In x (received_by s r') -> r' = r) /\
  NoDup (received s) /\ (forall x, In x (received s) -> In x (sent s)) /\
  (forall v, filter (from v) (received s) = map (Msg v) (seq 0 (length (filter (from v) (received s))))).
Proof. exact delivery_every_run. Qed.
Print Assumptions C12_delivery_every_run.

(* unbounded buffer: once closed, at quiescence EVERY task has finished (no sender and no _flush_queue task parked in put) —
   cancellation and timeouts included, pinned or repaired; with a bounded buffer C12_obs_sender_blocked is the counterexample *)
Theorem C12_unbounded_all_finish : forall c s, Reach c s -> c_maxsize c = 0 -> cfg_cancel_ok c = true ->
  closed s = true -> quiescent s = true -> all_finished s = true.
Proof. exact unbounded_all_finish. Qed.
Print Assumptions C12_unbounded_all_finish.

Theorem C12_closed_run_all_finish : forall c s sch s', Reach c s -> c_maxsize c = 0 -> cfg_cancel_ok c = true ->
  closed s = true -> exec s sch = Some s' -> stuck s' ->
  length sch <= bound c /\ all_finished s' = true.
Proof. exact closed_run_all_finish. Qed.
Print Assumptions C12_closed_run_all_finish.

(* (D) exactness of the premises of the delivery clause: receivers that do not keep receiving until the channel is done leave an
   item queued (every task finished, no cancellation); without close() a receive loop waits for ever *)
Theorem C12_delivery_needs_loop_refuted : exists c s x,
  cfg_nocancel c = true /\ c_pinned c = false /\ Reach c s /\ closed s = true /\ quiescent s = true /\
  all_finished s = true /\ (forall i, loop_task c i = false) /\
  In x (sent_before_close s) /\ ~ In x (received s) /\ In x (q s).
Proof. exact delivery_needs_loop_refuted. Qed.
Print Assumptions C12_delivery_needs_loop_refuted.

Theorem C12_no_close_strands_refuted : exists c s,
  cfg_nocancel c = true /\ Reach c s /\ closed s = false /\ quiescent s = true /\
  sumf (is_st BlkGet) (tasks s) = 1 /\ received s = sent s.
Proof. exact no_close_strands_refuted. Qed.
Print Assumptions C12_no_close_strands_refuted.

(* (E) "every later send raises ChannelClosed", at the level of runs: closed, and no send / send_from is past its closed-check
   ([senders_idle]) — whatever runs afterwards, under any schedule, the log of completed sends never grows again (any state,
   reachable or not).  Without [senders_idle] a sender parked in put() completes its send after close() *)
Theorem C12_closed_idle_sent_frozen : forall sch s s', closed s = true -> senders_idle s = true ->
  exec s sch = Some s' ->
  sent s' = sent s /\ senders_idle s' = true /\ closed s' = true.
Proof. exact closed_idle_sent_frozen. Qed.
Print Assumptions C12_closed_idle_sent_frozen.

Theorem C12_sent_after_close_refuted : exists c s t s',
  cfg_nocancel c = true /\ Reach c s /\ closed s = true /\ senders_idle s = false /\
  step s t = Some s' /\ sent s' = sent s ++ [Msg 0 1] /\ ~ In (Msg 0 1) (sent_before_close s').
Proof. exact sent_after_close_refuted. Qed.
Print Assumptions C12_sent_after_close_refuted.

(* (F) "leaves the channel usable": after ANY history (cancellations, timeouts), a receive() entered while the channel is not
   done and a real item is at the head of the queue returns exactly that item in one segment *)
Theorem C12_receive_gets_head : forall c s t T p v k r, Reach c s -> cfg_sound c = true ->
  nth_error (tasks s) t = Some T -> st T = Ready -> mc T = false -> prog T = IRecv :: p ->
  done s = false -> q s = Msg v k :: r ->
  exists s', step s t = Some s' /\ recv s' = recv s ++ [(t, Msg v k)] /\ q s' = r /\ W s' = W s /\
             sent s' = sent s /\ closed s' = closed s /\ outcome_of s' t = None.
Proof. exact receive_gets_head. Qed.
Print Assumptions C12_receive_gets_head.

(* non-vacuity of the gap-closing theorems *)
Example C12_ex_pinned_delivery :
  let s := final cfg_exp sch_ex in
  c_pinned cfg_exp = true /\ cfg_sound cfg_exp = true /\ cfg_nocancel cfg_exp = true /\ Reach cfg_exp s /\
  closed s = true /\ quiescent s = true /\ loop_task cfg_exp 3 = true /\ outcome_of s 3 = Some ORet /\
  sent_before_close s = [Msg 1 0; Msg 1 1; Msg 0 0; Msg 0 1; Msg 0 2] /\ all_finished s = true /\
  c_maxsize cfg_exp = 0 /\ cfg_cancel_ok cfg_exp = true.
Proof. exact ex_pinned_delivery. Qed.
Example C12_ex_frozen :
  let s := final cfg_obs [1; 0; 0; 1; 2; 1; 3] in
  Reach cfg_obs s /\ closed s = true /\ sent_before_close s = [Msg 0 0] /\
  exists s', exec s [2; 0] = Some s' /\ sent s' = [Msg 0 0; Msg 0 1] /\ sent_before_close s' = [Msg 0 0].
Proof. exact ex_frozen. Qed.
Example C12_ex_sent_frozen :
  let s := final cfg_k6 [1; 2; 0; 3] in
  Reach cfg_k6 s /\ closed s = true /\ senders_idle s = true /\ sent s = [Msg 0 0].
Proof. exact ex_sent_frozen. Qed.
Example C12_ex_usable_after_cancel :
  let s := final (cfg_f10_loss false) [0; 1; 2; 0; 3] in
  Reach (cfg_f10_loss false) s /\ cfg_sound (cfg_f10_loss false) = true /\ outcome_of s 0 = Some OCancelled.
Proof. cbv zeta. split; [apply final_reach; vm_compute; reflexivity|]. vm_compute. auto. Qed.
