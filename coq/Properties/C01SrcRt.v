(* C01 - source-translation tie, part "roundtrip": layer 1 of the round trip (C01_scalar_varint / C01_scalar_fixed of
   Properties/C01.v) with BOTH sides translated source.  Three mechanical translations are composed:
     gen/C09Src.v  src__preprocess_single   (harness/gen_c09_src.py, from _preprocess_single)
     gen/C16Src.v  src_load_varint          (harness/gen_c16_src.py, from load_varint)
     gen/C01Src.v  src__postprocess_single  (harness/gen_c01_src.py, from Message._postprocess_single)
   for every fuel from 68 (the writer's loop) / 11 (the reader's loop) on.  See Properties/C01Src.v for the description of the
   reader-side translation and of what is delegated.  This part can hold only when the C09 part "preprocess" and the C16 part
   "varint" are translated and proved on the same tree; otherwise the reader-side statements of Properties/C01Src.v (writer =
   the hand-written model) are what remains.
   THIS FILE IS BUILT ONLY BY THE "source tie" STAGE of harness/props/c01.py (non-alarming).
   Only statements here; every proof is one [exact] of a lemma of Proofs/C01SrcRt.v. *)
From BP Require Import Base.Prelude Model.Types Model.Varint Model.Scalar Model.Float Model.Utf8.
From BP Require Import Model.Object Model.Eq Model.TimeCore Model.Encode Model.Decode Model.WellFormed Model.C01Def gen.Tables.
From BP Require Import Model.C16SrcLib Model.C09SrcLib Model.C01SrcLib gen.C16Src gen.C09Src gen.C01Src.
From BP Require Import Proofs.C16Src Proofs.C09SrcPre Proofs.C01Scalar Proofs.C01Src Proofs.C01SrcRt.

Theorem C01_src_rt_parts_present :
  src_varint_translated = true /\ src_c09_preprocess_translated = true /\ src_c01_postprocess_translated = true.
Proof. exact src_rt_parts_present. Qed.
Print Assumptions C01_src_rt_parts_present.

Theorem C01_src_scalar_varint : forall S F msgarm maparm (self : S) (fname : F) msg fuel fuel' t w v,
  tmem t WIRE_VARINT_TYPES = true -> scalar_in_range t v = true -> (68 <= fuel)%nat -> (10 < fuel')%nat ->
  exists bs n,
    src__preprocess_single msg fuel t None v = Ok bs /\ bs <> [] /\
    (forall rest, src_load_varint fuel' (bs ++ rest) = Ok (n, bs, rest)) /\
    src__postprocess_single S F msgarm maparm self src01_WIRE_VARINT (mk_meta t w) fname (PInt n) = Ok v.
Proof. exact src_scalar_varint_rt. Qed.
Print Assumptions C01_src_scalar_varint.

Theorem C01_src_scalar_fixed : forall S F msgarm maparm (self : S) (fname : F) msg fuel t w v,
  tmem t FIXED_TYPES = true -> scalar_in_range t v = true -> (68 <= fuel)%nat ->
  exists bs,
    src__preprocess_single msg fuel t None v = Ok bs /\ length bs = fixed_size t /\
    src__postprocess_single S F msgarm maparm self (src_fixed_wire t) (mk_meta t w) fname (PBytes bs) = Ok (norm_scalar t v).
Proof. exact src_scalar_fixed_rt. Qed.
Print Assumptions C01_src_scalar_fixed.

Theorem C01_src_scalar_len : forall S F msgarm maparm (self : S) (fname : F) msg fuel t w v,
  tmem t [TString; TBytes] = true -> scalar_in_range t v = true ->
  exists bs,
    src__preprocess_single msg fuel t None v = Ok bs /\
    src__postprocess_single S F msgarm maparm self src01_WIRE_LEN_DELIM (mk_meta t w) fname (PBytes bs) = Ok v.
Proof. exact src_scalar_len_rt. Qed.
Print Assumptions C01_src_scalar_len.



Theorem C01_src_fuel_value_scalar : forall t v, scalar_in_range t v = true -> (src_fuel_value v <= 68)%nat.
Proof. exact src_fuel_value_scalar. Qed.
Print Assumptions C01_src_fuel_value_scalar.

(* ---- non-vacuity ---- *)
Definition ex_arm : unit -> unit -> py_meta -> pv -> result pv := fun _ _ _ _ => Ok PNone.
Definition ex_post := src__postprocess_single unit unit ex_arm ex_arm tt.
Definition ex_msg01 : option ptype -> pv -> result (list byte) := no_msg.

Example C01_src_rt_ex_hypotheses :
  tmem TSInt64 WIRE_VARINT_TYPES = true /\ scalar_in_range TSInt64 (PInt (-3)) = true /\
  tmem TUInt64 WIRE_VARINT_TYPES = true /\ scalar_in_range TUInt64 (PInt 18446744073709551615) = true /\
  tmem TSFixed32 FIXED_TYPES = true /\ scalar_in_range TSFixed32 (PInt (-2)) = true /\
  tmem TString [TString; TBytes] = true /\ scalar_in_range TString (PStr [xc3; xa9]) = true /\
  (68 <= 68)%nat /\ (10 < 11)%nat.
Proof. vm_compute. repeat split; try reflexivity; lia. Qed.

(* the round trip on concrete values, all three translations executed *)
Example C01_src_ex_roundtrip :
  src__preprocess_single ex_msg01 68 TSInt64 None (PInt (-3)) = Ok [x05] /\
  src_load_varint 11 ([x05] ++ [x2a]) = Ok (5, [x05], [x2a]) /\
  ex_post src01_WIRE_VARINT (mk_meta TSInt64 None) tt (PInt 5) = Ok (PInt (-3)) /\
  src__preprocess_single ex_msg01 68 TInt32 None (PInt (-1)) = Ok [xff; xff; xff; xff; xff; xff; xff; xff; xff; x01] /\
  src_load_varint 11 [xff; xff; xff; xff; xff; xff; xff; xff; xff; x01] = Ok (18446744073709551615, [xff; xff; xff; xff; xff; xff; xff; xff; xff; x01], []) /\
  ex_post src01_WIRE_VARINT (mk_meta TInt32 None) tt (PInt 18446744073709551615) = Ok (PInt (-1)) /\
  src__preprocess_single ex_msg01 68 TSFixed32 None (PInt (-2)) = Ok [xfe; xff; xff; xff] /\
  ex_post (src_fixed_wire TSFixed32) (mk_meta TSFixed32 None) tt (PBytes [xfe; xff; xff; xff]) = Ok (PInt (-2)).
Proof. vm_compute. repeat split; reflexivity. Qed.
