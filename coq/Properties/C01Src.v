(* C01 - source-translation tie of the DECODE-side value adjustment Message._postprocess_single, and the scalar layer of the
   round trip with both sides translated source.

   gen/C01Src.v holds the Gallina obtained MECHANICALLY (harness/gen_c01_src.py, Python `ast`, on top of gen_c09_src.py /
   gen_c16_src.py) from the CURRENT source text of the method; the theorems say that it IS the hand-written model:
     wire type 0       Model/Decode.v postprocess_varint (int32 / int64 sign recovery through int(proto_type[3:]), the zig-zag
                       arms, bool, the int32 truncation of enum numbers + try_value, uint32 / uint64 untouched)
     wire types 5, 1   Model/Decode.v unpack_value (struct.unpack(_pack_fmt(proto_type), value)[0])
     wire type 2       the model's UTF-8 decoder for string, bytes untouched
     anything else     the value is returned as it came
   for EVERY wire type, proto type, wraps and value (ill-typed values included: what the library Model/C01SrcLib.v says
   Python does with them), and for every interpretation of `self` / `field_name`.
   NOT TRANSLATED: the `meta.proto_type == TYPE_MESSAGE` arm (datetime / timedelta / wrapper / nested message) and the
   `== TYPE_MAP` arm are DELEGATED: they are the parameters msgarm / maparm of the translated function (their source text is
   pinned in the translator, any edit of it is a rejection).  C01_src_post_is_decode_value instantiates them with the model's
   post_len / parse_new and obtains, for every non-packed record whose wire type fits its field, exactly the value
   Decode.load computes (Model/C01Def.v decode_value, a verbatim sub-term of load).
   The round-trip statements of THIS file have the translated method on the reader side and the model on the writer side
   (they need nothing but gen/C01Src.v); Properties/C01SrcRt.v replaces the writer side by the translations of
   gen/C09Src.v / gen/C16Src.v as well.

   THIS FILE IS BUILT ONLY BY THE "source tie" STAGE of harness/props/c01.py (non-alarming: when it does not build, the
   evidence records "source-translation tie did not hold" and the sampled correspondence + oracles decide).
   Only statements here; every proof is one [exact] of a lemma of Proofs/C01Src.v. *)
From BP Require Import Base.Prelude Model.Types Model.Varint Model.Scalar Model.Float Model.Utf8.
From BP Require Import Model.Object Model.Eq Model.TimeCore Model.Encode Model.Decode Model.WellFormed Model.C01Def gen.Tables.
From BP Require Import Model.C16SrcLib Model.C09SrcLib Model.C01SrcLib gen.C01Src.
From BP Require Import Proofs.C01Scalar Proofs.C01Src.

Theorem C01_src_post_consts_are_model :
  src01_WIRE_VARINT = WIRE_VARINT /\ src01_WIRE_FIXED_32 = WIRE_FIXED_32 /\ src01_WIRE_FIXED_64 = WIRE_FIXED_64 /\
  src01_WIRE_LEN_DELIM = WIRE_LEN_DELIM.
Proof. exact src_post_consts_are_model. Qed.
Print Assumptions C01_src_post_consts_are_model.

(* ---- the translation is the model, arm by arm ---- *)
Theorem C01_src_post_varint_is_model : forall S F msgarm maparm (self : S) (fname : F) t w z,
  src__postprocess_single S F msgarm maparm self WIRE_VARINT (mk_meta t w) fname (PInt z) = Ok (postprocess_varint t z).
Proof. exact src_post_varint_is_model. Qed.
Print Assumptions C01_src_post_varint_is_model.

Theorem C01_src_post_varint_bool : forall S F msgarm maparm (self : S) (fname : F) t w b,
  src__postprocess_single S F msgarm maparm self WIRE_VARINT (mk_meta t w) fname (PBool b) =
  if tmem t [TInt32; TInt64; TSInt32; TSInt64; TBool; TEnum] then Ok (postprocess_varint t (if b then 1 else 0))
  else Ok (PBool b).
Proof. exact src_post_varint_bool. Qed.
Print Assumptions C01_src_post_varint_bool.

Theorem C01_src_post_varint_ill_typed : forall S F msgarm maparm (self : S) (fname : F) t w v,
  int_like v = None ->
  src__postprocess_single S F msgarm maparm self WIRE_VARINT (mk_meta t w) fname v =
  if tmem t [TInt32; TInt64; TSInt32; TSInt64; TBool; TEnum] then Err EType else Ok v.
Proof. exact src_post_varint_ill_typed. Qed.
Print Assumptions C01_src_post_varint_ill_typed.

Theorem C01_src_post_fixed_is_model : forall S F msgarm maparm (self : S) (fname : F) wt t w bs,
  wt = WIRE_FIXED_32 \/ wt = WIRE_FIXED_64 ->
  src__postprocess_single S F msgarm maparm self wt (mk_meta t w) fname (PBytes bs) = unpack_value t bs.
Proof. exact src_post_fixed_is_model. Qed.
Print Assumptions C01_src_post_fixed_is_model.

Theorem C01_src_post_fixed_ill_typed : forall S F msgarm maparm (self : S) (fname : F) wt t w v,
  wt = WIRE_FIXED_32 \/ wt = WIRE_FIXED_64 -> (forall bs, v <> PBytes bs) ->
  src__postprocess_single S F msgarm maparm self wt (mk_meta t w) fname v =
  match pack_fmt t with Some _ => Err EType | None => Err EKey end.
Proof. exact src_post_fixed_ill_typed. Qed.
Print Assumptions C01_src_post_fixed_ill_typed.

Theorem C01_src_post_len_is_arms : forall S F msgarm maparm (self : S) (fname : F) t w v,
  src__postprocess_single S F msgarm maparm self WIRE_LEN_DELIM (mk_meta t w) fname v =
  if ptype_eqb t TString then py_str_decode_utf8 v
  else if ptype_eqb t TMessage then msgarm self fname (mk_meta t w) v
  else if ptype_eqb t TMap then maparm self fname (mk_meta t w) v
  else Ok v.
Proof. exact src_post_len_is_arms. Qed.
Print Assumptions C01_src_post_len_is_arms.

Theorem C01_src_post_len_string : forall S F msgarm maparm (self : S) (fname : F) w bs,
  src__postprocess_single S F msgarm maparm self WIRE_LEN_DELIM (mk_meta TString w) fname (PBytes bs) =
  if utf8_valid bs then Ok (PStr bs) else Err EUnicode.
Proof. exact src_post_len_string. Qed.
Print Assumptions C01_src_post_len_string.

Theorem C01_src_post_len_bytes : forall S F msgarm maparm (self : S) (fname : F) w bs,
  src__postprocess_single S F msgarm maparm self WIRE_LEN_DELIM (mk_meta TBytes w) fname (PBytes bs) = Ok (PBytes bs).
Proof. exact src_post_len_bytes. Qed.
Print Assumptions C01_src_post_len_bytes.

Theorem C01_src_post_other_wire : forall S F msgarm maparm (self : S) (fname : F) wt m v,
  wt <> WIRE_VARINT -> wt <> WIRE_FIXED_32 -> wt <> WIRE_FIXED_64 -> wt <> WIRE_LEN_DELIM ->
  src__postprocess_single S F msgarm maparm self wt m fname v = Ok v.
Proof. exact src_post_other_wire. Qed.
Print Assumptions C01_src_post_other_wire.

(* outside the two delegated arms the translated function has no out-of-fuel outcome (it has no loop) *)
Theorem C01_src_post_no_fuel_scalar : forall S F msgarm maparm (self : S) (fname : F) wt t w v,
  tmem t [TMessage; TMap] = false ->
  src__postprocess_single S F msgarm maparm self wt (mk_meta t w) fname v <> Err EFuel.
Proof. exact src_post_no_fuel_scalar. Qed.
Print Assumptions C01_src_post_no_fuel_scalar.

(* ---- with the delegated arms read as the model reads them, the translated method computes the value Message.load stores
        for a non-packed record of a known field whose wire type fits (decode_value is a verbatim sub-term of Decode.load,
        Proofs/C01Step.v) ---- *)
Theorem C01_src_post_is_decode_value : forall fuel' sc f p,
  wire_type_fits f (pwt p) = true -> packed_record f p = false ->
  src__postprocess_single unit fdesc (model_msgarm fuel' sc) (model_maparm fuel' sc) tt (pwt p) (meta_of f) f (value_of p)
  = decode_value fuel' sc f p.
Proof. exact src_post_is_decode_value. Qed.
Print Assumptions C01_src_post_is_decode_value.

(* ---- layer 1 of the round trip (C01_scalar_varint / C01_scalar_fixed of Properties/C01.v) with the READER side translated
        source: what the model's _preprocess_single writes for an in-range value is read back by load_varint and the
        translated _postprocess_single as that value ---- *)
Theorem C01_src_post_scalar_varint : forall S F msgarm maparm (self : S) (fname : F) msg t w v,
  tmem t WIRE_VARINT_TYPES = true -> scalar_in_range t v = true ->
  exists bs n, preprocess_with msg t None v = Ok bs /\ bs <> [] /\
               (forall rest, load_varint (bs ++ rest) = Ok (n, bs, rest)) /\
               src__postprocess_single S F msgarm maparm self src01_WIRE_VARINT (mk_meta t w) fname (PInt n) = Ok v.
Proof. exact src_post_scalar_varint_rt. Qed.
Print Assumptions C01_src_post_scalar_varint.

Theorem C01_src_post_scalar_fixed : forall S F msgarm maparm (self : S) (fname : F) t w v,
  tmem t FIXED_TYPES = true -> scalar_in_range t v = true ->
  exists bs, pack_value t v = Ok bs /\ length bs = fixed_size t /\
             src__postprocess_single S F msgarm maparm self (src_fixed_wire t) (mk_meta t w) fname (PBytes bs) = Ok (norm_scalar t v).
Proof. exact src_post_scalar_fixed_rt. Qed.
Print Assumptions C01_src_post_scalar_fixed.

Theorem C01_src_post_bad_utf8 : forall S F msgarm maparm (self : S) (fname : F) w bs,
  utf8_valid bs = false ->
  src__postprocess_single S F msgarm maparm self src01_WIRE_LEN_DELIM (mk_meta TString w) fname (PBytes bs) = Err EUnicode.
Proof. exact src_post_bad_utf8. Qed.
Print Assumptions C01_src_post_bad_utf8.

Theorem C01_src_post_fixed_wire_irrelevant : forall S F msgarm maparm (self : S) (fname : F) t w bs,
  src__postprocess_single S F msgarm maparm self src01_WIRE_FIXED_32 (mk_meta t w) fname (PBytes bs)
  = src__postprocess_single S F msgarm maparm self src01_WIRE_FIXED_64 (mk_meta t w) fname (PBytes bs).
Proof. exact src_post_fixed_wire_irrelevant. Qed.
Print Assumptions C01_src_post_fixed_wire_irrelevant.

(* ---- non-vacuity ---- *)
Definition ex_arm : unit -> unit -> py_meta -> pv -> result pv := fun _ _ _ _ => Ok PNone.
Definition ex_post := src__postprocess_single unit unit ex_arm ex_arm tt.
Definition ex_msg01 : option ptype -> pv -> result (list byte) := no_msg.

Example C01_src_ex_hypotheses :
  tmem TSInt64 WIRE_VARINT_TYPES = true /\ scalar_in_range TSInt64 (PInt (-3)) = true /\
  tmem TEnum WIRE_VARINT_TYPES = true /\ scalar_in_range TEnum (PInt (-1)) = true /\
  tmem TSFixed32 FIXED_TYPES = true /\ scalar_in_range TSFixed32 (PInt (-2)) = true /\
  tmem TString [TString; TBytes] = true /\ scalar_in_range TString (PStr [xc3; xa9]) = true /\
  utf8_valid [xc3] = false /\ int_like (PStr [x61]) = None /\ tmem TUInt32 [TMessage; TMap] = false /\
  (forall bs, PInt 1 <> PBytes bs) /\ (3 <> WIRE_VARINT /\ 3 <> WIRE_FIXED_32 /\ 3 <> WIRE_FIXED_64 /\ 3 <> WIRE_LEN_DELIM).
Proof. vm_compute. repeat split; try reflexivity; try discriminate; intros; discriminate. Qed.

Example C01_src_ex_values :
  ex_post 0 (mk_meta TInt32 None) tt (PInt 4294967295) = Ok (PInt (-1)) /\
  ex_post 0 (mk_meta TInt64 None) tt (PInt 18446744073709551615) = Ok (PInt (-1)) /\
  ex_post 0 (mk_meta TSInt32 None) tt (PInt 5) = Ok (PInt (-3)) /\
  ex_post 0 (mk_meta TBool None) tt (PInt 2) = Ok (PBool true) /\
  ex_post 0 (mk_meta TEnum None) tt (PInt 18446744073709551615) = Ok (PInt (-1)) /\
  ex_post 0 (mk_meta TUInt64 None) tt (PInt 18446744073709551615) = Ok (PInt 18446744073709551615) /\
  ex_post 5 (mk_meta TSFixed32 None) tt (PBytes [xfe; xff; xff; xff]) = Ok (PInt (-2)) /\
  ex_post 1 (mk_meta TDouble None) tt (PBytes [x00; x00; x00; x00; x00; x00; xf0; x3f]) = Ok (PFloat 4607182418800017408) /\
  ex_post 2 (mk_meta TString None) tt (PBytes [xc3; xa9]) = Ok (PStr [xc3; xa9]) /\
  ex_post 2 (mk_meta TBytes None) tt (PBytes [xff]) = Ok (PBytes [xff]) /\
  ex_post 2 (mk_meta TMessage None) tt (PBytes [x08; x01]) = Ok PNone /\
  ex_post 2 (mk_meta TMap None) tt (PBytes []) = Ok PNone /\
  ex_post 3 (mk_meta TInt32 None) tt (PBytes []) = Ok (PBytes []).
Proof. vm_compute. repeat split; reflexivity. Qed.

Example C01_src_ex_errors :
  ex_post 0 (mk_meta TInt32 None) tt (PStr [x61]) = Err EType /\
  ex_post 0 (mk_meta TUInt32 None) tt (PStr [x61]) = Ok (PStr [x61]) /\
  ex_post 5 (mk_meta TFixed32 None) tt (PBytes [x00]) = Err EStruct /\
  ex_post 5 (mk_meta TInt32 None) tt (PBytes [x00; x00; x00; x00]) = Err EKey /\
  ex_post 5 (mk_meta TFixed32 None) tt (PInt 1) = Err EType /\
  ex_post 2 (mk_meta TString None) tt (PBytes [xc3]) = Err EUnicode /\
  py_int_of_ptype_suffix 3 TUInt32 = Err EValue /\ py_int_of_ptype_suffix 3 TMap = Err EValue /\
  py_int_of_ptype_suffix 3 TInt64 = Ok 64.
Proof. vm_compute. repeat split; reflexivity. Qed.

