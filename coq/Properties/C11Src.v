(* C11 - source-translation tie of the kwargs clause ("per-call timeout / deadline / metadata win over the stub-level
   defaults"), a second, tighter tie next to the sampled correspondence.  gen/C11Src.v holds Gallina definitions obtained
   MECHANICALLY (harness/gen_c11_src.py, an extension of harness/gen_c16_src.py; Python `ast`) from the CURRENT source text of
       ServiceStub.__init__     ServiceStub.__resolve_request_kwargs        (src/betterproto/grpc/grpclib_client.py)
   The theorems say what the constructor stores, that the translated resolver IS the model's (Model/Grpc.v resolve1 /
   resolve_kwargs) for every instance, all 2^3 None / set combinations of the call-level arguments and all values - the
   objects are opaque (any type V) and the result does not depend on what bool() says of them (any `truthy`), so a
   set-but-falsy value (timeout=0, metadata={} / []) is covered - and restate C11_kwargs / C11_kwargs_falsy_is_set /
   C11_kwargs_passed over the translated functions.
   Vocabulary:  src_init / src_resolve (notations of Proofs/C11Src.v for the two generated definitions);
     src_ServiceStub_mk ch t d m   the generated record of the instance attributes, in the order __init__ assigns them;
     model_dict self ct cd cm      the dict {"timeout": .., "deadline": .., "metadata": ..} whose values are the model's resolve1;
     py_dict_get d k               d[k], the last item with key k (Model/C11SrcLib.v);
     kw_of_dict d                  what the keyword-only arguments of grpclib's Channel.request receive from **d (Model/C11SrcGlue.v);
     src_stub_call_kw truthy ch skw ckw   construct the stub from skw with the translated __init__, resolve ckw with the
                                   translated resolver, pass the dict with ** (Proofs/C11Src.v).
   WHAT IS NOT TRANSLATED: the four async call helpers, _send_messages and ServiceBase._call_rpc_handler_server_stream
   (async def / await / async with / async for / yield / task creation: outside the subset, see the translator's --survey);
   that the helpers pass exactly `**self.__resolve_request_kwargs(timeout, deadline, metadata)` to channel.request is still
   tied by the sampled correspondence (64 None / set combinations + set-but-falsy values, identity of the objects).
   THIS FILE IS BUILT ONLY BY THE "source tie" STAGE of harness/props/c11.py.  A behaviour-preserving rewrite of the
   Python functions can make the translator reject or these proofs fail although C11 still holds; the stage then
   records "source-translation tie did not hold" in the evidence and the sampled correspondence and the oracles
   decide.  Properties/C11.v does not depend on this file.
   Only statements here; every proof is one [exact] of a lemma of Proofs/C11Src.v. *)
From Coq Require Import ZArith List Bool.
From BP Require Import Base.Prelude Model.Grpc Model.C16SrcLib Model.C11SrcLib Model.C11SrcGlue gen.C11Src.
From BP Require Import Proofs.GrpcP Proofs.C11Src.
From BP Require Model.C11GapDefs.
Import ListNotations.
Local Open Scope Z_scope.

(* ---- ServiceStub.__init__ stores exactly its four arguments, under the attribute names the resolver reads ---- *)
Theorem C11Src_init_stores : forall (V : Type) (truthy : V -> bool) ch t d m,
  exists self, src_init V truthy ch t d m = Ok self /\
    ServiceStub_channel self = ch /\ ServiceStub_timeout self = t /\
    ServiceStub_deadline self = d /\ ServiceStub_metadata self = m.
Proof. exact init_fields. Qed.
Print Assumptions C11Src_init_stores.

(* ... and ServiceStub(channel) alone stores None three times (the keyword-only defaults of the source) *)
Theorem C11Src_init_defaults : forall (V : Type) (truthy : V -> bool) ch,
  src_init_defaults V truthy ch = Ok (src_ServiceStub_mk ch None None None).
Proof. exact init_defaults. Qed.
Print Assumptions C11Src_init_defaults.

(* ---- the translated resolver is the model's resolve1 on each of the three keys, for every instance, every call-level
        None / object combination, every type of objects and every truthiness of them ---- *)
Theorem C11Src_resolve_is_model : forall (V : Type) (truthy : V -> bool) self ct cd cm,
  src_resolve V truthy self ct cd cm = Ok (model_dict self ct cd cm).
Proof. exact resolve_eq_model. Qed.
Print Assumptions C11Src_resolve_is_model.

(* the eight None / set combinations spelled out *)
Theorem C11Src_resolve_eight : forall (V : Type) (truthy : V -> bool) st sd sm ch (x y z : V),
  let self := src_ServiceStub_mk ch st sd sm in
  let D a b c := Ok [(key_timeout, a); (key_deadline, b); (key_metadata, c)] in
  src_resolve V truthy self None None None = D st sd sm /\
  src_resolve V truthy self (Some x) None None = D (Some x) sd sm /\
  src_resolve V truthy self None (Some y) None = D st (Some y) sm /\
  src_resolve V truthy self None None (Some z) = D st sd (Some z) /\
  src_resolve V truthy self (Some x) (Some y) None = D (Some x) (Some y) sm /\
  src_resolve V truthy self (Some x) None (Some z) = D (Some x) sd (Some z) /\
  src_resolve V truthy self None (Some y) (Some z) = D st (Some y) (Some z) /\
  src_resolve V truthy self (Some x) (Some y) (Some z) = D (Some x) (Some y) (Some z).
Proof. exact resolve_eight. Qed.
Print Assumptions C11Src_resolve_eight.

(* the source never asks bool() of an object: any two readings of truthiness give the same result *)
Theorem C11Src_resolve_truthy_irrelevant : forall (V : Type) (t1 t2 : V -> bool) self ct cd cm,
  src_resolve V t1 self ct cd cm = src_resolve V t2 self ct cd cm.
Proof. exact resolve_truthy_irrelevant. Qed.
Print Assumptions C11Src_resolve_truthy_irrelevant.

(* ---- C11_kwargs over the translated source: stub built by the translated __init__, resolver, ** into channel.request ---- *)
Theorem C11Src_kwargs : forall truthy ch st sd sm ct cd cm,
  src_stub_call_kw truthy ch (Kw st sd sm) (Kw ct cd cm) =
  Ok (Some (Kw (match ct with Some x => Some x | None => st end)
               (match cd with Some x => Some x | None => sd end)
               (match cm with Some x => Some x | None => sm end))).
Proof. exact stub_call_kw_spec. Qed.
Print Assumptions C11Src_kwargs.

Theorem C11Src_kwargs_is_model : forall truthy ch skw ckw,
  src_stub_call_kw truthy ch skw ckw = Ok (Some (resolve_kwargs skw ckw)).
Proof. exact stub_call_kw_model. Qed.
Print Assumptions C11Src_kwargs_is_model.

(* ---- C11_kwargs_falsy_is_set over the translated source: call-level objects on which bool() answers false are still
        what the dict carries under each key; None falls back to the attribute of the instance.  (The hypotheses only say
        WHICH objects are meant: C11Src_resolve_is_model gives the same for every object.) ---- *)
Theorem C11Src_kwargs_falsy_is_set : forall (V : Type) (truthy : V -> bool) (f1 f2 f3 : V) self,
  truthy f1 = false -> truthy f2 = false -> truthy f3 = false ->
  (exists d, src_resolve V truthy self (Some f1) (Some f2) (Some f3) = Ok d /\
     py_dict_get d key_timeout = Some (Some f1) /\ py_dict_get d key_deadline = Some (Some f2) /\
     py_dict_get d key_metadata = Some (Some f3)) /\
  (exists d, src_resolve V truthy self None None None = Ok d /\
     py_dict_get d key_timeout = Some (ServiceStub_timeout self) /\ py_dict_get d key_deadline = Some (ServiceStub_deadline self) /\
     py_dict_get d key_metadata = Some (ServiceStub_metadata self)).
Proof. exact resolve_falsy. Qed.
Print Assumptions C11Src_kwargs_falsy_is_set.

(* ---- C11_kwargs_passed over the translated source: what reaches channel.request in the model's call is what the
        translated constructor + resolver + ** produce ---- *)
Theorem C11Src_kwargs_passed : forall svc im skw py a ckw o truthy ch,
  call svc im skw py a ckw = Some o -> src_stub_call_kw truthy ch skw ckw = Ok (Some (ri_kw (ob_req o))).
Proof. exact stub_call_kw_passed. Qed.
Print Assumptions C11Src_kwargs_passed.

(* ---- `is None` is not truthiness: the rendering of `timeout or self.timeout` (seeded C11-3 / C11-7) in the same
        vocabulary is a different function - call-level 0 loses against the stub-level value - and the two agree under the
        boolean condition that every call-level argument is None or truthy ---- *)
Theorem C11Src_truthiness_reading_refuted :
  exists (truthy : Z -> bool) self ct cd cm,
    truthy 0 = false /\
    resolve_truthiness_reading Z truthy self ct cd cm <> src_resolve Z truthy self ct cd cm /\
    bind (resolve_truthiness_reading Z truthy self ct cd cm) (fun d => Ok (kw_of_dict d))
      = Ok (Some (Kw (Some 11) (Some 21) (Some 31))) /\
    bind (src_resolve Z truthy self ct cd cm) (fun d => Ok (kw_of_dict d))
      = Ok (Some (Kw (Some 0) (Some 21) (Some 0))).
Proof. exact truthiness_reading_differs. Qed.
Print Assumptions C11Src_truthiness_reading_refuted.

Theorem C11Src_truthiness_reading_agrees_on_truthy : forall (V : Type) (truthy : V -> bool) self ct cd cm,
  none_or_truthy truthy ct = true -> none_or_truthy truthy cd = true -> none_or_truthy truthy cm = true ->
  resolve_truthiness_reading V truthy self ct cd cm = src_resolve V truthy self ct cd cm.
Proof. exact truthiness_reading_agrees_on_truthy. Qed.
Print Assumptions C11Src_truthiness_reading_agrees_on_truthy.

(* ---- the instance attributes, by name: exactly channel, timeout, deadline, metadata (read from the source).  A stub
        method with one of these Python names (rpc Timeout, rpc Metadata ...) is shadowed by the attribute on every instance ---- *)
Theorem C11Src_instance_attribute_names :
  src_ServiceStub_attr_names = [key_channel; key_timeout; key_deadline; key_metadata].
Proof. exact attr_names. Qed.
Print Assumptions C11Src_instance_attribute_names.

(* ... which Model/Grpc.v does not model: for the one-RPC service whose Python method name is `timeout` (names distinct, Python
   names distinct: the hypotheses of C11_routes / C11_payload hold) the model's call reaches the handler and returns its
   response, whereas `stub.timeout(request)` on the real class raises TypeError ('NoneType' object is not callable).  A statement
   about the MODEL, recorded here because the translation of __init__ is what exhibits the four names; see the report. *)
Theorem C11Src_shadowed_method_model_witness :
  names_distinct shadow_svc /\ pynames_distinct shadow_svc /\
  existsb (bytes_eqb key_timeout) src_ServiceStub_attr_names = true /\
  option_map (fun o => (ob_trace o, ob_res o)) (call shadow_svc im_one kw0 key_timeout (ArgOne a_msg) kw0)
    = Some ([(key_timeout, InOne (Some a_msg))], CRes [o_msg] CDone).
Proof. exact shadowed_method_model_witness. Qed.
Print Assumptions C11Src_shadowed_method_model_witness.

(* ---- gap closing (Properties/C11.v, C11_routes_instance / C11_payload_instance / C11_shadowed_instance_refuted): the four names that
        Model/C11GapDefs.v's instance lookup [stub_getattr] / [shadowedb] treats as instance attributes ARE the attributes the
        translated ServiceStub.__init__ assigns, read from the current source ---- *)
Theorem C11Src_gap_instance_attrs : BP.Model.C11GapDefs.stub_instance_attrs = src_ServiceStub_attr_names.
Proof. reflexivity. Qed.
Print Assumptions C11Src_gap_instance_attrs.

(* ---- non-vacuity ---- *)
(* the translation was accepted (the flag is false, and the definitions absent, when the translator rejects) *)
Example C11Src_ex_translated : src_c11_kwargs_translated = true.
Proof. reflexivity. Qed.
(* objects = Z, bool() = "non-zero": stub (11, 21, 31), call-level timeout=0, deadline None, metadata=0 (set but falsy) *)
Example C11Src_ex_falsy :
  src_stub_call_kw py_truthy_int 7 (Kw (Some 11) (Some 21) (Some 31)) (Kw (Some 0) None (Some 0))
    = Ok (Some (Kw (Some 0) (Some 21) (Some 0))) /\
  py_truthy_int 0 = false.
Proof. split; vm_compute; reflexivity. Qed.
(* the hypotheses of C11Src_kwargs_falsy_is_set are met by 0 under that reading *)
Example C11Src_ex_falsy_hyp : py_truthy_int 0 = false /\
  src_resolve Z py_truthy_int (src_ServiceStub_mk 7 (Some 11) None (Some 31)) (Some 0) (Some 0) (Some 0)
    = Ok [(key_timeout, Some 0); (key_deadline, Some 0); (key_metadata, Some 0)].
Proof. split; vm_compute; reflexivity. Qed.
(* the dict has exactly the three keys channel.request accepts: kw_of_dict is Some on it *)
Example C11Src_ex_keys :
  bind (src_resolve Z py_truthy_int (src_ServiceStub_mk 7 None (Some 21) None) None None (Some 32)) (fun d => Ok (py_dict_keys d))
    = Ok [key_timeout; key_deadline; key_metadata].
Proof. vm_compute. reflexivity. Qed.
(* the hypotheses of C11Src_truthiness_reading_agrees_on_truthy: a None and two truthy objects *)
Example C11Src_ex_none_or_truthy :
  none_or_truthy py_truthy_int None = true /\ none_or_truthy py_truthy_int (Some 5) = true /\ none_or_truthy py_truthy_int (Some 0) = false.
Proof. repeat split. Qed.
(* a call of the model that reaches channel.request (hypothesis of C11Src_kwargs_passed) *)
Example C11Src_ex_call :
  let svc := Service [] [x53] [Method [x4d] [x6d] false false [x41] [x42]] in
  option_map (fun o => ri_kw (ob_req o))
    (call svc (fun _ => None) (Kw (Some 11) None None) [x6d] (ArgOne ([x41], [])) (Kw None (Some 22) None))
  = Some (Kw (Some 11) (Some 22) None).
Proof. vm_compute. reflexivity. Qed.
