(* C20 — enums are open, canonical and immutable.
   Statements only; every proof is one [exact] of a lemma of Proofs/EnumP.v (the enum class, the scalar / element level
   of both codecs) or of Proofs/C20Msg*.v (the message level: the five field positions, by instantiating C01 / C04).

   Vocabulary (Model/Enum.v, Proofs/EnumP.v):
     body : defn                   the class body, a list of  NAME = number  assignments, any length,
                                   any numbers (negatives, gaps, aliases), names possibly re-assigned
     members_of body               the namespace entries EnumType.__new__ turns into members
     class_of body : ecls          (_value_map_, _member_map_) as EnumType.__new__ builds them
     member = (option name, Z)     a member object: its .name and its number
     canon ms v = (first_name ms v, v)   specification: first declared name of number v, None if undefined
     in_table c m                  model of "m is the very object stored in the class table"
   Every theorem quantifies over ALL bodies / numbers / histories; nothing is bounded. *)
(* message level (the five positions): the shared codec models and C01 / C04, imported BEFORE Model.Enum / Proofs.EnumP so
   that every name of the statements above the message-level section keeps denoting the enum model *)
From BP Require Import Base.Prelude Model.Types Model.Object Model.Eq Model.Encode Model.Decode Model.WellFormed Model.C01Def
     Model.Json Model.C20Msg.
From BP Require Import Proofs.C04Def Proofs.C04ScalarP Proofs.C20MsgDef Proofs.C20MsgBin Proofs.C20MsgJson Proofs.C20MsgBuiltB
     Proofs.C20MsgBuiltJ Proofs.C20MsgBuiltC Proofs.C20MsgAlias.
From BP Require Import Base.Prelude Model.Varint Model.Scalar Model.Enum Spec.Varint.
From BP Require Import Proofs.EnumP.
From BP Require Proofs.C20GapA Proofs.C20GapB Model.C20GapDefs Model.C01Reach Model.C01Parse Model.C07Ops Model.History Model.Len.

(* the namespace never holds a name twice, so the member list has distinct names whatever the body;
   a body with distinct non-dunder names is its own member list *)
Theorem C20_members_distinct : forall body, NoDup (map fst (members_of body)).
Proof. exact members_of_nodup. Qed.
Print Assumptions C20_members_distinct.

Theorem C20_members_plain_body : forall body,
  NoDup (map fst body) -> forallb (fun nv => negb (starts_dunder (fst nv))) body = true ->
  members_of body = body.
Proof. exact members_of_id. Qed.
Print Assumptions C20_members_plain_body.

(* what [first_name] means: the declaration  n = v  before which no declaration has number v *)
Theorem C20_first_name_spec : forall ms v n,
  first_name ms v = Some n <-> exists l1 l2, ms = l1 ++ (n, v) :: l2 /\ ~ In v (map snd l1).
Proof. exact first_name_Some. Qed.
Print Assumptions C20_first_name_spec.

(* lookup by number: the member whose number is v and whose name is the first declared for v;
   it is the table object; try_value returns the same object *)
Theorem C20_by_number : forall body n v,
  In (n, v) (members_of body) ->
  exists n0 l1 l2,
    members_of body = l1 ++ (n0, v) :: l2 /\ ~ In v (map snd l1) /\
    call (class_of body) v = Ok (Some n0, v) /\
    try_value (class_of body) v = (Some n0, v) /\
    in_table (class_of body) (Some n0, v) = true.
Proof. exact by_number. Qed.
Print Assumptions C20_by_number.

(* lookup by name — E[n], E.from_string(n), E.n — for every declared name, aliases included,
   returns what lookup by number returns: the canonical member, whose number is the declared one *)
Theorem C20_by_name : forall body n v,
  In (n, v) (members_of body) ->
  let c := class_of body in
  getitem c n = call c v /\ from_string c n = call c v /\ getattr_cls c n = call c v /\
  call c v = Ok (canon (members_of body) v) /\ snd (canon (members_of body) v) = v.
Proof. exact by_name. Qed.
Print Assumptions C20_by_name.

Theorem C20_undefined_name : forall body n,
  ~ In n (map fst (members_of body)) ->
  let c := class_of body in
  getitem c n = Err EKey /\ from_string c n = Err EValue /\ getattr_cls c n = Err EAttribute.
Proof. exact undefined_name. Qed.
Print Assumptions C20_undefined_name.

(* open set: an undefined number is rejected by E(v) but accepted by try_value (the decoder's and the
   default generator's entry point) as a nameless value that equals the integer *)
Theorem C20_open : forall body v,
  ~ In v (map snd (members_of body)) ->
  let c := class_of body in
  call c v = Err EValue /\ try_value c v = (None, v) /\ eq_int (try_value c v) v = true /\
  contains c (AMem (try_value c v)) = false /\ in_table c (try_value c v) = false.
Proof. exact open_value. Qed.
Print Assumptions C20_open.

Theorem C20_number_kept : forall body v,
  snd (try_value (class_of body) v) = v /\ eq_int (try_value (class_of body) v) v = true.
Proof. exact try_value_number. Qed.
Print Assumptions C20_number_kept.

Theorem C20_default : forall body,
  enum_default (class_of body) = canon (members_of body) 0 /\ snd (enum_default (class_of body)) = 0.
Proof. exact default_is_zero. Qed.
Print Assumptions C20_default.

(* iteration yields, per declared name in order, the canonical member of its number (aliases repeat it) *)
Theorem C20_iteration : forall body,
  let c := class_of body in let ms := members_of body in
  iter c = map (fun nv => canon ms (snd nv)) ms /\ len c = Zlength ms /\ reversed c = rev (iter c).
Proof. exact iteration. Qed.
Print Assumptions C20_iteration.

(* ... and agrees with _value_map_ both ways; one table entry per distinct declared number *)
Theorem C20_iteration_consistent : forall body,
  let c := class_of body in
  (forall m, In m (iter c) -> call c (snd m) = Ok m /\ contains c (AMem m) = true /\ in_table c m = true) /\
  (forall v m, zget v (vmap c) = Some m -> In m (iter c) /\ snd m = v) /\
  NoDup (map fst (vmap c)) /\
  (forall v, In v (map fst (vmap c)) <-> In v (map snd (members_of body))).
Proof. exact iteration_consistent. Qed.
Print Assumptions C20_iteration_consistent.

(* immutability: the four guards reject, on every class state and member ... *)
Theorem C20_immutable_guards : forall c n x m key,
  cls_setattr c n x = Err EAttribute /\ cls_delattr c n = Err EAttribute /\
  mem_setattr m key x = Err EAttribute /\ mem_delattr m key = Err EAttribute.
Proof. exact mutators_rejected. Qed.
Print Assumptions C20_immutable_guards.

(* ... and over every history of public operations (20 kinds, mutation attempts interleaved) the class
   tables stay the ones the class was created with and each outcome is the one on the fresh class *)
Theorem C20_immutable_histories : forall cn c ops,
  fst (run cn c ops) = c /\ snd (run cn c ops) = map (fun o => snd (step cn c o)) ops.
Proof. exact immutable_histories. Qed.
Print Assumptions C20_immutable_histories.

Theorem C20_mutations_raise : forall cn c ops,
  Forall2 (fun o out => is_mutator o = true -> out = CE EAttribute) ops (snd (run cn c ops)).
Proof. exact mutations_in_histories. Qed.
Print Assumptions C20_mutations_raise.

(* copy / deepcopy return the member itself; pickling re-creates (name, number) *)
Theorem C20_copy : forall c m,
  copy m = m /\ deepcopy m = m /\
  in_table c (copy m) = in_table c m /\ in_table c (deepcopy m) = in_table c m.
Proof. exact copy_identity. Qed.
Print Assumptions C20_copy.

Theorem C20_pickle : forall m,
  pickle_roundtrip m = m /\ fst (pickle_roundtrip m) = fst m /\ snd (pickle_roundtrip m) = snd m.
Proof. exact pickle_preserves. Qed.
Print Assumptions C20_pickle.

(* binary codec, scalar level (the step shared by the singular, oneof, optional, unpacked-repeated and
   map-value positions): for every int32 number, defined or not, the varint written by
   _preprocess_single is read back by load_varint and turned by _postprocess_single (as fixed by
   fixes/c20-f3-enum-int32-decode.patch = /repo commit bdf150b) into the same value: canonical member or open value.
   _partial: scalar level only; the message level (tag, length prefix, which field is written where, presence, the five
   positions) is C20_roundtrip_message_binary below, an instance of C01_roundtrip over the shared codec model, whose enum
   branch is this scalar path (C20_codec_bridge). *)
Theorem C20_roundtrip_scalar_partial : forall body v,
  int32 v ->
  let c := class_of body in
  exists bs,
    enum_pre (try_value c v) = Ok bs /\
    enum_len (try_value c v) = Ok (Zlength bs) /\
    (forall rest, load_varint (bs ++ rest) = Ok (v mod 2 ^ 64, bs, rest)) /\
    enum_post c (v mod 2 ^ 64) = try_value c v /\
    snd (enum_post c (v mod 2 ^ 64)) = v.
Proof. exact scalar_roundtrip. Qed.
Print Assumptions C20_roundtrip_scalar_partial.

(* packed repeated field: the whole list, through the while loop of Message.load *)
Theorem C20_roundtrip_packed_partial : forall body vs,
  Forall int32 vs ->
  exists buf, enum_pack vs = Ok buf /\
              enum_unpack (class_of body) buf = Ok (map (try_value (class_of body)) vs).
Proof. exact packed_roundtrip. Qed.
Print Assumptions C20_roundtrip_packed_partial.

(* a defined number decodes to the canonical member object itself *)
Theorem C20_decode_defined_is_canonical : forall body n v,
  In (n, v) (members_of body) -> int32 v ->
  in_table (class_of body) (enum_post (class_of body) (v mod 2 ^ 64)) = true /\
  call (class_of body) v = Ok (enum_post (class_of body) (v mod 2 ^ 64)).
Proof. exact decode_defined_is_canonical. Qed.
Print Assumptions C20_decode_defined_is_canonical.

(* every legal encoding — minimal or padded, ten-byte sign-extended or the five-byte form some encoders
   write for negative enum numbers (any varint congruent to v modulo 2^32) — is read as v *)
Theorem C20_any_encoding_decodes : forall body v raw bs rest,
  int32 v -> raw mod 2 ^ 32 = v mod 2 ^ 32 -> VarintRep raw bs ->
  load_varint (bs ++ rest) = Ok (raw, bs, rest) /\
  enum_post (class_of body) raw = try_value (class_of body) v.
Proof. exact any_encoding_decodes. Qed.
Print Assumptions C20_any_encoding_decodes.

(* any varint at all decodes to an int32 number (the reference truncates the same way) *)
Theorem C20_decoded_is_int32 : forall body raw, int32 (snd (enum_post (class_of body) raw)).
Proof. exact decoded_number_is_int32. Qed.
Print Assumptions C20_decoded_is_int32.

(* the original snapshot e3745e3 (no truncation; [enum_post_pinned]): right for non-negative numbers, wrong for
   negative ones — defect F3, repaired by bdf150b; kept as the regression statement *)
Theorem C20_roundtrip_pinned_nonneg : forall body v,
  0 <= v < 2 ^ 31 -> enum_post_pinned (class_of body) (v mod 2 ^ 64) = try_value (class_of body) v.
Proof. exact scalar_roundtrip_pinned_partial. Qed.
Print Assumptions C20_roundtrip_pinned_nonneg.

Theorem C20_roundtrip_pinned_refuted :
  exists body v, int32 v /\
    enum_post_pinned (class_of body) (v mod 2 ^ 64) <> try_value (class_of body) v /\
    snd (enum_post_pinned (class_of body) (v mod 2 ^ 64)) = 2 ^ 64 - 1.
Proof. exact scalar_roundtrip_pinned_refuted. Qed.
Print Assumptions C20_roundtrip_pinned_refuted.

Theorem C20_packed_pinned_refuted :
  exists body vs buf, Forall int32 vs /\ enum_pack vs = Ok buf /\
    enum_unpack_pinned (class_of body) buf <> Ok (map (try_value (class_of body)) vs).
Proof. exact packed_roundtrip_pinned_refuted. Qed.
Print Assumptions C20_packed_pinned_refuted.

(* dict / JSON codec, element level (as fixed by fixes/c20-f8-unnamed-enum-json.patch = /repo commit f0e3c24;
   the same element functions serve singular, optional, oneof, repeated and — since a49c080 — map values): every number comes
   back as the same value; a defined number travels as its first declared name, an undefined one as the number.
   _partial: element level only; the message level of to_dict/from_dict (casing, default skipping, containers, the five
   positions) is C20_roundtrip_message_json below, an instance of C04's theorems over the shared codec model, whose enum
   element functions are these (C20_codec_bridge). *)
Theorem C20_roundtrip_json_partial : forall body v,
  let c := class_of body in
  from_json_el c (to_json_el c v) = Ok (try_value c v) /\
  (In v (map snd (members_of body)) ->
     exists n0, to_json_el c v = JName n0 /\ first_name (members_of body) v = Some n0) /\
  (~ In v (map snd (members_of body)) -> to_json_el c v = JNum v).
Proof. exact json_roundtrip. Qed.
Print Assumptions C20_roundtrip_json_partial.

Theorem C20_roundtrip_json_list_partial : forall body vs,
  from_json_list (class_of body) (to_json_list (class_of body) vs) = Ok (map (try_value (class_of body)) vs).
Proof. exact json_list_roundtrip. Qed.
Print Assumptions C20_roundtrip_json_list_partial.

Theorem C20_json_accepts_alias : forall body n v,
  In (n, v) (members_of body) ->
  from_json_el (class_of body) (JName n) = Ok (try_value (class_of body) v).
Proof. exact json_accepts_alias. Qed.
Print Assumptions C20_json_accepts_alias.

(* to_dict of the original snapshot ([to_json_el_pinned]): same answer on defined numbers, ValueError on EVERY
   undefined one — defect F8, repaired by f0e3c24; kept as the regression statement *)
Theorem C20_json_pinned_defined : forall body v,
  In v (map snd (members_of body)) ->
  to_json_el_pinned (class_of body) v = Ok (to_json_el (class_of body) v).
Proof. exact json_pinned_partial. Qed.
Print Assumptions C20_json_pinned_defined.

Theorem C20_json_pinned_refuted :
  exists body v, int32 v /\ to_json_el_pinned (class_of body) v = Err EValue.
Proof. exact json_pinned_refuted. Qed.
Print Assumptions C20_json_pinned_refuted.

Theorem C20_json_pinned_open_refuted : forall body v,
  ~ In v (map snd (members_of body)) -> to_json_el_pinned (class_of body) v = Err EValue.
Proof. exact json_pinned_rejects_every_open_value. Qed.
Print Assumptions C20_json_pinned_open_refuted.

(* ================================================================== message level: the five positions
   Vocabulary (Model/C20Msg.v, Proofs/C20MsgDef.v), over the shared codec model of C01 / C04 (Model/Object.v schemas and
   messages, Encode.enc_obj = bytes(m), Decode.parse = Cls().parse, Json.to_dict / from_dict_cls / from_dict_inst / json_rt_cls / json_rt_inst):
     enum_position f = Some (pos, e)   field descriptor f is an enum-typed field of the schema's e-th enum in position
                                       pos : PosSingular | PosRepeated | PosMapValue | PosOneof | PosOptional
     read sc m i = Ok x                attribute i of message m reads as x (getattr: AttributeError for an unselected oneof
                                       member, the default for PLACEHOLDER)
     holds_enum pos x v                x holds the number v: x = v / v in the list x / v a value of the dict x
     field_member sc e (PInt v)        the Python object an enum attribute holding v is: try_value of the field's class
                                       (the codec models keep the number; Decode.postprocess_varint "then cls.try_value")
     enum_json sc e v                  JStr (first declared name of v) if v has a name, JInt v otherwise
     enum_field_json sc e x            the same for a number / a list of numbers / a dict of numbers
     enum_omitted pos x                to_dict leaves the field out: 0 in a singular field, [] , {} , None in an optional
     jlookup k j                       j.get(k)
   All theorems hold for EVERY schema and EVERY message meeting C01's / C04's decidable side conditions. *)

(* the classification is complete: in a well-formed class every field annotated E, Optional[E], List[E], Dict[K, E] for
   an Enum subclass E is an enum field in one of the five positions *)
Theorem C20_positions_complete : forall sc ng f e,
  wf_field sc ng f = true -> hint_enum f = Some e -> exists pos, enum_position f = Some (pos, e).
Proof. exact enum_position_complete. Qed.
Print Assumptions C20_positions_complete.

(* the enum branch of the shared codec models IS the enum scalar path of Model/Enum.v (the functions the _partial theorems
   above are about), and the value an enum attribute holds is the canonical member of its number *)
Theorem C20_codec_bridge : forall sc e,
  (forall raw, postprocess_varint TEnum raw = PInt (snd (enum_post (enum_cls sc e) raw)) /\
               field_member sc e (postprocess_varint TEnum raw) = Some (enum_post (enum_cls sc e) raw)) /\
  (forall msg w v, preprocess_with msg TEnum w (PInt v) = enum_pre (try_value (enum_cls sc e) v)) /\
  (forall z, dump_enum sc e z = enum_json sc e z) /\
  (forall z, enum_from_json sc e (JInt z) = Ok (PInt z)) /\
  (forall n, enum_from_json sc e (JStr n) =
             match from_json_el (enum_cls sc e) (JName n) with Ok m => Ok (PInt (snd m)) | Err k => Err k end) /\
  enum_cls sc e = class_of (enum_body sc e).
Proof. exact codec_bridge. Qed.
Print Assumptions C20_codec_bridge.

Theorem C20_field_member : forall sc e v,
  field_member sc e (PInt v) = Some (canon (members_of (enum_body sc e)) v) /\
  (forall n, In (n, v) (members_of (enum_body sc e)) ->
     exists n0, field_member sc e (PInt v) = Some (Some n0, v) /\ first_name (members_of (enum_body sc e)) v = Some n0 /\
                in_table (enum_cls sc e) (Some n0, v) = true /\ enum_json sc e v = JStr n0) /\
  (~ In v (map snd (members_of (enum_body sc e))) ->
     field_member sc e (PInt v) = Some (None, v) /\ enum_json sc e v = JInt v).
Proof. exact field_member_spec. Qed.
Print Assumptions C20_field_member.

(* BINARY.  For every schema meeting C01's schema condition, every message m of it meeting C01's value condition, every
   enum-typed field (index i) of m's class in any of the five positions and every number v the attribute holds:
   v is an int32; the attribute IS the canonical member of v (first declared name; nameless open value if undefined);
   bytes(m) exists and - unless it is 2^64 bytes long - Cls().parse(bytes(m)) succeeds with a message whose attribute i reads
   as the very same value x (same number at the same list index / under the same map key, same selected oneof member,
   an optional that was set is still set), and which encodes to the same bytes again.
   Negative, unnamed and alias numbers are not special cases: v is any number the field holds.
   (Everything C01_roundtrip says about the rest of the message holds as well; not repeated here.) *)
Theorem C20_roundtrip_message_binary : forall sc m i f pos e x v,
  c01_schema_ok sc = true -> c01_value_ok sc m = true ->
  nth_error (cfields (get_class sc (ocls m))) i = Some f -> enum_position f = Some (pos, e) ->
  read sc m i = Ok x -> holds_enum pos x v = true ->
  int32 v /\
  field_member sc e (PInt v) = Some (canon (members_of (enum_body sc e)) v) /\
  exists bs, enc_obj sc m = Ok bs /\
    (Zlength bs < 2 ^ 64 ->
     exists m', parse sc (ocls m) bs = Ok m' /\
       read sc m' i = Ok x /\
       (forall g, which_one_of m' g = which_one_of m g) /\
       enc_obj sc m' = Ok bs).
Proof. exact roundtrip_message_binary. Qed.
Print Assumptions C20_roundtrip_message_binary.

(* DICT / JSON.  For every well-formed schema whose keys address their fields (C04's keys_ok, for the casing cs used), every
   good message m (C04's value condition), every enum-typed field in any of the five positions reading as x and holding v:
   to_dict(m) - and json.loads(json.dumps(to_dict(m))) for text = true - carries under the field's key exactly
   enum_field_json x: the first declared name of every number that has one, the number itself otherwise (the field is left
   out exactly when it holds the proto3 default without presence); and from_dict of that dict - classmethod and instance form,
   directly and through the JSON text (json_rt_cls, json_rt_inst = from_json(to_json())) - builds ONE message m' whose attribute i reads as
   the same x, with m' == m and bytes(m') = bytes(m). *)
Theorem C20_roundtrip_message_json : forall sc cs m i f pos e x v,
  wf_schema sc = true -> keys_ok cs sc = true -> good sc m = true ->
  nth_error (cfields (get_class sc (ocls m))) i = Some f -> enum_position f = Some (pos, e) ->
  read sc m i = Ok x -> holds_enum pos x v = true ->
  int32 v /\
  (forall text : bool,
     jlookup (key_of_field cs f) (tr text (to_dict cs false sc m)) =
     if enum_omitted pos x then None else Some (tr text (enum_field_json sc e x))) /\
  exists m',
    (forall text : bool,
       from_dict_cls sc (ocls m) (tr text (to_dict cs false sc m)) = Ok m' /\
       from_dict_inst sc (new sc (ocls m)) (tr text (to_dict cs false sc m)) = Ok m') /\
    json_rt_cls cs false sc m = Ok m' /\ json_rt_inst cs false sc m (new sc (ocls m)) = Ok m' /\
    read sc m' i = Ok x /\
    obj_eq sc m' m = true /\ enc_obj sc m' = enc_obj sc m.
Proof. exact roundtrip_message_json. Qed.
Print Assumptions C20_roundtrip_message_json.

(* the JSON text changes nothing in the enum part of the document: names stay strings, numbers stay numbers (the keys of
   a map become strings, as for every map field) *)
Theorem C20_json_text_form : forall text sc e x,
  tr text (enum_field_json sc e x) =
  match x with
  | PDict d => JObj (map (fun ky => (trk text (raw_json (fst ky)), enum_elem_json sc e (snd ky))) d)
  | _ => enum_field_json sc e x
  end.
Proof. exact tr_enum_field_json. Qed.
Print Assumptions C20_json_text_form.

(* The two theorems above quantify over every message meeting C01's / C04's value conditions.  These two say the conditions
   are met - in EVERY schema meeting the schema conditions, for EVERY enum-typed field in any of the five positions and EVERY
   int32 number v, named or not, negative or not - by the message
       m = Cls(); m.f = v          (m.f = [v] for a repeated field, m.f = {k: v} for a map field, k any in-range key)
   ([built], Model/C20Msg.v: setattr on the fresh object; for a oneof member this selects it), so that for such a message
   nothing is assumed about the message at all: it holds v, encodes, decodes to a message whose field reads as v (the canonical
   member of v), re-encodes identically; to_dict carries the name of v if it has one and the number otherwise (the field is
   omitted only for v = 0 in the singular position), and from_dict / from_json give the field back reading as v. *)
Theorem C20_roundtrip_message_binary_built : forall sc c i f pos e k v,
  c01_schema_ok sc = true ->
  nth_error (cfields (get_class sc c)) i = Some f -> enum_position f = Some (pos, e) ->
  int32 v -> (pos = PosMapValue -> scalar_in_range (key_type f) k = true) ->
  let m := built sc c i pos k v in
  c01_value_ok sc m = true /\
  read sc m i = Ok (place pos k v) /\ holds_enum pos (place pos k v) v = true /\
  field_member sc e (PInt v) = Some (canon (members_of (enum_body sc e)) v) /\
  exists bs, enc_obj sc m = Ok bs /\
    (Zlength bs < 2 ^ 64 ->
     exists m', parse sc c bs = Ok m' /\
       read sc m' i = Ok (place pos k v) /\
       (forall g, which_one_of m' g = which_one_of m g) /\
       enc_obj sc m' = Ok bs).
Proof. exact roundtrip_built_binary_full. Qed.
Print Assumptions C20_roundtrip_message_binary_built.

Theorem C20_roundtrip_message_json_built : forall sc cs c i f pos e k v,
  wf_schema sc = true -> keys_ok cs sc = true ->
  nth_error (cfields (get_class sc c)) i = Some f -> enum_position f = Some (pos, e) ->
  int32 v -> (pos = PosMapValue -> scalar_in_range (key_type f) k = true) ->
  let m := built sc c i pos k v in
  good sc m = true /\
  read sc m i = Ok (place pos k v) /\ holds_enum pos (place pos k v) v = true /\
  (forall text : bool,
     jlookup (key_of_field cs f) (tr text (to_dict cs false sc m)) =
     if enum_omitted pos (place pos k v) then None else Some (tr text (enum_field_json sc e (place pos k v)))) /\
  exists m',
    (forall text : bool,
       from_dict_cls sc c (tr text (to_dict cs false sc m)) = Ok m' /\
       from_dict_inst sc (new sc c) (tr text (to_dict cs false sc m)) = Ok m') /\
    json_rt_cls cs false sc m = Ok m' /\ json_rt_inst cs false sc m (new sc c) = Ok m' /\
    read sc m' i = Ok (place pos k v) /\
    obj_eq sc m' m = true /\ enc_obj sc m' = enc_obj sc m.
Proof. exact roundtrip_built_json_full. Qed.
Print Assumptions C20_roundtrip_message_json_built.

(* the constructor form builds the same message:  Cls(f=v)  =  (m = Cls(); m.f = v) *)
Theorem C20_built_is_constructor : forall sc c i f pos e k v,
  wf_schema sc = true ->
  nth_error (cfields (get_class sc c)) i = Some f -> enum_position f = Some (pos, e) ->
  construct sc c [(i, place pos k v)] = built sc c i pos k v.
Proof. exact construct_is_built_wf. Qed.
Print Assumptions C20_built_is_constructor.

(* what the built message's field looks like in the document, position by position *)
Theorem C20_built_json_form : forall sc e k v,
  enum_field_json sc e (place PosSingular k v) = enum_json sc e v /\
  enum_field_json sc e (place PosOneof k v) = enum_json sc e v /\
  enum_field_json sc e (place PosOptional k v) = enum_json sc e v /\
  enum_field_json sc e (place PosRepeated k v) = JList [enum_json sc e v] /\
  enum_field_json sc e (place PosMapValue k v) = JObj [(raw_json k, enum_json sc e v)] /\
  (enum_omitted PosSingular (place PosSingular k v) = (v =? 0)) /\
  enum_omitted PosOneof (place PosOneof k v) = false /\ enum_omitted PosOptional (place PosOptional k v) = false /\
  enum_omitted PosRepeated (place PosRepeated k v) = false /\ enum_omitted PosMapValue (place PosMapValue k v) = false.
Proof. exact built_json_form. Qed.
Print Assumptions C20_built_json_form.

(* from_dict on what OTHER writers produce (lookup by name, at the message level): in each of the five positions the document
   {key: j} / {key: [j]} / {key: {jk: j}} where j is the number v or ANY declared name of v - the first declared one or an
   alias - is accepted by both forms of from_dict and gives exactly the message  m = Cls(); m.f = v  of the theorems above
   (whose attribute is the canonical member of v).   json_names sc e j v :=  j = JInt v \/ exists n, j = JStr n /\ (n, v) declared *)
Theorem C20_message_json_accepts_names : forall sc cs c i f pos e jk j k v,
  wf_schema sc = true -> keys_ok cs sc = true ->
  nth_error (cfields (get_class sc c)) i = Some f -> enum_position f = Some (pos, e) ->
  json_names sc e j v ->
  (pos = PosMapValue -> key_from_json (key_type f) jk = Ok k) ->
  from_dict_cls sc c (jdoc (key_of_field cs f) pos jk j) = Ok (built sc c i pos k v) /\
  from_dict_inst sc (new sc c) (jdoc (key_of_field cs f) pos jk j) = Ok (built sc c i pos k v) /\
  read sc (built sc c i pos k v) i = Ok (place pos k v) /\ holds_enum pos (place pos k v) v = true.
Proof. exact from_dict_accepts_names. Qed.
Print Assumptions C20_message_json_accepts_names.

(* ------------------------------------------------------------------ non-vacuity *)
Definition ex_body : defn :=   (* ZERO=0 RED=1 ROUGE=1 NEG=-1 MAX=2^31-1 MIN=-2^31, then RED re-assigned to 1 again, __x=9 *)
  [([x5a; x45; x52; x4f], 0); ([x52; x45; x44], 1); ([x52; x4f; x55; x47; x45], 1); ([x4e; x45; x47], -1);
   ([x4d; x41; x58], 2147483647); ([x4d; x49; x4e], -2147483648); ([x5f; x5f; x78], 9)].

Example C20_ex_members : members_of ex_body = firstn 6 ex_body /\ In ([x52; x4f; x55; x47; x45], 1) (members_of ex_body).
Proof. vm_compute. split; [reflexivity|]. right. right. left. reflexivity. Qed.

Example C20_ex_alias :   (* E["ROUGE"] is E(1) and is named RED *)
  getitem (class_of ex_body) [x52; x4f; x55; x47; x45] = Ok (Some [x52; x45; x44], 1) /\
  call (class_of ex_body) 1 = Ok (Some [x52; x45; x44], 1) /\
  len (class_of ex_body) = 6 /\ length (vmap (class_of ex_body)) = 5%nat.
Proof. vm_compute. repeat split. Qed.

Example C20_ex_reassigned :   (* A=1; B=2; A=2  ->  members A=2 (first position), B=2: B is an alias of A *)
  members_of [([x41], 1); ([x42], 2); ([x41], 2)] = [([x41], 2); ([x42], 2)] /\
  getitem (class_of [([x41], 1); ([x42], 2); ([x41], 2)]) [x42] = Ok (Some [x41], 2).
Proof. vm_compute. split; reflexivity. Qed.

Example C20_ex_open : ~ In 5 (map snd (members_of ex_body)) /\ try_value (class_of ex_body) 5 = (None, 5).
Proof. split; [vm_compute; intuition discriminate|vm_compute; reflexivity]. Qed.

Example C20_ex_undefined_name : ~ In [x58] (map fst (members_of ex_body)).
Proof. vm_compute. intuition discriminate. Qed.

Example C20_ex_history :   (* a history with mutation attempts leaves the tables alone and reports AttributeError *)
  run [x45] (class_of ex_body)
      [OSetattrCls [x52; x45; x44] 7; OCall 1; ODelattrMem 1 [x6e; x61; x6d; x65]; OLen] =
  (class_of ex_body,
   [CE EAttribute; CL [CB [x52; x45; x44]; CZ 1; CZ 1]; CE EAttribute; CZ 6]).
Proof. vm_compute. reflexivity. Qed.

Example C20_ex_binary :   (* -1 and -2^31 are int32; their ten-byte varints decode to the declared members *)
  int32 (-1) /\ int32 (-2147483648) /\ Forall int32 [0; -1; 5; -2147483648] /\
  enum_pre (try_value (class_of ex_body) (-1)) = Ok [xff; xff; xff; xff; xff; xff; xff; xff; xff; x01] /\
  enum_post (class_of ex_body) (2 ^ 64 - 1) = (Some [x4e; x45; x47], -1) /\
  enum_post (class_of ex_body) (2 ^ 64 - 2 ^ 31) = (Some [x4d; x49; x4e], -2147483648) /\
  enum_unpack (class_of ex_body) [x00; xff; xff; xff; xff; xff; xff; xff; xff; xff; x01; x05] =
    Ok [(Some [x5a; x45; x52; x4f], 0); (Some [x4e; x45; x47], -1); (None, 5)].
Proof.
  unfold int32. split; [lia|]. split; [lia|]. split; [repeat constructor; lia|].
  vm_compute. repeat split.
Qed.

Example C20_ex_json :
  to_json_el (class_of ex_body) 1 = JName [x52; x45; x44] /\ to_json_el (class_of ex_body) (-7) = JNum (-7) /\
  from_json_el (class_of ex_body) (JNum (-7)) = Ok (None, -7) /\
  from_json_el (class_of ex_body) (JName [x52; x4f; x55; x47; x45]) = Ok (Some [x52; x45; x44], 1).
Proof. vm_compute. repeat split. Qed.

Example C20_ex_five_byte_negative :   (* ff ff ff ff 0f = 2^32-1 is read as NEG = -1 *)
  VarintRep (2 ^ 32 - 1) [xff; xff; xff; xff; x0f] /\ (2 ^ 32 - 1) mod 2 ^ 32 = (-1) mod 2 ^ 32 /\
  enum_post (class_of ex_body) (2 ^ 32 - 1) = (Some [x4e; x45; x47], -1).
Proof. split; [repeat split; cbn; lia|]. split; [reflexivity|vm_compute; reflexivity]. Qed.

(* ---- message level: one schema with all five positions ----
   enum 0:  ZERO=0 RED=1 ROUGE=1 (alias) NEG=-1 MIN=-2^31 MAX=2^31-1
   class 11: s: E = 1; r: repeated E = 2; m: map<string, E> = 3; oneof g0 { a: E = 4; b: string = 5 }; o: optional E = 6
   class 12: the synthetic Entry class of m *)
Definition ex5_enum : edesc :=
  mkE [([x5a; x45; x52; x4f], 0); ([x52; x45; x44], 1); ([x52; x4f; x55; x47; x45], 1); ([x4e; x45; x47], -1);
       ([x4d; x49; x4e], -2147483648); ([x4d; x41; x58], 2147483647)].
Definition ex5_schema : schema :=
  mkS (builtin_classes ++
       [mkC [mkF [x73] 1 TEnum None None None false (HPlain (PyEnum 0)) 0;
             mkF [x72] 2 TEnum None None None false (HList (PyEnum 0)) 0;
             mkF [x6d] 3 TMap (Some (TString, TEnum)) None None false (HDict PyStr (PyEnum 0)) 12;
             mkF [x61] 4 TEnum None (Some 0%nat) None false (HPlain (PyEnum 0)) 0;
             mkF [x62] 5 TString None (Some 0%nat) None false (HPlain PyStr) 0;
             mkF [x6f] 6 TEnum None None None true (HOptional (PyEnum 0)) 0] 1;
        mkC [mkF [x6b; x65; x79] 1 TString None None None false (HPlain PyStr) 0;
             mkF [x76; x61; x6c; x75; x65] 2 TEnum None None None false (HPlain (PyEnum 0)) 0] 0])
      [ex5_enum].
(* s = NEG; r = [RED (by its alias number), 5 (no name), MIN, ZERO]; m = {"k": 7 (no name), "": 1};
   the oneof selects a, holding its default 0; o is set to 0 *)
Definition ex5_obj : obj :=
  Obj 11 [PInt (-1); PList [PInt 1; PInt 5; PInt (-2147483648); PInt 0];
          PDict [(PStr [x6b], PInt 7); (PStr [], PInt 1)]; PInt 0; PPlaceholder; PInt 0]
      true [] [Some 3%nat].

Example C20_ex5_hypotheses :
  c01_schema_ok ex5_schema = true /\ c01_value_ok ex5_schema ex5_obj = true /\
  wf_schema ex5_schema = true /\ keys_ok CAMEL ex5_schema = true /\ keys_ok SNAKE ex5_schema = true /\
  good ex5_schema ex5_obj = true.
Proof. vm_compute. repeat split; reflexivity. Qed.

Example C20_ex5_positions :
  map enum_position (cfields (get_class ex5_schema 11)) =
  [Some (PosSingular, 0%nat); Some (PosRepeated, 0%nat); Some (PosMapValue, 0%nat); Some (PosOneof, 0%nat); None;
   Some (PosOptional, 0%nat)].
Proof. vm_compute. reflexivity. Qed.

(* every position holds numbers: named, alias, unnamed, negative, the int32 bounds, the default *)
Example C20_ex5_holds :
  read ex5_schema ex5_obj 0 = Ok (PInt (-1)) /\ holds_enum PosSingular (PInt (-1)) (-1) = true /\
  (exists x, read ex5_schema ex5_obj 1 = Ok x /\ holds_enum PosRepeated x 5 = true /\
             holds_enum PosRepeated x (-2147483648) = true /\ holds_enum PosRepeated x 1 = true) /\
  (exists x, read ex5_schema ex5_obj 2 = Ok x /\ holds_enum PosMapValue x 7 = true /\ holds_enum PosMapValue x 1 = true) /\
  read ex5_schema ex5_obj 3 = Ok (PInt 0) /\ holds_enum PosOneof (PInt 0) 0 = true /\
  read ex5_schema ex5_obj 5 = Ok (PInt 0) /\ holds_enum PosOptional (PInt 0) 0 = true.
Proof. vm_compute. repeat split; try reflexivity; eexists; repeat split; reflexivity. Qed.

(* the members the attributes are: NEG for -1, RED (first declared) for the alias number 1, a nameless value for 5 *)
Example C20_ex5_members :
  field_member ex5_schema 0 (PInt (-1)) = Some (Some [x4e; x45; x47], -1) /\
  field_member ex5_schema 0 (PInt 1) = Some (Some [x52; x45; x44], 1) /\
  field_member ex5_schema 0 (PInt 5) = Some (None, 5) /\
  In ([x52; x4f; x55; x47; x45], 1) (members_of (enum_body ex5_schema 0)).
Proof. vm_compute. repeat split; try reflexivity. right. right. left. reflexivity. Qed.

(* the binary round trip, computed: 5 positions come back reading as before, same bytes again *)
Example C20_ex5_binary :
  match enc_obj ex5_schema ex5_obj with
  | Ok bs =>
      (Zlength bs = 41) /\
      match parse ex5_schema 11 bs with
      | Ok m' => map (read ex5_schema m') [0; 1; 2; 3; 4; 5]%nat = map (read ex5_schema ex5_obj) [0; 1; 2; 3; 4; 5]%nat /\
                 read ex5_schema m' 4 = Err EAttribute /\ enc_obj ex5_schema m' = Ok bs
      | Err _ => False
      end
  | Err _ => False
  end.
Proof. vm_compute. repeat split; reflexivity. Qed.

(* the JSON document: names where there are names, numbers otherwise; and back *)
Example C20_ex5_json :
  to_dict CAMEL false ex5_schema ex5_obj =
  JObj [(JStr [x73], JStr [x4e; x45; x47]);
        (JStr [x72], JList [JStr [x52; x45; x44]; JInt 5; JStr [x4d; x49; x4e]; JStr [x5a; x45; x52; x4f]]);
        (JStr [x6d], JObj [(JStr [x6b], JInt 7); (JStr [], JStr [x52; x45; x44])]);
        (JStr [x61], JStr [x5a; x45; x52; x4f]);
        (JStr [x6f], JStr [x5a; x45; x52; x4f])] /\
  jlookup (key_of_field CAMEL (mkF [x72] 2 TEnum None None None false (HList (PyEnum 0)) 0)) (to_dict CAMEL false ex5_schema ex5_obj)
  = Some (enum_field_json ex5_schema 0 (PList [PInt 1; PInt 5; PInt (-2147483648); PInt 0])) /\
  match json_rt_inst SNAKE false ex5_schema ex5_obj (new ex5_schema 11) with
  | Ok m' => map (read ex5_schema m') [0; 1; 2; 3; 4; 5]%nat = map (read ex5_schema ex5_obj) [0; 1; 2; 3; 4; 5]%nat /\
             obj_eq ex5_schema m' ex5_obj = true /\ enc_obj ex5_schema m' = enc_obj ex5_schema ex5_obj
  | Err _ => False
  end.
Proof. vm_compute. repeat split; reflexivity. Qed.

(* a singular field holding 0 and empty containers are the ones to_dict leaves out; they still read as before *)
Definition ex5_default : obj :=
  Obj 11 [PInt 0; PList []; PDict []; PPlaceholder; PPlaceholder; PNone] true [] [None].
Example C20_ex5_default :
  c01_value_ok ex5_schema ex5_default = true /\ good ex5_schema ex5_default = true /\
  to_dict CAMEL false ex5_schema ex5_default = JObj [] /\
  enum_omitted PosSingular (PInt 0) = true /\ enum_omitted PosRepeated (PList []) = true /\
  match from_dict_cls ex5_schema 11 (JObj []) with
  | Ok m' => read ex5_schema m' 0 = Ok (PInt 0) /\ read ex5_schema m' 1 = Ok (PList []) /\ read ex5_schema m' 2 = Ok (PDict [])
  | Err _ => False
  end.
Proof. vm_compute. repeat split; reflexivity. Qed.

(* the built message in the example schema: -1 in the map position, key "k"; hypotheses of the _built theorems *)
Example C20_ex5_built :
  c01_schema_ok ex5_schema = true /\ wf_schema ex5_schema = true /\ keys_ok CAMEL ex5_schema = true /\
  nth_error (cfields (get_class ex5_schema 11)) 2 = Some (mkF [x6d] 3 TMap (Some (TString, TEnum)) None None false (HDict PyStr (PyEnum 0)) 12) /\
  int32 (-1) /\ scalar_in_range TString (PStr [x6b]) = true /\
  built ex5_schema 11 2 PosMapValue (PStr [x6b]) (-1) =
    Obj 11 [PPlaceholder; PPlaceholder; PDict [(PStr [x6b], PInt (-1))]; PPlaceholder; PPlaceholder; PNone] true [] [None] /\
  built ex5_schema 11 3 PosOneof PNone 5 =
    Obj 11 [PPlaceholder; PPlaceholder; PPlaceholder; PInt 5; PPlaceholder; PNone] true [] [Some 3%nat] /\
  to_dict CAMEL false ex5_schema (built ex5_schema 11 2 PosMapValue (PStr [x6b]) (-1)) =
    JObj [(JStr [x6d], JObj [(JStr [x6b], JStr [x4e; x45; x47])])].
Proof. unfold int32. vm_compute. repeat split; try reflexivity; discriminate. Qed.

(* an alias in the document: {"m": {"k": "ROUGE"}} gives the message holding 1 under "k" (whose member is RED) *)
Example C20_ex5_alias :
  json_names ex5_schema 0 (JStr [x52; x4f; x55; x47; x45]) 1 /\
  key_from_json TString (JStr [x6b]) = Ok (PStr [x6b]) /\
  from_dict_cls ex5_schema 11 (jdoc [x6d] PosMapValue (JStr [x6b]) (JStr [x52; x4f; x55; x47; x45]))
  = Ok (built ex5_schema 11 2 PosMapValue (PStr [x6b]) 1) /\
  from_dict_cls ex5_schema 11 (jdoc [x72] PosRepeated (JStr []) (JStr [x52; x4f; x55; x47; x45]))
  = Ok (built ex5_schema 11 1 PosRepeated PNone 1).
Proof.
  split; [right; exists [x52; x4f; x55; x47; x45]; split; [reflexivity|vm_compute; right; right; left; reflexivity]|].
  vm_compute. repeat split; reflexivity.
Qed.

(* ================================================================== gap closing against the property text
   (clause-by-clause table: header of Proofs/C20GapA.v).  First group: the enum class and the scalar / element level. *)

(* "THE ONE canonical member object": m is a table object EXACTLY when its number is declared and m is (first declared name, number);
   hence one object per number *)
Theorem C20_in_table_iff : forall body m,
  in_table (class_of body) m = true <->
  In (snd m) (map snd (members_of body)) /\ m = canon (members_of body) (snd m).
Proof. exact C20GapA.in_table_iff. Qed.
Print Assumptions C20_in_table_iff.

Theorem C20_one_object_per_number : forall body m m',
  in_table (class_of body) m = true -> in_table (class_of body) m' = true -> snd m = snd m' -> m = m'.
Proof. exact C20GapA.one_object_per_number. Qed.
Print Assumptions C20_one_object_per_number.

Theorem C20_aliases_same_object : forall body n n' v,
  In (n, v) (members_of body) -> In (n', v) (members_of body) ->
  getitem (class_of body) n = getitem (class_of body) n' /\
  exists m, getitem (class_of body) n = Ok m /\ in_table (class_of body) m = true /\ snd m = v.
Proof. exact C20GapA.aliases_same_object. Qed.
Print Assumptions C20_aliases_same_object.

(* converses: E(v) returns m iff v is declared and m is the canonical member; it raises ValueError, and nothing else, iff v is
   undeclared; E[n] / E.from_string(n) return m iff n is declared for some v and m is the canonical member of v *)
Theorem C20_call_iff : forall body v m,
  call (class_of body) v = Ok m <-> In v (map snd (members_of body)) /\ m = canon (members_of body) v.
Proof. exact C20GapA.call_iff. Qed.
Print Assumptions C20_call_iff.

Theorem C20_call_err_iff : forall body v k,
  call (class_of body) v = Err k <-> ~ In v (map snd (members_of body)) /\ k = EValue.
Proof. exact C20GapA.call_err_iff. Qed.
Print Assumptions C20_call_err_iff.

Theorem C20_getitem_iff : forall body n m,
  getitem (class_of body) n = Ok m <-> exists v, In (n, v) (members_of body) /\ m = canon (members_of body) v.
Proof. exact C20GapA.getitem_iff. Qed.
Print Assumptions C20_getitem_iff.

Theorem C20_from_string_iff : forall body n m,
  from_string (class_of body) n = Ok m <-> exists v, In (n, v) (members_of body) /\ m = canon (members_of body) v.
Proof. exact C20GapA.from_string_iff. Qed.
Print Assumptions C20_from_string_iff.

(* "whose name and number are those declared": the number always; the NAME of the member found under n is n exactly when n is the
   first name declared for that number (an alias finds the member carrying the first name); it is always a declared name of the number *)
Theorem C20_alias_name_refuted :
  exists body n v m, In (n, v) (members_of body) /\ getitem (class_of body) n = Ok m /\ fst m <> Some n /\ snd m = v.
Proof. exact C20GapA.alias_name_refuted. Qed.
Print Assumptions C20_alias_name_refuted.

Theorem C20_name_kept_iff : forall body n v,
  In (n, v) (members_of body) ->
  (getitem (class_of body) n = Ok (Some n, v) <-> first_name (members_of body) v = Some n).
Proof. exact C20GapA.name_kept_iff. Qed.
Print Assumptions C20_name_kept_iff.

Theorem C20_lookup_name_declared : forall body n m,
  getitem (class_of body) n = Ok m ->
  exists n0, fst m = Some n0 /\ In (n0, snd m) (members_of body) /\ In (n, snd m) (members_of body).
Proof. exact C20GapA.lookup_name_declared. Qed.
Print Assumptions C20_lookup_name_declared.

(* every entry point gives the same object: E(v), E[n], from_string, E.n, try_value, the binary decoder, from_dict on the name /
   the number / what to_dict wrote, iteration, copy, deepcopy, and the default generator when v = 0 *)
Theorem C20_lookups_agree : forall body n v,
  In (n, v) (members_of body) -> int32 v ->
  let c := class_of body in let M := canon (members_of body) v in
  call c v = Ok M /\ getitem c n = Ok M /\ from_string c n = Ok M /\ getattr_cls c n = Ok M /\
  try_value c v = M /\ enum_post c (v mod 2 ^ 64) = M /\
  from_json_el c (JName n) = Ok M /\ from_json_el c (JNum v) = Ok M /\ from_json_el c (to_json_el c v) = Ok M /\
  In M (iter c) /\ in_table c M = true /\ copy M = M /\ deepcopy M = M /\ snd M = v /\
  (v = 0 -> enum_default c = M).
Proof. exact C20GapA.lookups_agree. Qed.
Print Assumptions C20_lookups_agree.

(* defined / undefined is a dichotomy, seen the same way by every observer *)
Theorem C20_open_iff : forall body v,
  let c := class_of body in
  let defined := In v (map snd (members_of body)) in
  (fst (try_value c v) = None <-> ~ defined) /\
  (in_table c (try_value c v) = true <-> defined) /\
  (contains c (AMem (try_value c v)) = true <-> defined) /\
  (call c v = Err EValue <-> ~ defined) /\
  (call c v = Ok (try_value c v) <-> defined).
Proof. exact C20GapA.open_iff. Qed.
Print Assumptions C20_open_iff.

(* "compares equal to that integer": to that one only *)
Theorem C20_eq_int_iff : forall body v z, eq_int (try_value (class_of body) v) z = true <-> z = v.
Proof. exact C20GapA.eq_int_iff. Qed.
Print Assumptions C20_eq_int_iff.

(* the int32 bound of the quantifier is exact: for EVERY integer v the number read back from the varint of v is v iff v is an int32 *)
Theorem C20_roundtrip_number_iff : forall body v, snd (enum_post (class_of body) (v mod 2 ^ 64)) = v <-> int32 v.
Proof. exact C20GapA.roundtrip_number_iff. Qed.
Print Assumptions C20_roundtrip_number_iff.

Theorem C20_out_of_range_refuted :
  exists body v bs, ~ int32 v /\ enum_pre (try_value (class_of body) v) = Ok bs /\
    load_varint bs = Ok (v mod 2 ^ 64, bs, []) /\
    enum_post (class_of body) (v mod 2 ^ 64) = (None, - 2 ^ 31) /\
    enum_post (class_of body) (v mod 2 ^ 64) <> try_value (class_of body) v.
Proof. exact C20GapA.out_of_range_refuted. Qed.
Print Assumptions C20_out_of_range_refuted.

(* "keeps its number" as injectivity: two int32 numbers never share their bytes, two numbers never share their JSON element *)
Theorem C20_binary_injective : forall body v v' bs,
  int32 v -> int32 v' ->
  enum_pre (try_value (class_of body) v) = Ok bs -> enum_pre (try_value (class_of body) v') = Ok bs -> v = v'.
Proof. exact C20GapA.binary_injective. Qed.
Print Assumptions C20_binary_injective.

Theorem C20_json_injective : forall body v v',
  to_json_el (class_of body) v = to_json_el (class_of body) v' -> v = v'.
Proof. exact C20GapA.json_injective. Qed.
Print Assumptions C20_json_injective.

(* pickling: looking the unpickled member's number up again gives the original object (table member or open value) *)
Theorem C20_pickle_recanon : forall body v,
  let c := class_of body in let m := try_value c v in
  try_value c (snd (pickle_roundtrip m)) = m /\
  (in_table c m = true -> call c (snd (pickle_roundtrip m)) = Ok m) /\
  fst (pickle_roundtrip m) = fst m.
Proof. exact C20GapA.pickle_recanon. Qed.
Print Assumptions C20_pickle_recanon.

(* immutability, observationally: whatever was attempted before, every operation answers as on the fresh class; histories compose *)
Theorem C20_history_invisible : forall cn c ops o, step cn (fst (run cn c ops)) o = step cn c o.
Proof. exact C20GapA.history_invisible. Qed.
Print Assumptions C20_history_invisible.

Theorem C20_history_app : forall cn c ops1 ops2,
  fst (run cn c (ops1 ++ ops2)) = c /\
  snd (run cn c (ops1 ++ ops2)) = snd (run cn c ops1) ++ snd (run cn c ops2).
Proof. exact C20GapA.history_app. Qed.
Print Assumptions C20_history_app.

(* AttributeError is the answer of the four mutators and of E.<undefined name>, and of nothing else *)
Theorem C20_attribute_error_iff : forall cn body o,
  snd (step cn (class_of body) o) = CE EAttribute <->
  is_mutator o = true \/ C20GapA.undefined_getattr body o = true.
Proof. exact C20GapA.attribute_error_iff. Qed.
Print Assumptions C20_attribute_error_iff.

(* non-vacuity of the first gap group: ex_body has the alias ROUGE of RED, negative numbers, the int32 bounds *)
Example C20_gapA_nonvacuous :
  in_table (class_of ex_body) (Some [x52; x45; x44], 1) = true /\ in_table (class_of ex_body) (Some [x52; x4f; x55; x47; x45], 1) = false /\
  In ([x52; x45; x44], 1) (members_of ex_body) /\ In ([x52; x4f; x55; x47; x45], 1) (members_of ex_body) /\ int32 1 /\
  getitem (class_of ex_body) [x52; x4f; x55; x47; x45] = Ok (Some [x52; x45; x44], 1) /\
  first_name (members_of ex_body) 1 = Some [x52; x45; x44] /\
  call (class_of ex_body) 5 = Err EValue /\ eq_int (try_value (class_of ex_body) 5) 5 = true /\ eq_int (try_value (class_of ex_body) 5) 6 = false /\
  ~ int32 (2 ^ 31) /\ snd (enum_post (class_of ex_body) ((2 ^ 31) mod 2 ^ 64)) = - 2 ^ 31 /\
  enum_pre (try_value (class_of ex_body) (-1)) = Ok [xff; xff; xff; xff; xff; xff; xff; xff; xff; x01] /\
  to_json_el (class_of ex_body) 1 = JName [x52; x45; x44] /\
  pickle_roundtrip (try_value (class_of ex_body) (-1)) = (Some [x4e; x45; x47], -1) /\
  snd (step [x45] (class_of ex_body) (OGetattr [x58])) = CE EAttribute /\ C20GapA.undefined_getattr ex_body (OGetattr [x58]) = true /\
  snd (step [x45] (class_of ex_body) (OGetitem [x58])) = CE EKey.
Proof.
  unfold int32. repeat split; try (vm_compute; reflexivity); try lia.
  - vm_compute. right. left. reflexivity.
  - vm_compute. right. right. left. reflexivity.
Qed.

(* ------------------------------------------------------------------ gap closing, second group: the message level
   (Proofs/C20GapB.v).  enum_roundtrips sc m i e x v  names the conclusion of C20_roundtrip_message_binary: *)
Theorem C20_enum_roundtrips_is : forall sc m i e x v,
  C20GapB.enum_roundtrips sc m i e x v <->
  (int32 v /\
   field_member sc e (PInt v) = Some (canon (members_of (enum_body sc e)) v) /\
   exists bs, enc_obj sc m = Ok bs /\
     (Zlength bs < 2 ^ 64 ->
      exists m', parse sc (ocls m) bs = Ok m' /\ read sc m' i = Ok x /\
        (forall g, which_one_of m' g = which_one_of m g) /\ enc_obj sc m' = Ok bs)).
Proof. intros. reflexivity. Qed.
Print Assumptions C20_enum_roundtrips_is.

(* the value hypothesis of C20_roundtrip_message_binary is met by EVERY object a history of public-API operations produces from Cls()
   (constructor, setattr, nested assignment, reads, from_dict, copies, pickle, observers, m.parse(clean bytes): run7), under C01's decidable
   conditions on the OPERATIONS: any enum field of such an object, in any of the five positions, holding any number, round-trips *)
Theorem C20_roundtrip_binary_reachable : forall sc c ops m i f pos e x v,
  c01_schema_ok sc = true ->
  C01Reach.hist_ok C01Parse.op_value_ok_p sc (new sc c) ops = true -> C07Ops.run7 sc (new sc c) ops = Ok m ->
  nth_error (cfields (get_class sc (ocls m))) i = Some f -> enum_position f = Some (pos, e) ->
  read sc m i = Ok x -> holds_enum pos x v = true ->
  C20GapB.enum_roundtrips sc m i e x v.
Proof. exact C20GapB.roundtrip_binary_reachable. Qed.
Print Assumptions C20_roundtrip_binary_reachable.

(* the same from ANY state meeting C01's two conditions (e.g. a decoded message); the conditions hold again afterwards *)
Theorem C20_roundtrip_binary_run : forall sc ops o m i f pos e x v,
  c01_schema_ok sc = true -> c01_value_ok sc o = true -> sow_ok sc o = true ->
  C01Reach.hist_ok C01Parse.op_reach_ok_p sc o ops = true -> C07Ops.run7 sc o ops = Ok m ->
  nth_error (cfields (get_class sc (ocls m))) i = Some f -> enum_position f = Some (pos, e) ->
  read sc m i = Ok x -> holds_enum pos x v = true ->
  C20GapB.enum_roundtrips sc m i e x v /\ c01_value_ok sc m = true /\ sow_ok sc m = true.
Proof. exact C20GapB.roundtrip_binary_run. Qed.
Print Assumptions C20_roundtrip_binary_run.

(* the int32 bound at the message level is exact: C01's value condition holds of  m = Cls(); m.f = v  EXACTLY for int32 v;
   witness: m.s = 2^31 is stored, encoded, and comes back as -2^31 *)
Theorem C20_value_ok_iff_int32 : forall sc c i f pos e k v,
  c01_schema_ok sc = true ->
  nth_error (cfields (get_class sc c)) i = Some f -> enum_position f = Some (pos, e) ->
  (pos = PosMapValue -> scalar_in_range (key_type f) k = true) ->
  (c01_value_ok sc (built sc c i pos k v) = true <-> int32 v).
Proof. exact C20GapB.value_ok_iff_int32. Qed.
Print Assumptions C20_value_ok_iff_int32.

Theorem C20_message_out_of_range_refuted :
  exists sc c i f pos e k v,
    c01_schema_ok sc = true /\ nth_error (cfields (get_class sc c)) i = Some f /\ enum_position f = Some (pos, e) /\
    ~ int32 v /\ read sc (built sc c i pos k v) i = Ok (PInt v) /\
    exists bs m', enc_obj sc (built sc c i pos k v) = Ok bs /\ parse sc c bs = Ok m' /\ read sc m' i = Ok (PInt (- 2 ^ 31)).
Proof. exact C20GapB.message_out_of_range_refuted. Qed.
Print Assumptions C20_message_out_of_range_refuted.

(* with C09: len(m) = |bytes(m)| for the built message in every position and for every int32 number *)
Theorem C20_len_built : forall sc c i f pos e k v,
  c01_schema_ok sc = true ->
  nth_error (cfields (get_class sc c)) i = Some f -> enum_position f = Some (pos, e) ->
  int32 v -> (pos = PosMapValue -> scalar_in_range (key_type f) k = true) ->
  exists bs, enc_obj sc (built sc c i pos k v) = Ok bs /\ Len.len_obj sc (built sc c i pos k v) = Ok (Zlength bs).
Proof. exact C20GapB.len_built. Qed.
Print Assumptions C20_len_built.

(* with C14: pickling a MESSAGE keeps what every enum field reads as (and the selected oneof member, and the bytes) *)
Theorem C20_pickle_keeps_enum : forall sc m i f pos e x v,
  c01_schema_ok sc = true -> c01_value_ok sc m = true ->
  nth_error (cfields (get_class sc (ocls m))) i = Some f -> enum_position f = Some (pos, e) ->
  read sc m i = Ok x -> holds_enum pos x v = true ->
  (forall bs, enc_obj sc m = Ok bs -> Zlength bs < 2 ^ 64) ->
  exists m', History.pickle_rt sc m = Ok m' /\ read sc m' i = Ok x /\ (forall g, which_one_of m' g = which_one_of m g) /\
             enc_obj sc m' = enc_obj sc m.
Proof. exact C20GapB.pickle_keeps_enum. Qed.
Print Assumptions C20_pickle_keeps_enum.

(* evolution of the enum DEFINITION (the open set, seen from schema evolution), scalar level = the step shared by all five positions:
   a reader / writer whose definition differs in any way reads the number, re-emits the same bytes, and the writer reads its own value back *)
Theorem C20_enum_evolution_scalar : forall body body' v,
  int32 v ->
  exists bs,
    enum_pre (try_value (class_of body) v) = Ok bs /\
    (forall rest, load_varint (bs ++ rest) = Ok (v mod 2 ^ 64, bs, rest)) /\
    snd (enum_post (class_of body') (v mod 2 ^ 64)) = v /\
    enum_post (class_of body') (v mod 2 ^ 64) = try_value (class_of body') v /\
    enum_pre (enum_post (class_of body') (v mod 2 ^ 64)) = Ok bs /\
    enum_post (class_of body) (v mod 2 ^ 64) = try_value (class_of body) v.
Proof. exact C20GapB.enum_evolution_scalar. Qed.
Print Assumptions C20_enum_evolution_scalar.

(* JSON is open by NUMBER only: what a writer with definition body emits for v is read as v by a reader with body' EXACTLY when v has
   no name in body, or its first name there is declared for v in body' too; otherwise from_dict raises (witness) *)
Theorem C20_json_evolution_iff : forall body body' v,
  from_json_el (class_of body') (to_json_el (class_of body) v) = Ok (try_value (class_of body') v) <->
  (~ In v (map snd (members_of body)) \/
   exists n0, first_name (members_of body) v = Some n0 /\ In (n0, v) (members_of body')).
Proof. exact C20GapB.json_evolution_iff. Qed.
Print Assumptions C20_json_evolution_iff.

Theorem C20_json_evolution_refuted :
  exists body body' v, int32 v /\ from_json_el (class_of body') (to_json_el (class_of body) v) = Err EValue.
Proof. exact C20GapB.json_evolution_refuted. Qed.
Print Assumptions C20_json_evolution_refuted.

(* non-vacuity of the second group: a history  Cls(s=-1); m.r = [1, 5, -2^31]; m.m = {"k": 7}; m.a = 2^31-1; m.o; m.o = 0; copy; bytes; pickle
   meets the operation conditions, and the object it produces holds named, alias, unnamed, negative and boundary numbers in all five positions *)
Example C20_gapB_nonvacuous :
  c01_schema_ok C20GapDefs.gap_schema = true /\
  C01Reach.hist_ok C01Parse.op_value_ok_p C20GapDefs.gap_schema (new C20GapDefs.gap_schema 11) C20GapDefs.gap_hist = true /\
  C01Reach.hist_ok C01Parse.op_reach_ok_p C20GapDefs.gap_schema (new C20GapDefs.gap_schema 11) C20GapDefs.gap_hist = true /\
  c01_value_ok C20GapDefs.gap_schema (new C20GapDefs.gap_schema 11) = true /\ sow_ok C20GapDefs.gap_schema (new C20GapDefs.gap_schema 11) = true /\
  match C07Ops.run7 C20GapDefs.gap_schema (new C20GapDefs.gap_schema 11) C20GapDefs.gap_hist with
  | Ok m => ocls m = 11%nat /\
            map (read C20GapDefs.gap_schema m) [0; 1; 2; 3; 4; 5]%nat =
            [Ok (PInt (-1)); Ok (PList [PInt 1; PInt 5; PInt (-2147483648)]); Ok (PDict [(PStr [x6b], PInt 7)]);
             Ok (PInt 2147483647); Err EAttribute; Ok (PInt 0)] /\
            holds_enum PosRepeated (PList [PInt 1; PInt 5; PInt (-2147483648)]) 5 = true /\
            holds_enum PosMapValue (PDict [(PStr [x6b], PInt 7)]) 7 = true /\
            match enc_obj C20GapDefs.gap_schema m with
            | Ok bs => Zlength bs = 40 /\ Len.len_obj C20GapDefs.gap_schema m = Ok 40 /\
                       match History.pickle_rt C20GapDefs.gap_schema m with
                       | Ok m' => map (read C20GapDefs.gap_schema m') [0; 1; 2; 3; 4; 5]%nat = map (read C20GapDefs.gap_schema m) [0; 1; 2; 3; 4; 5]%nat
                       | Err _ => False
                       end
            | Err _ => False
            end
  | Err _ => False
  end /\
  map enum_position (cfields (get_class C20GapDefs.gap_schema 11)) =
  [Some (PosSingular, 0%nat); Some (PosRepeated, 0%nat); Some (PosMapValue, 0%nat); Some (PosOneof, 0%nat); None; Some (PosOptional, 0%nat)] /\
  scalar_in_range TString (PStr [x6b]) = true /\
  c01_value_ok C20GapDefs.gap_schema (built C20GapDefs.gap_schema 11 2 PosMapValue (PStr [x6b]) (-1)) = true /\
  c01_value_ok C20GapDefs.gap_schema (built C20GapDefs.gap_schema 11 2 PosMapValue (PStr [x6b]) (2 ^ 31)) = false /\
  (* enum evolution: the reader only knows Z = 0; RED = 1 arrives as the number 1, "RED" is refused; 5 (unnamed) passes in JSON *)
  enum_post (class_of [([x5a], 0)]) (1 mod 2 ^ 64) = (None, 1) /\
  from_json_el (class_of [([x5a], 0)]) (to_json_el (class_of ex_body) 5) = Ok (None, 5) /\
  from_json_el (class_of [([x5a], 0)]) (to_json_el (class_of ex_body) 1) = Err EValue.
Proof. vm_compute. repeat split; reflexivity. Qed.
