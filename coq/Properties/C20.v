(* C20 — enums are open, canonical and immutable.
   Statements only; every proof is one [exact] of a lemma of Proofs/EnumP.v.

   Vocabulary (Model/Enum.v, Proofs/EnumP.v):
     body : defn                   the class body, a list of  NAME = number  assignments, any length,
                                   any numbers (negatives, gaps, aliases), names possibly re-assigned
     members_of body               the namespace entries EnumType.__new__ turns into members
     class_of body : ecls          (_value_map_, _member_map_) as EnumType.__new__ builds them
     member = (option name, Z)     a member object: its .name and its number
     canon ms v = (first_name ms v, v)   specification: first declared name of number v, None if undefined
     in_table c m                  model of "m is the very object stored in the class table"
   Every theorem quantifies over ALL bodies / numbers / histories; nothing is bounded. *)
From BP Require Import Base.Prelude Model.Varint Model.Scalar Model.Enum Spec.Varint.
From BP Require Import Proofs.EnumP.

(* the namespace never holds a name twice, so the member list has distinct names whatever the body;
   a body with distinct non-dunder names is its own member list *)
Theorem C20_members_distinct : forall body, NoDup (map fst (members_of body)).
Proof. exact members_of_nodup. Qed.
Print Assumptions C20_members_distinct.

Theorem C20_members_plain_body : forall body,
  NoDup (map fst body) -> forallb (fun nv => negb (starts_dunder (fst nv))) body = true ->
  members_of body = body.
Proof. exact members_of_id. Qed.
Print Assumptions C20_members_plain_body.

(* what [first_name] means: the declaration  n = v  before which no declaration has number v *)
Theorem C20_first_name_spec : forall ms v n,
  first_name ms v = Some n <-> exists l1 l2, ms = l1 ++ (n, v) :: l2 /\ ~ In v (map snd l1).
Proof. exact first_name_Some. Qed.
Print Assumptions C20_first_name_spec.

(* lookup by number: the member whose number is v and whose name is the first declared for v;
   it is the table object; try_value returns the same object *)
Theorem C20_by_number : forall body n v,
  In (n, v) (members_of body) ->
  exists n0 l1 l2,
    members_of body = l1 ++ (n0, v) :: l2 /\ ~ In v (map snd l1) /\
    call (class_of body) v = Ok (Some n0, v) /\
    try_value (class_of body) v = (Some n0, v) /\
    in_table (class_of body) (Some n0, v) = true.
Proof. exact by_number. Qed.
Print Assumptions C20_by_number.

(* lookup by name — E[n], E.from_string(n), E.n — for every declared name, aliases included,
   returns what lookup by number returns: the canonical member, whose number is the declared one *)
Theorem C20_by_name : forall body n v,
  In (n, v) (members_of body) ->
  let c := class_of body in
  getitem c n = call c v /\ from_string c n = call c v /\ getattr_cls c n = call c v /\
  call c v = Ok (canon (members_of body) v) /\ snd (canon (members_of body) v) = v.
Proof. exact by_name. Qed.
Print Assumptions C20_by_name.

Theorem C20_undefined_name : forall body n,
  ~ In n (map fst (members_of body)) ->
  let c := class_of body in
  getitem c n = Err EKey /\ from_string c n = Err EValue /\ getattr_cls c n = Err EAttribute.
Proof. exact undefined_name. Qed.
Print Assumptions C20_undefined_name.

(* open set: an undefined number is rejected by E(v) but accepted by try_value (the decoder's and the
   default generator's entry point) as a nameless value that equals the integer *)
Theorem C20_open : forall body v,
  ~ In v (map snd (members_of body)) ->
  let c := class_of body in
  call c v = Err EValue /\ try_value c v = (None, v) /\ eq_int (try_value c v) v = true /\
  contains c (AMem (try_value c v)) = false /\ in_table c (try_value c v) = false.
Proof. exact open_value. Qed.
Print Assumptions C20_open.

Theorem C20_number_kept : forall body v,
  snd (try_value (class_of body) v) = v /\ eq_int (try_value (class_of body) v) v = true.
Proof. exact try_value_number. Qed.
Print Assumptions C20_number_kept.

Theorem C20_default : forall body,
  enum_default (class_of body) = canon (members_of body) 0 /\ snd (enum_default (class_of body)) = 0.
Proof. exact default_is_zero. Qed.
Print Assumptions C20_default.

(* iteration yields, per declared name in order, the canonical member of its number (aliases repeat it) *)
Theorem C20_iteration : forall body,
  let c := class_of body in let ms := members_of body in
  iter c = map (fun nv => canon ms (snd nv)) ms /\ len c = Zlength ms /\ reversed c = rev (iter c).
Proof. exact iteration. Qed.
Print Assumptions C20_iteration.

(* ... and agrees with _value_map_ both ways; one table entry per distinct declared number *)
Theorem C20_iteration_consistent : forall body,
  let c := class_of body in
  (forall m, In m (iter c) -> call c (snd m) = Ok m /\ contains c (AMem m) = true /\ in_table c m = true) /\
  (forall v m, zget v (vmap c) = Some m -> In m (iter c) /\ snd m = v) /\
  NoDup (map fst (vmap c)) /\
  (forall v, In v (map fst (vmap c)) <-> In v (map snd (members_of body))).
Proof. exact iteration_consistent. Qed.
Print Assumptions C20_iteration_consistent.

(* immutability: the four guards reject, on every class state and member ... *)
Theorem C20_immutable_guards : forall c n x m key,
  cls_setattr c n x = Err EAttribute /\ cls_delattr c n = Err EAttribute /\
  mem_setattr m key x = Err EAttribute /\ mem_delattr m key = Err EAttribute.
Proof. exact mutators_rejected. Qed.
Print Assumptions C20_immutable_guards.

(* ... and over every history of public operations (20 kinds, mutation attempts interleaved) the class
   tables stay the ones the class was created with and each outcome is the one on the fresh class *)
Theorem C20_immutable_histories : forall cn c ops,
  fst (run cn c ops) = c /\ snd (run cn c ops) = map (fun o => snd (step cn c o)) ops.
Proof. exact immutable_histories. Qed.
Print Assumptions C20_immutable_histories.

Theorem C20_mutations_raise : forall cn c ops,
  Forall2 (fun o out => is_mutator o = true -> out = CE EAttribute) ops (snd (run cn c ops)).
Proof. exact mutations_in_histories. Qed.
Print Assumptions C20_mutations_raise.

(* copy / deepcopy return the member itself; pickling re-creates (name, number) *)
Theorem C20_copy : forall c m,
  copy m = m /\ deepcopy m = m /\
  in_table c (copy m) = in_table c m /\ in_table c (deepcopy m) = in_table c m.
Proof. exact copy_identity. Qed.
Print Assumptions C20_copy.

Theorem C20_pickle : forall m,
  pickle_roundtrip m = m /\ fst (pickle_roundtrip m) = fst m /\ snd (pickle_roundtrip m) = snd m.
Proof. exact pickle_preserves. Qed.
Print Assumptions C20_pickle.

(* binary codec, scalar level (the step shared by the singular, oneof, optional, unpacked-repeated and
   map-value positions): for every int32 number, defined or not, the varint written by
   _preprocess_single is read back by load_varint and turned by _postprocess_single (as fixed by
   fixes/c20-f3-enum-int32-decode.patch = /repo commit bdf150b) into the same value: canonical member or open value.
   _partial: the message level (tag, length prefix, which field is written where, presence) is the lead's
   codec model (C01); the five positions are exercised on the implementation by the oracle. *)
Theorem C20_roundtrip_scalar_partial : forall body v,
  int32 v ->
  let c := class_of body in
  exists bs,
    enum_pre (try_value c v) = Ok bs /\
    enum_len (try_value c v) = Ok (Zlength bs) /\
    (forall rest, load_varint (bs ++ rest) = Ok (v mod 2 ^ 64, bs, rest)) /\
    enum_post c (v mod 2 ^ 64) = try_value c v /\
    snd (enum_post c (v mod 2 ^ 64)) = v.
Proof. exact scalar_roundtrip. Qed.
Print Assumptions C20_roundtrip_scalar_partial.

(* packed repeated field: the whole list, through the while loop of Message.load *)
Theorem C20_roundtrip_packed_partial : forall body vs,
  Forall int32 vs ->
  exists buf, enum_pack vs = Ok buf /\
              enum_unpack (class_of body) buf = Ok (map (try_value (class_of body)) vs).
Proof. exact packed_roundtrip. Qed.
Print Assumptions C20_roundtrip_packed_partial.

(* a defined number decodes to the canonical member object itself *)
Theorem C20_decode_defined_is_canonical : forall body n v,
  In (n, v) (members_of body) -> int32 v ->
  in_table (class_of body) (enum_post (class_of body) (v mod 2 ^ 64)) = true /\
  call (class_of body) v = Ok (enum_post (class_of body) (v mod 2 ^ 64)).
Proof. exact decode_defined_is_canonical. Qed.
Print Assumptions C20_decode_defined_is_canonical.

(* every legal encoding — minimal or padded, ten-byte sign-extended or the five-byte form some encoders
   write for negative enum numbers (any varint congruent to v modulo 2^32) — is read as v *)
Theorem C20_any_encoding_decodes : forall body v raw bs rest,
  int32 v -> raw mod 2 ^ 32 = v mod 2 ^ 32 -> VarintRep raw bs ->
  load_varint (bs ++ rest) = Ok (raw, bs, rest) /\
  enum_post (class_of body) raw = try_value (class_of body) v.
Proof. exact any_encoding_decodes. Qed.
Print Assumptions C20_any_encoding_decodes.

(* any varint at all decodes to an int32 number (the reference truncates the same way) *)
Theorem C20_decoded_is_int32 : forall body raw, int32 (snd (enum_post (class_of body) raw)).
Proof. exact decoded_number_is_int32. Qed.
Print Assumptions C20_decoded_is_int32.

(* the original snapshot e3745e3 (no truncation; [enum_post_pinned]): right for non-negative numbers, wrong for
   negative ones — defect F3, repaired by bdf150b; kept as the regression statement *)
Theorem C20_roundtrip_pinned_nonneg : forall body v,
  0 <= v < 2 ^ 31 -> enum_post_pinned (class_of body) (v mod 2 ^ 64) = try_value (class_of body) v.
Proof. exact scalar_roundtrip_pinned_partial. Qed.
Print Assumptions C20_roundtrip_pinned_nonneg.

Theorem C20_roundtrip_pinned_refuted :
  exists body v, int32 v /\
    enum_post_pinned (class_of body) (v mod 2 ^ 64) <> try_value (class_of body) v /\
    snd (enum_post_pinned (class_of body) (v mod 2 ^ 64)) = 2 ^ 64 - 1.
Proof. exact scalar_roundtrip_pinned_refuted. Qed.
Print Assumptions C20_roundtrip_pinned_refuted.

Theorem C20_packed_pinned_refuted :
  exists body vs buf, Forall int32 vs /\ enum_pack vs = Ok buf /\
    enum_unpack_pinned (class_of body) buf <> Ok (map (try_value (class_of body)) vs).
Proof. exact packed_roundtrip_pinned_refuted. Qed.
Print Assumptions C20_packed_pinned_refuted.

(* dict / JSON codec, element level (as fixed by fixes/c20-f8-unnamed-enum-json.patch = /repo commit f0e3c24;
   the same element functions serve singular, optional, oneof, repeated and — since a49c080 — map values): every number comes
   back as the same value; a defined number travels as its first declared name, an undefined one as the number.
   _partial: the message level of to_dict/from_dict (casing, default skipping, containers) is C04's model. *)
Theorem C20_roundtrip_json_partial : forall body v,
  let c := class_of body in
  from_json_el c (to_json_el c v) = Ok (try_value c v) /\
  (In v (map snd (members_of body)) ->
     exists n0, to_json_el c v = JName n0 /\ first_name (members_of body) v = Some n0) /\
  (~ In v (map snd (members_of body)) -> to_json_el c v = JNum v).
Proof. exact json_roundtrip. Qed.
Print Assumptions C20_roundtrip_json_partial.

Theorem C20_roundtrip_json_list_partial : forall body vs,
  from_json_list (class_of body) (to_json_list (class_of body) vs) = Ok (map (try_value (class_of body)) vs).
Proof. exact json_list_roundtrip. Qed.
Print Assumptions C20_roundtrip_json_list_partial.

Theorem C20_json_accepts_alias : forall body n v,
  In (n, v) (members_of body) ->
  from_json_el (class_of body) (JName n) = Ok (try_value (class_of body) v).
Proof. exact json_accepts_alias. Qed.
Print Assumptions C20_json_accepts_alias.

(* to_dict of the original snapshot ([to_json_el_pinned]): same answer on defined numbers, ValueError on EVERY
   undefined one — defect F8, repaired by f0e3c24; kept as the regression statement *)
Theorem C20_json_pinned_defined : forall body v,
  In v (map snd (members_of body)) ->
  to_json_el_pinned (class_of body) v = Ok (to_json_el (class_of body) v).
Proof. exact json_pinned_partial. Qed.
Print Assumptions C20_json_pinned_defined.

Theorem C20_json_pinned_refuted :
  exists body v, int32 v /\ to_json_el_pinned (class_of body) v = Err EValue.
Proof. exact json_pinned_refuted. Qed.
Print Assumptions C20_json_pinned_refuted.

Theorem C20_json_pinned_open_refuted : forall body v,
  ~ In v (map snd (members_of body)) -> to_json_el_pinned (class_of body) v = Err EValue.
Proof. exact json_pinned_rejects_every_open_value. Qed.
Print Assumptions C20_json_pinned_open_refuted.

(* ------------------------------------------------------------------ non-vacuity *)
Definition ex_body : defn :=   (* ZERO=0 RED=1 ROUGE=1 NEG=-1 MAX=2^31-1 MIN=-2^31, then RED re-assigned to 1 again, __x=9 *)
  [([x5a; x45; x52; x4f], 0); ([x52; x45; x44], 1); ([x52; x4f; x55; x47; x45], 1); ([x4e; x45; x47], -1);
   ([x4d; x41; x58], 2147483647); ([x4d; x49; x4e], -2147483648); ([x5f; x5f; x78], 9)].

Example C20_ex_members : members_of ex_body = firstn 6 ex_body /\ In ([x52; x4f; x55; x47; x45], 1) (members_of ex_body).
Proof. vm_compute. split; [reflexivity|]. right. right. left. reflexivity. Qed.

Example C20_ex_alias :   (* E["ROUGE"] is E(1) and is named RED *)
  getitem (class_of ex_body) [x52; x4f; x55; x47; x45] = Ok (Some [x52; x45; x44], 1) /\
  call (class_of ex_body) 1 = Ok (Some [x52; x45; x44], 1) /\
  len (class_of ex_body) = 6 /\ length (vmap (class_of ex_body)) = 5%nat.
Proof. vm_compute. repeat split. Qed.

Example C20_ex_reassigned :   (* A=1; B=2; A=2  ->  members A=2 (first position), B=2: B is an alias of A *)
  members_of [([x41], 1); ([x42], 2); ([x41], 2)] = [([x41], 2); ([x42], 2)] /\
  getitem (class_of [([x41], 1); ([x42], 2); ([x41], 2)]) [x42] = Ok (Some [x41], 2).
Proof. vm_compute. split; reflexivity. Qed.

Example C20_ex_open : ~ In 5 (map snd (members_of ex_body)) /\ try_value (class_of ex_body) 5 = (None, 5).
Proof. split; [vm_compute; intuition discriminate|vm_compute; reflexivity]. Qed.

Example C20_ex_undefined_name : ~ In [x58] (map fst (members_of ex_body)).
Proof. vm_compute. intuition discriminate. Qed.

Example C20_ex_history :   (* a history with mutation attempts leaves the tables alone and reports AttributeError *)
  run [x45] (class_of ex_body)
      [OSetattrCls [x52; x45; x44] 7; OCall 1; ODelattrMem 1 [x6e; x61; x6d; x65]; OLen] =
  (class_of ex_body,
   [CE EAttribute; CL [CB [x52; x45; x44]; CZ 1; CZ 1]; CE EAttribute; CZ 6]).
Proof. vm_compute. reflexivity. Qed.

Example C20_ex_binary :   (* -1 and -2^31 are int32; their ten-byte varints decode to the declared members *)
  int32 (-1) /\ int32 (-2147483648) /\ Forall int32 [0; -1; 5; -2147483648] /\
  enum_pre (try_value (class_of ex_body) (-1)) = Ok [xff; xff; xff; xff; xff; xff; xff; xff; xff; x01] /\
  enum_post (class_of ex_body) (2 ^ 64 - 1) = (Some [x4e; x45; x47], -1) /\
  enum_post (class_of ex_body) (2 ^ 64 - 2 ^ 31) = (Some [x4d; x49; x4e], -2147483648) /\
  enum_unpack (class_of ex_body) [x00; xff; xff; xff; xff; xff; xff; xff; xff; xff; x01; x05] =
    Ok [(Some [x5a; x45; x52; x4f], 0); (Some [x4e; x45; x47], -1); (None, 5)].
Proof.
  unfold int32. split; [lia|]. split; [lia|]. split; [repeat constructor; lia|].
  vm_compute. repeat split.
Qed.

Example C20_ex_json :
  to_json_el (class_of ex_body) 1 = JName [x52; x45; x44] /\ to_json_el (class_of ex_body) (-7) = JNum (-7) /\
  from_json_el (class_of ex_body) (JNum (-7)) = Ok (None, -7) /\
  from_json_el (class_of ex_body) (JName [x52; x4f; x55; x47; x45]) = Ok (Some [x52; x45; x44], 1).
Proof. vm_compute. repeat split. Qed.

Example C20_ex_five_byte_negative :   (* ff ff ff ff 0f = 2^32-1 is read as NEG = -1 *)
  VarintRep (2 ^ 32 - 1) [xff; xff; xff; xff; x0f] /\ (2 ^ 32 - 1) mod 2 ^ 32 = (-1) mod 2 ^ 32 /\
  enum_post (class_of ex_body) (2 ^ 32 - 1) = (Some [x4e; x45; x47], -1).
Proof. split; [repeat split; cbn; lia|]. split; [reflexivity|vm_compute; reflexivity]. Qed.
