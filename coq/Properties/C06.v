(* C06 — proto3 defaults and field presence (work in progress: theorems are added below as they are proved) *)
From BP Require Import Base.Prelude Model.Types Model.Object Model.Encode Model.C06Obs Spec.C06Wire.
