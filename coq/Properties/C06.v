(* C06 — proto3 defaults and field presence are encoded and recovered correctly.

   Vocabulary (definitions, no proofs):
     Model/Object.v  Encode.v  Decode.v   the shared mirror of Message (new / construct / setattr / getattr, enc_obj = bytes(m),
                                          parse), validated against the implementation on every run
     Model/C06Obs.v   is_set, value_not_none (`m.f is not None`), child_on_wire (serialized_on_wire(m.f)), assign_path
                      (`m.a.b.x = v`), [here] = what one field contributes to bytes(m), [body] = the loop of dump,
                      emitted_in = bytes(m) contains the field's contribution and it starts with the field's tag
     Spec/C06Wire.v   independent of the codec: the record grammar is_record / is_records over Spec/Varint.v's VarintRep,
                      the executable reader parse_records, fits (wire type table), has_record, last_member,
                      proto3_default, starts_with_tag, and the presence classes of a field
                      (implicit_field, optional_like, explicit_field, plain_msg_field, plain_msg)
     Model/WellFormed.v  wf_schema;  Spec/C06Wire.v std_builtins_b (class table starts with betterproto's own classes)

   from_dict (the fourth way of setting): Model/Json.v from_dict_cls (Cls.from_dict(d)) and from_dict_inst (m.from_dict(d)),
   the model C04 validates; Model/C06Dict.v is the vocabulary for reading the mapping the way _from_dict_init does
   (key_index, dict_lookup = the value of the LAST item assigning a field, given_order = the order of the setattr calls of
   the instance form, singular_json = not None / not a list, emitted_once_in = emitted as exactly one record).
   The theorems are in the second half of this file (names C06_..._from_dict...); proofs in the Proofs/C06Dict files.
   Quirk the theorems make explicit: when a mapping gives two members of one oneof group, the class form keeps the LAST IN
   DECLARATION ORDER (the constructor), the instance form the LAST IN DICT ORDER (setattr); each emits exactly its winner.
   Message.is_set of an implicit-presence field flips after a mere read (DESIGN K4): proto3 gives such a field no presence,
   so every statement below is about explicit-presence fields (C14 owns observer purity). *)
From BP Require Import Base.Prelude Model.Types Model.Varint Model.Object Model.Eq Model.Encode Model.Decode.
From BP Require Import Model.WellFormed Model.C06Obs Model.Canon Model.Json Model.C06Dict.
From BP Require Import Spec.Varint Spec.C06Wire Spec.C06Zero.
From BP Require Proofs.C04Def Model.C07Ops.
From BP Require Import Proofs.C06SpecP Proofs.C06EncP Proofs.C06PresP Proofs.C06WaysP Proofs.C06FinalP Proofs.C06ZeroP.
From BP Require Import Proofs.C06DictKwP Proofs.C06DictStateP Proofs.C06DictClsP Proofs.C06DictInstP Proofs.C06DictRecP Proofs.C06DictFinalP.
From BP Require Import Proofs.C06DictOnceP Proofs.C06DictZeroP.
From BP Require Import Model.C01Def Model.C06GapDefs Proofs.C06GapA Proofs.C06GapB Proofs.C06GapC.
From BP Require Model.History Model.C01Reach Model.C01Parse Model.C17Typed Model.C17Nested Proofs.C17NestedAcceptP.

(* bytes(m) is the concatenation of one contribution per field, in declaration order, then the unknown bytes;
   [here sc cur i x f] is the contribution of field i holding raw value x *)
Theorem C06_bytes_decompose : forall sc c raw sow unk cur,
  enc_obj sc (Obj c raw sow unk cur) =
  (do b <- body sc cur 0 raw (cfields (get_class sc c)); Ok (b ++ unk)).
Proof. exact enc_obj_body. Qed.
Print Assumptions C06_bytes_decompose.

Theorem C06_field_segment : forall sc c raw sow unk cur i x f bs,
  nth_error raw i = Some x -> nth_error (cfields (get_class sc c)) i = Some f ->
  enc_obj sc (Obj c raw sow unk cur) = Ok bs ->
  exists pre h post, here sc cur i x f = Ok h /\ bs = pre ++ h ++ post.
Proof. exact enc_obj_split. Qed.
Print Assumptions C06_field_segment.

(* ---- a fresh message encodes to zero bytes and reads every field as its proto3 default ---- *)
Theorem C06_fresh : forall sc c,
  wf_schema sc = true ->
  enc_obj sc (new sc c) = Ok [] /\
  forall i f, nth_error (cfields (get_class sc c)) i = Some f -> read sc (new sc c) i = proto3_default sc f.
Proof. exact fresh. Qed.
Print Assumptions C06_fresh.

(* ---- an implicit-presence field holding its default is never emitted, whatever the other fields hold:
        the encoding equals the encoding with that field reset to PLACEHOLDER ---- *)
Theorem C06_implicit_skip : forall sc c raw sow unk cur i f x,
  nth_error (cfields (get_class sc c)) i = Some f -> nth_error raw i = Some x ->
  implicit_field f -> is_default sc f x = true ->
  (forall enc, emit_field enc sc f None x = Ok []) /\
  here sc cur i x f = Ok [] /\
  enc_obj sc (Obj c raw sow unk cur) = enc_obj sc (Obj c (set_nth i PPlaceholder raw) sow unk cur).
Proof. exact implicit_skip_full. Qed.
Print Assumptions C06_implicit_skip.

(* ---- an explicit-presence field that holds a value — even its default — contributes a record with its number ---- *)
(* in any object state: a proto3-optional field, a wrapper field, or the member its oneof group selects *)
Theorem C06_explicit_emit : forall sc cur i x f bs,
  1 <= fnum f < 2 ^ 29 -> fmap f = None ->
  explicit_kind cur i f -> is_value x -> singular_value x ->
  here sc cur i x f = Ok bs ->
  starts_with_tag (fnum f) (base_wire_type (fty f)) bs.
Proof. exact explicit_emit_here. Qed.
Print Assumptions C06_explicit_emit.

(* set to the ZERO of its scalar type (Spec/C06Zero.v: 0, false, "", b"", 0.0), a proto3-optional field or the selected
   oneof member contributes exactly ONE complete record of the grammar: its tag, then the zero payload *)
Theorem C06_explicit_zero_record : forall sc cur i x f h wt after rb,
  1 <= fnum f < 2 ^ 29 -> fwraps f = None ->
  (fgroup f = None /\ fopt f = true) \/ group_selects cur f i = Some true ->
  zero_record (fty f) x = Some (wt, after, rb) ->
  here sc cur i x f = Ok h ->
  is_record (mkR (fnum f) wt 0 rb) h /\ wt = base_wire_type (fty f).
Proof. exact explicit_zero_record. Qed.
Print Assumptions C06_explicit_zero_record.

(* way 1, constructor: whatever keyword arguments were given, if the field's attribute holds a value (and, for a oneof
   member, no later member of its group was given as well: the constructor lets the last one in declaration order win) *)
Theorem C06_explicit_emit_construct : forall sc c kw i f o,
  wf_schema sc = true ->
  nth_error (cfields (get_class sc c)) i = Some f -> explicit_field f ->
  o = construct sc c kw ->
  is_value (raw_at o i) -> singular_value (raw_at o i) ->
  (forall g, fgroup f = Some g ->
     forall k f', (i < k)%nat -> nth_error (cfields (get_class sc c)) k = Some f' -> fgroup f' = Some g ->
                  is_sentinel f' (raw_at o k) = true) ->
  emitted_in sc o i f /\ (forall g, fgroup f = Some g -> which_one_of o g = Some i).
Proof. exact emit_after_construct. Qed.
Print Assumptions C06_explicit_emit_construct.

(* way 2, attribute assignment on any object of the right shape: the assigned member becomes the selected one *)
Theorem C06_explicit_emit_setattr : forall sc o i f v,
  wf_schema sc = true ->
  nth_error (cfields (get_class sc (ocls o))) i = Some f ->
  length (oraw o) = length (cfields (get_class sc (ocls o))) -> length (ocur o) = cngroups (get_class sc (ocls o)) ->
  explicit_field f -> is_value v -> singular_value v ->
  emitted_in sc (setattr sc o i v) i f /\
  (forall g, fgroup f = Some g -> which_one_of (setattr sc o i v) g = Some i).
Proof. exact emit_after_setattr. Qed.
Print Assumptions C06_explicit_emit_setattr.

(* way 3, parse: a received optional / wrapper field, and the last received member of a oneof, are re-emitted *)
Theorem C06_explicit_emit_parse_optional : forall sc c bs rs m j f,
  wf_schema sc = true -> std_builtins_b sc = true ->
  is_records rs bs -> parse sc c bs = Ok m ->
  nth_error (cfields (get_class sc c)) j = Some f -> optional_like f ->
  has_record f rs = true -> emitted_in sc m j f.
Proof. exact emit_after_parse_optional. Qed.
Print Assumptions C06_explicit_emit_parse_optional.

Theorem C06_explicit_emit_parse_oneof : forall sc c bs rs m g i f,
  wf_schema sc = true -> std_builtins_b sc = true ->
  is_records rs bs -> parse sc c bs = Ok m ->
  nth_error (cfields (get_class sc c)) i = Some f ->
  last_member (get_class sc c) g rs = Some i ->
  which_one_of m g = Some i /\ emitted_in sc m i f.
Proof. exact emit_after_parse_oneof. Qed.
Print Assumptions C06_explicit_emit_parse_oneof.

(* ---- a plain sub-message field is emitted exactly when serialized_on_wire(child) says so ----
   for the direct child of the message being encoded; "flag consistent" = a child whose flag is down is a default message *)
Theorem C06_submessage : forall sc c raw sow unk cur i f ch all,
  wf_schema sc = true ->
  nth_error (cfields (get_class sc c)) i = Some f -> nth_error raw i = Some (PMsg ch) ->
  plain_msg_field f ->
  enc_obj sc (Obj c raw sow unk cur) = Ok all ->
  exists pre h post, all = pre ++ h ++ post /\ here sc cur i (PMsg ch) f = Ok h /\
    (osow ch = true -> starts_with_tag (fnum f) 2 h) /\
    (osow ch = false -> is_default sc f (PMsg ch) = true -> h = []) /\
    ((osow ch = false -> is_default sc f (PMsg ch) = true) -> (h <> [] <-> osow ch = true)).
Proof. exact submessage. Qed.
Print Assumptions C06_submessage.

(* the flag is consistent for every child built by the constructor, by assignment or by parse
   (it was received: parse marks it; something was assigned inside it; or it is non-default) *)
Theorem C06_flag_construct : forall sc c kw f,
  wf_schema sc = true -> fhint f = HPlain (PyMsg c) ->
  osow (construct sc c kw) = false -> is_default sc f (PMsg (construct sc c kw)) = true.
Proof. exact construct_flag. Qed.
Print Assumptions C06_flag_construct.

Theorem C06_flag_setattr : forall sc o i v f,
  nth_error (cfields (get_class sc (ocls o))) i = Some f -> osow (setattr sc o i v) = true.
Proof. exact setattr_sow. Qed.
Print Assumptions C06_flag_setattr.

Theorem C06_flag_parse : forall sc c bs m, parse sc c bs = Ok m -> osow m = true.
Proof. exact parse_sow. Qed.
Print Assumptions C06_flag_parse.

(* ---- after parse, an explicit-presence field is reported set exactly when a record that belongs to it occurs ---- *)
(* proto3 optional and wrapper fields: `m.f is not None` (and Message.is_set for optional fields) *)
Theorem C06_decode_presence_optional : forall sc c bs rs m j f,
  wf_schema sc = true -> std_builtins_b sc = true ->
  is_records rs bs -> parse sc c bs = Ok m ->
  nth_error (cfields (get_class sc c)) j = Some f -> optional_like f ->
  value_not_none sc m j = has_record f rs /\
  (fopt f = true -> is_set sc m j = has_record f rs).
Proof. exact decode_optional. Qed.
Print Assumptions C06_decode_presence_optional.

(* oneof groups: which_one_of is the LAST member that occurs *)
Theorem C06_decode_presence_oneof : forall sc c bs rs m g,
  wf_schema sc = true -> std_builtins_b sc = true ->
  is_records rs bs -> parse sc c bs = Ok m ->
  which_one_of m g = last_member (get_class sc c) g rs.
Proof. exact decode_oneof. Qed.
Print Assumptions C06_decode_presence_oneof.

(* plain sub-message fields: serialized_on_wire(m.f) *)
Theorem C06_decode_presence_submessage : forall sc c bs rs m j f,
  wf_schema sc = true -> std_builtins_b sc = true ->
  is_records rs bs -> parse sc c bs = Ok m ->
  nth_error (cfields (get_class sc c)) j = Some f -> plain_msg f ->
  child_on_wire m j = has_record f rs.
Proof. exact decode_submessage. Qed.
Print Assumptions C06_decode_presence_submessage.

(* whatever the executable reader (the one the harness compares with google.protobuf) accepts is in the grammar *)
Theorem C06_spec_reader_sound : forall bs rs, parse_records bs = Some rs -> is_records rs bs.
Proof. exact parse_records_sound. Qed.
Print Assumptions C06_spec_reader_sound.

(* ---- K12 (known finding, class lazy-path): the flags of lazily created intermediates are never raised ---- *)
(* m = Inner(); m.rec.rec.x = 0 : serialized_on_wire(m.rec.rec) is True yet bytes(m) is empty *)
Theorem C06_lazy_path_refuted :
  wf_schema k12_schema = true /\
  exists m leaf, k12_after 0 = Ok m /\ descend k12_schema m [1%nat; 1%nat] = Ok leaf /\
                 osow leaf = true /\ enc_obj k12_schema m = Ok [].
Proof. exact lazy_path_default_witness. Qed.
Print Assumptions C06_lazy_path_refuted.

(* m.rec.rec.x = 5 : m.rec is emitted although serialized_on_wire(m.rec) is False (its flag is not consistent) *)
Theorem C06_lazy_path_nondefault_refuted :
  exists m child, k12_after 5 = Ok m /\ descend k12_schema m [1%nat] = Ok child /\
                  osow child = false /\ child_on_wire m 1 = false /\
                  enc_obj k12_schema m = Ok [x1a; x04; x1a; x02; x08; x05].
Proof. exact lazy_path_nondefault_witness. Qed.
Print Assumptions C06_lazy_path_nondefault_refuted.

(* ---- non-vacuity ---- *)
Definition ex_schema : schema :=
  mkS (builtin_classes ++
       [mkC [mkF [x78] 1 TInt32 None None None false (HPlain PyInt) 0;                       (* x: implicit *)
             mkF [x6f] 2 TInt32 None None None true (HOptional PyInt) 0;                     (* o: proto3 optional *)
             mkF [x61] 3 TString None (Some 0%nat) None false (HPlain PyStr) 0;              (* a: oneof g0 *)
             mkF [x62] 4 TInt32 None (Some 0%nat) None false (HPlain PyInt) 0;               (* b: oneof g0 *)
             mkF [x77] 5 TMessage None None (Some TInt32) false (HOptional PyInt) 0;         (* w: Int32Value *)
             mkF [x73] 6 TMessage None None None false (HPlain (PyMsg 11)) 0] 1]) [].       (* s: sub-message *)

Example C06_hypotheses_satisfiable : wf_schema ex_schema = true /\ std_builtins_b ex_schema = true.
Proof. vm_compute. split; reflexivity. Qed.

(* every explicit-presence field received with its DEFAULT value: all are reported set, b (the last member) wins *)
Definition ex_bytes : list byte := [x10; x00; x1a; x00; x20; x00; x2a; x00; x32; x00].
Example C06_decode_nonvacuous :
  exists rs m, parse_records ex_bytes = Some rs /\ parse ex_schema 11 ex_bytes = Ok m /\
    map (fun f => has_record f rs) (cfields (get_class ex_schema 11)) = [false; true; true; true; true; true] /\
    value_not_none ex_schema m 1 = true /\ is_set ex_schema m 1 = true /\
    which_one_of m 0 = Some 3%nat /\ last_member (get_class ex_schema 11) 0 rs = Some 3%nat /\
    value_not_none ex_schema m 4 = true /\ child_on_wire m 5 = true /\
    enc_obj ex_schema m = Ok [x10; x00; x20; x00; x2a; x00; x32; x00].
Proof.
  exists [mkR 2 0 0 []; mkR 3 2 0 []; mkR 4 0 0 []; mkR 5 2 0 []; mkR 6 2 0 []].
  eexists. split; [vm_compute; reflexivity|]. split; [vm_compute; reflexivity|].
  vm_compute. repeat split.
Qed.

(* nothing received: nothing is reported *)
Example C06_decode_absent :
  exists m, parse ex_schema 11 [] = Ok m /\ value_not_none ex_schema m 1 = false /\ which_one_of m 0 = None /\
            value_not_none ex_schema m 4 = false /\ child_on_wire m 5 = false /\ enc_obj ex_schema m = Ok [].
Proof. eexists. split; [vm_compute; reflexivity|]. vm_compute. repeat split. Qed.

(* the four kinds set to their default by assignment, next to an implicit field holding 0 and a non-default one *)
Example C06_emit_nonvacuous :
  let o1 := setattr ex_schema (new ex_schema 11) 1 (PInt 0) in      (* o = 0 *)
  let o2 := setattr ex_schema o1 2 (PStr []) in                      (* a = "" *)
  let o3 := setattr ex_schema o2 4 (PInt 0) in                       (* w = 0 *)
  let o4 := setattr ex_schema o3 0 (PInt 0) in                       (* x = 0: implicit, skipped *)
  enc_obj ex_schema o4 = Ok [x10; x00; x1a; x00; x2a; x00] /\
  explicit_field (nth 1 (cfields (get_class ex_schema 11)) (plain_field [] 0 TBool)) /\
  implicit_field (nth 0 (cfields (get_class ex_schema 11)) (plain_field [] 0 TBool)) /\
  is_default ex_schema (nth 0 (cfields (get_class ex_schema 11)) (plain_field [] 0 TBool)) (PInt 0) = true.
Proof.
  cbv zeta. split; [vm_compute; reflexivity|]. split; [left; split; [reflexivity|left; reflexivity]|].
  split; [|reflexivity]. split; [reflexivity|]. split; [reflexivity|]. exists PyInt. split; [reflexivity|discriminate].
Qed.

(* ================================================================================================================== *)
(* way 4: from_dict.  Cls.from_dict(d) = from_dict_cls sc c d,  m.from_dict(d) = from_dict_inst sc m d  (Model/Json.v). *)
(* ================================================================================================================== *)

(* only a mapping is accepted; the keys to_dict emits (either casing) address their own field (C04Def.keys_ok is C04's /
   C19's decidable condition on the schema: keys pairwise distinct and resolved by field_name_by_key / safe_snake_case) *)
Theorem C06_from_dict_mapping : forall sc c o j m,
  (from_dict_cls sc c j = Ok m -> exists kvs, j = JObj kvs) /\
  (from_dict_inst sc o j = Ok m -> exists kvs, j = JObj kvs).
Proof. intros. split; [apply from_dict_needs_mapping|apply from_dict_inst_needs_mapping]. Qed.
Print Assumptions C06_from_dict_mapping.

Theorem C06_from_dict_key : forall cs sc c i f v,
  C04Def.keys_ok cs sc = true -> nth_error (cfields (get_class sc c)) i = Some f ->
  key_index (cfields (get_class sc c)) (JStr (key_of_field cs f)) = Some i /\
  (is_jnull v = false -> dict_lookup (cfields (get_class sc c)) [(JStr (key_of_field cs f), v)] i = Some v).
Proof. intros. split; [apply key_addresses_field|apply single_item_lookup]; assumption. Qed.
Print Assumptions C06_from_dict_key.

(* ---- class form: an explicit-presence field the mapping gives (value not None, not a list) - even its default - is
        emitted, reported set, and (oneof member, no later member of its group given too) selected ---- *)
Theorem C06_explicit_emit_from_dict : forall sc c kvs m i f v,
  wf_schema sc = true -> from_dict_cls sc c (JObj kvs) = Ok m ->
  nth_error (cfields (get_class sc c)) i = Some f -> explicit_field f ->
  dict_lookup (cfields (get_class sc c)) kvs i = Some v -> singular_json v = true ->
  (forall g, fgroup f = Some g ->
     forall k f', (i < k)%nat -> nth_error (cfields (get_class sc c)) k = Some f' -> fgroup f' = Some g ->
                  dict_lookup (cfields (get_class sc c)) kvs k = None) ->
  emitted_in sc m i f /\ is_set sc m i = true /\ value_not_none sc m i = true /\
  (forall g, fgroup f = Some g -> which_one_of m g = Some i) /\
  is_value (raw_at m i) /\ singular_value (raw_at m i).
Proof. exact emit_from_dict_cls. Qed.
Print Assumptions C06_explicit_emit_from_dict.

(* ---- instance form, on any object of the right shape: the same; a oneof member is selected when no member of its
        group is assigned after it (given_order = the order of the setattr calls) ---- *)
Theorem C06_explicit_emit_from_dict_inst : forall sc o kvs m i f v,
  wf_schema sc = true -> shape_ok sc o = true -> from_dict_inst sc o (JObj kvs) = Ok m ->
  nth_error (cfields (get_class sc (ocls o))) i = Some f -> explicit_field f ->
  dict_lookup (cfields (get_class sc (ocls o))) kvs i = Some v -> singular_json v = true ->
  (forall g, fgroup f = Some g ->
     exists pre post, given_order (cfields (get_class sc (ocls o))) kvs = pre ++ i :: post /\
                      forall k, In k post -> in_group (get_class sc (ocls o)) g k = false) ->
  emitted_in sc m i f /\ is_set sc m i = true /\ value_not_none sc m i = true /\
  (forall g, fgroup f = Some g -> which_one_of m g = Some i) /\
  is_value (raw_at m i) /\ singular_value (raw_at m i).
Proof. exact emit_from_dict_inst. Qed.
Print Assumptions C06_explicit_emit_from_dict_inst.

(* ---- "emitted" is "emitted as exactly ONE record with the field's number and wire type", for every way of setting:
        in any object state where the field holds a value and (oneof) is selected.  Length-delimited kinds (string, bytes,
        message, wrapper, Timestamp / Duration) for any value, varint / fixed-width kinds for a value in the declared range
        (outside it the varint of the value is not a legal one).  That no OTHER contribution carries this number is the
        encoder legality theorem of C02 (C02_encode_legal). ---- *)
Theorem C06_explicit_one_record : forall sc cur i x f h,
  1 <= fnum f < 2 ^ 29 -> fmap f = None ->
  explicit_kind cur i f -> is_value x -> singular_value x ->
  (base_wire_type (fty f) = 2 \/ (fwraps f = None /\ scalar_in_range (fty f) x = true)) ->
  here sc cur i x f = Ok h -> Zlength h < 2 ^ 35 ->
  exists r, is_record r h /\ rnum r = fnum f /\ rwt r = base_wire_type (fty f).
Proof. exact explicit_one_record. Qed.
Print Assumptions C06_explicit_one_record.

Theorem C06_emitted_once : forall sc o i f,
  wf_schema sc = true -> nth_error (cfields (get_class sc (ocls o))) i = Some f -> explicit_field f ->
  (forall g, fgroup f = Some g -> which_one_of o g = Some i) ->
  is_value (raw_at o i) -> singular_value (raw_at o i) ->
  (base_wire_type (fty f) = 2 \/ (fwraps f = None /\ scalar_in_range (fty f) (raw_at o i) = true)) ->
  emitted_in sc o i f -> emitted_once_in sc o i f.
Proof. exact emitted_once. Qed.
Print Assumptions C06_emitted_once.

(* a wrapper-typed field set to the ZERO of its wrapped type (through any of the four ways: the statement is about the
   state) is the empty wrapper message: its tag, then the length byte 00 *)
Theorem C06_wrapper_zero_record : forall sc cur i x f h w t wt after rb,
  1 <= fnum f < 2 ^ 29 -> fty f = TMessage -> fgroup f = None -> fwraps f = Some w -> fhint f = HOptional t ->
  gen.Tables.wrapper_value_type w <> None -> zero_record w x = Some (wt, after, rb) ->
  here sc cur i x f = Ok h ->
  is_record (mkR (fnum f) 2 0 []) h /\ exists key, h = key ++ [x00].
Proof. exact wrapper_zero_record. Qed.
Print Assumptions C06_wrapper_zero_record.

(* ---- a field the mapping does not give (no item addresses it with a value other than None) ---- *)
(* class form: left at its dataclass default: nothing emitted, not reported set, not selected *)
Theorem C06_absent_from_dict : forall sc c kvs m i f,
  wf_schema sc = true -> from_dict_cls sc c (JObj kvs) = Ok m ->
  nth_error (cfields (get_class sc c)) i = Some f -> explicit_field f ->
  dict_lookup (cfields (get_class sc c)) kvs i = None ->
  here sc (ocur m) i (raw_at m i) f = Ok [] /\ is_set sc m i = false /\
  (optional_like f -> value_not_none sc m i = false) /\
  (forall g, fgroup f = Some g -> which_one_of m g <> Some i).
Proof. exact absent_from_dict_cls. Qed.
Print Assumptions C06_absent_from_dict.

Theorem C06_absent_group_from_dict : forall sc c kvs m g,
  from_dict_cls sc c (JObj kvs) = Ok m ->
  (forall k f, nth_error (cfields (get_class sc c)) k = Some f -> fgroup f = Some g ->
               dict_lookup (cfields (get_class sc c)) kvs k = None) ->
  which_one_of m g = None.
Proof. exact no_member_from_dict_cls. Qed.
Print Assumptions C06_absent_group_from_dict.

(* instance form: an ungrouped field (optional, wrapper, sub-message, implicit) that is not given is exactly as before *)
Theorem C06_absent_from_dict_inst : forall sc o kvs m i f,
  wf_schema sc = true -> shape_ok sc o = true -> from_dict_inst sc o (JObj kvs) = Ok m ->
  nth_error (cfields (get_class sc (ocls o))) i = Some f -> fgroup f = None ->
  dict_lookup (cfields (get_class sc (ocls o))) kvs i = None ->
  raw_at m i = raw_at o i /\
  here sc (ocur m) i (raw_at m i) f = here sc (ocur o) i (raw_at o i) f /\
  is_set sc m i = is_set sc o i /\ read sc m i = read sc o i /\ value_not_none sc m i = value_not_none sc o i /\
  child_on_wire m i = child_on_wire o i.
Proof. exact absent_from_dict_inst. Qed.
Print Assumptions C06_absent_from_dict_inst.

(* ... a oneof group of which no member is given keeps its selection and its members *)
Theorem C06_absent_group_from_dict_inst : forall sc o kvs m g,
  wf_schema sc = true -> shape_ok sc o = true -> from_dict_inst sc o (JObj kvs) = Ok m ->
  (forall k, In k (given_order (cfields (get_class sc (ocls o))) kvs) -> in_group (get_class sc (ocls o)) g k = false) ->
  which_one_of m g = which_one_of o g /\
  forall i f, nth_error (cfields (get_class sc (ocls o))) i = Some f -> fgroup f = Some g -> raw_at m i = raw_at o i.
Proof. exact no_member_from_dict_inst. Qed.
Print Assumptions C06_absent_group_from_dict_inst.

(* ... and Cls().from_dict(d): whatever else d gives, an explicit-presence field it does not give is unset and unemitted *)
Theorem C06_absent_from_dict_fresh : forall sc c kvs m i f,
  wf_schema sc = true -> from_dict_inst sc (new sc c) (JObj kvs) = Ok m ->
  nth_error (cfields (get_class sc c)) i = Some f -> explicit_field f ->
  dict_lookup (cfields (get_class sc c)) kvs i = None ->
  here sc (ocur m) i (raw_at m i) f = Ok [] /\ is_set sc m i = false /\
  (optional_like f -> value_not_none sc m i = false) /\
  (forall g, fgroup f = Some g -> which_one_of m g <> Some i).
Proof. exact absent_from_dict_fresh. Qed.
Print Assumptions C06_absent_from_dict_fresh.

(* ---- the flag: whatever the mapping holds (even nothing), both forms raise _serialized_on_wire of the message ---- *)
Theorem C06_flag_from_dict : forall sc c o j m,
  (from_dict_cls sc c j = Ok m -> osow m = true) /\ (from_dict_inst sc o j = Ok m -> osow m = true).
Proof. intros. split; [apply flag_from_dict_cls|apply flag_from_dict_inst]. Qed.
Print Assumptions C06_flag_from_dict.

(* a plain sub-message given as a mapping - even {} - (anything but None / a list): the child was built by the class form,
   its flag is up, serialized_on_wire(m.f) is True and the field is emitted (tag, wire type 2) *)
Theorem C06_flag_from_dict_child : forall sc c kvs m i f v,
  wf_schema sc = true -> from_dict_cls sc c (JObj kvs) = Ok m ->
  nth_error (cfields (get_class sc c)) i = Some f -> plain_msg f ->
  dict_lookup (cfields (get_class sc c)) kvs i = Some v -> singular_json v = true ->
  child_on_wire m i = true /\
  forall all, enc_obj sc m = Ok all ->
    exists pre h post, all = pre ++ h ++ post /\ here sc (ocur m) i (raw_at m i) f = Ok h /\
                       starts_with_tag (fnum f) 2 h.
Proof. exact child_from_dict_cls. Qed.
Print Assumptions C06_flag_from_dict_child.

Theorem C06_flag_from_dict_child_inst : forall sc o kvs m i f v,
  wf_schema sc = true -> shape_ok sc o = true -> from_dict_inst sc o (JObj kvs) = Ok m ->
  nth_error (cfields (get_class sc (ocls o))) i = Some f -> plain_msg f ->
  dict_lookup (cfields (get_class sc (ocls o))) kvs i = Some v -> singular_json v = true ->
  child_on_wire m i = true /\
  forall all, enc_obj sc m = Ok all ->
    exists pre h post, all = pre ++ h ++ post /\ here sc (ocur m) i (raw_at m i) f = Ok h /\
                       starts_with_tag (fnum f) 2 h.
Proof. exact child_from_dict_inst. Qed.
Print Assumptions C06_flag_from_dict_child_inst.

(* one not given: flag down, nothing emitted (class form; for the instance form C06_absent_from_dict_inst says the child
   and its flag are the ones the object had) *)
Theorem C06_flag_from_dict_child_absent : forall sc c kvs m i f,
  wf_schema sc = true -> from_dict_cls sc c (JObj kvs) = Ok m ->
  nth_error (cfields (get_class sc c)) i = Some f -> plain_msg_field f ->
  dict_lookup (cfields (get_class sc c)) kvs i = None ->
  child_on_wire m i = false /\ here sc (ocur m) i (raw_at m i) f = Ok [].
Proof. exact child_absent_from_dict_cls. Qed.
Print Assumptions C06_flag_from_dict_child_absent.

(* ---- implicit presence: a plain scalar given a value that converts to its default contributes no bytes; bytes(m) is
        what it would be had the field not been set ---- *)
Theorem C06_implicit_skip_from_dict : forall sc c kvs m i f v x,
  from_dict_cls sc c (JObj kvs) = Ok m ->
  nth_error (cfields (get_class sc c)) i = Some f -> implicit_field f ->
  dict_lookup (cfields (get_class sc c)) kvs i = Some v ->
  value_from_json (from_dict_cls sc) sc f v = Ok x -> is_default sc f x = true ->
  raw_at m i = x /\ here sc (ocur m) i (raw_at m i) f = Ok [] /\
  enc_obj sc m = enc_obj sc (set_raw m i PPlaceholder).
Proof. exact implicit_skip_from_dict_cls. Qed.
Print Assumptions C06_implicit_skip_from_dict.

Theorem C06_implicit_skip_from_dict_inst : forall sc o kvs m i f v x,
  wf_schema sc = true -> shape_ok sc o = true -> from_dict_inst sc o (JObj kvs) = Ok m ->
  nth_error (cfields (get_class sc (ocls o))) i = Some f -> implicit_field f ->
  dict_lookup (cfields (get_class sc (ocls o))) kvs i = Some v ->
  value_from_json (from_dict_cls sc) sc f v = Ok x -> is_default sc f x = true ->
  raw_at m i = x /\ here sc (ocur m) i (raw_at m i) f = Ok [] /\
  enc_obj sc m = enc_obj sc (set_raw m i PPlaceholder).
Proof. exact implicit_skip_from_dict_inst. Qed.
Print Assumptions C06_implicit_skip_from_dict_inst.

(* ---- a fresh message, the remaining clauses: the independent default is defined for every well-formed ungrouped field
        (so C06_fresh's equation is never Err = Err there; a oneof member reads as AttributeError on both sides);
        nothing is reported set; from_dict of the empty mapping is a fresh message whose flag is raised ---- *)
Theorem C06_fresh_default_total : forall sc c i f,
  wf_schema sc = true -> nth_error (cfields (get_class sc c)) i = Some f -> fgroup f = None ->
  exists v, proto3_default sc f = Ok v /\ read sc (new sc c) i = Ok v.
Proof.
  intros sc c i f W Hf G.
  destruct (proto3_default_total sc _ f (wf_field_of sc c f W (nth_error_In _ _ Hf)) G) as (v & E).
  exists v. split; [exact E|]. rewrite <- E. apply fresh; assumption.
Qed.
Print Assumptions C06_fresh_default_total.

Theorem C06_fresh_unset : forall sc c,
  osow (new sc c) = false /\ ounk (new sc c) = [] /\
  (forall g, which_one_of (new sc c) g = None) /\
  (forall i, is_set sc (new sc c) i = false) /\
  (forall i, child_on_wire (new sc c) i = false).
Proof. exact fresh_unset. Qed.
Print Assumptions C06_fresh_unset.

Theorem C06_fresh_from_dict : forall sc c m,
  wf_schema sc = true -> from_dict_cls sc c (JObj []) = Ok m ->
  osow m = true /\ enc_obj sc m = Ok [] /\
  forall i f, nth_error (cfields (get_class sc c)) i = Some f -> read sc m i = proto3_default sc f.
Proof. exact fresh_from_dict. Qed.
Print Assumptions C06_fresh_from_dict.

(* ---- "exactly one record" after each of the four ways (one_record_kind: length-delimited kinds for any value,
        varint / fixed-width kinds for a value in the declared range) ---- *)
Theorem C06_explicit_once_construct : forall sc c kw i f o,
  wf_schema sc = true ->
  nth_error (cfields (get_class sc c)) i = Some f -> explicit_field f ->
  o = construct sc c kw ->
  is_value (raw_at o i) -> singular_value (raw_at o i) ->
  (forall g, fgroup f = Some g ->
     forall k f', (i < k)%nat -> nth_error (cfields (get_class sc c)) k = Some f' -> fgroup f' = Some g ->
                  is_sentinel f' (raw_at o k) = true) ->
  one_record_kind f (raw_at o i) ->
  emitted_once_in sc o i f.
Proof. exact once_after_construct. Qed.
Print Assumptions C06_explicit_once_construct.

Theorem C06_explicit_once_setattr : forall sc o i f v,
  wf_schema sc = true ->
  nth_error (cfields (get_class sc (ocls o))) i = Some f ->
  length (oraw o) = length (cfields (get_class sc (ocls o))) -> length (ocur o) = cngroups (get_class sc (ocls o)) ->
  explicit_field f -> is_value v -> singular_value v -> one_record_kind f v ->
  emitted_once_in sc (setattr sc o i v) i f.
Proof. exact once_after_setattr. Qed.
Print Assumptions C06_explicit_once_setattr.

Theorem C06_explicit_once_parse_optional : forall sc c bs rs m j f,
  wf_schema sc = true -> std_builtins_b sc = true ->
  is_records rs bs -> parse sc c bs = Ok m ->
  nth_error (cfields (get_class sc c)) j = Some f -> optional_like f ->
  has_record f rs = true -> one_record_kind f (raw_at m j) ->
  emitted_once_in sc m j f.
Proof. exact once_after_parse_optional. Qed.
Print Assumptions C06_explicit_once_parse_optional.

Theorem C06_explicit_once_parse_oneof : forall sc c bs rs m g i f,
  wf_schema sc = true -> std_builtins_b sc = true ->
  is_records rs bs -> parse sc c bs = Ok m ->
  nth_error (cfields (get_class sc c)) i = Some f ->
  last_member (get_class sc c) g rs = Some i -> one_record_kind f (raw_at m i) ->
  emitted_once_in sc m i f.
Proof. exact once_after_parse_oneof. Qed.
Print Assumptions C06_explicit_once_parse_oneof.

Theorem C06_explicit_once_from_dict : forall sc c kvs m i f v,
  wf_schema sc = true -> from_dict_cls sc c (JObj kvs) = Ok m ->
  nth_error (cfields (get_class sc c)) i = Some f -> explicit_field f ->
  dict_lookup (cfields (get_class sc c)) kvs i = Some v -> singular_json v = true ->
  (forall g, fgroup f = Some g ->
     forall k f', (i < k)%nat -> nth_error (cfields (get_class sc c)) k = Some f' -> fgroup f' = Some g ->
                  dict_lookup (cfields (get_class sc c)) kvs k = None) ->
  one_record_kind f (raw_at m i) ->
  emitted_once_in sc m i f.
Proof. exact once_from_dict_cls. Qed.
Print Assumptions C06_explicit_once_from_dict.

Theorem C06_explicit_once_from_dict_inst : forall sc o kvs m i f v,
  wf_schema sc = true -> shape_ok sc o = true -> from_dict_inst sc o (JObj kvs) = Ok m ->
  nth_error (cfields (get_class sc (ocls o))) i = Some f -> explicit_field f ->
  dict_lookup (cfields (get_class sc (ocls o))) kvs i = Some v -> singular_json v = true ->
  (forall g, fgroup f = Some g ->
     exists pre post, given_order (cfields (get_class sc (ocls o))) kvs = pre ++ i :: post /\
                      forall k, In k post -> in_group (get_class sc (ocls o)) g k = false) ->
  one_record_kind f (raw_at m i) ->
  emitted_once_in sc m i f.
Proof. exact once_from_dict_inst. Qed.
Print Assumptions C06_explicit_once_from_dict_inst.

(* ---- the DEFAULT given in the mapping, concretely: json_zero t is the JSON form of the proto3 zero of the scalar type t
        (64-bit integers as "0", bytes as "", ...; enums are covered by the general theorems above).
        An explicit-presence scalar given it: exactly one record, its tag followed by the zero payload; a wrapper field
        given the zero of its wrapped type: its tag and the length byte 00; an implicit-presence scalar: no bytes. ---- *)
Theorem C06_explicit_zero_from_dict : forall sc c kvs m i f,
  wf_schema sc = true -> from_dict_cls sc c (JObj kvs) = Ok m ->
  nth_error (cfields (get_class sc c)) i = Some f -> explicit_field f -> fwraps f = None ->
  tmem (fty f) scalar_ptypes = true -> fty f <> TEnum ->
  dict_lookup (cfields (get_class sc c)) kvs i = Some (json_zero (fty f)) ->
  (forall g, fgroup f = Some g ->
     forall k f', (i < k)%nat -> nth_error (cfields (get_class sc c)) k = Some f' -> fgroup f' = Some g ->
                  dict_lookup (cfields (get_class sc c)) kvs k = None) ->
  forall all, enc_obj sc m = Ok all ->
    exists pre h post wt after rb, all = pre ++ h ++ post /\ here sc (ocur m) i (raw_at m i) f = Ok h /\
      zero_record (fty f) (raw_at m i) = Some (wt, after, rb) /\
      is_record (mkR (fnum f) wt 0 rb) h /\ wt = base_wire_type (fty f).
Proof. exact explicit_zero_from_dict_cls. Qed.
Print Assumptions C06_explicit_zero_from_dict.

Theorem C06_explicit_zero_from_dict_inst : forall sc o kvs m i f,
  wf_schema sc = true -> shape_ok sc o = true -> from_dict_inst sc o (JObj kvs) = Ok m ->
  nth_error (cfields (get_class sc (ocls o))) i = Some f -> explicit_field f -> fwraps f = None ->
  tmem (fty f) scalar_ptypes = true -> fty f <> TEnum ->
  dict_lookup (cfields (get_class sc (ocls o))) kvs i = Some (json_zero (fty f)) ->
  (forall g, fgroup f = Some g ->
     exists pre post, given_order (cfields (get_class sc (ocls o))) kvs = pre ++ i :: post /\
                      forall k, In k post -> in_group (get_class sc (ocls o)) g k = false) ->
  forall all, enc_obj sc m = Ok all ->
    exists pre h post wt after rb, all = pre ++ h ++ post /\ here sc (ocur m) i (raw_at m i) f = Ok h /\
      zero_record (fty f) (raw_at m i) = Some (wt, after, rb) /\
      is_record (mkR (fnum f) wt 0 rb) h /\ wt = base_wire_type (fty f).
Proof. exact explicit_zero_from_dict_inst. Qed.
Print Assumptions C06_explicit_zero_from_dict_inst.

Theorem C06_wrapper_zero_from_dict : forall sc c kvs m i f w,
  wf_schema sc = true -> from_dict_cls sc c (JObj kvs) = Ok m ->
  nth_error (cfields (get_class sc c)) i = Some f -> optional_like f -> fwraps f = Some w ->
  dict_lookup (cfields (get_class sc c)) kvs i = Some (json_zero w) ->
  forall all, enc_obj sc m = Ok all ->
    exists pre h post, all = pre ++ h ++ post /\ here sc (ocur m) i (raw_at m i) f = Ok h /\
      is_record (mkR (fnum f) 2 0 []) h /\ exists key, h = key ++ [x00].
Proof. exact wrapper_zero_from_dict_cls. Qed.
Print Assumptions C06_wrapper_zero_from_dict.

Theorem C06_wrapper_zero_from_dict_inst : forall sc o kvs m i f w,
  wf_schema sc = true -> shape_ok sc o = true -> from_dict_inst sc o (JObj kvs) = Ok m ->
  nth_error (cfields (get_class sc (ocls o))) i = Some f -> optional_like f -> fwraps f = Some w ->
  dict_lookup (cfields (get_class sc (ocls o))) kvs i = Some (json_zero w) ->
  forall all, enc_obj sc m = Ok all ->
    exists pre h post, all = pre ++ h ++ post /\ here sc (ocur m) i (raw_at m i) f = Ok h /\
      is_record (mkR (fnum f) 2 0 []) h /\ exists key, h = key ++ [x00].
Proof. exact wrapper_zero_from_dict_inst. Qed.
Print Assumptions C06_wrapper_zero_from_dict_inst.

Theorem C06_implicit_zero_from_dict : forall sc c kvs m i f,
  wf_schema sc = true -> from_dict_cls sc c (JObj kvs) = Ok m ->
  nth_error (cfields (get_class sc c)) i = Some f -> implicit_field f ->
  tmem (fty f) scalar_ptypes = true -> fty f <> TEnum ->
  dict_lookup (cfields (get_class sc c)) kvs i = Some (json_zero (fty f)) ->
  here sc (ocur m) i (raw_at m i) f = Ok [] /\ enc_obj sc m = enc_obj sc (set_raw m i PPlaceholder).
Proof. exact implicit_zero_from_dict_cls. Qed.
Print Assumptions C06_implicit_zero_from_dict.

Theorem C06_implicit_zero_from_dict_inst : forall sc o kvs m i f,
  wf_schema sc = true -> shape_ok sc o = true -> from_dict_inst sc o (JObj kvs) = Ok m ->
  nth_error (cfields (get_class sc (ocls o))) i = Some f -> implicit_field f ->
  tmem (fty f) scalar_ptypes = true -> fty f <> TEnum ->
  dict_lookup (cfields (get_class sc (ocls o))) kvs i = Some (json_zero (fty f)) ->
  here sc (ocur m) i (raw_at m i) f = Ok [] /\ enc_obj sc m = enc_obj sc (set_raw m i PPlaceholder).
Proof. exact implicit_zero_from_dict_inst. Qed.
Print Assumptions C06_implicit_zero_from_dict_inst.

(* ---- the two forms ARE the from_dict operations of C07's alphabet (Model/C07Ops.v: constructor call with the flag raised;
        flag, then a sequence of attribute assignments) applied to the keyword arguments _from_dict_init computes ---- *)
Theorem C06_from_dict_is_C07_op : forall sc c o j m,
  (from_dict_cls sc c j = Ok m <-> exists kw, from_dict_init sc c j = Ok kw /\ m = C07Ops.from_dict_cls sc c kw) /\
  (from_dict_inst sc o j = Ok m <-> exists kw, from_dict_init sc (ocls o) j = Ok kw /\ m = C07Ops.from_dict_inst sc o kw).
Proof. exact from_dict_is_c07_op. Qed.
Print Assumptions C06_from_dict_is_C07_op.

(* way 2 in combination: after ANY sequence of attribute assignments on an object of the right shape (kw_get = the value
   assigned last to the field), the field is emitted provided no member of its oneof group is assigned after it *)
Theorem C06_explicit_emit_setattrs : forall sc o kw i f x,
  wf_schema sc = true -> shape_ok sc o = true ->
  nth_error (cfields (get_class sc (ocls o))) i = Some f -> explicit_field f ->
  kw_get i kw = Some x -> is_value x -> singular_value x ->
  (forall g, fgroup f = Some g ->
     exists pre post, map fst kw = pre ++ i :: post /\
                      forall k, In k post -> in_group (get_class sc (ocls o)) g k = false) ->
  let m := fold_left (fun o' iv => setattr sc o' (fst iv) (snd iv)) kw o in
  emitted_in sc m i f /\ is_set sc m i = true /\ value_not_none sc m i = true /\
  (forall g, fgroup f = Some g -> which_one_of m g = Some i).
Proof. exact emit_after_setattrs. Qed.
Print Assumptions C06_explicit_emit_setattrs.

(* ---- non-vacuity of the from_dict theorems (ex_schema above: x implicit, o optional, a / b oneof g0, w Int32Value, s message) ---- *)
Example C06_from_dict_hypotheses_satisfiable :
  wf_schema ex_schema = true /\ C04Def.keys_ok CAMEL ex_schema = true /\ C04Def.keys_ok SNAKE ex_schema = true /\
  shape_ok ex_schema (new ex_schema 11) = true.
Proof. vm_compute. repeat split. Qed.

(* {"x": 0, "o": 0, "b": 0, "w": 0, "s": {}}: every kind given its DEFAULT value *)
Definition ex_dict : list (json * json) :=
  [(JStr [x78], JInt 0); (JStr [x6f], JInt 0); (JStr [x62], JInt 0); (JStr [x77], JInt 0); (JStr [x73], JObj [])].

Example C06_from_dict_nonvacuous :
  let fs := cfields (get_class ex_schema 11) in
  map (dict_lookup fs ex_dict) (seq 0 6) = [Some (JInt 0); Some (JInt 0); None; Some (JInt 0); Some (JInt 0); Some (JObj [])] /\
  given_order fs ex_dict = [0; 1; 3; 4; 5]%nat /\
  singular_json (JInt 0) = true /\ singular_json (JObj []) = true /\
  exists m, from_dict_cls ex_schema 11 (JObj ex_dict) = Ok m /\
            from_dict_inst ex_schema (new ex_schema 11) (JObj ex_dict) = Ok m /\
    (* x = 0 is skipped; o, b, w, s are emitted, each as tag + zero payload *)
    enc_obj ex_schema m = Ok [x10; x00; x20; x00; x2a; x00; x32; x00] /\
    map (is_set ex_schema m) (seq 0 6) = [true; true; false; true; true; true] /\
    which_one_of m 0 = Some 3%nat /\ value_not_none ex_schema m 1 = true /\ value_not_none ex_schema m 4 = true /\
    child_on_wire m 5 = true /\ osow m = true /\
    value_from_json (from_dict_cls ex_schema) ex_schema (nth 0 fs (plain_field [] 0 TBool)) (JInt 0) = Ok (PInt 0) /\
    is_default ex_schema (nth 0 fs (plain_field [] 0 TBool)) (PInt 0) = true /\
    scalar_in_range TInt32 (raw_at m 1) = true /\ base_wire_type (fty (nth 4 fs (plain_field [] 0 TBool))) = 2 /\
    (* the values of ex_dict ARE the JSON zeros of the field types; the kinds promise one record *)
    json_zero TInt32 = JInt 0 /\ json_zero TInt64 = JStr [x30] /\
    one_record_kind (nth 1 fs (plain_field [] 0 TBool)) (raw_at m 1) /\ one_record_kind (nth 4 fs (plain_field [] 0 TBool)) (raw_at m 4) /\
    Zlength [x10; x00; x20; x00; x2a; x00; x32; x00] < 2 ^ 35.
Proof.
  cbv zeta. split; [vm_compute; reflexivity|]. split; [vm_compute; reflexivity|]. split; [reflexivity|]. split; [reflexivity|].
  eexists. split; [vm_compute; reflexivity|]. split; [vm_compute; reflexivity|].
  repeat (split; [vm_compute; reflexivity|]).
  split; [right; split; vm_compute; reflexivity|]. split; [left; reflexivity|]. vm_compute. reflexivity.
Qed.

(* the presence classes the theorems ask for, on ex_schema's fields *)
Example C06_from_dict_kinds :
  let fs := cfields (get_class ex_schema 11) in
  let d := plain_field [] 0 TBool in
  implicit_field (nth 0 fs d) /\ explicit_field (nth 1 fs d) /\ explicit_field (nth 2 fs d) /\ explicit_field (nth 3 fs d) /\
  explicit_field (nth 4 fs d) /\ plain_msg (nth 5 fs d) /\
  gen.Tables.wrapper_value_type TInt32 <> None /\ zero_record TInt32 (PInt 0) = Some (0, [x00], []).
Proof.
  cbv zeta. split; [split; [reflexivity|]; split; [reflexivity|]; exists PyInt; split; [reflexivity|discriminate]|].
  split; [left; split; [reflexivity|left; reflexivity]|].
  split; [right; exists 0%nat; reflexivity|]. split; [right; exists 0%nat; reflexivity|].
  split; [left; split; [reflexivity|right; exists TInt32, PyInt; split; reflexivity]|].
  split; [split; [repeat split|exists 11%nat; reflexivity]|].
  split; [discriminate|reflexivity].
Qed.

(* the empty mapping and a mapping that gives nothing but None: nothing set, nothing emitted, flag raised *)
Example C06_from_dict_absent :
  exists m, from_dict_cls ex_schema 11 (JObj [(JStr [x6f], JNull)]) = Ok m /\
            from_dict_cls ex_schema 11 (JObj []) = Ok m /\
            map (dict_lookup (cfields (get_class ex_schema 11)) [(JStr [x6f], JNull)]) (seq 0 6) = repeat None 6 /\
            enc_obj ex_schema m = Ok [] /\ map (is_set ex_schema m) (seq 0 6) = repeat false 6 /\
            which_one_of m 0 = None /\ child_on_wire m 5 = false /\ osow m = true.
Proof. eexists. split; [vm_compute; reflexivity|]. vm_compute. repeat split. Qed.

(* {"b": 0, "a": ""}: two members of one oneof group.  The class form selects b (last in declaration order), the instance
   form a (last in dict order); each emits exactly the member it selects, with its default value *)
Definition ex_dict_two : list (json * json) := [(JStr [x62], JInt 0); (JStr [x61], JStr [])].
Example C06_from_dict_two_members :
  given_order (cfields (get_class ex_schema 11)) ex_dict_two = [3; 2]%nat /\
  exists mc mi, from_dict_cls ex_schema 11 (JObj ex_dict_two) = Ok mc /\
                from_dict_inst ex_schema (new ex_schema 11) (JObj ex_dict_two) = Ok mi /\
                which_one_of mc 0 = Some 3%nat /\ enc_obj ex_schema mc = Ok [x20; x00] /\
                which_one_of mi 0 = Some 2%nat /\ enc_obj ex_schema mi = Ok [x1a; x00].
Proof.
  split; [vm_compute; reflexivity|]. eexists. eexists. split; [vm_compute; reflexivity|]. split; [vm_compute; reflexivity|].
  vm_compute. repeat split.
Qed.

(* a wrapper field set to the default of its wrapped type through each of the four ways: always tag 2a, length 00 *)
Example C06_wrapper_default_four_ways :
  enc_obj ex_schema (construct ex_schema 11 [(4%nat, PInt 0)]) = Ok [x2a; x00] /\
  enc_obj ex_schema (setattr ex_schema (new ex_schema 11) 4 (PInt 0)) = Ok [x2a; x00] /\
  (exists m, parse ex_schema 11 [x2a; x00] = Ok m /\ raw_at m 4 = PInt 0 /\ enc_obj ex_schema m = Ok [x2a; x00]) /\
  (exists m, from_dict_cls ex_schema 11 (JObj [(JStr [x77], JInt 0)]) = Ok m /\ raw_at m 4 = PInt 0 /\
             enc_obj ex_schema m = Ok [x2a; x00]) /\
  (exists m, from_dict_inst ex_schema (new ex_schema 11) (JObj [(JStr [x77], JInt 0)]) = Ok m /\ raw_at m 4 = PInt 0 /\
             enc_obj ex_schema m = Ok [x2a; x00]).
Proof.
  split; [vm_compute; reflexivity|]. split; [vm_compute; reflexivity|].
  split; [eexists; split; [vm_compute; reflexivity|]; vm_compute; split; reflexivity|].
  split; eexists; (split; [vm_compute; reflexivity|]); vm_compute; split; reflexivity.
Qed.

(* a fresh message of a class with a map, repeated fields (scalar, string, message), Timestamp, Duration, enum, double, bytes,
   bool, a wrapper, a proto3 optional and a oneof member: every field reads as its proto3 default, bytes() is empty *)
Definition ex_schema_kinds : schema :=
  mkS (builtin_classes ++
       [mkC [mkF [x6d] 1 TMap (Some (TString, TInt32)) None None false (HDict PyStr PyInt) 12;
             mkF [x72] 2 TInt32 None None None false (HList PyInt) 0;
             mkF [x74] 3 TMessage None None None false (HPlain PyDatetime) 0;
             mkF [x64] 4 TMessage None None None false (HPlain PyTimedelta) 0;
             mkF [x65] 5 TEnum None None None false (HPlain (PyEnum 0)) 0;
             mkF [x66] 6 TDouble None None None false (HPlain PyFloat) 0;
             mkF [x79] 7 TBytes None None None false (HPlain PyBytes) 0;
             mkF [x6b] 8 TBool None None None false (HPlain PyBool) 0;
             mkF [x71] 9 TString None None None false (HList PyStr) 0;
             mkF [x6e] 10 TMessage None None None false (HList (PyMsg 11)) 0;
             mkF [x75] 11 TMessage None None (Some TString) false (HOptional PyStr) 0;
             mkF [x7a] 12 TString None None None true (HOptional PyStr) 0;
             mkF [x70] 13 TString None (Some 0%nat) None false (HPlain PyStr) 0] 1;
        mkC [mkF [x6b; x65; x79] 1 TString None None None false (HPlain PyStr) 0;
             mkF [x76; x61; x6c; x75; x65] 2 TInt32 None None None false (HPlain PyInt) 0] 0])
      [mkE [([x5a], 0); ([x41], 1)]].

Example C06_fresh_every_kind :
  wf_schema ex_schema_kinds = true /\
  enc_obj ex_schema_kinds (new ex_schema_kinds 11) = Ok [] /\
  map (read ex_schema_kinds (new ex_schema_kinds 11)) (seq 0 13) =
    [Ok (PDict []); Ok (PList []); Ok (PDatetime 0); Ok (PTimedelta 0); Ok (PInt 0); Ok (PFloat 0); Ok (PBytes []);
     Ok (PBool false); Ok (PList []); Ok (PList []); Ok PNone; Ok PNone; Err EAttribute] /\
  map (proto3_default ex_schema_kinds) (cfields (get_class ex_schema_kinds 11)) =
    map (read ex_schema_kinds (new ex_schema_kinds 11)) (seq 0 13).
Proof. vm_compute. repeat split. Qed.

(* implicit-presence scalars given their JSON zero ({"f": 0.0, "y": "", "k": false}) on a class full of other kinds:
   nothing is written; the same fields given non-zero values are written *)
Example C06_implicit_zero_nonvacuous :
  let fs := cfields (get_class ex_schema_kinds 11) in
  let d := [(JStr [x66], json_zero TDouble); (JStr [x79], json_zero TBytes); (JStr [x6b], json_zero TBool)] in
  C04Def.keys_ok CAMEL ex_schema_kinds = true /\
  map (dict_lookup fs d) [5; 6; 7]%nat = [Some (JFloat 0); Some (JStr []); Some (JBool false)] /\
  forallb (fun i => tmem (fty (nth i fs (plain_field [] 0 TBool))) scalar_ptypes) [5; 6; 7]%nat = true /\
  implicit_field (nth 5 fs (plain_field [] 0 TBool)) /\
  (exists m, from_dict_cls ex_schema_kinds 11 (JObj d) = Ok m /\ enc_obj ex_schema_kinds m = Ok [] /\ osow m = true) /\
  (exists m, from_dict_cls ex_schema_kinds 11 (JObj [(JStr [x6b], JBool true)]) = Ok m /\
             enc_obj ex_schema_kinds m = Ok [x40; x01]).
Proof.
  cbv zeta. split; [vm_compute; reflexivity|]. split; [vm_compute; reflexivity|]. split; [vm_compute; reflexivity|].
  split; [split; [reflexivity|]; split; [reflexivity|]; exists PyFloat; split; [reflexivity|discriminate]|].
  split; eexists; (split; [vm_compute; reflexivity|]); vm_compute; repeat split.
Qed.

(* ---- "... or something was assigned inside it": m.sub.x = v on a DIRECT child raises the child's flag, so the child is
        emitted (C06_submessage), even when v is a default; through deeper lazily created paths it is not (K12 above) ---- *)
Theorem C06_flag_assign_inside : forall sc o j i v o',
  length (oraw o) = length (cfields (get_class sc (ocls o))) ->
  assign_path sc o [j] i v = Ok o' ->
  exists ch, read sc o j = Ok (PMsg ch) /\ raw_at o' j = PMsg (setattr sc ch i v) /\
             (forall fi, nth_error (cfields (get_class sc (ocls ch))) i = Some fi -> child_on_wire o' j = true).
Proof. exact flag_assign_inside. Qed.
Print Assumptions C06_flag_assign_inside.

(* m = Inner(); m.rec.x = 0: serialized_on_wire(m.rec) is True and the (empty) child is emitted: 1a 00 *)
Example C06_assign_inside_nonvacuous :
  exists m, assign_path k12_schema (new k12_schema 11) [1%nat] 0 (PInt 0) = Ok m /\
            child_on_wire m 1 = true /\ enc_obj k12_schema m = Ok [x1a; x00].
Proof. eexists. split; [vm_compute; reflexivity|]. vm_compute. split; reflexivity. Qed.

(* a sequence of assignments: o = 0, b = 0, a = "", w = 0 (a after b: a wins the group) *)
Example C06_setattrs_nonvacuous :
  let kw := [(1%nat, PInt 0); (3%nat, PInt 0); (2%nat, PStr []); (4%nat, PInt 0)] in
  let m := fold_left (fun o' iv => setattr ex_schema o' (fst iv) (snd iv)) kw (new ex_schema 11) in
  kw_get 2 kw = Some (PStr []) /\ map fst kw = [1; 3]%nat ++ 2%nat :: [4%nat] /\
  in_group (get_class ex_schema 11) 0 4 = false /\
  which_one_of m 0 = Some 2%nat /\ enc_obj ex_schema m = Ok [x10; x00; x1a; x00; x2a; x00].
Proof. cbv zeta. vm_compute. repeat split. Qed.

(* ================================================================================================================== *)
(* Gap closing against the property text (clause-by-clause table: top of Proofs/C06GapA.v).                           *)
(* ================================================================================================================== *)

(* ---- (5a) "for the same bytes": the record list is determined by the bytes, and the executable reader (the one the harness
        compares with google.protobuf) finds it whenever the grammar has one: HasField / WhichOneof are functions of the bytes ---- *)
Theorem C06_spec_reader_complete : forall bs rs, is_records rs bs -> parse_records bs = Some rs.
Proof. exact parse_records_complete. Qed.
Print Assumptions C06_spec_reader_complete.

Theorem C06_spec_reader_iff : forall bs rs, is_records rs bs <-> parse_records bs = Some rs.
Proof. exact records_iff. Qed.
Print Assumptions C06_spec_reader_iff.

Theorem C06_records_unique : forall bs rs rs', is_records rs bs -> is_records rs' bs -> rs = rs'.
Proof. exact is_records_unique. Qed.
Print Assumptions C06_records_unique.

Theorem C06_presence_of_bytes_well_defined : forall bs rs rs',
  is_records rs bs -> is_records rs' bs ->
  (forall f, has_record f rs = has_record f rs') /\ (forall cd g, last_member cd g rs = last_member cd g rs').
Proof. exact presence_of_bytes_well_defined. Qed.
Print Assumptions C06_presence_of_bytes_well_defined.

(* "in combination with other fields", on the reference side: whatever complete records precede and follow, a record of
   the field is seen *)
Theorem C06_has_field_combination : forall f a b c rsa rsb rsc,
  is_records rsa a -> is_records rsb b -> is_records rsc c -> has_record f rsb = true ->
  has_field_bytes f (a ++ b ++ c) = Some true.
Proof. exact has_record_combination. Qed.
Print Assumptions C06_has_field_combination.

(* ---- (1a) the constructor call Cls() itself ---- *)
Theorem C06_fresh_constructor : forall sc c,
  wf_schema sc = true ->
  construct sc c [] = new sc c /\
  enc_obj sc (construct sc c []) = Ok [] /\
  (forall i f, nth_error (cfields (get_class sc c)) i = Some f -> read sc (construct sc c []) i = proto3_default sc f) /\
  osow (construct sc c []) = false /\
  (forall g, which_one_of (construct sc c []) g = None) /\
  (forall i, is_set sc (construct sc c []) i = false) /\
  (forall i, child_on_wire (construct sc c []) i = false).
Proof. exact fresh_constructor. Qed.
Print Assumptions C06_fresh_constructor.

(* (1b) no converse: zero bytes do not identify a fresh message (an implicit field SET to its default, flag raised) *)
Theorem C06_fresh_bytes_not_injective_refuted :
  exists o, enc_obj k12_schema o = Ok [] /\ o <> new k12_schema 11 /\ osow o = true /\ is_set k12_schema o 0 = true.
Proof. exact fresh_bytes_not_injective_witness. Qed.
Print Assumptions C06_fresh_bytes_not_injective_refuted.

(* ---- (2a) implicit presence with its converse: a value of an implicit-presence field is skipped EXACTLY when it is the
        default; otherwise the contribution starts with the field's tag.  implicit_exact_kind: every varint / fixed-width
        kind, str, bytes.  Missing for the full clause: the Timestamp / Duration value types (a non-epoch datetime has a
        non-empty payload: needs the time encoder), for which C06_implicit_nondefault_emit gives tag-or-empty. ---- *)
Theorem C06_implicit_emit_iff_partial : forall sc cur i x f h,
  1 <= fnum f < 2 ^ 29 -> fmap f = None -> implicit_field f -> implicit_exact_kind f ->
  is_value x -> singular_value x ->
  here sc cur i x f = Ok h ->
  (h = [] <-> is_default sc f x = true) /\
  (is_default sc f x = false -> starts_with_tag (fnum f) (base_wire_type (fty f)) h).
Proof. exact implicit_emit_iff_partial. Qed.
Print Assumptions C06_implicit_emit_iff_partial.

Theorem C06_implicit_nondefault_emit : forall sc cur i x f h,
  1 <= fnum f < 2 ^ 29 -> fmap f = None -> implicit_field f ->
  is_value x -> singular_value x -> is_default sc f x = false ->
  here sc cur i x f = Ok h ->
  starts_with_tag (fnum f) (base_wire_type (fty f)) h \/ (h = [] /\ base_wire_type (fty f) = 2).
Proof. exact implicit_nondefault_emit. Qed.
Print Assumptions C06_implicit_nondefault_emit.

(* ---- (3a) explicit presence with its converse, in any object state: never set (None / PLACEHOLDER) or displaced by
        another member of its group: no bytes; the contribution is non-empty EXACTLY when the attribute holds a value and
        (oneof member) the group selects it ---- *)
Theorem C06_explicit_unset_silent : forall sc c cur i x f,
  wf_schema sc = true -> nth_error (cfields (get_class sc c)) i = Some f -> explicit_field f ->
  (x = PNone \/ (x = PPlaceholder /\ group_selects cur f i <> Some true) \/ group_selects cur f i = Some false) ->
  here sc cur i x f = Ok [].
Proof. exact explicit_unset_silent. Qed.
Print Assumptions C06_explicit_unset_silent.

Theorem C06_explicit_emit_iff : forall sc c cur i x f h,
  wf_schema sc = true -> nth_error (cfields (get_class sc c)) i = Some f -> explicit_field f ->
  1 <= fnum f < 2 ^ 29 -> fmap f = None -> singular_value x ->
  (x = PPlaceholder -> group_selects cur f i <> Some true) ->
  here sc cur i x f = Ok h ->
  (h <> [] <-> (is_value x /\ group_selects cur f i <> Some false)) /\
  (h <> [] -> starts_with_tag (fnum f) (base_wire_type (fty f)) h).
Proof. exact explicit_emit_iff. Qed.
Print Assumptions C06_explicit_emit_iff.

(* the PLACEHOLDER side condition is exact: a selection that names a member holding nothing emits the member's default *)
Theorem C06_explicit_emit_iff_placeholder_refuted :
  exists sc cur f, wf_schema sc = true /\ nth_error (cfields (get_class sc 11)) 0 = Some f /\ explicit_field f /\
    here sc cur 0 PPlaceholder f = Ok [x0a; x00].
Proof. exact explicit_emit_iff_placeholder_witness. Qed.
Print Assumptions C06_explicit_emit_iff_placeholder_refuted.

(* ---- (4a) the "flag consistent" hypothesis of C06_submessage follows from C01's decidable sow_ok (which C01 proves for
        every object a history of public operations produces: C06_submessage_reachable below); (4b) the K12 object is an
        object without sow_ok, the direct-child assignment has it ---- *)
Theorem C06_sow_ok_flag_consistent : forall sc o i f ch,
  sow_ok sc o = true ->
  nth_error (cfields (get_class sc (ocls o))) i = Some f -> nth_error (oraw o) i = Some (PMsg ch) ->
  plain_msg f ->
  osow ch = false -> is_default sc f (PMsg ch) = true.
Proof. exact sow_ok_flag_consistent. Qed.
Print Assumptions C06_sow_ok_flag_consistent.

Theorem C06_submessage_sow_ok : forall sc o i f ch all,
  wf_schema sc = true -> sow_ok sc o = true ->
  nth_error (cfields (get_class sc (ocls o))) i = Some f -> nth_error (oraw o) i = Some (PMsg ch) ->
  plain_msg f -> enc_obj sc o = Ok all ->
  exists pre h post, all = pre ++ h ++ post /\ here sc (ocur o) i (PMsg ch) f = Ok h /\
    (h <> [] <-> osow ch = true) /\ (osow ch = true -> starts_with_tag (fnum f) 2 h).
Proof. exact submessage_sow_ok. Qed.
Print Assumptions C06_submessage_sow_ok.

Theorem C06_lazy_path_not_sow_ok_refuted :
  (exists m, k12_after 5 = Ok m /\ sow_ok k12_schema m = false) /\
  (exists m, assign_path k12_schema (new k12_schema 11) [1%nat] 0 (PInt 5) = Ok m /\ sow_ok k12_schema m = true).
Proof. exact k12_not_sow_ok_witness. Qed.
Print Assumptions C06_lazy_path_not_sow_ok_refuted.

(* ---- non-vacuity of the gap theorems (ex_schema: x implicit, o optional, a / b oneof g0, w Int32Value, s message) ---- *)
Example C06_gap_records_nonvacuous :
  exists rs, is_records rs ex_bytes /\ parse_records ex_bytes = Some rs /\ length rs = 5%nat /\
    map (fun f => has_field_bytes f ex_bytes) (cfields (get_class ex_schema 11)) =
      [Some false; Some true; Some true; Some true; Some true; Some true] /\
    which_oneof_bytes (get_class ex_schema 11) 0 ex_bytes = Some (Some 3%nat) /\
    has_field_bytes (nth 1 (cfields (get_class ex_schema 11)) (plain_field [] 0 TBool)) [x10] = None.
Proof.
  exists [mkR 2 0 0 []; mkR 3 2 0 []; mkR 4 0 0 []; mkR 5 2 0 []; mkR 6 2 0 []].
  split; [apply parse_records_sound; vm_compute; reflexivity|]. vm_compute. repeat split.
Qed.

Example C06_gap_state_nonvacuous :
  let fs := cfields (get_class ex_schema 11) in
  let d := plain_field [] 0 TBool in
  implicit_field (nth 0 fs d) /\ implicit_exact_kind (nth 0 fs d) /\
  is_default ex_schema (nth 0 fs d) (PInt 5) = false /\ here ex_schema [None] 0 (PInt 5) (nth 0 fs d) = Ok [x08; x05] /\
  here ex_schema [None] 0 (PInt 0) (nth 0 fs d) = Ok [] /\
  explicit_field (nth 1 fs d) /\ here ex_schema [None] 1 (PInt 0) (nth 1 fs d) = Ok [x10; x00] /\
  here ex_schema [None] 1 PNone (nth 1 fs d) = Ok [] /\
  (* a displaced oneof member that still holds a value contributes nothing; the selected one does *)
  explicit_field (nth 2 fs d) /\ group_selects [Some 3%nat] (nth 2 fs d) 2 = Some false /\
  here ex_schema [Some 3%nat] 2 (PStr []) (nth 2 fs d) = Ok [] /\
  here ex_schema [Some 2%nat] 2 (PStr []) (nth 2 fs d) = Ok [x1a; x00].
Proof.
  cbv zeta. split; [split; [reflexivity|]; split; [reflexivity|]; exists PyInt; split; [reflexivity|discriminate]|].
  split; [left; vm_compute; discriminate|].
  split; [reflexivity|]. split; [vm_compute; reflexivity|]. split; [vm_compute; reflexivity|].
  split; [left; split; [reflexivity|left; reflexivity]|]. split; [vm_compute; reflexivity|]. split; [vm_compute; reflexivity|].
  split; [right; exists 0%nat; reflexivity|]. split; [vm_compute; reflexivity|]. split; vm_compute; reflexivity.
Qed.

(* an object with sow_ok whose sub-message child was assigned: flag up, emitted; a fresh one: flag down, child not held *)
Example C06_gap_sow_ok_nonvacuous :
  let o := setattr ex_schema (new ex_schema 11) 5 (PMsg (setattr ex_schema (new ex_schema 11) 1 (PInt 0))) in
  sow_ok ex_schema o = true /\ plain_msg (nth 5 (cfields (get_class ex_schema 11)) (plain_field [] 0 TBool)) /\
  (exists ch, nth_error (oraw o) 5 = Some (PMsg ch) /\ osow ch = true) /\
  enc_obj ex_schema o = Ok [x32; x02; x10; x00].
Proof.
  cbv zeta. split; [vm_compute; reflexivity|]. split; [split; [repeat split|exists 11%nat; reflexivity]|].
  split; [eexists; split; vm_compute; reflexivity|vm_compute; reflexivity].
Qed.

(* ---- (5b) composition with C17's acceptance criterion: for EVERY valid byte string (Model/C17Nested.v [valid], which
        C17_accept_iff proves is exactly the set parse accepts) parse returns an object, its flag is up, and the three
        presence reports equal the reference's; on an invalid string there is no decoded object to speak about ---- *)
Theorem C06_decode_presence_valid : forall sc c bs rs,
  wf_schema sc = true -> C17Typed.has_builtins sc -> C17Typed.entries_agree sc = true -> std_builtins_b sc = true ->
  C17Nested.valid sc c bs -> is_records rs bs ->
  exists m, parse sc c bs = Ok m /\ osow m = true /\
    (forall j f, nth_error (cfields (get_class sc c)) j = Some f -> optional_like f ->
       value_not_none sc m j = has_record f rs /\ (fopt f = true -> is_set sc m j = has_record f rs)) /\
    (forall g, which_one_of m g = last_member (get_class sc c) g rs) /\
    (forall j f, nth_error (cfields (get_class sc c)) j = Some f -> plain_msg f -> child_on_wire m j = has_record f rs).
Proof. exact decode_presence_valid. Qed.
Print Assumptions C06_decode_presence_valid.

Theorem C06_decode_invalid_no_object : forall sc c bs,
  wf_schema sc = true -> C17Typed.has_builtins sc -> C17Typed.entries_agree sc = true ->
  ~ C17Nested.valid sc c bs -> forall m, parse sc c bs <> Ok m.
Proof. exact decode_invalid_no_object. Qed.
Print Assumptions C06_decode_invalid_no_object.

(* ---- (5c) "recovered", composition with C01_roundtrip: for a message satisfying C01's decidable value conditions, the
        decoded message reports the presence the original reported (not-None-ness and readability of every attribute,
        which_one_of of every group, serialized_on_wire of every readable message attribute) and re-encodes to the same bytes ---- *)
Theorem C06_roundtrip_presence : forall sc m bs,
  c01_schema_ok sc = true -> c01_value_ok sc m = true -> sow_ok sc m = true ->
  enc_obj sc m = Ok bs -> Zlength bs < 2 ^ 64 ->
  exists m', parse sc (ocls m) bs = Ok m' /\ enc_obj sc m' = Ok bs /\
    (forall g, which_one_of m' g = which_one_of m g) /\
    (forall i, (i < length (oraw m))%nat ->
       value_not_none sc m' i = value_not_none sc m i /\
       res_ok (read sc m' i) = res_ok (read sc m i) /\
       res_flag (read sc m' i) = res_flag (read sc m i)) /\
    (forall i f, (i < length (oraw m))%nat -> nth_error (cfields (get_class sc (ocls m))) i = Some f -> plain_msg f ->
       child_on_wire m' i = child_on_wire m i).
Proof. exact roundtrip_presence. Qed.
Print Assumptions C06_roundtrip_presence.

(* ---- clauses (3) and (4) judged ON THE BYTES by the reference: what HasField / WhichOneof report on bytes(m) is what m
        itself reports - an optional / wrapper field has a record iff it is not None (set, even to its default: emitted;
        never set: NOT emitted), the oneof member whose record comes last is the one which_one_of names (no displaced
        member is emitted after it), a plain sub-message has a record EXACTLY when serialized_on_wire(m.f) ---- *)
Theorem C06_encode_presence : forall sc m bs rs,
  c01_schema_ok sc = true -> std_builtins_b sc = true ->
  c01_value_ok sc m = true -> sow_ok sc m = true ->
  enc_obj sc m = Ok bs -> Zlength bs < 2 ^ 64 -> is_records rs bs ->
  (forall j f, (j < length (oraw m))%nat -> nth_error (cfields (get_class sc (ocls m))) j = Some f -> optional_like f ->
     value_not_none sc m j = has_record f rs) /\
  (forall g, which_one_of m g = last_member (get_class sc (ocls m)) g rs) /\
  (forall j f, (j < length (oraw m))%nat -> nth_error (cfields (get_class sc (ocls m))) j = Some f -> plain_msg f ->
     child_on_wire m j = has_record f rs).
Proof. exact encode_presence. Qed.
Print Assumptions C06_encode_presence.

(* ---- (3b) (4a) (6) the value conditions hold for every object a HISTORY of public operations produces (C07's alphabet
        run7: constructor calls, attribute assignments - direct or inside a child -, parse into the object, both from_dict
        forms, reads, copies, in any interleaving) under C01's decidable operation-level condition op_reach_ok_p
        (C01_reachable_sow_ok_parse); K12 histories are the ones it excludes (C06_lazy_path_not_sow_ok_refuted) ---- *)
Theorem C06_submessage_reachable : forall sc c ops o i f ch all,
  c01_schema_ok sc = true -> C01Reach.hist_ok C01Parse.op_reach_ok_p sc (new sc c) ops = true ->
  C07Ops.run7 sc (new sc c) ops = Ok o ->
  nth_error (cfields (get_class sc (ocls o))) i = Some f -> nth_error (oraw o) i = Some (PMsg ch) ->
  plain_msg f -> enc_obj sc o = Ok all ->
  exists pre h post, all = pre ++ h ++ post /\ here sc (ocur o) i (PMsg ch) f = Ok h /\
    (h <> [] <-> osow ch = true) /\ (osow ch = true -> starts_with_tag (fnum f) 2 h).
Proof. exact submessage_reachable. Qed.
Print Assumptions C06_submessage_reachable.

Theorem C06_encode_presence_reachable : forall sc c ops m bs rs,
  c01_schema_ok sc = true -> std_builtins_b sc = true ->
  C01Reach.hist_ok C01Parse.op_reach_ok_p sc (new sc c) ops = true -> C07Ops.run7 sc (new sc c) ops = Ok m ->
  enc_obj sc m = Ok bs -> Zlength bs < 2 ^ 64 -> is_records rs bs ->
  (forall j f, (j < length (oraw m))%nat -> nth_error (cfields (get_class sc (ocls m))) j = Some f -> optional_like f ->
     value_not_none sc m j = has_record f rs) /\
  (forall g, which_one_of m g = last_member (get_class sc (ocls m)) g rs) /\
  (forall j f, (j < length (oraw m))%nat -> nth_error (cfields (get_class sc (ocls m))) j = Some f -> plain_msg f ->
     child_on_wire m j = has_record f rs).
Proof. exact encode_presence_reachable. Qed.
Print Assumptions C06_encode_presence_reachable.

Theorem C06_roundtrip_presence_reachable : forall sc c ops m bs,
  c01_schema_ok sc = true ->
  C01Reach.hist_ok C01Parse.op_reach_ok_p sc (new sc c) ops = true -> C07Ops.run7 sc (new sc c) ops = Ok m ->
  enc_obj sc m = Ok bs -> Zlength bs < 2 ^ 64 ->
  exists m', parse sc (ocls m) bs = Ok m' /\ enc_obj sc m' = Ok bs /\
    (forall g, which_one_of m' g = which_one_of m g) /\
    (forall i, (i < length (oraw m))%nat ->
       value_not_none sc m' i = value_not_none sc m i /\
       res_ok (read sc m' i) = res_ok (read sc m i) /\
       res_flag (read sc m' i) = res_flag (read sc m i)) /\
    (forall i f, (i < length (oraw m))%nat -> nth_error (cfields (get_class sc (ocls m))) i = Some f -> plain_msg f ->
       child_on_wire m' i = child_on_wire m i).
Proof. exact roundtrip_presence_reachable. Qed.
Print Assumptions C06_roundtrip_presence_reachable.

(* ---- non-vacuity of the compositions ---- *)
Example C06_gap_valid_nonvacuous :
  C17Typed.has_builtins ex_schema /\ C17Typed.entries_agree ex_schema = true /\ c01_schema_ok ex_schema = true /\
  C17Nested.valid ex_schema 11 ex_bytes /\ ~ C17Nested.valid ex_schema 11 [x10].
Proof.
  assert (Hb : C17Typed.has_builtins ex_schema) by (eexists; reflexivity).
  assert (He : C17Typed.entries_agree ex_schema = true) by (vm_compute; reflexivity).
  assert (W : wf_schema ex_schema = true) by (vm_compute; reflexivity).
  split; [exact Hb|]. split; [exact He|]. split; [vm_compute; reflexivity|]. split.
  - apply (C17NestedAcceptP.accept_iff ex_schema W Hb He). eexists. vm_compute. reflexivity.
  - intros V. apply (C17NestedAcceptP.accept_iff ex_schema W Hb He) in V. destruct V as (m & P). vm_compute in P. discriminate.
Qed.

(* a history mixing the four ways, every value a DEFAULT: Cls(o = 0); m.b = 0; m.s.o = 0 (assigned inside the direct
   child); m.parse(2a 00) (w received, empty); m.from_dict({"x": 0}); read m.x.  The bytes are o, b, w, s - each with its
   zero payload -, x is skipped, and the reference reads exactly those four as present *)
Definition ex_gap_hist : list C07Ops.op7 :=
  [C07Ops.OConstruct [(1%nat, PInt 0)]; C07Ops.OBase (History.OSet [] 3 (PInt 0));
   C07Ops.OBase (History.OSet [5%nat] 1 (PInt 0)); C07Ops.OBase (History.OParse [x2a; x00]);
   C07Ops.OFromDictInst [(0%nat, PInt 0)]; C07Ops.OBase (History.OGet [] 0)].
Definition ex_gap_bytes : list byte := [x10; x00; x20; x00; x2a; x00; x32; x02; x10; x00].

Example C06_gap_reachable_nonvacuous :
  C01Reach.hist_ok C01Parse.op_reach_ok_p ex_schema (new ex_schema 11) ex_gap_hist = true /\
  exists m rs, C07Ops.run7 ex_schema (new ex_schema 11) ex_gap_hist = Ok m /\
    enc_obj ex_schema m = Ok ex_gap_bytes /\ Zlength ex_gap_bytes < 2 ^ 64 /\ is_records rs ex_gap_bytes /\
    c01_value_ok ex_schema m = true /\ sow_ok ex_schema m = true /\ length (oraw m) = 6%nat /\
    map (value_not_none ex_schema m) [1; 4]%nat = [true; true] /\ which_one_of m 0 = Some 3%nat /\
    child_on_wire m 5 = true /\
    map (fun f => has_record f rs) (cfields (get_class ex_schema 11)) = [false; true; false; true; true; true] /\
    last_member (get_class ex_schema 11) 0 rs = Some 3%nat.
Proof.
  split; [vm_compute; reflexivity|]. eexists.
  exists [mkR 2 0 0 []; mkR 4 0 0 []; mkR 5 2 0 []; mkR 6 2 0 [x10; x00]].
  split; [vm_compute; reflexivity|]. split; [vm_compute; reflexivity|]. split; [vm_compute; reflexivity|].
  split; [apply parse_records_sound; vm_compute; reflexivity|]. vm_compute. repeat split.
Qed.
