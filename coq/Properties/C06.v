(* C06 — proto3 defaults and field presence are encoded and recovered correctly.

   Vocabulary (definitions, no proofs):
     Model/Object.v  Encode.v  Decode.v   the shared mirror of Message (new / construct / setattr / getattr, enc_obj = bytes(m),
                                          parse), validated against the implementation on every run
     Model/C06Obs.v   is_set, value_not_none (`m.f is not None`), child_on_wire (serialized_on_wire(m.f)), assign_path
                      (`m.a.b.x = v`), [here] = what one field contributes to bytes(m), [body] = the loop of dump,
                      emitted_in = bytes(m) contains the field's contribution and it starts with the field's tag
     Spec/C06Wire.v   independent of the codec: the record grammar is_record / is_records over Spec/Varint.v's VarintRep,
                      the executable reader parse_records, fits (wire type table), has_record, last_member,
                      proto3_default, starts_with_tag, and the presence classes of a field
                      (implicit_field, optional_like, explicit_field, plain_msg_field, plain_msg)
     Model/WellFormed.v  wf_schema;  Spec/C06Wire.v std_builtins_b (class table starts with betterproto's own classes)

   from_dict (the fourth way of setting) is modelled by another property; its column of the matrix is checked on the
   implementation by harness/props/c06.py only.
   Message.is_set of an implicit-presence field flips after a mere read (DESIGN K4): proto3 gives such a field no presence,
   so every statement below is about explicit-presence fields (C14 owns observer purity). *)
From BP Require Import Base.Prelude Model.Types Model.Varint Model.Object Model.Eq Model.Encode Model.Decode.
From BP Require Import Model.WellFormed Model.C06Obs Model.Canon.
From BP Require Import Spec.Varint Spec.C06Wire Spec.C06Zero.
From BP Require Import Proofs.C06SpecP Proofs.C06EncP Proofs.C06PresP Proofs.C06WaysP Proofs.C06FinalP Proofs.C06ZeroP.

(* bytes(m) is the concatenation of one contribution per field, in declaration order, then the unknown bytes;
   [here sc cur i x f] is the contribution of field i holding raw value x *)
Theorem C06_bytes_decompose : forall sc c raw sow unk cur,
  enc_obj sc (Obj c raw sow unk cur) =
  (do b <- body sc cur 0 raw (cfields (get_class sc c)); Ok (b ++ unk)).
Proof. exact enc_obj_body. Qed.
Print Assumptions C06_bytes_decompose.

Theorem C06_field_segment : forall sc c raw sow unk cur i x f bs,
  nth_error raw i = Some x -> nth_error (cfields (get_class sc c)) i = Some f ->
  enc_obj sc (Obj c raw sow unk cur) = Ok bs ->
  exists pre h post, here sc cur i x f = Ok h /\ bs = pre ++ h ++ post.
Proof. exact enc_obj_split. Qed.
Print Assumptions C06_field_segment.

(* ---- a fresh message encodes to zero bytes and reads every field as its proto3 default ---- *)
Theorem C06_fresh : forall sc c,
  wf_schema sc = true ->
  enc_obj sc (new sc c) = Ok [] /\
  forall i f, nth_error (cfields (get_class sc c)) i = Some f -> read sc (new sc c) i = proto3_default sc f.
Proof. exact fresh. Qed.
Print Assumptions C06_fresh.

(* ---- an implicit-presence field holding its default is never emitted, whatever the other fields hold:
        the encoding equals the encoding with that field reset to PLACEHOLDER ---- *)
Theorem C06_implicit_skip : forall sc c raw sow unk cur i f x,
  nth_error (cfields (get_class sc c)) i = Some f -> nth_error raw i = Some x ->
  implicit_field f -> is_default sc f x = true ->
  (forall enc, emit_field enc sc f None x = Ok []) /\
  here sc cur i x f = Ok [] /\
  enc_obj sc (Obj c raw sow unk cur) = enc_obj sc (Obj c (set_nth i PPlaceholder raw) sow unk cur).
Proof. exact implicit_skip_full. Qed.
Print Assumptions C06_implicit_skip.

(* ---- an explicit-presence field that holds a value — even its default — contributes a record with its number ---- *)
(* in any object state: a proto3-optional field, a wrapper field, or the member its oneof group selects *)
Theorem C06_explicit_emit : forall sc cur i x f bs,
  1 <= fnum f < 2 ^ 29 -> fmap f = None ->
  explicit_kind cur i f -> is_value x -> singular_value x ->
  here sc cur i x f = Ok bs ->
  starts_with_tag (fnum f) (base_wire_type (fty f)) bs.
Proof. exact explicit_emit_here. Qed.
Print Assumptions C06_explicit_emit.

(* set to the ZERO of its scalar type (Spec/C06Zero.v: 0, false, "", b"", 0.0), a proto3-optional field or the selected
   oneof member contributes exactly ONE complete record of the grammar: its tag, then the zero payload *)
Theorem C06_explicit_zero_record : forall sc cur i x f h wt after rb,
  1 <= fnum f < 2 ^ 29 -> fwraps f = None ->
  (fgroup f = None /\ fopt f = true) \/ group_selects cur f i = Some true ->
  zero_record (fty f) x = Some (wt, after, rb) ->
  here sc cur i x f = Ok h ->
  is_record (mkR (fnum f) wt 0 rb) h /\ wt = base_wire_type (fty f).
Proof. exact explicit_zero_record. Qed.
Print Assumptions C06_explicit_zero_record.

(* way 1, constructor: whatever keyword arguments were given, if the field's attribute holds a value (and, for a oneof
   member, no later member of its group was given as well: the constructor lets the last one in declaration order win) *)
Theorem C06_explicit_emit_construct : forall sc c kw i f o,
  wf_schema sc = true ->
  nth_error (cfields (get_class sc c)) i = Some f -> explicit_field f ->
  o = construct sc c kw ->
  is_value (raw_at o i) -> singular_value (raw_at o i) ->
  (forall g, fgroup f = Some g ->
     forall k f', (i < k)%nat -> nth_error (cfields (get_class sc c)) k = Some f' -> fgroup f' = Some g ->
                  is_sentinel f' (raw_at o k) = true) ->
  emitted_in sc o i f /\ (forall g, fgroup f = Some g -> which_one_of o g = Some i).
Proof. exact emit_after_construct. Qed.
Print Assumptions C06_explicit_emit_construct.

(* way 2, attribute assignment on any object of the right shape: the assigned member becomes the selected one *)
Theorem C06_explicit_emit_setattr : forall sc o i f v,
  wf_schema sc = true ->
  nth_error (cfields (get_class sc (ocls o))) i = Some f ->
  length (oraw o) = length (cfields (get_class sc (ocls o))) -> length (ocur o) = cngroups (get_class sc (ocls o)) ->
  explicit_field f -> is_value v -> singular_value v ->
  emitted_in sc (setattr sc o i v) i f /\
  (forall g, fgroup f = Some g -> which_one_of (setattr sc o i v) g = Some i).
Proof. exact emit_after_setattr. Qed.
Print Assumptions C06_explicit_emit_setattr.

(* way 3, parse: a received optional / wrapper field, and the last received member of a oneof, are re-emitted *)
Theorem C06_explicit_emit_parse_optional : forall sc c bs rs m j f,
  wf_schema sc = true -> std_builtins_b sc = true ->
  is_records rs bs -> parse sc c bs = Ok m ->
  nth_error (cfields (get_class sc c)) j = Some f -> optional_like f ->
  has_record f rs = true -> emitted_in sc m j f.
Proof. exact emit_after_parse_optional. Qed.
Print Assumptions C06_explicit_emit_parse_optional.

Theorem C06_explicit_emit_parse_oneof : forall sc c bs rs m g i f,
  wf_schema sc = true -> std_builtins_b sc = true ->
  is_records rs bs -> parse sc c bs = Ok m ->
  nth_error (cfields (get_class sc c)) i = Some f ->
  last_member (get_class sc c) g rs = Some i ->
  which_one_of m g = Some i /\ emitted_in sc m i f.
Proof. exact emit_after_parse_oneof. Qed.
Print Assumptions C06_explicit_emit_parse_oneof.

(* ---- a plain sub-message field is emitted exactly when serialized_on_wire(child) says so ----
   for the direct child of the message being encoded; "flag consistent" = a child whose flag is down is a default message *)
Theorem C06_submessage : forall sc c raw sow unk cur i f ch all,
  wf_schema sc = true ->
  nth_error (cfields (get_class sc c)) i = Some f -> nth_error raw i = Some (PMsg ch) ->
  plain_msg_field f ->
  enc_obj sc (Obj c raw sow unk cur) = Ok all ->
  exists pre h post, all = pre ++ h ++ post /\ here sc cur i (PMsg ch) f = Ok h /\
    (osow ch = true -> starts_with_tag (fnum f) 2 h) /\
    (osow ch = false -> is_default sc f (PMsg ch) = true -> h = []) /\
    ((osow ch = false -> is_default sc f (PMsg ch) = true) -> (h <> [] <-> osow ch = true)).
Proof. exact submessage. Qed.
Print Assumptions C06_submessage.

(* the flag is consistent for every child built by the constructor, by assignment or by parse
   (it was received: parse marks it; something was assigned inside it; or it is non-default) *)
Theorem C06_flag_construct : forall sc c kw f,
  wf_schema sc = true -> fhint f = HPlain (PyMsg c) ->
  osow (construct sc c kw) = false -> is_default sc f (PMsg (construct sc c kw)) = true.
Proof. exact construct_flag. Qed.
Print Assumptions C06_flag_construct.

Theorem C06_flag_setattr : forall sc o i v f,
  nth_error (cfields (get_class sc (ocls o))) i = Some f -> osow (setattr sc o i v) = true.
Proof. exact setattr_sow. Qed.
Print Assumptions C06_flag_setattr.

Theorem C06_flag_parse : forall sc c bs m, parse sc c bs = Ok m -> osow m = true.
Proof. exact parse_sow. Qed.
Print Assumptions C06_flag_parse.

(* ---- after parse, an explicit-presence field is reported set exactly when a record that belongs to it occurs ---- *)
(* proto3 optional and wrapper fields: `m.f is not None` (and Message.is_set for optional fields) *)
Theorem C06_decode_presence_optional : forall sc c bs rs m j f,
  wf_schema sc = true -> std_builtins_b sc = true ->
  is_records rs bs -> parse sc c bs = Ok m ->
  nth_error (cfields (get_class sc c)) j = Some f -> optional_like f ->
  value_not_none sc m j = has_record f rs /\
  (fopt f = true -> is_set sc m j = has_record f rs).
Proof. exact decode_optional. Qed.
Print Assumptions C06_decode_presence_optional.

(* oneof groups: which_one_of is the LAST member that occurs *)
Theorem C06_decode_presence_oneof : forall sc c bs rs m g,
  wf_schema sc = true -> std_builtins_b sc = true ->
  is_records rs bs -> parse sc c bs = Ok m ->
  which_one_of m g = last_member (get_class sc c) g rs.
Proof. exact decode_oneof. Qed.
Print Assumptions C06_decode_presence_oneof.

(* plain sub-message fields: serialized_on_wire(m.f) *)
Theorem C06_decode_presence_submessage : forall sc c bs rs m j f,
  wf_schema sc = true -> std_builtins_b sc = true ->
  is_records rs bs -> parse sc c bs = Ok m ->
  nth_error (cfields (get_class sc c)) j = Some f -> plain_msg f ->
  child_on_wire m j = has_record f rs.
Proof. exact decode_submessage. Qed.
Print Assumptions C06_decode_presence_submessage.

(* whatever the executable reader (the one the harness compares with google.protobuf) accepts is in the grammar *)
Theorem C06_spec_reader_sound : forall bs rs, parse_records bs = Some rs -> is_records rs bs.
Proof. exact parse_records_sound. Qed.
Print Assumptions C06_spec_reader_sound.

(* ---- K12 (known finding, class lazy-path): the flags of lazily created intermediates are never raised ---- *)
(* m = Inner(); m.rec.rec.x = 0 : serialized_on_wire(m.rec.rec) is True yet bytes(m) is empty *)
Theorem C06_lazy_path_refuted :
  wf_schema k12_schema = true /\
  exists m leaf, k12_after 0 = Ok m /\ descend k12_schema m [1%nat; 1%nat] = Ok leaf /\
                 osow leaf = true /\ enc_obj k12_schema m = Ok [].
Proof. exact lazy_path_default_witness. Qed.
Print Assumptions C06_lazy_path_refuted.

(* m.rec.rec.x = 5 : m.rec is emitted although serialized_on_wire(m.rec) is False (its flag is not consistent) *)
Theorem C06_lazy_path_nondefault_refuted :
  exists m child, k12_after 5 = Ok m /\ descend k12_schema m [1%nat] = Ok child /\
                  osow child = false /\ child_on_wire m 1 = false /\
                  enc_obj k12_schema m = Ok [x1a; x04; x1a; x02; x08; x05].
Proof. exact lazy_path_nondefault_witness. Qed.
Print Assumptions C06_lazy_path_nondefault_refuted.

(* ---- non-vacuity ---- *)
Definition ex_schema : schema :=
  mkS (builtin_classes ++
       [mkC [mkF [x78] 1 TInt32 None None None false (HPlain PyInt) 0;                       (* x: implicit *)
             mkF [x6f] 2 TInt32 None None None true (HOptional PyInt) 0;                     (* o: proto3 optional *)
             mkF [x61] 3 TString None (Some 0%nat) None false (HPlain PyStr) 0;              (* a: oneof g0 *)
             mkF [x62] 4 TInt32 None (Some 0%nat) None false (HPlain PyInt) 0;               (* b: oneof g0 *)
             mkF [x77] 5 TMessage None None (Some TInt32) false (HOptional PyInt) 0;         (* w: Int32Value *)
             mkF [x73] 6 TMessage None None None false (HPlain (PyMsg 11)) 0] 1]) [].       (* s: sub-message *)

Example C06_hypotheses_satisfiable : wf_schema ex_schema = true /\ std_builtins_b ex_schema = true.
Proof. vm_compute. split; reflexivity. Qed.

(* every explicit-presence field received with its DEFAULT value: all are reported set, b (the last member) wins *)
Definition ex_bytes : list byte := [x10; x00; x1a; x00; x20; x00; x2a; x00; x32; x00].
Example C06_decode_nonvacuous :
  exists rs m, parse_records ex_bytes = Some rs /\ parse ex_schema 11 ex_bytes = Ok m /\
    map (fun f => has_record f rs) (cfields (get_class ex_schema 11)) = [false; true; true; true; true; true] /\
    value_not_none ex_schema m 1 = true /\ is_set ex_schema m 1 = true /\
    which_one_of m 0 = Some 3%nat /\ last_member (get_class ex_schema 11) 0 rs = Some 3%nat /\
    value_not_none ex_schema m 4 = true /\ child_on_wire m 5 = true /\
    enc_obj ex_schema m = Ok [x10; x00; x20; x00; x2a; x00; x32; x00].
Proof.
  exists [mkR 2 0 0 []; mkR 3 2 0 []; mkR 4 0 0 []; mkR 5 2 0 []; mkR 6 2 0 []].
  eexists. split; [vm_compute; reflexivity|]. split; [vm_compute; reflexivity|].
  vm_compute. repeat split.
Qed.

(* nothing received: nothing is reported *)
Example C06_decode_absent :
  exists m, parse ex_schema 11 [] = Ok m /\ value_not_none ex_schema m 1 = false /\ which_one_of m 0 = None /\
            value_not_none ex_schema m 4 = false /\ child_on_wire m 5 = false /\ enc_obj ex_schema m = Ok [].
Proof. eexists. split; [vm_compute; reflexivity|]. vm_compute. repeat split. Qed.

(* the four kinds set to their default by assignment, next to an implicit field holding 0 and a non-default one *)
Example C06_emit_nonvacuous :
  let o1 := setattr ex_schema (new ex_schema 11) 1 (PInt 0) in      (* o = 0 *)
  let o2 := setattr ex_schema o1 2 (PStr []) in                      (* a = "" *)
  let o3 := setattr ex_schema o2 4 (PInt 0) in                       (* w = 0 *)
  let o4 := setattr ex_schema o3 0 (PInt 0) in                       (* x = 0: implicit, skipped *)
  enc_obj ex_schema o4 = Ok [x10; x00; x1a; x00; x2a; x00] /\
  explicit_field (nth 1 (cfields (get_class ex_schema 11)) (plain_field [] 0 TBool)) /\
  implicit_field (nth 0 (cfields (get_class ex_schema 11)) (plain_field [] 0 TBool)) /\
  is_default ex_schema (nth 0 (cfields (get_class ex_schema 11)) (plain_field [] 0 TBool)) (PInt 0) = true.
Proof.
  cbv zeta. split; [vm_compute; reflexivity|]. split; [left; split; [reflexivity|left; reflexivity]|].
  split; [|reflexivity]. split; [reflexivity|]. split; [reflexivity|]. exists PyInt. split; [reflexivity|discriminate].
Qed.
