(* C15 — Timestamp/Duration <-> datetime/timedelta conversion is exact and normalised.

   Only property-level statements here; every proof is one [exact] of a lemma of Proofs/TimeP.v,
   followed by Print Assumptions.  The model (Model/Time.v) mirrors the code AFTER
   fixes/c15-duration-integer.patch and fixes/c15-json-forms.patch (both landed in /repo as
   fix commits); the functions ending in
   [_pinned] mirror the float arithmetic of the pinned commit (binary64 modelled exactly over Z)
   and only occur in the [_refuted] theorems.

   Quantification: every theorem is over ALL of Z (instants / spans in microseconds, any UTC offset,
   any field number below 2^29); [in_ts_range] (years 0001-9999) and [in_dur_range]
   (+-315,576,000,000 s) appear only where Python itself raises OverflowError outside them.
   Not covered by theorems (oracles, tied by the harness only): the calendar text of
   isoformat/isoparse - the JSON statements take it as the argument [cal]. *)
From BP Require Import Base.Prelude Model.Varint Model.Scalar Model.Time Spec.Varint Spec.Time.
From BP Require Import Proofs.TimeP.
From BP Require Model.TimeCore Model.Json Spec.JsonMap Proofs.C15CalP.
From BP Require Model.Types gen.Tables.

(* ------------------------------------------------------------------------------------------ *)
(* Timestamp                                                                                    *)
(* ------------------------------------------------------------------------------------------ *)
(* from_datetime yields the reference's pair for the instant, whatever the instant *)
Theorem C15_ts_exact : forall dt, from_datetime dt = ts_of_us (instant dt).
Proof. exact from_datetime_is_spec. Qed.
Print Assumptions C15_ts_exact.

(* ... which is the unique pair denoting the instant with nanos in [0, 1e9) (and whole microseconds) *)
Theorem C15_ts_normal_form : forall t, let '(s, n) := ts_of_us t in ts_normal s n /\ denotes_us s n t /\ n mod 1000 = 0.
Proof. exact ts_of_us_normal. Qed.
Print Assumptions C15_ts_normal_form.

Theorem C15_ts_pair_unique : forall s n s' n' t,
  ts_normal s n -> denotes_us s n t -> ts_normal s' n' -> denotes_us s' n' t -> s = s' /\ n = n'.
Proof. exact ts_pair_unique. Qed.
Print Assumptions C15_ts_pair_unique.

(* any fixed UTC offset: only the instant matters, for the pair and for the bytes *)
Theorem C15_ts_tz : forall a b, instant a = instant b -> from_datetime a = from_datetime b.
Proof. exact from_datetime_tz. Qed.
Print Assumptions C15_ts_tz.

Theorem C15_ts_tz_bytes : forall fno a b, instant a = instant b -> bytes_ts fno a = bytes_ts fno b.
Proof. exact bytes_ts_tz. Qed.
Print Assumptions C15_ts_tz_bytes.

(* the same wall-clock-independent instant written at two offsets o, o' *)
Theorem C15_ts_offset_cancels : forall w o o', from_datetime (mkdt (w + o) o) = from_datetime (mkdt (w + o') o').
Proof. exact from_datetime_shift. Qed.
Print Assumptions C15_ts_offset_cancels.

(* decodes back to the identical instant (returned in UTC), over the whole range *)
Theorem C15_ts_roundtrip_pair : forall dt, in_ts_range (instant dt) ->
  let '(s, n) := from_datetime dt in to_datetime s n = Ok (mkdt (instant dt) 0).
Proof. exact to_from_datetime. Qed.
Print Assumptions C15_ts_roundtrip_pair.

(* every Timestamp in range, sub-microsecond nanos included, decodes like the reference's ToDatetime;
   outside the range it is OverflowError, never a wrong value *)
Theorem C15_ts_decode : forall s n, in_ts_range (ts_to_us s n) -> to_datetime s n = Ok (mkdt (ts_to_us s n) 0).
Proof. exact to_datetime_is_spec. Qed.
Print Assumptions C15_ts_decode.

Theorem C15_ts_decode_overflow : forall s n,
  0 <= n < 1000000000 -> ~ in_ts_range (ts_to_us s n) -> to_datetime s n = Err EOverflow.
Proof. exact to_datetime_out_of_range. Qed.
Print Assumptions C15_ts_decode_overflow.

(* bytes of a message with one datetime field: the canonical proto3 bytes of the reference's pair,
   and parse(bytes).field is the same instant *)
Theorem C15_ts_wire_roundtrip : forall fno dt, 0 < fno < 2 ^ 29 -> in_ts_range (instant dt) ->
  exists bs, bytes_ts fno dt = Ok bs /\ ts_field_wire fno (instant dt) bs /\ parse_ts fno bs = Ok (mkdt (instant dt) 0).
Proof. exact bytes_parse_ts. Qed.
Print Assumptions C15_ts_wire_roundtrip.

(* what any conforming writer sends for a pair (s, n) is decoded as to_datetime s n *)
Theorem C15_ts_wire_any_writer : forall fno s n inner bs,
  0 < fno < 2 ^ 29 -> - 2 ^ 63 <= s < 2 ^ 63 -> - 2 ^ 31 <= n < 2 ^ 31 ->
  sn_wire s n inner -> msg_field_wire fno inner bs -> parse_ts fno bs = to_datetime s n.
Proof. exact parse_ts_wire. Qed.
Print Assumptions C15_ts_wire_any_writer.

(* ------------------------------------------------------------------------------------------ *)
(* Duration                                                                                     *)
(* ------------------------------------------------------------------------------------------ *)
Theorem C15_dur_exact : forall d, from_timedelta d = dur_of_us d.
Proof. exact from_timedelta_is_spec. Qed.
Print Assumptions C15_dur_exact.

(* seconds and nanos never of opposite sign, |nanos| < 1e9, and the pair is unique *)
Theorem C15_dur_normal_form : forall d, let '(s, n) := dur_of_us d in dur_normal s n /\ denotes_us s n d /\ n mod 1000 = 0.
Proof. exact dur_of_us_normal. Qed.
Print Assumptions C15_dur_normal_form.

Theorem C15_dur_pair_unique : forall s n s' n' d,
  dur_normal s n -> denotes_us s n d -> dur_normal s' n' -> denotes_us s' n' d -> s = s' /\ n = n'.
Proof. exact dur_pair_unique. Qed.
Print Assumptions C15_dur_pair_unique.

Theorem C15_dur_roundtrip_pair : forall d, in_dur_range d ->
  let '(s, n) := from_timedelta d in to_timedelta s n = Ok d.
Proof. exact to_from_timedelta_range. Qed.
Print Assumptions C15_dur_roundtrip_pair.

(* ... and in fact for every timedelta Python can hold *)
Theorem C15_dur_roundtrip_pair_any_timedelta : forall d, Z.abs (td_days d) <= 999999999 ->
  let '(s, n) := from_timedelta d in to_timedelta s n = Ok d.
Proof. exact to_from_timedelta. Qed.
Print Assumptions C15_dur_roundtrip_pair_any_timedelta.

(* every Duration decodes like the reference's ToTimedelta (sub-microsecond part toward zero) *)
Theorem C15_dur_decode : forall s n, Z.abs (td_days (dur_to_us s n)) <= 999999999 -> to_timedelta s n = Ok (dur_to_us s n).
Proof. exact to_timedelta_is_spec. Qed.
Print Assumptions C15_dur_decode.

Theorem C15_dur_wire_roundtrip : forall fno d, 0 < fno < 2 ^ 29 -> in_dur_range d ->
  exists bs, bytes_dur fno d = Ok bs /\ dur_field_wire fno d bs /\ parse_dur fno bs = Ok d.
Proof. exact bytes_parse_dur_range. Qed.
Print Assumptions C15_dur_wire_roundtrip.

Theorem C15_dur_wire_any_writer : forall fno s n inner bs,
  0 < fno < 2 ^ 29 -> - 2 ^ 63 <= s < 2 ^ 63 -> - 2 ^ 31 <= n < 2 ^ 31 ->
  sn_wire s n inner -> msg_field_wire fno inner bs -> parse_dur fno bs = to_timedelta s n.
Proof. exact parse_dur_wire. Qed.
Print Assumptions C15_dur_wire_any_writer.

(* ------------------------------------------------------------------------------------------ *)
(* the two-field message on the wire                                                            *)
(* ------------------------------------------------------------------------------------------ *)
(* T1: the field layout the model hard-wires (seconds = 1 : int64, nanos = 2 : int32) is the one of
   the bundled Timestamp / Duration classes of the live tree (regenerated table; finite) *)
Theorem C15_field_layout :
  map (fun x => (snd (fst x), snd x)) Tables.timestamp_fields = [(1, Types.TInt64); (2, Types.TInt32)] /\
  map (fun x => (snd (fst x), snd x)) Tables.duration_fields = [(1, Types.TInt64); (2, Types.TInt32)] /\
  Types.tmem Types.TInt64 Tables.WIRE_VARINT_TYPES = true /\ Types.tmem Types.TInt32 Tables.WIRE_VARINT_TYPES = true /\
  Types.tmem Types.TMessage Tables.WIRE_LEN_DELIM_TYPES = true.
Proof. vm_compute. repeat split. Qed.
Print Assumptions C15_field_layout.

(* encoder meets the proto3 wire specification (zero fields omitted, negatives as 64-bit two's
   complement), decoder inverts it, at most 22 bytes *)
Theorem C15_pair_wire : forall s n, - 2 ^ 63 <= s < 2 ^ 63 -> - 2 ^ 31 <= n < 2 ^ 31 ->
  exists bs, bytes_sn s n = Ok bs /\ sn_wire s n bs /\ parse_sn bs = Ok (s, n) /\ (length bs <= 22)%nat /\
             (bs = [] <-> s = 0 /\ n = 0).
Proof. exact bytes_parse_sn. Qed.
Print Assumptions C15_pair_wire.

(* the wire specification determines the bytes: ours are the reference's *)
Theorem C15_pair_wire_unique : forall s n a b, sn_wire s n a -> sn_wire s n b -> a = b.
Proof. exact sn_wire_unique. Qed.
Print Assumptions C15_pair_wire_unique.

(* len(m) walks the same way as bytes(m) *)
Theorem C15_len_ts : forall fno dt, match bytes_ts fno dt, len_ts fno dt with
                                    | Ok b, Ok n => n = Zlength b | Err a, Err b => a = b | _, _ => False end.
Proof. exact len_ts_bytes. Qed.
Print Assumptions C15_len_ts.

Theorem C15_len_dur : forall fno d, match bytes_dur fno d, len_dur fno d with
                                    | Ok b, Ok n => n = Zlength b | Err a, Err b => a = b | _, _ => False end.
Proof. exact len_dur_bytes. Qed.
Print Assumptions C15_len_dur.

(* the decoder model is total on arbitrary bytes (its fuel is never the reason for an error) *)
Theorem C15_parse_ts_total : forall fno bs, parse_ts fno bs <> Err EFuel.
Proof. exact parse_ts_no_fuel. Qed.
Print Assumptions C15_parse_ts_total.

Theorem C15_parse_dur_total : forall fno bs, parse_dur fno bs <> Err EFuel.
Proof. exact parse_dur_no_fuel. Qed.
Print Assumptions C15_parse_dur_total.

(* ------------------------------------------------------------------------------------------ *)
(* JSON forms                                                                                   *)
(* ------------------------------------------------------------------------------------------ *)
(* RFC 3339 with 0 / 3 / 6 fractional digits and "Z"; never the broken fourth branch.
   [cal] is the calendar text of the whole second in UTC (oracle). *)
Theorem C15_json_ts : forall cal dt, timestamp_to_json cal dt = Ok (ts_json cal (snd (ts_of_us (instant dt)))).
Proof. exact timestamp_to_json_is_spec. Qed.
Print Assumptions C15_json_ts.

(* ... and WITHOUT the oracle: with the proleptic-Gregorian calendar of Model/Json.v (civil_of_days / days_of_civil proved
   inverse over the years 1..9999, Proofs/C04Cal*.v) as [cal], the text written for any aware datetime in range is the
   canonical RFC 3339 UTC string of the reference's (seconds, nanos) pair of its instant, a conforming reader reads that pair
   from it, and betterproto's own reader (the isoparse model) returns the same instant. *)
Theorem C15_json_ts_calendar : forall dt,
  (Model.TimeCore.dt_min_us <=? instant dt) && (instant dt <=? Model.TimeCore.dt_max_us) = true ->
  exists text,
    timestamp_to_json (Model.Json.cal_text (instant dt / 1000000)) dt = Ok text /\
    text = Spec.JsonMap.ts_str (fst (ts_of_us (instant dt))) (snd (ts_of_us (instant dt))) /\
    Spec.JsonMap.ts_parse text = Some (ts_of_us (instant dt)) /\
    Model.Json.iso_parse text = Ok (instant dt).
Proof. exact C15CalP.timestamp_json_full. Qed.
Print Assumptions C15_json_ts_calendar.

(* non-vacuity: 0001-01-01T00:00:00.000001+05:30, i.e. a wall clock whose UTC instant is still inside year 1 *)
Example C15_ex_json_ts_calendar :
  let dt := mkdt (-62135596800000000 + 19800000000 + 1) 19800000000 in
  (Model.TimeCore.dt_min_us <=? instant dt) && (instant dt <=? Model.TimeCore.dt_max_us) = true /\
  timestamp_to_json (Model.Json.cal_text (instant dt / 1000000)) dt =
    Ok [x30; x30; x30; x31; x2d; x30; x31; x2d; x30; x31; x54; x30; x30; x3a; x30; x30; x3a; x30; x30; x2e;
        x30; x30; x30; x30; x30; x31; x5a].
Proof. vm_compute. split; reflexivity. Qed.

(* reading the fraction back gives the microsecond that was written *)
Theorem C15_json_ts_roundtrip : forall u, 0 <= u < 1000000 -> ts_suffix_parse (frac (u * 1000) ++ [cZ]) = Some u.
Proof. exact ts_suffix_roundtrip. Qed.
Print Assumptions C15_json_ts_roundtrip.

(* Duration: the reference's decimal-seconds string, except for whole seconds (next theorem) *)
Theorem C15_json_dur : forall d, d mod 1000000 <> 0 ->
  delta_to_json d = dur_json (fst (dur_of_us d)) (snd (dur_of_us d)).
Proof. exact delta_to_json_is_spec. Qed.
Print Assumptions C15_json_dur.

(* known finding K15-1: whole seconds are written "N.000s" where the reference writes "Ns" *)
Theorem C15_json_dur_whole_seconds_refuted :
  exists d, in_dur_range d /\ d mod 1000000 = 0 /\ delta_to_json d <> dur_json (fst (dur_of_us d)) (snd (dur_of_us d)) /\
            dur_parse (delta_to_json d) = Some (dur_of_us d).
Proof. exact whole_seconds_refuted. Qed.
Print Assumptions C15_json_dur_whole_seconds_refuted.

(* every string written - whole seconds included - is read by a conforming reader as the reference's pair *)
Theorem C15_json_dur_read_by_reference : forall d, dur_parse (delta_to_json d) = Some (dur_of_us d).
Proof. exact dur_parse_delta_to_json. Qed.
Print Assumptions C15_json_dur_read_by_reference.

(* from_dict reads back exactly what to_dict wrote *)
Theorem C15_json_dur_roundtrip : forall d, in_dur_range d -> parse_duration (delta_to_json d) = Ok d.
Proof. exact parse_duration_delta_to_json_range. Qed.
Print Assumptions C15_json_dur_roundtrip.

(* ------------------------------------------------------------------------------------------ *)
(* the pinned commit violates the full statement (exact binary64 model of its float arithmetic) *)
(* ------------------------------------------------------------------------------------------ *)
(* negative span with a fraction: opposite signs, and the round trip returns another value *)
Theorem C15_dur_negfrac_refuted :
  exists d, in_dur_range d /\ from_timedelta_pinned d <> dur_of_us d /\
            ~ dur_normal (fst (from_timedelta_pinned d)) (snd (from_timedelta_pinned d)) /\
            (do b <- bytes_dur_pinned 1 d; parse_dur_pinned 1 b) <> Ok d.
Proof. exact negfrac_refuted. Qed.
Print Assumptions C15_dur_negfrac_refuted.

(* -1 us is encoded as (0, 999999000) and comes back as +0.999999 s *)
Theorem C15_dur_minus_one_us_refuted :
  exists d, in_dur_range d /\ from_timedelta_pinned d = (0, 999999000) /\ dur_of_us d = (0, -1000) /\
            (do b <- bytes_dur_pinned 1 d; parse_dur_pinned 1 b) = Ok 999999.
Proof. exact minus_one_us_refuted. Qed.
Print Assumptions C15_dur_minus_one_us_refuted.

(* beyond 2^53 us the pair no longer denotes the span *)
Theorem C15_dur_2p53_refuted :
  exists d, in_dur_range d /\ 0 < d /\ from_timedelta_pinned d <> dur_of_us d /\
            ~ denotes_us (fst (from_timedelta_pinned d)) (snd (from_timedelta_pinned d)) d.
Proof. exact two_p53_refuted. Qed.
Print Assumptions C15_dur_2p53_refuted.

(* near the range end the seconds are rounded up *)
Theorem C15_dur_range_end_refuted :
  exists d, in_dur_range d /\ from_timedelta_pinned d = (315576000000, 0) /\ dur_of_us d = (315575999999, 999999000).
Proof. exact range_end_refuted. Qed.
Print Assumptions C15_dur_range_end_refuted.

(* sub-microsecond nanos were rounded half-to-even, the reference drops them *)
Theorem C15_dur_subus_rounding_refuted :
  exists s n, dur_normal s n /\ to_timedelta_pinned s n <> Ok (dur_to_us s n) /\ to_timedelta s n = Ok (dur_to_us s n).
Proof. exact subus_rounding_refuted. Qed.
Print Assumptions C15_dur_subus_rounding_refuted.

(* "1e-06s": not a proto3 JSON duration, rejected by a conforming reader *)
Theorem C15_dur_json_exp_refuted :
  exists d, in_dur_range d /\ delta_to_json_pinned d <> dur_json (fst (dur_of_us d)) (snd (dur_of_us d)) /\
            dur_parse (delta_to_json_pinned d) = None.
Proof. exact json_exp_refuted. Qed.
Print Assumptions C15_dur_json_exp_refuted.

(* JSON through floats loses microseconds both ways *)
Theorem C15_dur_json_precision_refuted :
  exists d, in_dur_range d /\ dur_parse (delta_to_json_pinned d) <> Some (dur_of_us d) /\
            parse_duration_pinned (delta_to_json d) <> Ok d /\ parse_duration (delta_to_json d) = Ok d.
Proof. exact json_precision_refuted. Qed.
Print Assumptions C15_dur_json_precision_refuted.

(* a UTC offset that is not a whole number of seconds: the pinned code prints the local fraction *)
Theorem C15_ts_json_offset_refuted :
  exists cal dt, in_ts_range (instant dt) /\
    timestamp_to_json_pinned cal dt <> Ok (ts_json cal (snd (ts_of_us (instant dt)))) /\
    timestamp_to_json cal dt = Ok (ts_json cal (snd (ts_of_us (instant dt)))).
Proof. exact ts_json_offset_refuted. Qed.
Print Assumptions C15_ts_json_offset_refuted.

(* ------------------------------------------------------------------------------------------ *)
(* non-vacuity: concrete values meet the hypotheses and show the expected results               *)
(* ------------------------------------------------------------------------------------------ *)
Example C15_ex_ranges : in_ts_range (-1) /\ in_ts_range TS_MIN_US /\ in_ts_range TS_MAX_US /\
                        in_dur_range (-1500000) /\ in_dur_range (315576000000 * 1000000) /\ in_dur_range (2 ^ 53 + 1).
Proof. unfold in_ts_range, in_dur_range, TS_MIN_US, TS_MAX_US, DUR_MAX_S. lia. Qed.

(* 1969-12-31T23:59:59.999999Z, and the same instant written at +05:30 *)
Example C15_ex_ts_pre1970 : from_datetime (mkdt (-1) 0) = (-1, 999999000) /\
                            from_datetime (mkdt (-1 + 19800000000) 19800000000) = (-1, 999999000).
Proof. vm_compute. split; reflexivity. Qed.

Example C15_ex_ts_bytes :
  bytes_ts 1 (mkdt 1500000 0) = Ok [x0a; x08; x08; x01; x10; x80; xca; xb5; xee; x01] /\
  parse_ts 1 [x0a; x08; x08; x01; x10; x80; xca; xb5; xee; x01] = Ok (mkdt 1500000 0) /\
  parse_ts 1 [x0a; x08; x10; x80; xca; xb5; xee; x01; x08; x01] = Ok (mkdt 1500000 0).  (* fields swapped *)
Proof. vm_compute. repeat split. Qed.

Example C15_ex_ts_range_ends :
  (do b <- bytes_ts 1 (mkdt TS_MAX_US 0); parse_ts 1 b) = Ok (mkdt TS_MAX_US 0) /\
  (do b <- bytes_ts 1 (mkdt TS_MIN_US 0); parse_ts 1 b) = Ok (mkdt TS_MIN_US 0) /\
  to_datetime 253402300800 0 = Err EOverflow.
Proof. vm_compute. repeat split. Qed.

Example C15_ex_dur : from_timedelta (-1500000) = (-1, -500000000) /\ from_timedelta (-1) = (0, -1000) /\
                     from_timedelta (2 ^ 53 + 1) = (9007199254, 740993000) /\
                     (do b <- bytes_dur 1 (-1500000); parse_dur 1 b) = Ok (-1500000) /\
                     (do b <- bytes_dur 2047 (315576000000 * 1000000 - 1); parse_dur 2047 b) = Ok (315576000000 * 1000000 - 1).
Proof. vm_compute. repeat split. Qed.

Example C15_ex_json :
  delta_to_json (-1500000) = [x2d; x31; x2e; x35; x30; x30; x73] (* "-1.500s" *) /\
  delta_to_json 1 = [x30; x2e; x30; x30; x30; x30; x30; x31; x73] (* "0.000001s" *) /\
  parse_duration [x2d; x31; x2e; x35; x30; x30; x73] = Ok (-1500000) /\
  timestamp_to_json [x54] (mkdt 1500000 0) = Ok [x54; x2e; x35; x30; x30; x5a] (* cal ++ ".500Z" *) /\
  ts_suffix_parse [x2e; x35; x30; x30; x5a] = Some 500000.
Proof. vm_compute. repeat split. Qed.

Example C15_ex_wire_hyps : sn_wire 1 500000000 [x08; x01; x10; x80; xca; xb5; xee; x01] /\
                           msg_field_wire 1 [x08; x01] [x0a; x02; x08; x01].
Proof.
  assert (C : forall n bs, varint_shape bs -> varint_value bs = n -> (length bs = 1%nat \/ last bs x00 <> x00) -> canonical n bs)
    by (intros; repeat split; assumption).
  split.
  - exists [x08; x01], [x10; x80; xca; xb5; xee; x01]. split; [reflexivity|]. split; right; (split; [lia|]).
    + exists [x01]. split; [reflexivity|]. apply C; cbn; try lia; try (left; reflexivity).
    + exists [x80; xca; xb5; xee; x01]. split; [reflexivity|]. apply C; cbn; try lia; try (right; discriminate).
  - exists [x0a], [x02]. split; [reflexivity|]. split; apply C; cbn; try lia; try (left; reflexivity).
Qed.

(* ========================================================================================== *)
(* GAP CLOSING against the property text (table: header of Proofs/C15GapA.v)                    *)
(* ========================================================================================== *)
From BP Require Import Model.C15GapDefs Proofs.C15GapA.

(* ---- microsecond resolution: distinct values are encoded differently (converses of C15_ts_tz / _tz_bytes) ---- *)
Theorem C15_ts_pair_iff : forall a b, from_datetime a = from_datetime b <-> instant a = instant b.
Proof. exact ts_pair_iff. Qed.
Print Assumptions C15_ts_pair_iff.

Theorem C15_dur_pair_iff : forall a b, from_timedelta a = from_timedelta b <-> a = b.
Proof. exact dur_pair_iff. Qed.
Print Assumptions C15_dur_pair_iff.

Theorem C15_ts_bytes_iff : forall fno a b, 0 < fno < 2 ^ 29 -> in_ts_range (instant a) -> in_ts_range (instant b) ->
  (bytes_ts fno a = bytes_ts fno b <-> instant a = instant b).
Proof. exact bytes_ts_iff. Qed.
Print Assumptions C15_ts_bytes_iff.

Theorem C15_dur_bytes_iff : forall fno a b, 0 < fno < 2 ^ 29 -> td_rangeb a = true -> td_rangeb b = true ->
  (bytes_dur fno a = bytes_dur fno b <-> a = b).
Proof. exact bytes_dur_iff. Qed.
Print Assumptions C15_dur_bytes_iff.

(* the normal form stated of the code's function itself; the Duration pair carries exactly the sign of the span *)
Theorem C15_ts_from_datetime_normal : forall dt,
  let '(s, n) := from_datetime dt in 0 <= n < 1000000000 /\ s * 1000000000 + n = 1000 * instant dt.
Proof. exact from_datetime_normal. Qed.
Print Assumptions C15_ts_from_datetime_normal.

Theorem C15_dur_sign : forall d,
  let '(s, n) := from_timedelta d in
  (d < 0 <-> s < 0 \/ n < 0) /\ (0 < d <-> 0 < s \/ 0 < n) /\ (d = 0 <-> s = 0 /\ n = 0).
Proof. exact from_timedelta_sign. Qed.
Print Assumptions C15_dur_sign.

(* ---- the decoder's outcome as ONE equation for EVERY (seconds, nanos) - negative and oversized nanos included:
   the reference's value or OverflowError, never another value (C15_ts_decode_overflow needed 0 <= nanos < 1e9;
   Duration had no overflow half) ---- *)
Theorem C15_ts_decode_exact : forall s n,
  to_datetime s n = if ts_rangeb (ts_to_us s n) then Ok (mkdt (ts_to_us s n) 0) else Err EOverflow.
Proof. exact to_datetime_exact. Qed.
Print Assumptions C15_ts_decode_exact.

Theorem C15_ts_decode_ok_iff : forall s n dt,
  to_datetime s n = Ok dt <-> in_ts_range (ts_to_us s n) /\ dt = mkdt (ts_to_us s n) 0.
Proof. exact to_datetime_ok_iff. Qed.
Print Assumptions C15_ts_decode_ok_iff.

Theorem C15_dur_decode_exact : forall s n,
  to_timedelta s n = if td_rangeb (dur_to_us s n) then Ok (dur_to_us s n) else Err EOverflow.
Proof. exact to_timedelta_exact. Qed.
Print Assumptions C15_dur_decode_exact.

Theorem C15_dur_decode_ok_iff : forall s n d,
  to_timedelta s n = Ok d <-> Z.abs (td_days (dur_to_us s n)) <= 999999999 /\ d = dur_to_us s n.
Proof. exact to_timedelta_ok_iff. Qed.
Print Assumptions C15_dur_decode_ok_iff.

Theorem C15_range_predicates : forall t, (ts_rangeb t = true <-> in_ts_range t) /\ (dur_rangeb t = true <-> in_dur_range t) /\
  (td_rangeb t = true <-> Z.abs (td_days t) <= 999999999) /\ (dur_rangeb t = true -> td_rangeb t = true).
Proof. intros t. exact (conj (ts_rangeb_iff t) (conj (dur_rangeb_iff t) (conj (td_rangeb_iff t) (dur_range_td t)))). Qed.
Print Assumptions C15_range_predicates.

(* ---- the wire round trip for every timedelta Python can hold (in_dur_range of C15_dur_wire_roundtrip is not needed);
   neither direction checks duration.proto's +-10000-year bound ---- *)
Theorem C15_dur_wire_roundtrip_any_timedelta : forall fno d, 0 < fno < 2 ^ 29 -> Z.abs (td_days d) <= 999999999 ->
  exists bs, bytes_dur fno d = Ok bs /\ dur_field_wire fno d bs /\ parse_dur fno bs = Ok d.
Proof. exact bytes_parse_dur. Qed.
Print Assumptions C15_dur_wire_roundtrip_any_timedelta.

Theorem C15_dur_no_range_check :
  exists d, ~ in_dur_range d /\ td_rangeb d = true /\
            from_timedelta d = (2 * DUR_MAX_S, 0) /\ to_timedelta (2 * DUR_MAX_S) 0 = Ok d.
Proof. exact dur_no_range_check. Qed.
Print Assumptions C15_dur_no_range_check.

(* ---- the quantifier bounds the WALL clock ("datetimes in [0001-01-01, 9999-12-31T23:59:59.999999] with any fixed UTC
   offset"); the instant of such a datetime leaves Timestamp's range by up to a day.  For EVERY aware datetime CPython can
   hold: the encoding succeeds and is the reference's; the parse returns the instant exactly when it is in range ---- *)
Theorem C15_ts_wire_python_datetime : forall fno dt, 0 < fno < 2 ^ 29 -> py_datetime dt = true ->
  exists bs, bytes_ts fno dt = Ok bs /\ ts_field_wire fno (instant dt) bs /\
             parse_ts fno bs = if ts_rangeb (instant dt) then Ok (mkdt (instant dt) 0) else Err EOverflow.
Proof. exact bytes_ts_python. Qed.
Print Assumptions C15_ts_wire_python_datetime.

Theorem C15_ts_wire_any_instant : forall fno dt, 0 < fno < 2 ^ 29 -> - 2 ^ 63 <= instant dt / 1000000 < 2 ^ 63 ->
  exists bs, bytes_ts fno dt = Ok bs /\ ts_field_wire fno (instant dt) bs /\
             parse_ts fno bs = if ts_rangeb (instant dt) then Ok (mkdt (instant dt) 0) else Err EOverflow.
Proof. exact bytes_ts_any. Qed.
Print Assumptions C15_ts_wire_any_instant.

Theorem C15_ts_roundtrip_iff : forall fno dt, 0 < fno < 2 ^ 29 -> py_datetime dt = true ->
  ((do b <- bytes_ts fno dt; parse_ts fno b) = Ok (mkdt (instant dt) 0) <-> in_ts_range (instant dt)) /\
  (~ in_ts_range (instant dt) -> (do b <- bytes_ts fno dt; parse_ts fno b) = Err EOverflow).
Proof. exact bytes_ts_roundtrip_iff. Qed.
Print Assumptions C15_ts_roundtrip_iff.

(* 0001-01-01T00:00:00+01:00: wall clock inside the quantifier's range, encoded exactly, OverflowError on parse *)
Theorem C15_ts_wall_range_refuted :
  exists dt, py_datetime dt = true /\ in_ts_range (wall dt) /\ ~ in_ts_range (instant dt) /\
             from_datetime dt = ts_of_us (instant dt) /\
             (do b <- bytes_ts 1 dt; parse_ts 1 b) = Err EOverflow.
Proof. exact ts_wall_range_refuted. Qed.
Print Assumptions C15_ts_wall_range_refuted.

Theorem C15_ts_roundtrip_same_instant : forall fno dt, 0 < fno < 2 ^ 29 -> in_ts_range (instant dt) ->
  exists bs dt', bytes_ts fno dt = Ok bs /\ parse_ts fno bs = Ok dt' /\ instant dt' = instant dt /\ off dt' = 0.
Proof. exact ts_roundtrip_same_instant. Qed.
Print Assumptions C15_ts_roundtrip_same_instant.

(* ---- "the exact pair the reference produces", as bytes of the whole field: the wire specification has exactly one
   solution, and it is what betterproto writes ---- *)
Theorem C15_ts_field_wire_unique : forall fno t a b, ts_field_wire fno t a -> ts_field_wire fno t b -> a = b.
Proof. exact ts_field_wire_unique. Qed.
Print Assumptions C15_ts_field_wire_unique.

Theorem C15_dur_field_wire_unique : forall fno d a b, dur_field_wire fno d a -> dur_field_wire fno d b -> a = b.
Proof. exact dur_field_wire_unique. Qed.
Print Assumptions C15_dur_field_wire_unique.

Theorem C15_ts_bytes_is_the_wire : forall fno dt w, 0 < fno < 2 ^ 29 -> - 2 ^ 63 <= instant dt / 1000000 < 2 ^ 63 ->
  (ts_field_wire fno (instant dt) w <-> bytes_ts fno dt = Ok w).
Proof. exact bytes_ts_is_the_wire. Qed.
Print Assumptions C15_ts_bytes_is_the_wire.

Theorem C15_dur_bytes_is_the_wire : forall fno d w, 0 < fno < 2 ^ 29 -> td_rangeb d = true ->
  (dur_field_wire fno d w <-> bytes_dur fno d = Ok w).
Proof. exact bytes_dur_is_the_wire. Qed.
Print Assumptions C15_dur_bytes_is_the_wire.

(* the epoch (at any offset) / the zero span, and nothing else, is written as no bytes at all *)
Theorem C15_ts_bytes_empty_iff : forall fno dt, 0 < fno < 2 ^ 29 -> - 2 ^ 63 <= instant dt / 1000000 < 2 ^ 63 ->
  (bytes_ts fno dt = Ok [] <-> instant dt = 0).
Proof. exact bytes_ts_empty_iff. Qed.
Print Assumptions C15_ts_bytes_empty_iff.

Theorem C15_dur_bytes_empty_iff : forall fno d, 0 < fno < 2 ^ 29 -> td_rangeb d = true -> (bytes_dur fno d = Ok [] <-> d = 0).
Proof. exact bytes_dur_empty_iff. Qed.
Print Assumptions C15_dur_bytes_empty_iff.

(* ---- composition with the message codec of C01 / C02 / C08 / C17 (Model/Encode.v, Decode.v run TimeCore's copies of
   the four conversions; WellFormed.value_ok bounds datetime / timedelta values): the same functions, for ALL inputs ---- *)
Theorem C15_codec_conversions : forall dt d s n,
  Model.TimeCore.ts_pair_of_us (instant dt) = from_datetime dt /\
  Model.TimeCore.dur_pair_of_us d = from_timedelta d /\
  Model.TimeCore.us_of_ts s n = (do r <- to_datetime s n; Ok (instant r)) /\
  Model.TimeCore.us_of_dur s n = to_timedelta s n.
Proof. intros dt d s n. exact (conj (codec_ts_pair dt) (conj (codec_dur_pair d) (conj (codec_us_of_ts s n) (codec_us_of_dur s n)))). Qed.
Print Assumptions C15_codec_conversions.

Theorem C15_codec_value_ok : forall t,
  (Model.TimeCore.dt_min_us <=? t) && (t <=? Model.TimeCore.dt_max_us) = ts_rangeb t /\
  (- 315576000000000000 <=? t) && (t <=? 315576000000000000) = dur_rangeb t.
Proof. intros t. exact (conj (codec_value_ok_ts t) (codec_value_ok_dur t)). Qed.
Print Assumptions C15_codec_value_ok.

(* ---- non-vacuity of the gap theorems ---- *)
(* 9999-12-31T23:59:59.999999-01:00 (instant in year 10000) and 1969-12-31T23:59:59.999999+05:30 are Python datetimes;
   the first is outside, the second inside Timestamp's range *)
Example C15_ex_py_datetime :
  py_datetime (mkdt DT_MAX_US (-3600000000)) = true /\ ts_rangeb (instant (mkdt DT_MAX_US (-3600000000))) = false /\
  (do b <- bytes_ts 3 (mkdt DT_MAX_US (-3600000000)); parse_ts 3 b) = Err EOverflow /\
  py_datetime (mkdt (-1 + 19800000000) 19800000000) = true /\ ts_rangeb (instant (mkdt (-1 + 19800000000) 19800000000)) = true /\
  (do b <- bytes_ts 3 (mkdt (-1 + 19800000000) 19800000000); parse_ts 3 b) = Ok (mkdt (-1) 0).
Proof. vm_compute. repeat split. Qed.

(* one microsecond apart: different pairs, different bytes; the epoch at +05:30 is written as no bytes *)
Example C15_ex_resolution :
  from_datetime (mkdt (-1) 0) <> from_datetime (mkdt (-2) 0) /\ bytes_ts 1 (mkdt (-1) 0) <> bytes_ts 1 (mkdt (-2) 0) /\
  from_timedelta (-1) <> from_timedelta 1 /\ bytes_dur 1 (2 ^ 53 + 1) <> bytes_dur 1 (2 ^ 53) /\
  bytes_ts 7 (mkdt 19800000000 19800000000) = Ok [] /\ bytes_dur 7 0 = Ok [] /\
  td_rangeb (2 ^ 53 + 1) = true /\ td_rangeb (-999999999 * 86400000000) = true /\ dur_rangeb (-999999999 * 86400000000) = false.
Proof. vm_compute. repeat split; try reflexivity; intros H; discriminate H. Qed.

(* decoding pairs no conforming writer sends: negative nanos, nanos above 1e9, seconds at the int64 end *)
Example C15_ex_decode_exact :
  to_datetime 0 (-1) = Ok (mkdt (-1) 0) /\ to_datetime (-62135596801) 1999999999 = Ok (mkdt (TS_MIN_US + 999999) 0) /\
  to_datetime (2 ^ 63 - 1) 0 = Err EOverflow /\ to_datetime (-62135596801) 999999999 = Err EOverflow /\
  to_timedelta (2 ^ 63 - 1) 0 = Err EOverflow /\ to_timedelta 1 (-1999) = Ok 999999 /\
  to_timedelta (86400 * 1000000000) 0 = Err EOverflow /\ to_timedelta (86400 * 1000000000 - 1) 999999999 = Ok (86400 * 1000000000 * 1000000 - 1).
Proof. vm_compute. repeat split. Qed.

(* the codec's copies on the same values *)
Example C15_ex_codec :
  Model.TimeCore.ts_pair_of_us (-1) = (-1, 999999000) /\ Model.TimeCore.dur_pair_of_us (-1500000) = (-1, -500000000) /\
  Model.TimeCore.us_of_ts 253402300800 0 = Err EOverflow /\ Model.TimeCore.us_of_dur (-1) (-500000000) = Ok (-1500000).
Proof. vm_compute. repeat split. Qed.

(* ---- JSON forms (Proofs/C15GapB.v, C15GapC.v) ---- *)
From BP Require Import Proofs.C15GapB Proofs.C15GapC.

(* two spans never share a text (all of Z) *)
Theorem C15_json_dur_injective : forall a b, delta_to_json a = delta_to_json b -> a = b.
Proof. exact delta_to_json_inj. Qed.
Print Assumptions C15_json_dur_injective.

(* K15-1 characterised: the text is the reference's EXACTLY when the span is not a whole number of seconds, and for EVERY
   whole second it is the reference's text with ".000" put before the "s" (C15_json_dur_whole_seconds_refuted had one witness) *)
Theorem C15_json_dur_spec_iff : forall d,
  delta_to_json d = dur_json (fst (dur_of_us d)) (snd (dur_of_us d)) <-> d mod 1000000 <> 0.
Proof. exact delta_to_json_spec_iff. Qed.
Print Assumptions C15_json_dur_spec_iff.

Theorem C15_json_dur_whole_seconds : forall d, d mod 1000000 = 0 ->
  delta_to_json d = K15_1_text (fst (dur_of_us d)) (snd (dur_of_us d)).
Proof. exact delta_to_json_whole. Qed.
Print Assumptions C15_json_dur_whole_seconds.

(* from_dict reads what the REFERENCE writes ("3s", 3 / 6 / 9 fractional digits), for every normal pair: the value of
   Duration.ToTimedelta (below a microsecond dropped toward zero) *)
Theorem C15_json_dur_reads_reference : forall s n,
  dur_normal s n -> td_rangeb (dur_to_us s n) = true -> parse_duration (dur_json s n) = Ok (dur_to_us s n).
Proof. exact parse_duration_reads_reference. Qed.
Print Assumptions C15_json_dur_reads_reference.

(* Message.to_dict()[field]: the default is left out, anything else is the text above *)
Theorem C15_to_dict_dur : forall d,
  (to_dict_dur d = None <-> d = 0) /\
  (forall t, to_dict_dur d = Some t -> t = delta_to_json d /\ dur_parse t = Some (dur_of_us d) /\
                                       (td_rangeb d = true -> parse_duration t = Ok d)).
Proof. exact to_dict_dur_spec. Qed.
Print Assumptions C15_to_dict_dur.

Theorem C15_to_dict_ts : forall cal dt,
  to_dict_ts cal dt = Ok (if instant dt =? 0 then None else Some (ts_json cal (snd (ts_of_us (instant dt))))).
Proof. exact to_dict_ts_spec. Qed.
Print Assumptions C15_to_dict_ts.

(* Timestamp text: any offset gives the text of the instant, and (with the proved calendar) two instants in range never
   share a text *)
Theorem C15_json_ts_tz : forall cal a b, instant a = instant b -> timestamp_to_json cal a = timestamp_to_json cal b.
Proof. exact timestamp_to_json_tz. Qed.
Print Assumptions C15_json_ts_tz.

Theorem C15_json_ts_text_iff : forall a b,
  (Model.TimeCore.dt_min_us <=? instant a) && (instant a <=? Model.TimeCore.dt_max_us) = true ->
  (Model.TimeCore.dt_min_us <=? instant b) && (instant b <=? Model.TimeCore.dt_max_us) = true ->
  (timestamp_to_json (Model.Json.cal_text (instant a / 1000000)) a =
   timestamp_to_json (Model.Json.cal_text (instant b / 1000000)) b <-> instant a = instant b).
Proof. exact ts_text_inj. Qed.
Print Assumptions C15_json_ts_text_iff.

Example C15_ex_json_gap :
  delta_to_json 3000000 = [x33; x2e; x30; x30; x30; x73] (* "3.000s" *) /\
  K15_1_text 3 0 = [x33; x2e; x30; x30; x30; x73] /\ dur_json 3 0 = [x33; x73] (* "3s" *) /\
  K15_1_text (-7) 0 = [x2d; x37; x2e; x30; x30; x30; x73] /\ delta_to_json (-7000000) = K15_1_text (-7) 0 /\
  to_dict_dur 0 = None /\ to_dict_dur (-1) = Some [x2d; x30; x2e; x30; x30; x30; x30; x30; x31; x73] (* "-0.000001s" *) /\
  to_dict_ts [x54] (mkdt 19800000000 19800000000) = Ok None /\
  to_dict_ts [x54] (mkdt 1 0) = Ok (Some [x54; x2e; x30; x30; x30; x30; x30; x31; x5a]).
Proof. vm_compute. repeat split. Qed.

(* the hypotheses of C15_json_dur_reads_reference on non-trivial pairs: nine digits, negative with nanos only, whole seconds *)
Example C15_ex_reads_reference :
  parse_duration (dur_json 3 0) = Ok 3000000 /\ parse_duration (dur_json (-1) (-500000001)) = Ok (-1500000) /\
  parse_duration (dur_json 0 (-999)) = Ok 0 /\ parse_duration (dur_json 0 1999) = Ok 1 /\
  dur_json (-1) (-500000001) = [x2d; x31; x2e; x35; x30; x30; x30; x30; x30; x30; x30; x31; x73] /\
  td_rangeb (dur_to_us (-1) (-500000001)) = true /\
  (- 1000000000 < -500000001 < 1000000000 /\ (0 < -1 -> 0 <= -500000001) /\ (-1 < 0 -> -500000001 <= 0)).
Proof. split; [|split; [|split; [|split; [|split; [|split]]]]]; try (vm_compute; reflexivity). lia. Qed.

(* two instants of one calendar second at different offsets: different texts; the same instant at two offsets: one text *)
Example C15_ex_ts_text :
  let a := mkdt (1500000 + 19800000000) 19800000000 in let b := mkdt 1500000 0 in let c := mkdt 1500001 0 in
  timestamp_to_json (Model.Json.cal_text (instant a / 1000000)) a = timestamp_to_json (Model.Json.cal_text (instant b / 1000000)) b /\
  timestamp_to_json (Model.Json.cal_text (instant c / 1000000)) c <> timestamp_to_json (Model.Json.cal_text (instant b / 1000000)) b.
Proof. vm_compute. split; [reflexivity|intros H; discriminate H]. Qed.

(* ---- the payload the message codec of C01 / C02 / C08 writes for a datetime / timedelta value (Model/Encode.v msg_bytes
   over the regenerated layouts) is C15's bytes_sn of C15's pair, for all values (Proofs/C15GapD.v) ---- *)
From BP Require Proofs.C15GapD Model.Object Model.Encode.
Theorem C15_codec_payload : forall enc wraps dt d,
  Model.Encode.msg_bytes enc wraps (Model.Object.PDatetime (instant dt)) = (let '(s, n) := from_datetime dt in bytes_sn s n) /\
  Model.Encode.msg_bytes enc wraps (Model.Object.PTimedelta d) = (let '(s, n) := from_timedelta d in bytes_sn s n).
Proof. intros enc wraps dt d. exact (conj (C15GapD.codec_payload_ts enc wraps dt) (C15GapD.codec_payload_dur enc wraps d)). Qed.
Print Assumptions C15_codec_payload.

Example C15_ex_codec_payload :
  Model.Encode.msg_bytes (fun _ => Err EType) None (Model.Object.PDatetime 1500000) = Ok [x08; x01; x10; x80; xca; xb5; xee; x01] /\
  Model.Encode.msg_bytes (fun _ => Err EType) None (Model.Object.PTimedelta (-1)) = bytes_sn 0 (-1000).
Proof. vm_compute. split; reflexivity. Qed.
