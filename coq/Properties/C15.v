(* C15 — Timestamp/Duration <-> datetime/timedelta conversion is exact and normalised.
   Only property-level statements here; every proof is one [exact] of a lemma of Proofs/TimeP.v. *)
From BP Require Import Base.Prelude Model.Varint Model.Scalar Model.Time Spec.Varint Spec.Time.
From BP Require Import Proofs.TimeP.

Theorem C15_ts_pair : forall dt, from_datetime dt = ts_of_us (instant dt).
Proof. exact from_datetime_is_spec. Qed.
Print Assumptions C15_ts_pair.
