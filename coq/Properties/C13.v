(* C13 — Cross-package type references in generated code resolve to the right class.
   Only property-level statements here; every proof is one [exact] of a lemma from Proofs/Importing*.v.

   Reading guide.
   * [get_type_reference cls_name snake optional package source_type unwrap pydantic] (Model/Importing.v) mirrors
     compile/importing.py and returns (annotation string, import line added to imports_end if any).
   * casing.pascal_case (through pythonize_class_name) and casing.safe_snake_case are PARAMETERS [cls_name], [snake];
     what a theorem needs of them is a hypothesis written in its statement; harness/props/c13.py samples each of these
     hypotheses on the real functions on every run.
   * [denotes w P ref v] (Spec/PyImport.v): inside package P of world w, executing the import line and then evaluating
     the annotation string yields the value v.  [world_has w root tgt C]: root.tgt and all its parents are importable
     packages, no module on the path defines a class named like the next segment, root.tgt defines class C.
   * side conditions are decidable booleans: [pkg_okb] (segments are ASCII identifiers, no upper-case letter, no keyword),
     [type_okb] (non-empty, no newline, no '.' before the first upper-case letter).  Where the pinned code violates the
     statement without them there is a [_refuted] theorem with the witness.
   * second half of the file (K32): the same annotation evaluated with a CLASS namespace in scope (Spec/PyImportLocals.v:
     [denotes_with_locals w P names ref v], [names] = keys of vars(cls)), as typing.get_type_hints(cls) with default localns and
     pydantic's dataclass decorator do; betterproto itself passes an empty locals mapping ([betterproto_hint], Model/C13Hints.v).
     [via_name snake cur tgt C] (Proofs/ImportingP7.v) is the first name of the annotation by relative position [rel_of cur tgt]:
     the class name inside one package, otherwise the import alias.  Field names are values of the casing model's
     safe_snake_case (Model/Casing.v = pythonize_field_name), written [Casing.safe_snake_case]. *)
From BP Require Import Base.Prelude Spec.PyImport Spec.PyImportLocals Model.Importing Model.C13Hints.
From BP Require Import Proofs.ImportingP Proofs.ImportingP2 Proofs.ImportingP3 Proofs.ImportingP4 Proofs.ImportingP5 Proofs.ImportingP6.
From BP Require Import Proofs.ImportingP7 Proofs.ImportingP8 Proofs.ImportingP9 Proofs.ImportingP10.
From BP Require Import Proofs.C13GapA Proofs.C13GapB.
From BP Require gen.C13Tables Model.Casing.

(* The main theorem: EVERY pair of package paths, of any depth (same / descendant / ancestor / root / sibling / cousin are
   the cases of its proof), every well-formed (nested) type name: the returned pair denotes the class of the target package. *)
Theorem C13_resolves :
  forall (cls_name snake optional : list byte -> list byte),
    (forall s, ident_chars (snake s)) ->
  forall (w : world) (root : list (list byte)), root <> [] ->
  forall (cur tgt : list (list byte)) (T : list byte) (unwrap pydantic : bool),
    pkg_okb cur = true -> pkg_okb tgt = true -> type_okb T = true ->
    path_eqb (firstn 1 tgt) [s_betterproto] = false ->
    path_eqb tgt google_protobuf = false ->
    identb (cls_name T) = true ->
    world_has w root tgt (cls_name T) ->
    denotes w (root ++ cur)
      (get_type_reference cls_name snake optional (py_join b_dot cur) (b_dot :: py_join b_dot (tgt ++ [T])) unwrap pydantic)
      (VCls (root ++ tgt) (cls_name T)).
Proof. exact resolves_gen. Qed.
Print Assumptions C13_resolves.

Example C13_resolves_nonvacuous :
  pkg_okb [sa; sb] = true /\ pkg_okb [sc; sd] = true /\ type_okb t_Foo_Bar = true /\
  identb (CLS t_Foo_Bar) = true /\ world_has w_ex [sr] [sc; sd] (CLS t_Foo_Bar) /\
  gtr [sa; sb] [sc; sd] t_Foo_Bar
    = (quoted [x5f; x5f; x63; x5f; x64; x5f; x5f; x2e; x46; x6f; x6f; x42; x61; x72],
       Some [x66; x72; x6f; x6d; x20; x2e; x2e; x2e; x63; x20; x69; x6d; x70; x6f; x72; x74; x20; x64; x20; x61; x73; x20;
             x5f; x5f; x63; x5f; x64; x5f; x5f]) /\
  eval_ref w_ex [sr; sa; sb] (gtr [sa; sb] [sc; sd] t_Foo_Bar) = Some (VCls [sr; sc; sd] (CLS t_Foo_Bar)).
Proof. exact resolves_example. Qed.

(* parse_source_type_name (the regex) on well-formed names: package = all leading segments, name = the rest *)
Theorem C13_parse :
  forall (tgt : list (list byte)) (T : list byte), pkg_okb tgt = true -> type_okb T = true ->
    parse_source_type_name (b_dot :: py_join b_dot (tgt ++ [T])) = (py_join b_dot tgt, T).
Proof. exact parse_well_formed. Qed.
Print Assumptions C13_parse.

(* the world hypothesis of C13_resolves is what parser.py's output files provide: every parent directory of a generated
   package gets an __init__.py, and class names (upper-case / digit initial) never collide with package segments *)
Theorem C13_output_tree :
  forall root pkgs defs libs (tgt : list (list byte)) classes C,
    pkg_okb tgt = true -> In (py_join b_dot tgt) pkgs ->
    In (root ++ tgt, classes) defs -> In C classes ->
    (forall d n, In d defs -> In n (snd d) -> cls_startb n = true) ->
    world_has (world_of root pkgs defs libs) root tgt C.
Proof. exact world_of_has. Qed.
Print Assumptions C13_output_tree.

(* reference (pascal_case of "Foo.Bar") and class statement (pascal_case of traverse's "_Foo_Bar") agree, given that
   property of pascal_case (sampled on the real function; the casing model is another property's) *)
Theorem C13_class_name :
  forall cls_name : list byte -> list byte,
    (forall nested, cls_name (dotted_type nested) = cls_name (flat_name [] nested)) ->
    forall nested, cls_name (dotted_type nested) = defined_class_name cls_name nested.
Proof. exact class_name_link. Qed.
Print Assumptions C13_class_name.

(* well-known types that are not unwrapped resolve to betterproto's bundled google.protobuf module *)
Theorem C13_wellknown :
  forall (cls_name snake optional : list byte -> list byte) (w : world) (P cur : list (list byte)) (T : list byte)
         (unwrap pydantic : bool),
    pkg_okb cur = true -> type_okb T = true ->
    path_eqb cur google_protobuf = false ->
    (if unwrap then early_return optional (b_dot :: py_join b_dot (google_protobuf ++ [T])) else None) = None ->
    identb (cls_name T) = true ->
    identb (snake (py_join b_dot (lib_path pydantic))) = true ->
    w_pkg w (lib_path pydantic) = true -> w_cls w (lib_path pydantic) (cls_name T) = true ->
    denotes w P
      (get_type_reference cls_name snake optional (py_join b_dot cur) (b_dot :: py_join b_dot (google_protobuf ++ [T])) unwrap pydantic)
      (VCls (lib_path pydantic) (cls_name T)).
Proof. exact wellknown_resolves. Qed.
Print Assumptions C13_wellknown.

(* ... and the wrapper types / Duration / Timestamp, when unwrapped, are Python builtins with no import at all *)
Theorem C13_wellknown_unwrapped :
  forall (cls_name snake optional : list byte -> list byte) pkg k v pydantic,
    tbl_find C13Tables.wrapper_types k = Some v ->
    get_type_reference cls_name snake optional pkg k true pydantic = (optional v, None).
Proof. exact wellknown_unwrapped. Qed.
Print Assumptions C13_wellknown_unwrapped.

Theorem C13_wellknown_time :
  forall (cls_name snake optional : list byte -> list byte) pkg pydantic,
    get_type_reference cls_name snake optional pkg s_duration true pydantic = (s_timedelta, None) /\
    get_type_reference cls_name snake optional pkg s_timestamp true pydantic = (s_datetime, None).
Proof. exact wellknown_time. Qed.
Print Assumptions C13_wellknown_time.

(* coexistence: two references from one module whose import lines bind the same name have the same import line *)
Theorem C13_no_alias_clash :
  forall (cls_name snake optional : list byte -> list byte),
    (forall l, l <> [] -> forallb plain_segb l = true -> snake (py_join b_dot l) = py_join b_us l) ->
  forall (cur tgt1 tgt2 : list (list byte)) (T1 T2 : list byte) (u1 u2 pydantic : bool) s1 s2,
    plain_pkgb cur = true -> plain_pkgb tgt1 = true -> plain_pkgb tgt2 = true ->
    type_okb T1 = true -> type_okb T2 = true ->
    cls_ok (cls_name T1) -> cls_ok (cls_name T2) ->
    path_eqb tgt1 google_protobuf = false -> path_eqb tgt2 google_protobuf = false ->
    snd (get_type_reference cls_name snake optional (py_join b_dot cur) (b_dot :: py_join b_dot (tgt1 ++ [T1])) u1 pydantic) = Some s1 ->
    snd (get_type_reference cls_name snake optional (py_join b_dot cur) (b_dot :: py_join b_dot (tgt2 ++ [T2])) u2 pydantic) = Some s2 ->
    alias_of s1 = alias_of s2 -> s1 = s2.
Proof. exact no_alias_clash_gen. Qed.
Print Assumptions C13_no_alias_clash.

Example C13_no_alias_clash_nonvacuous :
  plain_pkgb [sa; sb] = true /\ plain_pkgb [sc; sd] = true /\ plain_pkgb [sa; sc] = true /\
  type_okb t_T = true /\ identb (CLS t_T) = true /\ cls_startb (CLS t_T) = true /\
  SNK (py_join b_dot [sc; sd]) = py_join b_us [sc; sd] /\
  alias_of (imp_of (gtr [sa; sb] [sc; sd] t_T)) = Some [x5f; x5f; x63; x5f; x64; x5f; x5f] /\
  alias_of (imp_of (gtr [sa; sb] [sa; sc] t_T)) = Some [x5f; x63; x5f; x5f].
Proof. exact no_alias_clash_example. Qed.

(* all references of one module at once: the module runs the import lines of ALL its references (imports_end is a set, so
   [order] is any list with exactly those lines) and evaluates every annotation in that one namespace: each reference still
   denotes the class of its own target package.  Segments as in C13_no_alias_clash. *)
Theorem C13_coexist :
  forall (cls_name snake optional : list byte -> list byte),
    (forall s, ident_chars (snake s)) ->
    (forall l, l <> [] -> forallb plain_segb l = true -> snake (py_join b_dot l) = py_join b_us l) ->
  forall (w : world) (root cur : list (list byte)) (pydantic : bool) (refs : list reference) (order : list (list byte)),
    root <> [] -> plain_pkgb cur = true ->
    (forall r, In r refs -> ref_ok cls_name w root r) ->
    (forall s, In s order <-> exists r, In r refs /\ snd (ref_of cls_name snake optional cur pydantic r) = Some s) ->
    exists e, exec_all w (root ++ cur) order = Some e /\
      forall r, In r refs ->
        resolve_annotation w (root ++ cur) e (fst (ref_of cls_name snake optional cur pydantic r))
        = Some (VCls (root ++ r_tgt r) (cls_name (r_T r))).
Proof. exact coexist. Qed.
Print Assumptions C13_coexist.

Example C13_coexist_hypotheses_satisfiable :
  (forall s, ident_chars (snake_ex s)) /\
  (forall l, l <> [] -> forallb plain_segb l = true -> snake_ex (py_join b_dot l) = py_join b_us l) /\
  SNK (py_join b_dot [sc; sd]) = snake_ex (py_join b_dot [sc; sd]) /\
  cls_ok (CLS t_T) /\ cls_ok (CLS t_Foo_Bar).
Proof. exact coexist_hypotheses_satisfiable. Qed.

Example C13_coexist_nonvacuous :
  length co_order = 3%nat /\
  forall order, order = co_order \/ order = rev co_order ->
    match exec_all w_co [sr; sa; sb] order with
    | Some e => map (fun r => resolve_annotation w_co [sr; sa; sb] e (fst r)) co_refs
                = [Some (VCls [sr; sc; sd] (CLS t_T)); Some (VCls [sr; sa] (CLS t_T));
                   Some (VCls [sr; sa; sb; sc] (CLS t_T)); Some (VCls [sr; sa; sb] (CLS t_T))]
    | None => False
    end.
Proof. exact coexist_example. Qed.

(* ---- refutations of the unconditional statement on the pinned code ---- *)
(* K2: upper-case package segment *)
Theorem C13_capital_refuted :
  exists (w : world) (root cur tgt : list (list byte)) T,
    root <> [] /\ pkg_okb cur = true /\ pkg_okb tgt = false /\ Forall (fun s => identb s = true) tgt /\
    type_okb T = true /\ identb (CLS T) = true /\
    w_pkg w (root ++ tgt) = true /\ w_cls w (root ++ tgt) (CLS T) = true /\
    ~ denotes w (root ++ cur) (gtr cur tgt T) (VCls (root ++ tgt) (CLS T)).
Proof. exact capital_package_refuted. Qed.
Print Assumptions C13_capital_refuted.

(* K2: lower-case message with a nested type *)
Theorem C13_lowercase_message_refuted :
  exists (w : world) (root cur tgt : list (list byte)) T,
    root <> [] /\ pkg_okb cur = true /\ pkg_okb tgt = true /\ type_okb T = false /\ identb (CLS T) = true /\
    world_has w root tgt (CLS T) /\
    ~ denotes w (root ++ cur) (gtr cur tgt T) (VCls (root ++ tgt) (CLS T)).
Proof. exact lowercase_message_refuted. Qed.
Print Assumptions C13_lowercase_message_refuted.

(* K1: Foo.Bar and FooBar get one class name and one reference *)
Theorem C13_class_collision_refuted :
  exists (cur tgt : list (list byte)) (nested1 nested2 : list (list byte)),
    nested1 <> nested2 /\
    type_okb (dotted_type nested1) = true /\ type_okb (dotted_type nested2) = true /\
    defined_class_name CLS nested1 = defined_class_name CLS nested2 /\
    gtr cur tgt (dotted_type nested1) = gtr cur tgt (dotted_type nested2).
Proof. exact class_collision_refuted. Qed.
Print Assumptions C13_class_collision_refuted.

(* a proto package named betterproto.* is imported absolutely *)
Theorem C13_betterproto_package_refuted :
  exists (w : world) (root cur tgt : list (list byte)) T,
    root <> [] /\ pkg_okb cur = true /\ pkg_okb tgt = true /\ type_okb T = true /\ identb (CLS T) = true /\
    path_eqb (firstn 1 tgt) [s_betterproto] = true /\
    world_has w root tgt (CLS T) /\
    ~ denotes w (root ++ cur) (gtr cur tgt T) (VCls (root ++ tgt) (CLS T)).
Proof. exact betterproto_package_refuted. Qed.
Print Assumptions C13_betterproto_package_refuted.

(* the output directory must itself be (inside) a package *)
Theorem C13_toplevel_refuted :
  exists (w : world) (cur tgt : list (list byte)) T,
    pkg_okb cur = true /\ pkg_okb tgt = true /\ type_okb T = true /\ identb (CLS T) = true /\
    world_has w [] tgt (CLS T) /\
    ~ denotes w ([] ++ cur) (gtr cur tgt T) (VCls ([] ++ tgt) (CLS T)).
Proof. exact toplevel_refuted. Qed.
Print Assumptions C13_toplevel_refuted.

(* alias clashes: x.a.b / x.a_b (underscore) and x.a1.b / x.a1b (digit boundary): same bound name, different imports,
   and whichever line runs last one of the two references resolves to the other package's class *)
Theorem C13_underscore_alias_refuted :
  exists (w : world) (root cur tgt1 tgt2 : list (list byte)) T s1 s2,
    pkg_okb cur = true /\ pkg_okb tgt1 = true /\ pkg_okb tgt2 = true /\
    world_has w root tgt1 (CLS T) /\ world_has w root tgt2 (CLS T) /\
    snd (gtr cur tgt1 T) = Some s1 /\ snd (gtr cur tgt2 T) = Some s2 /\
    alias_of s1 = alias_of s2 /\ s1 <> s2 /\
    (forall order, order = [s1; s2] \/ order = [s2; s1] ->
       exists e, exec_all w (root ++ cur) order = Some e /\
         (resolve_annotation w (root ++ cur) e (fst (gtr cur tgt1 T)) <> Some (VCls (root ++ tgt1) (CLS T)) \/
          resolve_annotation w (root ++ cur) e (fst (gtr cur tgt2 T)) <> Some (VCls (root ++ tgt2) (CLS T)))).
Proof. exact underscore_alias_refuted. Qed.
Print Assumptions C13_underscore_alias_refuted.

Theorem C13_digit_alias_refuted :
  exists (cur tgt1 tgt2 : list (list byte)) T s1 s2,
    pkg_okb cur = true /\ pkg_okb tgt1 = true /\ pkg_okb tgt2 = true /\
    snd (gtr cur tgt1 T) = Some s1 /\ snd (gtr cur tgt2 T) = Some s2 /\
    alias_of s1 = alias_of s2 /\ s1 <> s2.
Proof. exact digit_alias_refuted. Qed.
Print Assumptions C13_digit_alias_refuted.

(* ======================================================================================================================
   K32: the annotation evaluated with the class namespace in scope (typing.get_type_hints(cls, globalns) / pydantic)
   ====================================================================================================================== *)

(* the specification itself: class-scoped evaluation = module-level evaluation unless the FIRST name of the expression is a key
   of the class namespace, in which case it denotes no module / class at all; an empty namespace is Spec/PyImport.v's resolve *)
Theorem C13_locals_spec :
  forall (w : world) (P : list (list byte)) (e : env) (names : list (list byte)) (expr : list byte),
    resolve_with_locals w P e names expr =
    match expr_head expr with
    | Some h => if mem_name h names then None else resolve w P e expr
    | None => None
    end.
Proof. exact resolve_with_locals_char. Qed.
Print Assumptions C13_locals_spec.

Theorem C13_locals_nil_is_module :
  forall (w : world) (P : list (list byte)) (ref : list byte * option (list byte)) (v : value),
    denotes_with_locals w P [] ref v <-> denotes w P ref v.
Proof. exact denotes_with_locals_nil. Qed.
Print Assumptions C13_locals_nil_is_module.

(* the name each reference goes through, for EVERY pair of package paths (same hypotheses as C13_resolves) *)
Theorem C13_reference_head :
  forall (cls_name snake optional : list byte -> list byte),
    (forall s, ident_chars (snake s)) ->
  forall (cur tgt : list (list byte)) (T : list byte) (unwrap pydantic : bool),
    pkg_okb cur = true -> pkg_okb tgt = true -> type_okb T = true ->
    path_eqb (firstn 1 tgt) [s_betterproto] = false ->
    path_eqb tgt google_protobuf = false ->
    identb (cls_name T) = true ->
    annotation_head (fst (get_type_reference cls_name snake optional (py_join b_dot cur) (b_dot :: py_join b_dot (tgt ++ [T])) unwrap pydantic))
    = Some (via_name snake cur tgt (cls_name T)).
Proof. exact gtr_head. Qed.
Print Assumptions C13_reference_head.

(* THE EXACT CONDITION, any pair of package paths, any class namespace: with [names] in scope the reference still denotes the
   class C13_resolves says it denotes  IFF  the name it goes through is not a key of the class namespace *)
Theorem C13_locals_exact :
  forall (cls_name snake optional : list byte -> list byte),
    (forall s, ident_chars (snake s)) ->
  forall (w : world) (root cur tgt : list (list byte)) (T : list byte) (unwrap pydantic : bool) (names : list (list byte)),
    root <> [] ->
    pkg_okb cur = true -> pkg_okb tgt = true -> type_okb T = true ->
    path_eqb (firstn 1 tgt) [s_betterproto] = false ->
    path_eqb tgt google_protobuf = false ->
    identb (cls_name T) = true ->
    world_has w root tgt (cls_name T) ->
    (denotes_with_locals w (root ++ cur) names
       (get_type_reference cls_name snake optional (py_join b_dot cur) (b_dot :: py_join b_dot (tgt ++ [T])) unwrap pydantic)
       (VCls (root ++ tgt) (cls_name T))
     <-> mem_name (via_name snake cur tgt (cls_name T)) names = false).
Proof. exact locals_exact. Qed.
Print Assumptions C13_locals_exact.

(* ... and when it is shadowed it denotes NOTHING (never a wrong class); no world hypothesis needed *)
Theorem C13_locals_shadowed_none :
  forall (cls_name snake optional : list byte -> list byte),
    (forall s, ident_chars (snake s)) ->
  forall (w : world) (P cur tgt : list (list byte)) (T : list byte) (unwrap pydantic : bool) (names : list (list byte)) (v : value),
    pkg_okb cur = true -> pkg_okb tgt = true -> type_okb T = true ->
    path_eqb (firstn 1 tgt) [s_betterproto] = false ->
    path_eqb tgt google_protobuf = false ->
    identb (cls_name T) = true ->
    mem_name (via_name snake cur tgt (cls_name T)) names = true ->
    ~ denotes_with_locals w P names
        (get_type_reference cls_name snake optional (py_join b_dot cur) (b_dot :: py_join b_dot (tgt ++ [T])) unwrap pydantic) v.
Proof. exact locals_shadowed_none. Qed.
Print Assumptions C13_locals_shadowed_none.

(* the same, as the value of the two executable evaluations the correspondence check runs on the real classes *)
Theorem C13_class_scope_hint_exact :
  forall (cls_name snake optional : list byte -> list byte),
    (forall s, ident_chars (snake s)) ->
  forall (w : world) (root cur tgt : list (list byte)) (T : list byte) (unwrap pydantic : bool) (cls_namespace : list (list byte)),
    root <> [] ->
    pkg_okb cur = true -> pkg_okb tgt = true -> type_okb T = true ->
    path_eqb (firstn 1 tgt) [s_betterproto] = false ->
    path_eqb tgt google_protobuf = false ->
    identb (cls_name T) = true ->
    world_has w root tgt (cls_name T) ->
    class_scope_hint w (root ++ cur) cls_namespace
      (get_type_reference cls_name snake optional (py_join b_dot cur) (b_dot :: py_join b_dot (tgt ++ [T])) unwrap pydantic)
    = if mem_name (via_name snake cur tgt (cls_name T)) cls_namespace then None else Some (VCls (root ++ tgt) (cls_name T)).
Proof. exact class_scope_hint_exact. Qed.
Print Assumptions C13_class_scope_hint_exact.

(* betterproto's own resolution (Message._type_hints: empty locals) does not depend on the class namespace at all *)
Theorem C13_module_resolution_unaffected :
  forall (cls_name snake optional : list byte -> list byte),
    (forall s, ident_chars (snake s)) ->
  forall (w : world) (root cur tgt : list (list byte)) (T : list byte) (unwrap pydantic : bool) (cls_namespace : list (list byte)),
    root <> [] ->
    pkg_okb cur = true -> pkg_okb tgt = true -> type_okb T = true ->
    path_eqb (firstn 1 tgt) [s_betterproto] = false ->
    path_eqb tgt google_protobuf = false ->
    identb (cls_name T) = true ->
    world_has w root tgt (cls_name T) ->
    betterproto_hint w (root ++ cur) cls_namespace
      (get_type_reference cls_name snake optional (py_join b_dot cur) (b_dot :: py_join b_dot (tgt ++ [T])) unwrap pydantic)
    = Some (VCls (root ++ tgt) (cls_name T)).
Proof. exact module_resolution_unaffected. Qed.
Print Assumptions C13_module_resolution_unaffected.

(* ---- which shapes can collide with a FIELD of the message (fields = safe_snake_case of the proto field names) ---- *)

(* the casing model's safe_snake_case satisfies the hypothesis the theorems make about [snake] *)
Theorem C13_field_name_ident_chars : forall s : list byte, ident_chars (Casing.safe_snake_case s).
Proof. exact field_name_ident_chars. Qed.
Print Assumptions C13_field_name_ident_chars.

(* ANY string: its pythonised field name contains no two consecutive underscores ... *)
Theorem C13_field_name_no_double_underscore : forall s : list byte, double_us (Casing.safe_snake_case s) = false.
Proof. exact safe_snake_no_double_us. Qed.
Print Assumptions C13_field_name_no_double_underscore.

(* ... whereas the ancestor / root / cousin aliases all end in "__": these shapes can NEVER collide with a field *)
Theorem C13_upward_alias_double_underscore :
  forall (snake : list byte -> list byte) (cur tgt : list (list byte)) (C : list byte),
    rel_of cur tgt = RAnc \/ rel_of cur tgt = RRoot \/ rel_of cur tgt = RCousin ->
    double_us (via_name snake cur tgt C) = true.
Proof. exact via_name_double_us. Qed.
Print Assumptions C13_upward_alias_double_underscore.

(* ... and a class name (upper-case or digit initial) is never a pythonised field name: same-package references cannot collide *)
Theorem C13_class_name_not_field :
  forall (C : list byte) (protos : list (list byte)),
    cls_startb C = true -> mem_name C (map Casing.safe_snake_case protos) = false.
Proof. exact not_field_of_cls. Qed.
Print Assumptions C13_class_name_not_field.

(* hence, for the namespace made of the message's FIELDS: exact condition = "descendant -> no field is called like the alias" *)
Theorem C13_locals_fields_exact :
  forall (cls_name snake optional : list byte -> list byte),
    (forall s, ident_chars (snake s)) ->
  forall (w : world) (root cur tgt : list (list byte)) (T : list byte) (unwrap pydantic : bool) (protos : list (list byte)),
    root <> [] ->
    pkg_okb cur = true -> pkg_okb tgt = true -> type_okb T = true ->
    path_eqb (firstn 1 tgt) [s_betterproto] = false ->
    path_eqb tgt google_protobuf = false ->
    identb (cls_name T) = true -> cls_startb (cls_name T) = true ->
    world_has w root tgt (cls_name T) ->
    (denotes_with_locals w (root ++ cur) (map Casing.safe_snake_case protos)
       (get_type_reference cls_name snake optional (py_join b_dot cur) (b_dot :: py_join b_dot (tgt ++ [T])) unwrap pydantic)
       (VCls (root ++ tgt) (cls_name T))
     <-> (rel_of cur tgt = RDesc ->
          mem_name (py_join b_us (skipn (length cur) tgt)) (map Casing.safe_snake_case protos) = false)).
Proof. exact locals_fields_exact. Qed.
Print Assumptions C13_locals_fields_exact.

Theorem C13_locals_fields_upward :
  forall (cls_name snake optional : list byte -> list byte),
    (forall s, ident_chars (snake s)) ->
  forall (w : world) (root cur tgt : list (list byte)) (T : list byte) (unwrap pydantic : bool) (protos : list (list byte)),
    root <> [] ->
    pkg_okb cur = true -> pkg_okb tgt = true -> type_okb T = true ->
    path_eqb (firstn 1 tgt) [s_betterproto] = false ->
    path_eqb tgt google_protobuf = false ->
    identb (cls_name T) = true -> cls_startb (cls_name T) = true ->
    world_has w root tgt (cls_name T) ->
    rel_of cur tgt <> RDesc ->
    denotes_with_locals w (root ++ cur) (map Casing.safe_snake_case protos)
      (get_type_reference cls_name snake optional (py_join b_dot cur) (b_dot :: py_join b_dot (tgt ++ [T])) unwrap pydantic)
      (VCls (root ++ tgt) (cls_name T)).
Proof. exact locals_fields_upward. Qed.
Print Assumptions C13_locals_fields_upward.

(* the descendant aliases `x` / `x_y` ARE field names: of the proto field called exactly like the alias (plain segments) ... *)
Theorem C13_desc_alias_is_field_name :
  forall rest : list (list byte),
    rest <> [] -> plain_pkgb rest = true -> Casing.safe_snake_case (py_join b_us rest) = py_join b_us rest.
Proof. exact desc_alias_is_field_name. Qed.
Print Assumptions C13_desc_alias_is_field_name.

(* ... so EVERY plain descendant reference has a colliding message: one with a proto field named like the alias *)
Theorem C13_desc_field_collides :
  forall (cls_name snake optional : list byte -> list byte),
    (forall s, ident_chars (snake s)) ->
  forall (w : world) (P cur rest : list (list byte)) (T : list byte) (unwrap pydantic : bool) (protos : list (list byte)) (v : value),
    plain_pkgb cur = true -> plain_pkgb rest = true -> rest <> [] -> type_okb T = true ->
    path_eqb (cur ++ rest) google_protobuf = false ->
    identb (cls_name T) = true ->
    In (py_join b_us rest) protos ->
    ~ denotes_with_locals w P (map Casing.safe_snake_case protos)
        (get_type_reference cls_name snake optional (py_join b_dot cur) (b_dot :: py_join b_dot ((cur ++ rest) ++ [T])) unwrap pydantic) v.
Proof. exact desc_field_collides. Qed.
Print Assumptions C13_desc_field_collides.

(* K32, the witness: package shop, `shop.item.Item item = 1;` -> `from . import item`, `item: "item.Item"`; computed with the
   casing MODELS (PAS = Casing.pascal_case, FLD = Casing.safe_snake_case).  Every side condition of C13_resolves holds, the
   module-level evaluation (betterproto's) yields the class, the class-scoped one (pydantic's) denotes nothing. *)
Theorem C13_locals_shadow_refuted :
  exists (w : world) (root cur tgt : list (list byte)) (T : list byte) (protos : list (list byte)),
    root <> [] /\ pkg_okb cur = true /\ pkg_okb tgt = true /\ type_okb T = true /\
    path_eqb (firstn 1 tgt) [s_betterproto] = false /\ path_eqb tgt google_protobuf = false /\
    identb (PAS T) = true /\ cls_startb (PAS T) = true /\ world_has w root tgt (PAS T) /\
    gtr_m cur tgt T true
      = (quoted [x69; x74; x65; x6d; x2e; x49; x74; x65; x6d],
         Some [x66; x72; x6f; x6d; x20; x2e; x20; x69; x6d; x70; x6f; x72; x74; x20; x69; x74; x65; x6d]) /\
    map FLD protos = [[x69; x74; x65; x6d]] /\
    rel_of cur tgt = RDesc /\ via_name FLD cur tgt (PAS T) = [x69; x74; x65; x6d] /\
    denotes w (root ++ cur) (gtr_m cur tgt T true) (VCls (root ++ tgt) (PAS T)) /\
    betterproto_hint w (root ++ cur) (map FLD protos) (gtr_m cur tgt T true) = Some (VCls (root ++ tgt) (PAS T)) /\
    class_scope_hint w (root ++ cur) (map FLD protos) (gtr_m cur tgt T true) = None /\
    (forall v, ~ denotes_with_locals w (root ++ cur) (map FLD protos) (gtr_m cur tgt T true) v).
Proof. exact locals_shadow_refuted. Qed.
Print Assumptions C13_locals_shadow_refuted.

(* the class namespace holds more than the fields: `__doc__`, `__module__` are keys of vars(cls) of EVERY class, and the
   ancestor alias of a package called doc / module, one level up, is exactly that name (no field involved) *)
Theorem C13_locals_dunder_refuted :
  exists (w : world) (root cur tgt : list (list byte)) (T : list byte) (cls_namespace : list (list byte)),
    root <> [] /\ pkg_okb cur = true /\ pkg_okb tgt = true /\ type_okb T = true /\
    path_eqb (firstn 1 tgt) [s_betterproto] = false /\ path_eqb tgt google_protobuf = false /\
    identb (PAS T) = true /\ world_has w root tgt (PAS T) /\
    cls_namespace = [s_dunder_module; s_dunder_doc] /\
    rel_of cur tgt = RAnc /\ via_name FLD cur tgt (PAS T) = s_dunder_doc /\
    fst (gtr_m cur tgt T true) = quoted (s_dunder_doc ++ b_dot :: PAS T) /\
    betterproto_hint w (root ++ cur) cls_namespace (gtr_m cur tgt T true) = Some (VCls (root ++ tgt) (PAS T)) /\
    class_scope_hint w (root ++ cur) cls_namespace (gtr_m cur tgt T true) = None.
Proof. exact locals_dunder_refuted. Qed.
Print Assumptions C13_locals_dunder_refuted.

(* proposed finding K35: the service Base class writes the annotations of streaming rpcs UNQUOTED, so Python evaluates them inside
   the class body, where __module__ / __qualname__ / __doc__ and the methods defined above are in scope: an rpc `Item` (method
   `item`) above a streaming rpc over shop.item.Item shadows the alias `item` - the generated package fails at import in the
   STANDARD variant.  (For the dunder names see C13_locals_dunder_refuted: packages doc / module referenced from a child.) *)
Theorem C13_service_scope_refuted :
  exists (w : world) (root cur tgt : list (list byte)) (T : list byte) (rpcs_above : list (list byte)) (cls_namespace : list (list byte)),
    root <> [] /\ pkg_okb cur = true /\ pkg_okb tgt = true /\ type_okb T = true /\
    path_eqb (firstn 1 tgt) [s_betterproto] = false /\ path_eqb tgt google_protobuf = false /\
    identb (PAS T) = true /\ world_has w root tgt (PAS T) /\
    rpcs_above = [t_Item] /\
    cls_namespace = [s_dunder_module; s_dunder_qualname; s_dunder_doc] ++ map FLD rpcs_above /\
    map FLD rpcs_above = [s_item] /\
    via_name FLD cur tgt (PAS T) = s_item /\
    betterproto_hint w (root ++ cur) cls_namespace (gtr_m cur tgt T false) = Some (VCls (root ++ tgt) (PAS T)) /\
    class_scope_hint w (root ++ cur) cls_namespace (gtr_m cur tgt T false) = None.
Proof. exact service_scope_refuted. Qed.
Print Assumptions C13_service_scope_refuted.

(* well-known types go through the absolute alias betterproto_lib[_pydantic]_google_protobuf: exact condition, and the witness
   (a field called betterproto_lib_google_protobuf) *)
Theorem C13_wellknown_locals_exact :
  forall (cls_name snake optional : list byte -> list byte) (w : world) (P cur : list (list byte)) (T : list byte)
         (unwrap pydantic : bool) (names : list (list byte)),
    pkg_okb cur = true -> type_okb T = true ->
    path_eqb cur google_protobuf = false ->
    (if unwrap then early_return optional (b_dot :: py_join b_dot (google_protobuf ++ [T])) else None) = None ->
    identb (cls_name T) = true ->
    identb (snake (py_join b_dot (lib_path pydantic))) = true ->
    w_pkg w (lib_path pydantic) = true -> w_cls w (lib_path pydantic) (cls_name T) = true ->
    (denotes_with_locals w P names
       (get_type_reference cls_name snake optional (py_join b_dot cur) (b_dot :: py_join b_dot (google_protobuf ++ [T])) unwrap pydantic)
       (VCls (lib_path pydantic) (cls_name T))
     <-> mem_name (snake (py_join b_dot (lib_path pydantic))) names = false).
Proof. exact wellknown_locals_exact. Qed.
Print Assumptions C13_wellknown_locals_exact.

Theorem C13_wellknown_shadow_refuted :
  exists (w : world) (P cur : list (list byte)) (T : list byte) (protos : list (list byte)),
    pkg_okb cur = true /\ type_okb T = true /\ path_eqb cur google_protobuf = false /\
    identb (PAS T) = true /\ identb (FLD (py_join b_dot (lib_path false))) = true /\
    w_pkg w (lib_path false) = true /\ w_cls w (lib_path false) (PAS T) = true /\
    map FLD protos = [FLD (py_join b_dot (lib_path false))] /\
    FLD (py_join b_dot (lib_path false)) = s_bplgp /\
    betterproto_hint w P (map FLD protos)
      (get_type_reference PAS FLD OPT (py_join b_dot cur) (b_dot :: py_join b_dot (google_protobuf ++ [T])) true false)
      = Some (VCls (lib_path false) (PAS T)) /\
    class_scope_hint w P (map FLD protos)
      (get_type_reference PAS FLD OPT (py_join b_dot cur) (b_dot :: py_join b_dot (google_protobuf ++ [T])) true false)
      = None.
Proof. exact wellknown_shadow_refuted. Qed.
Print Assumptions C13_wellknown_shadow_refuted.

(* ---- the parameter [snake] instantiated with the casing model (Model/Casing.v safe_snake_case; its hypothesis is
        C13_field_name_ident_chars): the main theorem and the exact condition with one parameter less ---- *)
Theorem C13_resolves_casing_model :
  forall (cls_name optional : list byte -> list byte) (w : world) (root : list (list byte)), root <> [] ->
  forall (cur tgt : list (list byte)) (T : list byte) (unwrap pydantic : bool),
    pkg_okb cur = true -> pkg_okb tgt = true -> type_okb T = true ->
    path_eqb (firstn 1 tgt) [s_betterproto] = false ->
    path_eqb tgt google_protobuf = false ->
    identb (cls_name T) = true ->
    world_has w root tgt (cls_name T) ->
    denotes w (root ++ cur)
      (get_type_reference cls_name Casing.safe_snake_case optional (py_join b_dot cur) (b_dot :: py_join b_dot (tgt ++ [T])) unwrap pydantic)
      (VCls (root ++ tgt) (cls_name T)).
Proof. exact resolves_casing_model. Qed.
Print Assumptions C13_resolves_casing_model.

Theorem C13_locals_exact_casing_model :
  forall (cls_name optional : list byte -> list byte) (w : world) (root cur tgt : list (list byte)) (T : list byte)
         (unwrap pydantic : bool) (names : list (list byte)),
    root <> [] ->
    pkg_okb cur = true -> pkg_okb tgt = true -> type_okb T = true ->
    path_eqb (firstn 1 tgt) [s_betterproto] = false ->
    path_eqb tgt google_protobuf = false ->
    identb (cls_name T) = true ->
    world_has w root tgt (cls_name T) ->
    (denotes_with_locals w (root ++ cur) names
       (get_type_reference cls_name Casing.safe_snake_case optional (py_join b_dot cur) (b_dot :: py_join b_dot (tgt ++ [T])) unwrap pydantic)
       (VCls (root ++ tgt) (cls_name T))
     <-> mem_name (via_name Casing.safe_snake_case cur tgt (cls_name T)) names = false).
Proof. exact locals_exact_casing_model. Qed.
Print Assumptions C13_locals_exact_casing_model.

(* ---- non-vacuity of the K32 theorems ---- *)
(* C13_locals_exact / C13_locals_fields_exact / C13_locals_fields_upward: a cousin reference with a class namespace holding four
   fields, two of them pythonised from the alias's own text; all hypotheses hold, the evaluation yields the class *)
Example C13_locals_exact_nonvacuous :
  (forall s, ident_chars (FLD s)) /\
  [sr] <> [] /\ pkg_okb [sa; sb] = true /\ pkg_okb [sc; sd] = true /\ type_okb t_Foo_Bar = true /\
  path_eqb (firstn 1 [sc; sd]) [s_betterproto] = false /\ path_eqb [sc; sd] google_protobuf = false /\
  identb (PAS t_Foo_Bar) = true /\ cls_startb (PAS t_Foo_Bar) = true /\ world_has w_ex_m [sr] [sc; sd] (PAS t_Foo_Bar) /\
  rel_of [sa; sb] [sc; sd] = RCousin /\ rel_of [sa; sb] [sc; sd] <> RDesc /\ via_name FLD [sa; sb] [sc; sd] (PAS t_Foo_Bar) = s_us_c_d_us /\
  map FLD [s_us_c_d_us; s_c_d; s_item; PAS t_Foo_Bar] = [s_c_d; s_c_d; s_item; [x66; x6f; x6f; x5f; x62; x61; x72]] /\
  mem_name (via_name FLD [sa; sb] [sc; sd] (PAS t_Foo_Bar)) (map FLD [s_us_c_d_us; s_c_d; s_item; PAS t_Foo_Bar]) = false /\
  class_scope_hint w_ex_m [sr; sa; sb] (map FLD [s_us_c_d_us; s_c_d; s_item; PAS t_Foo_Bar]) (gtr_m [sa; sb] [sc; sd] t_Foo_Bar false)
    = Some (VCls [sr; sc; sd] (PAS t_Foo_Bar)).
Proof. exact locals_exact_example. Qed.

(* descendant reference: condition true for fields [qty; shop], false once a proto field `Item` (-> item) is added *)
Example C13_locals_fields_nonvacuous :
  rel_of [s_shop] [s_shop; s_item] = RDesc /\
  map FLD [s_qty; t_Item; s_shop] = [s_qty; s_item; s_shop] /\
  mem_name (py_join b_us (skipn (length [s_shop]) [s_shop; s_item])) (map FLD [s_qty; s_shop]) = false /\
  class_scope_hint w_shop [sr; s_shop] (map FLD [s_qty; s_shop]) (gtr_m [s_shop] [s_shop; s_item] t_Item true)
    = Some (VCls [sr; s_shop; s_item] (PAS t_Item)) /\
  mem_name (via_name FLD [s_shop] [s_shop; s_item] (PAS t_Item)) (map FLD [s_qty; t_Item; s_shop]) = true /\
  class_scope_hint w_shop [sr; s_shop] (map FLD [s_qty; t_Item; s_shop]) (gtr_m [s_shop] [s_shop; s_item] t_Item true) = None.
Proof. exact locals_fields_example. Qed.

Example C13_desc_alias_nonvacuous :
  plain_pkgb [sx] = true /\ plain_pkgb [sa; sb] = true /\ [sa; sb] <> [] /\ type_okb t_T = true /\
  path_eqb ([sx] ++ [sa; sb]) google_protobuf = false /\ identb (PAS t_T) = true /\
  In (py_join b_us [sa; sb]) [s_qty; [x61; x5f; x62]] /\
  FLD (py_join b_us [sa; sb]) = [x61; x5f; x62] /\
  fst (gtr_m [sx] [sx; sa; sb] t_T true) = quoted [x61; x5f; x62; x2e; x54].
Proof. exact desc_alias_example. Qed.

(* C13_field_name_no_double_underscore is about all strings; inputs that come close: __doc__, __, a__b, _1, is, "" *)
Example C13_no_double_underscore_examples :
  map FLD [s_dunder_doc; [x5f; x5f]; [x61; x5f; x5f; x62]; [x5f; x31]; [x69; x73]; []]
  = [s_doc; [x5f]; [x61; x5f; x62]; [x5f; x31]; [x69; x73; x5f]; [x5f]].
Proof. exact no_double_us_example. Qed.

Example C13_wellknown_locals_nonvacuous :
  pkg_okb [sa] = true /\ type_okb t_Struct = true /\ path_eqb [sa] google_protobuf = false /\
  early_return OPT (b_dot :: py_join b_dot (google_protobuf ++ [t_Struct])) = None /\
  identb (PAS t_Struct) = true /\
  identb (FLD (py_join b_dot (lib_path false))) = true /\ identb (FLD (py_join b_dot (lib_path true))) = true /\
  w_pkg w_wk (lib_path false) = true /\ w_cls w_wk (lib_path false) (PAS t_Struct) = true /\
  w_pkg w_wk_p (lib_path true) = true /\ w_cls w_wk_p (lib_path true) (PAS t_Struct) = true /\
  mem_name (FLD (py_join b_dot (lib_path false))) (map FLD [s_qty; s_item]) = false /\
  class_scope_hint w_wk [sr; sa] (map FLD [s_qty; s_item])
    (get_type_reference PAS FLD OPT (py_join b_dot [sa]) (b_dot :: py_join b_dot (google_protobuf ++ [t_Struct])) true false)
    = Some (VCls (lib_path false) (PAS t_Struct)) /\
  class_scope_hint w_wk_p [sr; sa] (map FLD [s_qty; s_item])
    (get_type_reference PAS FLD OPT (py_join b_dot [sa]) (b_dot :: py_join b_dot (google_protobuf ++ [t_Struct])) true true)
    = Some (VCls (lib_path true) (PAS t_Struct)).
Proof. exact wellknown_locals_example. Qed.

(* ======================================================================================================================
   Gap closing against the property text (clause table: header of Proofs/C13GapA.v)
   ====================================================================================================================== *)

(* "exactly the class": a reference denotes at most one value ... *)
Theorem C13_denotes_functional :
  forall (w : world) (P : list (list byte)) (ref : list byte * option (list byte)) (v1 v2 : value),
    denotes w P ref v1 -> denotes w P ref v2 -> v1 = v2.
Proof. exact denotes_functional. Qed.
Print Assumptions C13_denotes_functional.

(* ... so under the hypotheses of C13_resolves the values it denotes are EXACTLY the target class (non-vacuity: C13_resolves_nonvacuous) *)
Theorem C13_resolves_only :
  forall (cls_name snake optional : list byte -> list byte),
    (forall s, ident_chars (snake s)) ->
  forall (w : world) (root cur tgt : list (list byte)) (T : list byte) (unwrap pydantic : bool) (v : value),
    root <> [] ->
    pkg_okb cur = true -> pkg_okb tgt = true -> type_okb T = true ->
    path_eqb (firstn 1 tgt) [s_betterproto] = false ->
    path_eqb tgt google_protobuf = false ->
    identb (cls_name T) = true ->
    world_has w root tgt (cls_name T) ->
    (denotes w (root ++ cur)
       (get_type_reference cls_name snake optional (py_join b_dot cur) (b_dot :: py_join b_dot (tgt ++ [T])) unwrap pydantic) v
     <-> v = VCls (root ++ tgt) (cls_name T)).
Proof. exact resolves_only. Qed.
Print Assumptions C13_resolves_only.

(* "the class generated for THAT type": two targets that get one (annotation, import line) pair from one module are one target *)
Theorem C13_resolves_injective :
  forall (cls_name snake optional : list byte -> list byte),
    (forall s, ident_chars (snake s)) ->
  forall (w : world) (root cur tgt1 tgt2 : list (list byte)) (T1 T2 : list byte) (u1 u2 pydantic : bool),
    root <> [] -> pkg_okb cur = true ->
    pkg_okb tgt1 = true -> type_okb T1 = true -> path_eqb (firstn 1 tgt1) [s_betterproto] = false ->
    path_eqb tgt1 google_protobuf = false -> identb (cls_name T1) = true -> world_has w root tgt1 (cls_name T1) ->
    pkg_okb tgt2 = true -> type_okb T2 = true -> path_eqb (firstn 1 tgt2) [s_betterproto] = false ->
    path_eqb tgt2 google_protobuf = false -> identb (cls_name T2) = true -> world_has w root tgt2 (cls_name T2) ->
    get_type_reference cls_name snake optional (py_join b_dot cur) (b_dot :: py_join b_dot (tgt1 ++ [T1])) u1 pydantic
    = get_type_reference cls_name snake optional (py_join b_dot cur) (b_dot :: py_join b_dot (tgt2 ++ [T2])) u2 pydantic ->
    tgt1 = tgt2 /\ cls_name T1 = cls_name T2.
Proof. exact resolves_injective. Qed.
Print Assumptions C13_resolves_injective.

(* C13_resolves composed with C13_output_tree: in the world made of the plugin's OWN output files every ordered pair of
   packages resolves; the world hypothesis is gone ([defs_okb]: every defined class name starts upper-case / with a digit) *)
Theorem C13_generated_tree_resolves :
  forall (cls_name snake optional : list byte -> list byte),
    (forall s, ident_chars (snake s)) ->
  forall root pkgs defs libs (cur tgt : list (list byte)) classes (T : list byte) (unwrap pydantic : bool),
    root <> [] ->
    pkg_okb cur = true -> pkg_okb tgt = true -> type_okb T = true ->
    path_eqb (firstn 1 tgt) [s_betterproto] = false ->
    path_eqb tgt google_protobuf = false ->
    identb (cls_name T) = true ->
    In (py_join b_dot tgt) pkgs -> In (root ++ tgt, classes) defs -> In (cls_name T) classes ->
    defs_okb defs = true ->
    denotes (world_of root pkgs defs libs) (root ++ cur)
      (get_type_reference cls_name snake optional (py_join b_dot cur) (b_dot :: py_join b_dot (tgt ++ [T])) unwrap pydantic)
      (VCls (root ++ tgt) (cls_name T)).
Proof. exact generated_tree_resolves. Qed.
Print Assumptions C13_generated_tree_resolves.

(* "also when packages depend on each other circularly": both directions in ONE generated tree (final bindings; the
   initialisation ORDER of circular packages is not in Spec/PyImport.v - real generation exercises it) *)
Theorem C13_generated_tree_circular :
  forall (cls_name snake optional : list byte -> list byte),
    (forall s, ident_chars (snake s)) ->
  forall root pkgs defs libs (pa pb : list (list byte)) clsa clsb (Ta Tb : list byte) (ua ub pydantic : bool),
    root <> [] ->
    pkg_okb pa = true -> pkg_okb pb = true -> type_okb Ta = true -> type_okb Tb = true ->
    path_eqb (firstn 1 pa) [s_betterproto] = false -> path_eqb (firstn 1 pb) [s_betterproto] = false ->
    path_eqb pa google_protobuf = false -> path_eqb pb google_protobuf = false ->
    identb (cls_name Ta) = true -> identb (cls_name Tb) = true ->
    In (py_join b_dot pa) pkgs -> In (py_join b_dot pb) pkgs ->
    In (root ++ pa, clsa) defs -> In (root ++ pb, clsb) defs -> In (cls_name Ta) clsa -> In (cls_name Tb) clsb ->
    defs_okb defs = true ->
    denotes (world_of root pkgs defs libs) (root ++ pa)
      (get_type_reference cls_name snake optional (py_join b_dot pa) (b_dot :: py_join b_dot (pb ++ [Tb])) ub pydantic)
      (VCls (root ++ pb) (cls_name Tb)) /\
    denotes (world_of root pkgs defs libs) (root ++ pb)
      (get_type_reference cls_name snake optional (py_join b_dot pb) (b_dot :: py_join b_dot (pa ++ [Ta])) ua pydantic)
      (VCls (root ++ pa) (cls_name Ta)).
Proof. exact generated_tree_circular. Qed.
Print Assumptions C13_generated_tree_circular.

Example C13_generated_tree_nonvacuous :
  [sr] <> [] /\ pkg_okb [sa; sb] = true /\ pkg_okb [sc; sd] = true /\ type_okb t_T = true /\ type_okb t_Foo_Bar = true /\
  path_eqb (firstn 1 [sc; sd]) [s_betterproto] = false /\ path_eqb [sc; sd] google_protobuf = false /\
  path_eqb (firstn 1 [sa; sb]) [s_betterproto] = false /\ path_eqb [sa; sb] google_protobuf = false /\
  identb (CLS t_T) = true /\ identb (CLS t_Foo_Bar) = true /\
  In (py_join b_dot [sc; sd]) co_pkgs /\ In (py_join b_dot [sa; sb]) co_pkgs /\
  In ([sr] ++ [sc; sd], [CLS t_T]) co_defs /\ In ([sr] ++ [sa; sb], [CLS t_T; CLS t_Foo_Bar]) co_defs /\
  In (CLS t_T) [CLS t_T] /\ In (CLS t_Foo_Bar) [CLS t_T; CLS t_Foo_Bar] /\
  defs_okb co_defs = true /\
  eval_ref (world_of [sr] co_pkgs co_defs []) [sr; sa; sb] (gtr [sa; sb] [sc; sd] t_T) = Some (VCls [sr; sc; sd] (CLS t_T)) /\
  eval_ref (world_of [sr] co_pkgs co_defs []) [sr; sc; sd] (gtr [sc; sd] [sa; sb] t_Foo_Bar) = Some (VCls [sr; sa; sb] (CLS t_Foo_Bar)) /\
  gtr [sa; sb] [sc; sd] t_T <> gtr [sa; sb] [sa] t_T.
Proof. exact generated_tree_example. Qed.

(* "a field, map value, oneof member or RPC type": the sites differ by [unwrap] only; outside google.protobuf neither the site
   nor the typing option changes the annotation or the import line *)
Theorem C13_site_independent :
  forall (cls_name snake optional : list byte -> list byte) (pkg : list byte) (tgt : list (list byte)) (T : list byte) (u1 u2 p1 p2 : bool),
    pkg_okb tgt = true -> type_okb T = true -> path_eqb tgt google_protobuf = false ->
    get_type_reference cls_name snake optional pkg (b_dot :: py_join b_dot (tgt ++ [T])) u1 p1
    = get_type_reference cls_name snake optional pkg (b_dot :: py_join b_dot (tgt ++ [T])) u2 p2.
Proof. exact site_independent. Qed.
Print Assumptions C13_site_independent.

Example C13_site_independent_nonvacuous :
  pkg_okb [sc; sd] = true /\ type_okb t_Foo_Bar = true /\ path_eqb [sc; sd] google_protobuf = false /\
  snd (gtr [sa; sb] [sc; sd] t_Foo_Bar) <> None /\
  map (fun up => get_type_reference CLS SNK OPT (py_join b_dot [sa; sb]) (b_dot :: py_join b_dot ([sc; sd] ++ [t_Foo_Bar])) (fst up) (snd up))
      [(true, true); (false, true); (false, false)] = repeat (gtr [sa; sb] [sc; sd] t_Foo_Bar) 3.
Proof. exact site_independent_example. Qed.

(* well-known types with the casing model as [snake]: the alias hypothesis of C13_wellknown is discharged (both typing options) *)
Theorem C13_wellknown_casing_model :
  forall (cls_name optional : list byte -> list byte) (w : world) (P cur : list (list byte)) (T : list byte) (unwrap pydantic : bool),
    pkg_okb cur = true -> type_okb T = true ->
    path_eqb cur google_protobuf = false ->
    (if unwrap then early_return optional (b_dot :: py_join b_dot (google_protobuf ++ [T])) else None) = None ->
    identb (cls_name T) = true ->
    w_pkg w (lib_path pydantic) = true -> w_cls w (lib_path pydantic) (cls_name T) = true ->
    denotes w P
      (get_type_reference cls_name Casing.safe_snake_case optional (py_join b_dot cur) (b_dot :: py_join b_dot (google_protobuf ++ [T])) unwrap pydantic)
      (VCls (lib_path pydantic) (cls_name T)).
Proof. exact wellknown_casing_model. Qed.
Print Assumptions C13_wellknown_casing_model.

(* rpc input / output sites never unwrap: EVERY google.protobuf type - wrappers, Timestamp, Duration included - denotes the bundled class *)
Theorem C13_wellknown_rpc :
  forall (cls_name optional : list byte -> list byte) (w : world) (P cur : list (list byte)) (T : list byte) (pydantic : bool),
    pkg_okb cur = true -> type_okb T = true ->
    path_eqb cur google_protobuf = false ->
    identb (cls_name T) = true ->
    w_pkg w (lib_path pydantic) = true -> w_cls w (lib_path pydantic) (cls_name T) = true ->
    denotes w P
      (get_type_reference cls_name Casing.safe_snake_case optional (py_join b_dot cur) (b_dot :: py_join b_dot (google_protobuf ++ [T])) false pydantic)
      (VCls (lib_path pydantic) (cls_name T)).
Proof. exact wellknown_rpc. Qed.
Print Assumptions C13_wellknown_rpc.

(* exactness of `cur <> google.protobuf` in C13_wellknown: compiled inside google.protobuf the reference is the bare class name,
   no import - it denotes the class of the tree being generated, not the bundled one *)
Theorem C13_wellknown_inside_google :
  forall (cls_name snake optional : list byte -> list byte) (T : list byte) (unwrap pydantic : bool),
    type_okb T = true ->
    (if unwrap then early_return optional (b_dot :: py_join b_dot (google_protobuf ++ [T])) else None) = None ->
    get_type_reference cls_name snake optional (py_join b_dot google_protobuf) (b_dot :: py_join b_dot (google_protobuf ++ [T])) unwrap pydantic
    = (quoted (cls_name T), None).
Proof. exact wellknown_inside_google. Qed.
Print Assumptions C13_wellknown_inside_google.

(* which source types a field site unwraps: exactly the keys of the regenerated WRAPPER_TYPES and the two time types *)
Theorem C13_early_return_iff :
  forall (optional : list byte -> list byte) (k : list byte),
    early_return optional k <> None <->
    (tbl_find C13Tables.wrapper_types k <> None \/ k = s_duration \/ k = s_timestamp).
Proof. exact early_return_iff. Qed.
Print Assumptions C13_early_return_iff.

Example C13_wellknown_rpc_nonvacuous :
  pkg_okb [sa] = true /\ type_okb t_Int32Value = true /\ path_eqb [sa] google_protobuf = false /\ identb (PAS t_Int32Value) = true /\
  (forall pyd, w_pkg (w_wrap pyd) (lib_path pyd) = true /\ w_cls (w_wrap pyd) (lib_path pyd) (PAS t_Int32Value) = true) /\
  (forall pyd, snd (get_type_reference PAS FLD OPT (py_join b_dot [sa]) (b_dot :: py_join b_dot (google_protobuf ++ [t_Int32Value])) true pyd) = None) /\
  (forall pyd, eval_ref (w_wrap pyd) [sr; sa]
     (get_type_reference PAS FLD OPT (py_join b_dot [sa]) (b_dot :: py_join b_dot (google_protobuf ++ [t_Int32Value])) false pyd)
     = Some (VCls (lib_path pyd) (PAS t_Int32Value))) /\
  early_return OPT (b_dot :: py_join b_dot (google_protobuf ++ [t_Int32Value])) <> None /\
  early_return OPT (b_dot :: py_join b_dot (google_protobuf ++ [t_Struct])) = None /\
  type_okb t_Struct = true.
Proof. exact wellknown_rpc_example. Qed.

(* "message, nested message or enum": the hypothesis of C13_class_name discharged for the casing model's pascal_case, for EVERY
   nested path (the dotted reference name and traverse's flattened name have the same word list) *)
Theorem C13_class_name_casing_model :
  forall nested : list (list byte), PAS (dotted_type nested) = defined_class_name PAS nested.
Proof. exact class_name_casing_model. Qed.
Print Assumptions C13_class_name_casing_model.

(* protoc-style names (every segment upper-case initial, no newline) satisfy type_okb at any nesting depth *)
Theorem C13_nested_type_ok :
  forall nested : list (list byte),
    nested <> [] -> forallb nested_segb nested = true -> type_okb (dotted_type nested) = true.
Proof. exact nested_type_ok. Qed.
Print Assumptions C13_nested_type_ok.

Example C13_class_name_nonvacuous :
  [t_Foo; t_Bar] <> [] /\ forallb nested_segb [t_Foo; t_Bar] = true /\ dotted_type [t_Foo; t_Bar] = t_Foo_Bar /\
  PAS (dotted_type [t_Foo; t_Bar]) = t_FooBar /\ defined_class_name PAS [t_Foo; t_Bar] = t_FooBar /\
  flat_name [] [t_Foo; t_Bar] = [x5f; x46; x6f; x6f; x5f; x42; x61; x72].
Proof. exact class_name_example. Qed.

(* exactness of the clause "no segment is `betterproto`" of plain_segb (C13_coexist): package x referencing
   x.betterproto.lib.google.protobuf.T and google.protobuf.Struct - one alias, two different import lines *)
Theorem C13_wellknown_desc_clash_refuted :
  exists (cur tgt : list (list byte)) (T T' : list byte) s1 s2,
    plain_pkgb cur = true /\ pkg_okb tgt = true /\ type_okb T = true /\ type_okb T' = true /\
    forallb (fun s => plain_segb s || bytes_eqb s s_betterproto) tgt = true /\ plain_pkgb tgt = false /\
    path_eqb (firstn 1 tgt) [s_betterproto] = false /\ path_eqb tgt google_protobuf = false /\
    identb (PAS T) = true /\ cls_startb (PAS T) = true /\
    rel_of cur tgt = RDesc /\
    snd (gtr_m cur tgt T false) = Some s1 /\ snd (gtr_wk cur T') = Some s2 /\
    alias_of s1 = Some s_bplgp /\ alias_of s2 = Some s_bplgp /\ s1 <> s2.
Proof. exact wellknown_desc_clash_refuted. Qed.
Print Assumptions C13_wellknown_desc_clash_refuted.

(* ---- second group (Proofs/C13GapB.v) ---- *)
(* "same package, ancestor, descendant, sibling, cousin, or no package": the five values of the dispatch [rel_of] are exactly these
   positions (the right-hand sides are mutually exclusive and exhaustive) *)
Theorem C13_rel_of_spec :
  forall cur tgt : list (list byte),
    match rel_of cur tgt with
    | RSame => tgt = cur
    | RDesc => exists rest, rest <> [] /\ tgt = cur ++ rest
    | RAnc => tgt <> [] /\ exists rest, rest <> [] /\ cur = tgt ++ rest
    | RRoot => tgt = [] /\ cur <> []
    | RCousin => tgt <> cur /\ (forall rest, tgt <> cur ++ rest) /\ (forall rest, cur <> tgt ++ rest)
    end.
Proof. exact rel_of_spec. Qed.
Print Assumptions C13_rel_of_spec.

Theorem C13_sibling_is_cousin :
  forall (parent : list (list byte)) (x y : list byte), x <> y -> rel_of (parent ++ [x]) (parent ++ [y]) = RCousin.
Proof. exact sibling_is_cousin. Qed.
Print Assumptions C13_sibling_is_cousin.

Example C13_rel_of_nonvacuous :
  rel_of [sa; sb] [sa; sb] = RSame /\ rel_of [sa] [sa; sb] = RDesc /\ rel_of [sa; sb] [sa] = RAnc /\
  rel_of [sa; sb] [] = RRoot /\ rel_of [] [sa] = RDesc /\ rel_of [sa; sb] [sa; sc] = RCousin /\ rel_of [sa; sb] [sc; sd] = RCousin /\
  sb <> sc.
Proof. exact rel_of_example. Qed.

(* C13_coexist composed with C13_output_tree: all references of one module at once, in the world of the plugin's own output
   files - no world hypothesis, cls_ok reduced to identb + [defs_okb] (non-vacuity: C13_coexist_nonvacuous is such a tree, w_co) *)
Theorem C13_generated_tree_coexist :
  forall (cls_name snake optional : list byte -> list byte),
    (forall s, ident_chars (snake s)) ->
    (forall l, l <> [] -> forallb plain_segb l = true -> snake (py_join b_dot l) = py_join b_us l) ->
  forall root pkgs defs libs (cur : list (list byte)) (pydantic : bool) (refs : list reference) (order : list (list byte)),
    root <> [] -> plain_pkgb cur = true -> defs_okb defs = true ->
    (forall r, In r refs ->
       plain_pkgb (r_tgt r) = true /\ type_okb (r_T r) = true /\ path_eqb (r_tgt r) google_protobuf = false /\
       identb (cls_name (r_T r)) = true /\ In (py_join b_dot (r_tgt r)) pkgs /\
       exists classes, In (root ++ r_tgt r, classes) defs /\ In (cls_name (r_T r)) classes) ->
    (forall s, In s order <-> exists r, In r refs /\ snd (ref_of cls_name snake optional cur pydantic r) = Some s) ->
    exists e, exec_all (world_of root pkgs defs libs) (root ++ cur) order = Some e /\
      forall r, In r refs ->
        resolve_annotation (world_of root pkgs defs libs) (root ++ cur) e (fst (ref_of cls_name snake optional cur pydantic r))
        = Some (VCls (root ++ r_tgt r) (cls_name (r_T r))).
Proof. exact generated_tree_coexist. Qed.
Print Assumptions C13_generated_tree_coexist.

(* the converse of C13_wellknown_desc_clash_refuted: over plain segments NO import line of an ordinary reference binds the alias of
   the well-known import (either typing option), so adding well-known references to a module rebinds none of its aliases *)
Theorem C13_wellknown_alias_no_clash :
  forall (cls_name snake optional : list byte -> list byte),
    (forall l, l <> [] -> forallb plain_segb l = true -> snake (py_join b_dot l) = py_join b_us l) ->
  forall (cur tgt : list (list byte)) (T : list byte) (u pydantic pydantic' : bool) (s : list byte),
    plain_pkgb cur = true -> plain_pkgb tgt = true -> type_okb T = true -> cls_ok (cls_name T) ->
    path_eqb tgt google_protobuf = false ->
    snd (get_type_reference cls_name snake optional (py_join b_dot cur) (b_dot :: py_join b_dot (tgt ++ [T])) u pydantic) = Some s ->
    alias_of s <> Some (py_join b_us (lib_path pydantic')).
Proof. exact wellknown_alias_no_clash. Qed.
Print Assumptions C13_wellknown_alias_no_clash.

Example C13_wellknown_alias_nonvacuous :
  (forall pyd, FLD (py_join b_dot (lib_path pyd)) = py_join b_us (lib_path pyd)) /\
  plain_pkgb [sa; sb] = true /\ plain_pkgb [sc; sd] = true /\ type_okb t_T = true /\ cls_ok (CLS t_T) /\
  path_eqb [sc; sd] google_protobuf = false /\
  alias_of (imp_of (gtr [sa; sb] [sc; sd] t_T)) = Some [x5f; x5f; x63; x5f; x64; x5f; x5f] /\
  (forall s, In s co_order -> In s co_order).
Proof. split; [exact lib_alias_casing_model | exact wellknown_alias_no_clash_example]. Qed.
