(* C13 — Cross-package type references in generated code resolve to the right class.
   Only property-level statements here; every proof is one [exact] of a lemma from Proofs/Importing*.v.

   Reading guide.
   * [get_type_reference cls_name snake optional package source_type unwrap pydantic] (Model/Importing.v) mirrors
     compile/importing.py and returns (annotation string, import line added to imports_end if any).
   * casing.pascal_case (through pythonize_class_name) and casing.safe_snake_case are PARAMETERS [cls_name], [snake];
     what a theorem needs of them is a hypothesis written in its statement; harness/props/c13.py samples each of these
     hypotheses on the real functions on every run.
   * [denotes w P ref v] (Spec/PyImport.v): inside package P of world w, executing the import line and then evaluating
     the annotation string yields the value v.  [world_has w root tgt C]: root.tgt and all its parents are importable
     packages, no module on the path defines a class named like the next segment, root.tgt defines class C.
   * side conditions are decidable booleans: [pkg_okb] (segments are ASCII identifiers, no upper-case letter, no keyword),
     [type_okb] (non-empty, no newline, no '.' before the first upper-case letter).  Where the pinned code violates the
     statement without them there is a [_refuted] theorem with the witness. *)
From BP Require Import Base.Prelude Spec.PyImport Model.Importing.
From BP Require Import Proofs.ImportingP Proofs.ImportingP2 Proofs.ImportingP3 Proofs.ImportingP4 Proofs.ImportingP5 Proofs.ImportingP6.
From BP Require gen.C13Tables.

(* The main theorem: EVERY pair of package paths, of any depth (same / descendant / ancestor / root / sibling / cousin are
   the cases of its proof), every well-formed (nested) type name: the returned pair denotes the class of the target package. *)
Theorem C13_resolves :
  forall (cls_name snake optional : list byte -> list byte),
    (forall s, ident_chars (snake s)) ->
  forall (w : world) (root : list (list byte)), root <> [] ->
  forall (cur tgt : list (list byte)) (T : list byte) (unwrap pydantic : bool),
    pkg_okb cur = true -> pkg_okb tgt = true -> type_okb T = true ->
    path_eqb (firstn 1 tgt) [s_betterproto] = false ->
    path_eqb tgt google_protobuf = false ->
    identb (cls_name T) = true ->
    world_has w root tgt (cls_name T) ->
    denotes w (root ++ cur)
      (get_type_reference cls_name snake optional (py_join b_dot cur) (b_dot :: py_join b_dot (tgt ++ [T])) unwrap pydantic)
      (VCls (root ++ tgt) (cls_name T)).
Proof. exact resolves_gen. Qed.
Print Assumptions C13_resolves.

Example C13_resolves_nonvacuous :
  pkg_okb [sa; sb] = true /\ pkg_okb [sc; sd] = true /\ type_okb t_Foo_Bar = true /\
  identb (CLS t_Foo_Bar) = true /\ world_has w_ex [sr] [sc; sd] (CLS t_Foo_Bar) /\
  gtr [sa; sb] [sc; sd] t_Foo_Bar
    = (quoted [x5f; x5f; x63; x5f; x64; x5f; x5f; x2e; x46; x6f; x6f; x42; x61; x72],
       Some [x66; x72; x6f; x6d; x20; x2e; x2e; x2e; x63; x20; x69; x6d; x70; x6f; x72; x74; x20; x64; x20; x61; x73; x20;
             x5f; x5f; x63; x5f; x64; x5f; x5f]) /\
  eval_ref w_ex [sr; sa; sb] (gtr [sa; sb] [sc; sd] t_Foo_Bar) = Some (VCls [sr; sc; sd] (CLS t_Foo_Bar)).
Proof. exact resolves_example. Qed.

(* parse_source_type_name (the regex) on well-formed names: package = all leading segments, name = the rest *)
Theorem C13_parse :
  forall (tgt : list (list byte)) (T : list byte), pkg_okb tgt = true -> type_okb T = true ->
    parse_source_type_name (b_dot :: py_join b_dot (tgt ++ [T])) = (py_join b_dot tgt, T).
Proof. exact parse_well_formed. Qed.
Print Assumptions C13_parse.

(* the world hypothesis of C13_resolves is what parser.py's output files provide: every parent directory of a generated
   package gets an __init__.py, and class names (upper-case / digit initial) never collide with package segments *)
Theorem C13_output_tree :
  forall root pkgs defs libs (tgt : list (list byte)) classes C,
    pkg_okb tgt = true -> In (py_join b_dot tgt) pkgs ->
    In (root ++ tgt, classes) defs -> In C classes ->
    (forall d n, In d defs -> In n (snd d) -> cls_startb n = true) ->
    world_has (world_of root pkgs defs libs) root tgt C.
Proof. exact world_of_has. Qed.
Print Assumptions C13_output_tree.

(* reference (pascal_case of "Foo.Bar") and class statement (pascal_case of traverse's "_Foo_Bar") agree, given that
   property of pascal_case (sampled on the real function; the casing model is another property's) *)
Theorem C13_class_name :
  forall cls_name : list byte -> list byte,
    (forall nested, cls_name (dotted_type nested) = cls_name (flat_name [] nested)) ->
    forall nested, cls_name (dotted_type nested) = defined_class_name cls_name nested.
Proof. exact class_name_link. Qed.
Print Assumptions C13_class_name.

(* well-known types that are not unwrapped resolve to betterproto's bundled google.protobuf module *)
Theorem C13_wellknown :
  forall (cls_name snake optional : list byte -> list byte) (w : world) (P cur : list (list byte)) (T : list byte)
         (unwrap pydantic : bool),
    pkg_okb cur = true -> type_okb T = true ->
    path_eqb cur google_protobuf = false ->
    (if unwrap then early_return optional (b_dot :: py_join b_dot (google_protobuf ++ [T])) else None) = None ->
    identb (cls_name T) = true ->
    identb (snake (py_join b_dot (lib_path pydantic))) = true ->
    w_pkg w (lib_path pydantic) = true -> w_cls w (lib_path pydantic) (cls_name T) = true ->
    denotes w P
      (get_type_reference cls_name snake optional (py_join b_dot cur) (b_dot :: py_join b_dot (google_protobuf ++ [T])) unwrap pydantic)
      (VCls (lib_path pydantic) (cls_name T)).
Proof. exact wellknown_resolves. Qed.
Print Assumptions C13_wellknown.

(* ... and the wrapper types / Duration / Timestamp, when unwrapped, are Python builtins with no import at all *)
Theorem C13_wellknown_unwrapped :
  forall (cls_name snake optional : list byte -> list byte) pkg k v pydantic,
    tbl_find C13Tables.wrapper_types k = Some v ->
    get_type_reference cls_name snake optional pkg k true pydantic = (optional v, None).
Proof. exact wellknown_unwrapped. Qed.
Print Assumptions C13_wellknown_unwrapped.

Theorem C13_wellknown_time :
  forall (cls_name snake optional : list byte -> list byte) pkg pydantic,
    get_type_reference cls_name snake optional pkg s_duration true pydantic = (s_timedelta, None) /\
    get_type_reference cls_name snake optional pkg s_timestamp true pydantic = (s_datetime, None).
Proof. exact wellknown_time. Qed.
Print Assumptions C13_wellknown_time.

(* coexistence: two references from one module whose import lines bind the same name have the same import line *)
Theorem C13_no_alias_clash :
  forall (cls_name snake optional : list byte -> list byte),
    (forall l, l <> [] -> forallb plain_segb l = true -> snake (py_join b_dot l) = py_join b_us l) ->
  forall (cur tgt1 tgt2 : list (list byte)) (T1 T2 : list byte) (u1 u2 pydantic : bool) s1 s2,
    plain_pkgb cur = true -> plain_pkgb tgt1 = true -> plain_pkgb tgt2 = true ->
    type_okb T1 = true -> type_okb T2 = true ->
    cls_ok (cls_name T1) -> cls_ok (cls_name T2) ->
    path_eqb tgt1 google_protobuf = false -> path_eqb tgt2 google_protobuf = false ->
    snd (get_type_reference cls_name snake optional (py_join b_dot cur) (b_dot :: py_join b_dot (tgt1 ++ [T1])) u1 pydantic) = Some s1 ->
    snd (get_type_reference cls_name snake optional (py_join b_dot cur) (b_dot :: py_join b_dot (tgt2 ++ [T2])) u2 pydantic) = Some s2 ->
    alias_of s1 = alias_of s2 -> s1 = s2.
Proof. exact no_alias_clash_gen. Qed.
Print Assumptions C13_no_alias_clash.

Example C13_no_alias_clash_nonvacuous :
  plain_pkgb [sa; sb] = true /\ plain_pkgb [sc; sd] = true /\ plain_pkgb [sa; sc] = true /\
  type_okb t_T = true /\ identb (CLS t_T) = true /\ cls_startb (CLS t_T) = true /\
  SNK (py_join b_dot [sc; sd]) = py_join b_us [sc; sd] /\
  alias_of (imp_of (gtr [sa; sb] [sc; sd] t_T)) = Some [x5f; x5f; x63; x5f; x64; x5f; x5f] /\
  alias_of (imp_of (gtr [sa; sb] [sa; sc] t_T)) = Some [x5f; x63; x5f; x5f].
Proof. exact no_alias_clash_example. Qed.

(* all references of one module at once: the module runs the import lines of ALL its references (imports_end is a set, so
   [order] is any list with exactly those lines) and evaluates every annotation in that one namespace: each reference still
   denotes the class of its own target package.  Segments as in C13_no_alias_clash. *)
Theorem C13_coexist :
  forall (cls_name snake optional : list byte -> list byte),
    (forall s, ident_chars (snake s)) ->
    (forall l, l <> [] -> forallb plain_segb l = true -> snake (py_join b_dot l) = py_join b_us l) ->
  forall (w : world) (root cur : list (list byte)) (pydantic : bool) (refs : list reference) (order : list (list byte)),
    root <> [] -> plain_pkgb cur = true ->
    (forall r, In r refs -> ref_ok cls_name w root r) ->
    (forall s, In s order <-> exists r, In r refs /\ snd (ref_of cls_name snake optional cur pydantic r) = Some s) ->
    exists e, exec_all w (root ++ cur) order = Some e /\
      forall r, In r refs ->
        resolve_annotation w (root ++ cur) e (fst (ref_of cls_name snake optional cur pydantic r))
        = Some (VCls (root ++ r_tgt r) (cls_name (r_T r))).
Proof. exact coexist. Qed.
Print Assumptions C13_coexist.

Example C13_coexist_hypotheses_satisfiable :
  (forall s, ident_chars (snake_ex s)) /\
  (forall l, l <> [] -> forallb plain_segb l = true -> snake_ex (py_join b_dot l) = py_join b_us l) /\
  SNK (py_join b_dot [sc; sd]) = snake_ex (py_join b_dot [sc; sd]) /\
  cls_ok (CLS t_T) /\ cls_ok (CLS t_Foo_Bar).
Proof. exact coexist_hypotheses_satisfiable. Qed.

Example C13_coexist_nonvacuous :
  length co_order = 3%nat /\
  forall order, order = co_order \/ order = rev co_order ->
    match exec_all w_co [sr; sa; sb] order with
    | Some e => map (fun r => resolve_annotation w_co [sr; sa; sb] e (fst r)) co_refs
                = [Some (VCls [sr; sc; sd] (CLS t_T)); Some (VCls [sr; sa] (CLS t_T));
                   Some (VCls [sr; sa; sb; sc] (CLS t_T)); Some (VCls [sr; sa; sb] (CLS t_T))]
    | None => False
    end.
Proof. exact coexist_example. Qed.

(* ---- refutations of the unconditional statement on the pinned code ---- *)
(* K2: upper-case package segment *)
Theorem C13_capital_refuted :
  exists (w : world) (root cur tgt : list (list byte)) T,
    root <> [] /\ pkg_okb cur = true /\ pkg_okb tgt = false /\ Forall (fun s => identb s = true) tgt /\
    type_okb T = true /\ identb (CLS T) = true /\
    w_pkg w (root ++ tgt) = true /\ w_cls w (root ++ tgt) (CLS T) = true /\
    ~ denotes w (root ++ cur) (gtr cur tgt T) (VCls (root ++ tgt) (CLS T)).
Proof. exact capital_package_refuted. Qed.
Print Assumptions C13_capital_refuted.

(* K2: lower-case message with a nested type *)
Theorem C13_lowercase_message_refuted :
  exists (w : world) (root cur tgt : list (list byte)) T,
    root <> [] /\ pkg_okb cur = true /\ pkg_okb tgt = true /\ type_okb T = false /\ identb (CLS T) = true /\
    world_has w root tgt (CLS T) /\
    ~ denotes w (root ++ cur) (gtr cur tgt T) (VCls (root ++ tgt) (CLS T)).
Proof. exact lowercase_message_refuted. Qed.
Print Assumptions C13_lowercase_message_refuted.

(* K1: Foo.Bar and FooBar get one class name and one reference *)
Theorem C13_class_collision_refuted :
  exists (cur tgt : list (list byte)) (nested1 nested2 : list (list byte)),
    nested1 <> nested2 /\
    type_okb (dotted_type nested1) = true /\ type_okb (dotted_type nested2) = true /\
    defined_class_name CLS nested1 = defined_class_name CLS nested2 /\
    gtr cur tgt (dotted_type nested1) = gtr cur tgt (dotted_type nested2).
Proof. exact class_collision_refuted. Qed.
Print Assumptions C13_class_collision_refuted.

(* a proto package named betterproto.* is imported absolutely *)
Theorem C13_betterproto_package_refuted :
  exists (w : world) (root cur tgt : list (list byte)) T,
    root <> [] /\ pkg_okb cur = true /\ pkg_okb tgt = true /\ type_okb T = true /\ identb (CLS T) = true /\
    path_eqb (firstn 1 tgt) [s_betterproto] = true /\
    world_has w root tgt (CLS T) /\
    ~ denotes w (root ++ cur) (gtr cur tgt T) (VCls (root ++ tgt) (CLS T)).
Proof. exact betterproto_package_refuted. Qed.
Print Assumptions C13_betterproto_package_refuted.

(* the output directory must itself be (inside) a package *)
Theorem C13_toplevel_refuted :
  exists (w : world) (cur tgt : list (list byte)) T,
    pkg_okb cur = true /\ pkg_okb tgt = true /\ type_okb T = true /\ identb (CLS T) = true /\
    world_has w [] tgt (CLS T) /\
    ~ denotes w ([] ++ cur) (gtr cur tgt T) (VCls ([] ++ tgt) (CLS T)).
Proof. exact toplevel_refuted. Qed.
Print Assumptions C13_toplevel_refuted.

(* alias clashes: x.a.b / x.a_b (underscore) and x.a1.b / x.a1b (digit boundary): same bound name, different imports,
   and whichever line runs last one of the two references resolves to the other package's class *)
Theorem C13_underscore_alias_refuted :
  exists (w : world) (root cur tgt1 tgt2 : list (list byte)) T s1 s2,
    pkg_okb cur = true /\ pkg_okb tgt1 = true /\ pkg_okb tgt2 = true /\
    world_has w root tgt1 (CLS T) /\ world_has w root tgt2 (CLS T) /\
    snd (gtr cur tgt1 T) = Some s1 /\ snd (gtr cur tgt2 T) = Some s2 /\
    alias_of s1 = alias_of s2 /\ s1 <> s2 /\
    (forall order, order = [s1; s2] \/ order = [s2; s1] ->
       exists e, exec_all w (root ++ cur) order = Some e /\
         (resolve_annotation w (root ++ cur) e (fst (gtr cur tgt1 T)) <> Some (VCls (root ++ tgt1) (CLS T)) \/
          resolve_annotation w (root ++ cur) e (fst (gtr cur tgt2 T)) <> Some (VCls (root ++ tgt2) (CLS T)))).
Proof. exact underscore_alias_refuted. Qed.
Print Assumptions C13_underscore_alias_refuted.

Theorem C13_digit_alias_refuted :
  exists (cur tgt1 tgt2 : list (list byte)) T s1 s2,
    pkg_okb cur = true /\ pkg_okb tgt1 = true /\ pkg_okb tgt2 = true /\
    snd (gtr cur tgt1 T) = Some s1 /\ snd (gtr cur tgt2 T) = Some s2 /\
    alias_of s1 = alias_of s2 /\ s1 <> s2.
Proof. exact digit_alias_refuted. Qed.
Print Assumptions C13_digit_alias_refuted.
