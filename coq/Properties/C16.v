(* C16 — Scalar codec primitives are total, canonical and mutually inverse.
   This file holds only the property-level statements; every proof is a single
   [exact] of a lemma from Proofs/, followed by Print Assumptions.
   The theorems C16_src_* (the model functions encode_varint / size_varint / load_varint / decode_varint / zigzag /
   unzigzag used below ARE the Gallina obtained mechanically from the current Python source) live in
   Properties/C16Src.v and Properties/C16SrcZigzag.v, which this file does not depend on: they are built and audited
   by the non-alarming "source tie" stage of harness/props/c16.py only. *)
From BP Require Import Base.Prelude Model.Types Model.Varint Model.Scalar Spec.Varint.
From BP Require Import Proofs.BytesP Proofs.VarintP Proofs.ScalarP.
From BP Require gen.Tables.

(* canonical minimal base-128 form, negatives as 64-bit two's complement, <= 10 bytes *)
Theorem C16_canonical : forall v, - 2 ^ 63 <= v < 2 ^ 64 ->
  exists bs, encode_varint v = Ok bs /\ canonical (v mod 2 ^ 64) bs /\ (length bs <= 10)%nat.
Proof. exact encode_in_range. Qed.
Print Assumptions C16_canonical.

Theorem C16_canonical_unique : forall n a b, canonical n a -> canonical n b -> a = b.
Proof. exact canonical_unique. Qed.
Print Assumptions C16_canonical_unique.

Theorem C16_negative_ten_bytes : forall v bs,
  - 2 ^ 63 <= v < 0 -> encode_varint v = Ok bs -> length bs = 10%nat.
Proof. exact negative_is_ten_bytes. Qed.
Print Assumptions C16_negative_ten_bytes.

(* load_varint inverts encode_varint, returns exactly the bytes consumed and leaves the rest *)
Theorem C16_inverse_load : forall v rest, - 2 ^ 63 <= v < 2 ^ 64 ->
  exists bs, encode_varint v = Ok bs /\ load_varint (bs ++ rest) = Ok (v mod 2 ^ 64, bs, rest).
Proof. exact encode_load_inverse. Qed.
Print Assumptions C16_inverse_load.

(* decode_varint at any position reports the exact new position *)
Theorem C16_inverse_decode : forall v pre rest, - 2 ^ 63 <= v < 2 ^ 64 ->
  exists bs, encode_varint v = Ok bs /\
    decode_varint (pre ++ bs ++ rest) (Zlength pre) = Ok (v mod 2 ^ 64, Zlength pre + Zlength bs).
Proof. exact encode_decode_inverse. Qed.
Print Assumptions C16_inverse_decode.

(* every legal (also padded, non-minimal) representation of at most 10 bytes decodes to its value *)
Theorem C16_load_any_rep : forall n bs rest,
  VarintRep n bs -> load_varint (bs ++ rest) = Ok (n, bs, rest).
Proof. exact load_varint_rep. Qed.
Print Assumptions C16_load_any_rep.

(* whatever load_varint accepts is a well-shaped prefix of its input and denotes the value returned *)
Theorem C16_load_sound : forall s v raw rest,
  load_varint s = Ok (v, raw, rest) -> s = raw ++ rest /\ VarintRep v raw.
Proof. exact load_varint_sound. Qed.
Print Assumptions C16_load_sound.

Theorem C16_size : forall v, - 2 ^ 63 <= v < 2 ^ 64 ->
  exists bs, encode_varint v = Ok bs /\ size_varint v = Ok (Zlength bs).
Proof. exact encode_size_agree. Qed.
Print Assumptions C16_size.

(* ... and with no range hypothesis at all the two walks agree, errors included *)
Theorem C16_size_total : forall v,
  match encode_varint v, size_varint v with
  | Ok bs, Ok n => n = Zlength bs
  | Err a, Err b => a = b
  | _, _ => False
  end.
Proof. exact encode_size_agree_total. Qed.
Print Assumptions C16_size_total.

Theorem C16_reject_low : forall v, v < - 2 ^ 63 ->
  encode_varint v = Err EValue /\ size_varint v = Err EValue.
Proof. exact reject_low. Qed.
Print Assumptions C16_reject_low.

(* more than ten bytes: rejected *)
Theorem C16_too_long : forall s, (10 <= length s)%nat ->
  Forall (fun b => 128 <= Z_of_byte b) (firstn 10 s) -> load_varint s = Err ETooLong.
Proof. intros s. exact (load_go_toolong 10 0 0 [] s). Qed.
Print Assumptions C16_too_long.

(* premature end of input: signalled as EOF *)
Theorem C16_eof : forall s, (length s < 10)%nat ->
  Forall (fun b => 128 <= Z_of_byte b) s -> load_varint s = Err EEof.
Proof. intros s. exact (load_go_eof 10 0 0 [] s). Qed.
Print Assumptions C16_eof.

(* total: on every byte string the decoder returns, with one of three outcomes *)
Theorem C16_load_total : forall s,
  (exists x, load_varint s = Ok x) \/ load_varint s = Err EEof \/ load_varint s = Err ETooLong.
Proof. intros s. exact (load_go_total 10 0 0 [] s). Qed.
Print Assumptions C16_load_total.

(* zig-zag: equals the documented mapping, is inverted by the decoder side, stays in range *)
Theorem C16_zigzag_spec : forall v, zigzag v = zigzag_spec v.
Proof. exact zigzag_is_spec. Qed.
Print Assumptions C16_zigzag_spec.

Theorem C16_zigzag_inverse : forall v, unzigzag (zigzag v) = v.
Proof. exact unzigzag_zigzag. Qed.
Print Assumptions C16_zigzag_inverse.

Theorem C16_zigzag_range : forall bits v, 0 < bits ->
  - 2 ^ (bits - 1) <= v < 2 ^ (bits - 1) -> 0 <= zigzag v < 2 ^ bits.
Proof. exact zigzag_range. Qed.
Print Assumptions C16_zigzag_range.

(* int32 / int64 sign recovery undoes the 64-bit two's-complement wrap of the encoder *)
Theorem C16_signed : forall bits v, 0 < bits <= 64 ->
  - 2 ^ (bits - 1) <= v < 2 ^ (bits - 1) -> sign_recover bits (v mod 2 ^ 64) = v.
Proof. exact sign_recover_correct. Qed.
Print Assumptions C16_signed.

(* fixed-width integers: little-endian two's complement, inverse, range-checked *)
Theorem C16_fixed : forall f lo hi n v, fmt_int_range f = Some (lo, hi, n) -> lo <= v < hi ->
  exists bs, pack_int f v = Ok bs /\ bs = twos_le n v /\ length bs = n /\ unpack_int f bs = Ok v.
Proof. exact pack_unpack_int. Qed.
Print Assumptions C16_fixed.

Theorem C16_fixed_reject : forall f lo hi n v, fmt_int_range f = Some (lo, hi, n) ->
  ~ (lo <= v < hi) -> pack_int f v = Err EStruct.
Proof. exact pack_int_out_of_range. Qed.
Print Assumptions C16_fixed_reject.

Theorem C16_fixed_onto : forall f lo hi n bs, fmt_int_range f = Some (lo, hi, n) -> length bs = n ->
  exists v, unpack_int f bs = Ok v /\ lo <= v < hi /\ pack_int f v = Ok bs.
Proof. exact unpack_pack_int. Qed.
Print Assumptions C16_fixed_onto.

(* the regenerated _pack_fmt table gives each fixed-width proto type the format of its width
   and signedness (finite; re-checked against the live table on every run) *)
Theorem C16_pack_fmt_table :
  Tables.pack_fmt TFixed32 = Some FmtI /\ Tables.pack_fmt TSFixed32 = Some Fmti /\
  Tables.pack_fmt TFixed64 = Some FmtQ /\ Tables.pack_fmt TSFixed64 = Some Fmtq /\
  Tables.pack_fmt TFloat = Some FmtF /\ Tables.pack_fmt TDouble = Some FmtD /\
  forallb (fun t => match Tables.pack_fmt t with
                    | Some _ => tmem t Tables.FIXED_TYPES
                    | None => negb (tmem t Tables.FIXED_TYPES) end) all_ptypes = true.
Proof. vm_compute. repeat split. Qed.
Print Assumptions C16_pack_fmt_table.

(* non-vacuity: concrete values meet the hypotheses and show the expected bytes *)
Example C16_ex_300 : encode_varint 300 = Ok [xac; x02].
Proof. vm_compute. reflexivity. Qed.
Example C16_ex_m1 : encode_varint (-1) = Ok [xff; xff; xff; xff; xff; xff; xff; xff; xff; x01].
Proof. vm_compute. reflexivity. Qed.
Example C16_ex_padded : VarintRep 1 [x81; x80; x00] /\ load_varint [x81; x80; x00; x07] = Ok (1, [x81; x80; x00], [x07]).
Proof. split; [|vm_compute; reflexivity]. repeat split; cbn; lia. Qed.
Example C16_ex_fixed : pack_int Fmti (-2) = Ok [xfe; xff; xff; xff].
Proof. vm_compute. reflexivity. Qed.

(* ---- float clause: refuted for -0.0 in a singular field (known finding K14); everywhere else the float
        encodings are compared bit for bit with struct and the reference by the correspondence ---- *)
From BP Require Import Model.Float Model.Object Model.Encode Model.WellFormed Proofs.C16Extra.
Theorem C16_neg_zero_skipped_refuted :
  exists sc o b,
    wf_schema sc = true /\ in_range sc o = true /\ oraw o = [PFloat b] /\ b <> 0 /\
    pack_value TDouble (PFloat b) = Ok [x00; x00; x00; x00; x00; x00; x00; x80] /\
    enc_obj sc o = Ok [].
Proof. exact neg_zero_skipped. Qed.
Print Assumptions C16_neg_zero_skipped_refuted.

(* ==================================================================================================
   Float clause, verified against a SPECIFICATION of IEEE 754: Flocq's real-number semantics.
   [b32_of_bits] / [b64_of_bits] (Flocq IEEE754/Bits.v) decode a bit pattern into a binary32 / binary64
   float, [B2R] is its real value, [round radix2 (FLT_exp (-149) 24) ZnearestE] is rounding to nearest,
   ties to even, into the binary32 format (24-bit significands, smallest exponent -149, no upper bound),
   [bits_of_b32] / [bits_of_b64] are the IEEE 754 interchange encodings.
   Flocq's theory of the reals rests on the standard library's real-number axioms; the theorems of THIS
   SECTION ONLY depend on them (every theorem above is closed under the global context).  No axiom is
   declared in this development; the four names below are those of Coq's standard library (Reals).
   ================================================================================================== *)
(* STDLIB-AXIOMS-ALLOWED: ClassicalDedekindReals.sig_not_dec ClassicalDedekindReals.sig_forall_dec FunctionalExtensionality.functional_extensionality_dep Classical_Prop.classic *)
From Coq Require Import Reals.
From Flocq Require Import Core IEEE754.Binary IEEE754.Bits.
From BP Require Import Model.Decode.
From BP Require Import Model.C01Def Proofs.C16FlocqWiden Proofs.C16FlocqNarrow Proofs.C16FlocqCodec Proofs.C16FlocqInverse.
Open Scope Z_scope.

(* (1) struct.unpack("<f") is the exact widening: a finite binary32 pattern (exponent field not all ones)
   goes to a finite binary64 pattern with the same real value and the same sign (also for +-0) *)
Theorem C16_f2d_exact : forall w,
  0 <= w < 2 ^ 32 -> Z.land (Z.shiftr w 23) 255 <> 255 ->
  0 <= f2d w < 2 ^ 64 /\
  B2R 53 1024 (b64_of_bits (f2d w)) = B2R 24 128 (b32_of_bits w) /\
  is_finite 53 1024 (b64_of_bits (f2d w)) = true /\ is_finite 24 128 (b32_of_bits w) = true /\
  Bsign 53 1024 (b64_of_bits (f2d w)) = Bsign 24 128 (b32_of_bits w).
Proof. exact f2d_exact. Qed.
Print Assumptions C16_f2d_exact.

Theorem C16_f2d_infinity : forall w,
  0 <= w < 2 ^ 32 -> Z.land (Z.shiftr w 23) 255 = 255 -> Z.land w (2 ^ 23 - 1) = 0 ->
  exists s, b32_of_bits w = B754_infinity 24 128 s /\ b64_of_bits (f2d w) = B754_infinity 53 1024 s /\
            s = negb (Z.shiftr w 31 =? 0).
Proof. exact f2d_infinity. Qed.
Print Assumptions C16_f2d_infinity.

(* NaN stays NaN with its sign; the quiet bit is set and the payload moves to the top fraction bits *)
Theorem C16_f2d_nan : forall w,
  0 <= w < 2 ^ 32 -> Z.land (Z.shiftr w 23) 255 = 255 -> Z.land w (2 ^ 23 - 1) <> 0 ->
  is_nan 24 128 (b32_of_bits w) = true /\ is_nan 53 1024 (b64_of_bits (f2d w)) = true /\
  Bsign 53 1024 (b64_of_bits (f2d w)) = Bsign 24 128 (b32_of_bits w) /\
  f64_man (f2d w) = 2 ^ 51 + (Z.land w (2 ^ 23 - 1) * 2 ^ 29) mod 2 ^ 51.
Proof. exact f2d_nan_nan. Qed.
Print Assumptions C16_f2d_nan.

(* (2) struct.pack("<f") IS IEEE 754 round-to-nearest-even conversion into binary32, with the sign of the
   argument (also when the result is zero), and raises OverflowError exactly when the rounded value
   reaches 2^128 (the tie (2^24 - 1/2) * 2^104 = 3.4028235677973366e+38 rounds to even, i.e. overflows:
   CPython agrees, see C16_ex_overflow_tie) *)
Theorem C16_d2f_correctly_rounded : forall b,
  0 <= b < 2 ^ 64 -> Z.land (Z.shiftr b 52) 2047 <> 2047 ->
  let x := B2R 53 1024 (b64_of_bits b) in
  let r := round radix2 (FLT_exp (-149) 24) ZnearestE x in
  ((Rabs r < bpow radix2 128)%R ->
     exists w, d2f b = Some w /\ 0 <= w < 2 ^ 32 /\
               is_finite 24 128 (b32_of_bits w) = true /\
               B2R 24 128 (b32_of_bits w) = r /\
               Bsign 24 128 (b32_of_bits w) = Bsign 53 1024 (b64_of_bits b) /\
               Z.shiftr w 31 = Z.shiftr b 63) /\
  ((bpow radix2 128 <= Rabs r)%R -> d2f b = None).
Proof. exact d2f_correctly_rounded. Qed.
Print Assumptions C16_d2f_correctly_rounded.

Theorem C16_d2f_infinity : forall b,
  0 <= b < 2 ^ 64 -> Z.land (Z.shiftr b 52) 2047 = 2047 -> Z.land b (2 ^ 52 - 1) = 0 ->
  exists w s, d2f b = Some w /\ 0 <= w < 2 ^ 32 /\
              b64_of_bits b = B754_infinity 53 1024 s /\ b32_of_bits w = B754_infinity 24 128 s.
Proof. exact d2f_infinity. Qed.
Print Assumptions C16_d2f_infinity.

Theorem C16_d2f_nan : forall b,
  0 <= b < 2 ^ 64 -> Z.land (Z.shiftr b 52) 2047 = 2047 -> Z.land b (2 ^ 52 - 1) <> 0 ->
  exists w, d2f b = Some w /\ 0 <= w < 2 ^ 32 /\
            is_nan 53 1024 (b64_of_bits b) = true /\ is_nan 24 128 (b32_of_bits w) = true /\
            Bsign 24 128 (b32_of_bits w) = Bsign 53 1024 (b64_of_bits b).
Proof. exact d2f_nan_nan. Qed.
Print Assumptions C16_d2f_nan.

(* d2f computes the same binary32 float as Flocq's executable IEEE 754 normalisation (binary_normalize,
   mode_NE) applied to the integer significand and exponent of the double; None = that float is infinite *)
Theorem C16_d2f_is_binary_normalize : forall b,
  0 <= b < 2 ^ 64 -> Z.land (Z.shiftr b 52) 2047 <> 2047 ->
  match d2f b with
  | Some w => 0 <= w < 2 ^ 32 /\ flocq_narrow b = b32_of_bits w
  | None => flocq_narrow b = B754_infinity 24 128 (negb (Z.shiftr b 63 =? 0))
  end.
Proof. exact d2f_is_binary_normalize. Qed.
Print Assumptions C16_d2f_is_binary_normalize.

(* (3) the boolean [f32_representable] that the round-trip theorems (C01, C02, C04 ...) take as the range
   condition of a float32 field means exactly: the value is a binary32 number *)
Theorem C16_f32_representable_iff : forall b,
  0 <= b < 2 ^ 64 -> Z.land (Z.shiftr b 52) 2047 <> 2047 ->
  let x := B2R 53 1024 (b64_of_bits b) in
  f32_representable b = true <->
  generic_format radix2 (FLT_exp (-149) 24) x /\ (Rabs x < bpow radix2 128)%R.
Proof. exact f32_representable_iff. Qed.
Print Assumptions C16_f32_representable_iff.

(* for such a value pack / unpack is the identity on the value (and on the pattern, zero signs included) *)
Theorem C16_float_roundtrip_value : forall b,
  0 <= b < 2 ^ 64 -> Z.land (Z.shiftr b 52) 2047 <> 2047 -> f32_representable b = true ->
  exists w, d2f b = Some w /\ 0 <= w < 2 ^ 32 /\
            is_finite 24 128 (b32_of_bits w) = true /\
            B2R 24 128 (b32_of_bits w) = B2R 53 1024 (b64_of_bits b) /\
            Bsign 24 128 (b32_of_bits w) = Bsign 53 1024 (b64_of_bits b) /\
            B2R 53 1024 (b64_of_bits (f2d w)) = B2R 53 1024 (b64_of_bits b) /\
            f2d w = b.
Proof. exact representable_roundtrip. Qed.
Print Assumptions C16_float_roundtrip_value.

(* the four bytes struct.pack writes for a float field are the little-endian IEEE 754 binary32 encoding of
   the correctly rounded value; reading them back gives a double holding that rounded value; out of range
   is OverflowError *)
Theorem C16_float_field_bytes : forall b,
  0 <= b < 2 ^ 64 -> Z.land (Z.shiftr b 52) 2047 <> 2047 ->
  let x := B2R 53 1024 (b64_of_bits b) in
  let r := round radix2 (FLT_exp (-149) 24) ZnearestE x in
  ((Rabs r < bpow radix2 128)%R ->
     exists f : binary32,
       is_finite 24 128 f = true /\ B2R 24 128 f = r /\ Bsign 24 128 f = Bsign 53 1024 (b64_of_bits b) /\
       pack_value TFloat (PFloat b) = Ok (le_bytes 4 (bits_of_b32 f)) /\
       exists b', unpack_value TFloat (le_bytes 4 (bits_of_b32 f)) = Ok (PFloat b') /\ 0 <= b' < 2 ^ 64 /\
                  is_finite 53 1024 (b64_of_bits b') = true /\
                  B2R 53 1024 (b64_of_bits b') = r /\ Bsign 53 1024 (b64_of_bits b') = Bsign 24 128 f) /\
  ((bpow radix2 128 <= Rabs r)%R -> pack_value TFloat (PFloat b) = Err EOverflow).
Proof. exact float_field_bytes. Qed.
Print Assumptions C16_float_field_bytes.

Theorem C16_float_field_identity : forall b,
  0 <= b < 2 ^ 64 -> Z.land (Z.shiftr b 52) 2047 <> 2047 -> f32_representable b = true ->
  exists f : binary32,
    is_finite 24 128 f = true /\ B2R 24 128 f = B2R 53 1024 (b64_of_bits b) /\
    Bsign 24 128 f = Bsign 53 1024 (b64_of_bits b) /\
    pack_value TFloat (PFloat b) = Ok (le_bytes 4 (bits_of_b32 f)) /\
    unpack_value TFloat (le_bytes 4 (bits_of_b32 f)) = Ok (PFloat b).
Proof. exact float_field_identity. Qed.
Print Assumptions C16_float_field_identity.

(* double: the eight bytes are the little-endian IEEE 754 binary64 encoding of the value itself *)
Theorem C16_double_field_bytes : forall b,
  0 <= b < 2 ^ 64 ->
  pack_value TDouble (PFloat b) = Ok (le_bytes 8 (bits_of_b64 (b64_of_bits b))) /\
  unpack_value TDouble (le_bytes 8 (bits_of_b64 (b64_of_bits b))) = Ok (PFloat b).
Proof. exact double_field_bytes. Qed.
Print Assumptions C16_double_field_bytes.

(* the other direction of "mutually inverse": every binary32 number, finite or infinite, survives
   struct.unpack("<f") followed by struct.pack("<f") bit for bit (so re-encoding a decoded float field
   reproduces its four bytes) ... *)
Theorem C16_d2f_f2d_inverse : forall w,
  0 <= w < 2 ^ 32 ->
  Z.land (Z.shiftr w 23) 255 <> 255 \/ Z.land w (2 ^ 23 - 1) = 0 ->
  d2f (f2d w) = Some w.
Proof. exact d2f_f2d_inverse. Qed.
Print Assumptions C16_d2f_f2d_inverse.

(* ... but not every NaN: a signalling NaN comes back quiet (0x7f800001 -> 0x7fc00001), as on the hardware;
   this is why the round-trip theorems state NaN separately (C01 f32 facts) *)
Theorem C16_d2f_f2d_snan_refuted : exists w, 0 <= w < 2 ^ 32 /\ d2f (f2d w) <> Some w.
Proof. exact d2f_f2d_snan_refuted. Qed.
Print Assumptions C16_d2f_f2d_snan_refuted.

(* the value a float32 field holds after encode + decode (C01's norm_f32) is the correctly rounded one,
   with the sign of the original; it is representable and a second round trip changes nothing *)
Theorem C16_norm_f32_correctly_rounded : forall b,
  0 <= b < 2 ^ 64 -> Z.land (Z.shiftr b 52) 2047 <> 2047 ->
  let r := round radix2 (FLT_exp (-149) 24) ZnearestE (B2R 53 1024 (b64_of_bits b)) in
  (Rabs r < bpow radix2 128)%R ->
  0 <= norm_f32 b < 2 ^ 64 /\
  is_finite 53 1024 (b64_of_bits (norm_f32 b)) = true /\
  B2R 53 1024 (b64_of_bits (norm_f32 b)) = r /\
  Bsign 53 1024 (b64_of_bits (norm_f32 b)) = Bsign 53 1024 (b64_of_bits b) /\
  f32_representable (norm_f32 b) = true /\ norm_f32 (norm_f32 b) = norm_f32 b.
Proof. exact norm_f32_correctly_rounded. Qed.
Print Assumptions C16_norm_f32_correctly_rounded.

(* non-vacuity *)
(* 1.5f and the smallest subnormal 2^-149 widen as expected; both meet the hypotheses of C16_f2d_exact *)
Example C16_ex_f2d :
  (0 <= 1069547520 < 2 ^ 32 /\ Z.land (Z.shiftr 1069547520 23) 255 <> 255 /\ f2d 1069547520 = 4609434218613702656) /\
  (0 <= 1 < 2 ^ 32 /\ Z.land (Z.shiftr 1 23) 255 <> 255 /\ f2d 1 = 3936146074321813504).
Proof. vm_compute. repeat split; congruence. Qed.
Example C16_ex_f2d_inf_nan :
  (Z.land (Z.shiftr 4286578688 23) 255 = 255 /\ Z.land 4286578688 (2 ^ 23 - 1) = 0) /\       (* -inf *)
  (Z.land (Z.shiftr 2139095041 23) 255 = 255 /\ Z.land 2139095041 (2 ^ 23 - 1) <> 0).        (* signalling NaN, payload 1 *)
Proof. vm_compute. repeat split; congruence. Qed.
(* 0.1 is finite, in range (the first hypothesis of C16_d2f_correctly_rounded holds) and is rounded to 0x3dcccccd *)
Example C16_ex_d2f_inrange :
  0 <= 4591870180066957722 < 2 ^ 64 /\ Z.land (Z.shiftr 4591870180066957722 52) 2047 <> 2047 /\
  d2f 4591870180066957722 = Some 1036831949 /\
  (Rabs (round radix2 (FLT_exp (-149) 24) ZnearestE (B2R 53 1024 (b64_of_bits 4591870180066957722))) < bpow radix2 128)%R.
Proof.
  assert (H1 : 0 <= 4591870180066957722 < 2 ^ 64) by (vm_compute; split; congruence).
  assert (H2 : Z.land (Z.shiftr 4591870180066957722 52) 2047 <> 2047) by (vm_compute; congruence).
  assert (H3 : d2f 4591870180066957722 = Some 1036831949) by (vm_compute; reflexivity).
  repeat split; try apply H1; try exact H2; try exact H3. exact (inrange_witness _ _ H1 H2 H3).
Qed.
(* the overflow boundary: 0x47efffffefffffff (3.4028235677973362e+38) packs to FLT_MAX 0x7f7fffff; the next
   double 0x47effffff0000000 = (2^24 - 1/2) * 2^104 (3.4028235677973366e+38) is the tie, rounds to even = 2^128,
   and raises - the second hypothesis of C16_d2f_correctly_rounded holds for it.  struct.pack agrees. *)
Example C16_ex_overflow_tie :
  d2f 5183643170835005439 = Some 2139095039 /\ d2f 5183643170835005440 = None /\
  (bpow radix2 128 <= Rabs (round radix2 (FLT_exp (-149) 24) ZnearestE (B2R 53 1024 (b64_of_bits 5183643170835005440))))%R.
Proof.
  split; [vm_compute; reflexivity|]. split; [vm_compute; reflexivity|].
  apply overflow_witness; [vm_compute; split; congruence | vm_compute; congruence | vm_compute; reflexivity].
Qed.
(* half the smallest subnormal (2^-150) is a tie and rounds to +0; anything above rounds to 2^-149; -1e-320 gives -0.0 *)
Example C16_ex_underflow :
  d2f 3931642474694443008 = Some 0 /\ d2f 3931642475144802971 = Some 1 /\ d2f 9223372036854777832 = Some 2147483648.
Proof. vm_compute. repeat split. Qed.
Example C16_ex_representable :
  f32_representable 4609434218613702656 = true /\ f32_representable 4591870180066957722 = false /\
  Z.land (Z.shiftr 4609434218613702656 52) 2047 <> 2047.
Proof. vm_compute. repeat split; congruence. Qed.
Example C16_ex_d2f_inf_nan :
  (Z.land (Z.shiftr 9218868437227405312 52) 2047 = 2047 /\ Z.land 9218868437227405312 (2 ^ 52 - 1) = 0) /\
  (Z.land (Z.shiftr 9221120237041090560 52) 2047 = 2047 /\ Z.land 9221120237041090560 (2 ^ 52 - 1) <> 0).
Proof. vm_compute. repeat split; congruence. Qed.
(* 0x7f7fffff (FLT_MAX) and 0xff800000 (-inf) meet the two alternatives of C16_d2f_f2d_inverse *)
Example C16_ex_inverse :
  (Z.land (Z.shiftr 2139095039 23) 255 <> 255 /\ d2f (f2d 2139095039) = Some 2139095039) /\
  (Z.land 4286578688 (2 ^ 23 - 1) = 0 /\ d2f (f2d 4286578688) = Some 4286578688) /\
  norm_f32 4591870180066957722 = 4591870180174331904.                      (* 0.1 -> 0.10000000149011612 *)
Proof. vm_compute. repeat split; congruence. Qed.

(* ==================================================================================================
   GAP CLOSING against the property text (the clause-by-clause table is the header comment of
   Proofs/C16GapA.v, continued in Proofs/C16GapB.v).  Every theorem of this section is closed under the
   global context (no real-number axioms here).
   ================================================================================================== *)
From BP Require Import Proofs.C16GapA.

(* (1a) "minimal": no legal representation of the same number is shorter; one of the same length is the same bytes *)
Theorem C16_encode_minimal : forall v bs bs',
  - 2 ^ 63 <= v < 2 ^ 64 -> encode_varint v = Ok bs -> VarintRep (v mod 2 ^ 64) bs' ->
  (length bs <= length bs')%nat /\ (length bs' = length bs -> bs' = bs).
Proof. exact encode_minimal. Qed.
Print Assumptions C16_encode_minimal.

Theorem C16_canonical_minimal : forall n bs bs',
  Spec.Varint.canonical n bs -> varint_shape bs' -> varint_value bs' = n ->
  (length bs <= length bs')%nat /\ (length bs' = length bs -> bs' = bs).
Proof. exact canonical_minimal. Qed.
Print Assumptions C16_canonical_minimal.

(* (1b) two's complement: v and v + 2^64 share their bytes; apart from that the encoder is injective *)
Theorem C16_encode_collision : forall v, - 2 ^ 63 <= v < 0 -> encode_varint v = encode_varint (v + 2 ^ 64).
Proof. exact encode_collision. Qed.
Print Assumptions C16_encode_collision.

Theorem C16_encode_inj : forall v1 v2,
  - 2 ^ 63 <= v1 < 2 ^ 64 -> - 2 ^ 63 <= v2 < 2 ^ 64 ->
  (encode_varint v1 = encode_varint v2 <-> v1 mod 2 ^ 64 = v2 mod 2 ^ 64).
Proof. exact encode_inj. Qed.
Print Assumptions C16_encode_inj.

Theorem C16_encode_inj_unsigned : forall v1 v2,
  0 <= v1 < 2 ^ 64 -> 0 <= v2 < 2 ^ 64 -> encode_varint v1 = encode_varint v2 -> v1 = v2.
Proof. exact encode_inj_unsigned. Qed.
Print Assumptions C16_encode_inj_unsigned.

Theorem C16_encode_inj_signed : forall v1 v2,
  - 2 ^ 63 <= v1 < 2 ^ 63 -> - 2 ^ 63 <= v2 < 2 ^ 63 -> encode_varint v1 = encode_varint v2 -> v1 = v2.
Proof. exact encode_inj_signed. Qed.
Print Assumptions C16_encode_inj_signed.

(* (1c) the upper bound 2^64 of the domain is needed by the inverse theorems: the encoder has no upper check *)
Theorem C16_upper_bound_refuted :
  (exists bs, encode_varint (2 ^ 64) = Ok bs /\ length bs = 10%nat /\ size_varint (2 ^ 64) = Ok 10 /\
              load_varint bs = Ok (2 ^ 64, bs, []) /\ 2 ^ 64 <> (2 ^ 64) mod 2 ^ 64) /\
  (exists bs, encode_varint (2 ^ 70) = Ok bs /\ length bs = 11%nat /\ load_varint bs = Err ETooLong).
Proof. exact upper_bound_refuted. Qed.
Print Assumptions C16_upper_bound_refuted.

(* ... and this is what happens for EVERY non-negative integer: canonical bytes of v itself, read back iff v < 2^70 *)
Theorem C16_encode_above : forall v rest, 0 <= v ->
  exists bs, encode_varint v = Ok bs /\ Spec.Varint.canonical v bs /\
    (v < 2 ^ 70 -> load_varint (bs ++ rest) = Ok (v, bs, rest)) /\
    (2 ^ 70 <= v -> (10 < length bs)%nat /\ load_varint (bs ++ rest) = Err ETooLong).
Proof. exact encode_above. Qed.
Print Assumptions C16_encode_above.

(* (2a) decode, then encode: the same bytes exactly for minimal input, fewer bytes for padded input *)
Theorem C16_load_reencode : forall s v raw rest,
  load_varint s = Ok (v, raw, rest) ->
  exists bs, encode_varint v = Ok bs /\ (length bs <= length raw)%nat /\
             (bs = raw <-> (length raw = 1%nat \/ last raw x00 <> x00)).
Proof. exact load_reencode. Qed.
Print Assumptions C16_load_reencode.

(* (2b) decode_varint on every (buffer, position) *)
Theorem C16_decode_sound : forall buf pos v p,
  decode_varint buf pos = Ok (v, p) ->
  0 <= pos /\ pos < p <= pos + 10 /\ p <= Zlength buf /\
  exists raw rest, skipn (Z.to_nat pos) buf = raw ++ rest /\ VarintRep v raw /\ p = pos + Zlength raw /\
                   load_varint (raw ++ rest) = Ok (v, raw, rest).
Proof. exact decode_sound. Qed.
Print Assumptions C16_decode_sound.

Theorem C16_decode_neg_pos : forall buf pos, pos < 0 -> decode_varint buf pos = Err EValue.
Proof. exact decode_neg_pos. Qed.
Print Assumptions C16_decode_neg_pos.

Theorem C16_decode_past_end : forall buf pos, Zlength buf <= pos -> decode_varint buf pos = Err EEof.
Proof. exact decode_past_end. Qed.
Print Assumptions C16_decode_past_end.

Theorem C16_decode_total : forall buf pos,
  (exists x, decode_varint buf pos = Ok x) \/ decode_varint buf pos = Err EValue \/
  decode_varint buf pos = Err EEof \/ decode_varint buf pos = Err ETooLong.
Proof. exact decode_total. Qed.
Print Assumptions C16_decode_total.

(* (2c) the decoded value is below 2^70, not below 2^64: the ten-byte form is not masked (the reference masks) *)
Theorem C16_load_value_range : forall s v raw rest,
  load_varint s = Ok (v, raw, rest) ->
  0 <= v < 2 ^ 70 /\ v < 128 ^ Z.of_nat (length raw) /\ (1 <= length raw <= 10)%nat.
Proof. exact load_value_range. Qed.
Print Assumptions C16_load_value_range.

Theorem C16_load_wide_refuted :
  exists s v raw rest, load_varint s = Ok (v, raw, rest) /\ 2 ^ 64 <= v /\ length s = 10%nat.
Proof. exact load_wide_refuted. Qed.
Print Assumptions C16_load_wide_refuted.

(* (4) rejected iff below -2^63, and only with ValueError *)
Theorem C16_reject_iff : forall v,
  (forall e, encode_varint v = Err e <-> (v < - 2 ^ 63 /\ e = EValue)) /\
  (forall e, size_varint v = Err e <-> (v < - 2 ^ 63 /\ e = EValue)).
Proof. exact reject_iff. Qed.
Print Assumptions C16_reject_iff.

(* (5) the three outcomes of the decoder, each characterised exactly by the input *)
Theorem C16_too_long_iff : forall s,
  load_varint s = Err ETooLong <-> ((10 <= length s)%nat /\ Forall ge128 (firstn 10 s)).
Proof. exact too_long_iff. Qed.
Print Assumptions C16_too_long_iff.

Theorem C16_eof_iff : forall s,
  load_varint s = Err EEof <-> ((length s < 10)%nat /\ Forall ge128 s).
Proof. exact eof_iff. Qed.
Print Assumptions C16_eof_iff.

Theorem C16_ok_iff : forall s,
  (exists x, load_varint s = Ok x) <->
  (exists bs rest, s = bs ++ rest /\ varint_shape bs /\ (length bs <= 10)%nat).
Proof. exact ok_iff. Qed.
Print Assumptions C16_ok_iff.

Theorem C16_load_err_kinds : forall s e, load_varint s = Err e -> e = EEof \/ e = ETooLong.
Proof. exact load_err_kinds. Qed.
Print Assumptions C16_load_err_kinds.

(* non-vacuity *)
(* [x81; x00] is a legal, longer representation of 1 (hypotheses of C16_encode_minimal); -1 and 2^64 - 1 collide *)
Example C16_ex_minimal :
  encode_varint 1 = Ok [x01] /\ VarintRep (1 mod 2 ^ 64) [x81; x00] /\
  encode_varint (-1) = encode_varint (2 ^ 64 - 1).
Proof. split; [vm_compute; reflexivity|]. split; [|vm_compute; reflexivity]. repeat split; cbn; lia. Qed.
(* padded input is accepted and re-encodes to fewer bytes; minimal input to itself *)
Example C16_ex_reencode :
  load_varint [x81; x80; x00; x07] = Ok (1, [x81; x80; x00], [x07]) /\ encode_varint 1 = Ok [x01] /\
  load_varint [xac; x02; x07] = Ok (300, [xac; x02], [x07]) /\ encode_varint 300 = Ok [xac; x02].
Proof. vm_compute. repeat split. Qed.
(* decode_varint in the middle of a buffer, at its end, before its start *)
Example C16_ex_decode :
  decode_varint [x07; xac; x02; x09] 1 = Ok (300, 3) /\ decode_varint [x07; xac; x02; x09] 4 = Err EEof /\
  decode_varint [x07; xac; x02; x09] (-1) = Err EValue /\ decode_varint [x07; xac] 1 = Err EEof.
Proof. vm_compute. repeat split. Qed.
(* ten continuation bytes: too long, whatever follows; nine: premature end *)
Example C16_ex_outcomes :
  load_varint [x80; x80; x80; x80; x80; x80; x80; x80; x80; x80; x01] = Err ETooLong /\
  load_varint [x80; x80; x80; x80; x80; x80; x80; x80; x80] = Err EEof /\
  load_varint [x80; x80; x80; x80; x80; x80; x80; x80; x80; x01] = Ok (2 ^ 63, [x80; x80; x80; x80; x80; x80; x80; x80; x80; x01], []).
Proof. vm_compute. repeat split. Qed.

(* ---------------- clause (6): the scalar KINDS (table: header of Proofs/C16GapB.v) ---------------- *)
From BP Require Import Model.C16GapDef Proofs.C16GapB.

(* int32, int64, uint32, uint64, sint32, sint64: for every value of the kind's range [varint_kind_range] what
   _preprocess_single emits is the canonical varint of the number the encoding specification prescribes
   ([wire_of]: the value mod 2^64, resp. its zig-zag image); load_varint reads exactly these bytes back, whatever
   follows, and _postprocess_single returns the value.  [msg] (the nested-message encoder) is arbitrary. *)
Theorem C16_varint_kind_roundtrip : forall msg t w lo hi v,
  varint_kind_range t = Some (lo, hi) -> lo <= v < hi ->
  exists bs, preprocess_with msg t w (PInt v) = Ok bs /\
             Spec.Varint.canonical (wire_of t v) bs /\ (length bs <= 10)%nat /\ 0 <= wire_of t v < 2 ^ 64 /\
             (forall rest, load_varint (bs ++ rest) = Ok (wire_of t v, bs, rest)) /\
             postprocess_varint t (wire_of t v) = PInt v.
Proof. exact varint_kind_roundtrip. Qed.
Print Assumptions C16_varint_kind_roundtrip.

(* fixed32, sfixed32, fixed64, sfixed64: little-endian two's complement of the kind's width and back; outside: struct.error *)
Theorem C16_fixed_kind_roundtrip : forall msg t w f lo hi n v,
  Tables.pack_fmt t = Some f -> fmt_int_range f = Some (lo, hi, n) ->
  (lo <= v < hi ->
     preprocess_with msg t w (PInt v) = Ok (twos_le n v) /\ length (twos_le n v) = n /\
     unpack_value t (twos_le n v) = Ok (PInt v)) /\
  (~ (lo <= v < hi) -> preprocess_with msg t w (PInt v) = Err EStruct).
Proof. exact fixed_kind_roundtrip. Qed.
Print Assumptions C16_fixed_kind_roundtrip.

(* bool (no theorem before): one byte 01 / 00, and back; every non-zero varint decodes to True *)
Theorem C16_bool_roundtrip : forall msg w b rest,
  preprocess_with msg TBool w (PBool b) = Ok [if b then x01 else x00] /\
  load_varint ([if b then x01 else x00] ++ rest) = Ok ((if b then 1 else 0), [if b then x01 else x00], rest) /\
  postprocess_varint TBool (if b then 1 else 0) = PBool b.
Proof. exact bool_roundtrip. Qed.
Print Assumptions C16_bool_roundtrip.

Theorem C16_bool_decode_any : forall v, 0 <= v -> postprocess_varint TBool v = PBool (negb (v =? 0)).
Proof. exact bool_decode_any. Qed.
Print Assumptions C16_bool_decode_any.

(* string, bytes: the payload is the value (UTF-8 validity is C01 / C17's subject) *)
Theorem C16_string_bytes_identity : forall msg w s,
  preprocess_with msg TString w (PStr s) = Ok s /\ preprocess_with msg TBytes w (PBytes s) = Ok s.
Proof. exact string_bytes_identity. Qed.
Print Assumptions C16_string_bytes_identity.

(* a whole singular field of a varint kind, as the single-field messages of the reference comparison have it:
   canonical varint of (number << 3 | 0), then the value bytes; two load_varint calls read both back *)
Theorem C16_serialize_varint_field : forall msg num t w lo hi v se,
  1 <= num < 2 ^ 29 -> varint_kind_range t = Some (lo, hi) -> lo <= v < hi ->
  exists key bs, serialize_with msg num t (PInt v) se w = Ok (key ++ bs) /\
                 Spec.Varint.canonical (8 * num) key /\ Spec.Varint.canonical (wire_of t v) bs /\
                 forall rest, load_varint (key ++ bs ++ rest) = Ok (8 * num, key, bs ++ rest) /\
                              load_varint (bs ++ rest) = Ok (wire_of t v, bs, rest).
Proof. exact serialize_varint_field. Qed.
Print Assumptions C16_serialize_varint_field.

(* the sign recovery of int32 / int64 / enum on ARBITRARY input: always in the signed range, congruent to the input
   mod 2^bits (the reference's truncation); hence C16_signed's conclusion holds iff the value is in range *)
Theorem C16_sign_recover_range : forall bits w,
  0 < bits -> - 2 ^ (bits - 1) <= sign_recover bits w < 2 ^ (bits - 1).
Proof. exact sign_recover_range. Qed.
Print Assumptions C16_sign_recover_range.

Theorem C16_sign_recover_mod : forall bits w, 0 < bits -> (sign_recover bits w) mod 2 ^ bits = w mod 2 ^ bits.
Proof. exact sign_recover_mod. Qed.
Print Assumptions C16_sign_recover_mod.

Theorem C16_signed_iff : forall bits v, 0 < bits <= 64 ->
  (sign_recover bits (v mod 2 ^ 64) = v <-> - 2 ^ (bits - 1) <= v < 2 ^ (bits - 1)).
Proof. exact signed_iff. Qed.
Print Assumptions C16_signed_iff.

(* zig-zag is a bijection between the signed range and [0, 2^bits); injective everywhere *)
Theorem C16_zigzag_bijection : forall bits, 0 < bits ->
  (forall v, - 2 ^ (bits - 1) <= v < 2 ^ (bits - 1) -> 0 <= zigzag v < 2 ^ bits /\ unzigzag (zigzag v) = v) /\
  (forall u, 0 <= u < 2 ^ bits -> - 2 ^ (bits - 1) <= unzigzag u < 2 ^ (bits - 1) /\ zigzag (unzigzag u) = u) /\
  (forall v1 v2, zigzag v1 = zigzag v2 -> v1 = v2).
Proof. exact zigzag_bijection. Qed.
Print Assumptions C16_zigzag_bijection.

Theorem C16_unzigzag_inverse : forall u, 0 <= u -> zigzag (unzigzag u) = u.
Proof. exact zigzag_unzigzag. Qed.
Print Assumptions C16_unzigzag_inverse.

Theorem C16_unzigzag_neg_refuted : exists u, u < 0 /\ zigzag (unzigzag u) <> u.
Proof. exact unzigzag_neg_refuted. Qed.
Print Assumptions C16_unzigzag_neg_refuted.

(* the kind ranges: needed for int32 / int64 / uint64 (first three: the value does not come back), NOT enforced by the
   encoder for uint32 / sint32 (last two: bytes are produced, and come back; the reference raises) *)
Theorem C16_kind_range_exactness :
  (preprocess_with no_msg TInt32 None (PInt (2 ^ 31)) = Ok [x80; x80; x80; x80; x08] /\
   postprocess_varint TInt32 (wire_of TInt32 (2 ^ 31)) = PInt (- 2 ^ 31)) /\
  (preprocess_with no_msg TInt64 None (PInt (2 ^ 63)) = Ok [x80; x80; x80; x80; x80; x80; x80; x80; x80; x01] /\
   postprocess_varint TInt64 (wire_of TInt64 (2 ^ 63)) = PInt (- 2 ^ 63)) /\
  (preprocess_with no_msg TUInt64 None (PInt (-1)) = Ok [xff; xff; xff; xff; xff; xff; xff; xff; xff; x01] /\
   postprocess_varint TUInt64 (wire_of TUInt64 (-1)) = PInt (2 ^ 64 - 1)) /\
  (preprocess_with no_msg TUInt32 None (PInt (2 ^ 32)) = Ok [x80; x80; x80; x80; x10] /\
   postprocess_varint TUInt32 (2 ^ 32) = PInt (2 ^ 32)) /\
  (preprocess_with no_msg TSInt32 None (PInt (2 ^ 31)) = Ok [x80; x80; x80; x80; x10] /\
   postprocess_varint TSInt32 (2 ^ 32) = PInt (2 ^ 31)).
Proof. exact kind_range_exactness. Qed.
Print Assumptions C16_kind_range_exactness.

Theorem C16_uint_kind_unchecked : forall msg t w v,
  t = TUInt32 \/ t = TUInt64 -> 0 <= v < 2 ^ 64 ->
  exists bs, preprocess_with msg t w (PInt v) = Ok bs /\ Spec.Varint.canonical v bs /\
             (forall rest, load_varint (bs ++ rest) = Ok (v, bs, rest)) /\ postprocess_varint t v = PInt v.
Proof. exact uint_kind_unchecked. Qed.
Print Assumptions C16_uint_kind_unchecked.

(* non-vacuity: the six varint kinds and the four fixed kinds have a range, and a concrete in-range value of each class
   goes through as the theorems say *)
Example C16_ex_kinds :
  map varint_kind_range [TInt32; TInt64; TUInt32; TUInt64; TSInt32; TSInt64] =
    [Some (- 2 ^ 31, 2 ^ 31); Some (- 2 ^ 63, 2 ^ 63); Some (0, 2 ^ 32); Some (0, 2 ^ 64);
     Some (- 2 ^ 31, 2 ^ 31); Some (- 2 ^ 63, 2 ^ 63)] /\
  preprocess_with no_msg TInt32 None (PInt (-2)) = Ok [xfe; xff; xff; xff; xff; xff; xff; xff; xff; x01] /\
  wire_of TInt32 (-2) = 2 ^ 64 - 2 /\ postprocess_varint TInt32 (2 ^ 64 - 2) = PInt (-2) /\
  preprocess_with no_msg TSInt64 None (PInt (-2)) = Ok [x03] /\ wire_of TSInt64 (-2) = 3 /\
  postprocess_varint TSInt64 3 = PInt (-2) /\
  (Tables.pack_fmt TSFixed32 = Some Fmti /\ preprocess_with no_msg TSFixed32 None (PInt (-2)) = Ok [xfe; xff; xff; xff] /\
   unpack_value TSFixed32 [xfe; xff; xff; xff] = Ok (PInt (-2)) /\
   preprocess_with no_msg TFixed32 None (PInt (-2)) = Err EStruct) /\
  serialize_with no_msg 1 TUInt32 (PInt 300) false None = Ok [x08; xac; x02].
Proof. vm_compute. repeat split. Qed.
Example C16_ex_sign_recover :
  sign_recover 32 (2 ^ 31) = - 2 ^ 31 /\ sign_recover 32 (2 ^ 64 - 1) = -1 /\ sign_recover 32 (2 ^ 70 - 1) = -1 /\
  unzigzag 5 = -3 /\ zigzag (-3) = 5.
Proof. vm_compute. repeat split. Qed.

(* ---------------- composition with C09: the length walk on a singular field of a varint kind ---------------- *)
From BP Require Import Model.Len Proofs.C16GapC.
Theorem C16_len_varint_field : forall msg num t w lo hi v se,
  1 <= num < 2 ^ 29 -> varint_kind_range t = Some (lo, hi) -> lo <= v < hi ->
  exists key bs, serialize_with msg num t (PInt v) se w = Ok (key ++ bs) /\
                 len_single_with msg num t (PInt v) se w = Ok (Zlength key + Zlength bs) /\
                 2 <= Zlength key + Zlength bs <= 15.
Proof. exact len_varint_field. Qed.
Print Assumptions C16_len_varint_field.
Example C16_ex_len_field :
  serialize_with no_msg 1 TInt64 (PInt (-1)) false None = Ok ([x08] ++ [xff; xff; xff; xff; xff; xff; xff; xff; xff; x01]) /\
  len_single_with no_msg 1 TInt64 (PInt (-1)) false None = Ok 11.
Proof. vm_compute. repeat split. Qed.
