(* C16 — Scalar codec primitives are total, canonical and mutually inverse.
   This file holds only the property-level statements; every proof is a single
   [exact] of a lemma from Proofs/, followed by Print Assumptions. *)
From BP Require Import Base.Prelude Model.Types Model.Varint Model.Scalar Spec.Varint.
From BP Require Import Proofs.BytesP Proofs.VarintP Proofs.ScalarP.
From BP Require gen.Tables.

(* canonical minimal base-128 form, negatives as 64-bit two's complement, <= 10 bytes *)
Theorem C16_canonical : forall v, - 2 ^ 63 <= v < 2 ^ 64 ->
  exists bs, encode_varint v = Ok bs /\ canonical (v mod 2 ^ 64) bs /\ (length bs <= 10)%nat.
Proof. exact encode_in_range. Qed.
Print Assumptions C16_canonical.

Theorem C16_canonical_unique : forall n a b, canonical n a -> canonical n b -> a = b.
Proof. exact canonical_unique. Qed.
Print Assumptions C16_canonical_unique.

Theorem C16_negative_ten_bytes : forall v bs,
  - 2 ^ 63 <= v < 0 -> encode_varint v = Ok bs -> length bs = 10%nat.
Proof. exact negative_is_ten_bytes. Qed.
Print Assumptions C16_negative_ten_bytes.

(* load_varint inverts encode_varint, returns exactly the bytes consumed and leaves the rest *)
Theorem C16_inverse_load : forall v rest, - 2 ^ 63 <= v < 2 ^ 64 ->
  exists bs, encode_varint v = Ok bs /\ load_varint (bs ++ rest) = Ok (v mod 2 ^ 64, bs, rest).
Proof. exact encode_load_inverse. Qed.
Print Assumptions C16_inverse_load.

(* decode_varint at any position reports the exact new position *)
Theorem C16_inverse_decode : forall v pre rest, - 2 ^ 63 <= v < 2 ^ 64 ->
  exists bs, encode_varint v = Ok bs /\
    decode_varint (pre ++ bs ++ rest) (Zlength pre) = Ok (v mod 2 ^ 64, Zlength pre + Zlength bs).
Proof. exact encode_decode_inverse. Qed.
Print Assumptions C16_inverse_decode.

(* every legal (also padded, non-minimal) representation of at most 10 bytes decodes to its value *)
Theorem C16_load_any_rep : forall n bs rest,
  VarintRep n bs -> load_varint (bs ++ rest) = Ok (n, bs, rest).
Proof. exact load_varint_rep. Qed.
Print Assumptions C16_load_any_rep.

(* whatever load_varint accepts is a well-shaped prefix of its input and denotes the value returned *)
Theorem C16_load_sound : forall s v raw rest,
  load_varint s = Ok (v, raw, rest) -> s = raw ++ rest /\ VarintRep v raw.
Proof. exact load_varint_sound. Qed.
Print Assumptions C16_load_sound.

Theorem C16_size : forall v, - 2 ^ 63 <= v < 2 ^ 64 ->
  exists bs, encode_varint v = Ok bs /\ size_varint v = Ok (Zlength bs).
Proof. exact encode_size_agree. Qed.
Print Assumptions C16_size.

(* ... and with no range hypothesis at all the two walks agree, errors included *)
Theorem C16_size_total : forall v,
  match encode_varint v, size_varint v with
  | Ok bs, Ok n => n = Zlength bs
  | Err a, Err b => a = b
  | _, _ => False
  end.
Proof. exact encode_size_agree_total. Qed.
Print Assumptions C16_size_total.

Theorem C16_reject_low : forall v, v < - 2 ^ 63 ->
  encode_varint v = Err EValue /\ size_varint v = Err EValue.
Proof. exact reject_low. Qed.
Print Assumptions C16_reject_low.

(* more than ten bytes: rejected *)
Theorem C16_too_long : forall s, (10 <= length s)%nat ->
  Forall (fun b => 128 <= Z_of_byte b) (firstn 10 s) -> load_varint s = Err ETooLong.
Proof. intros s. exact (load_go_toolong 10 0 0 [] s). Qed.
Print Assumptions C16_too_long.

(* premature end of input: signalled as EOF *)
Theorem C16_eof : forall s, (length s < 10)%nat ->
  Forall (fun b => 128 <= Z_of_byte b) s -> load_varint s = Err EEof.
Proof. intros s. exact (load_go_eof 10 0 0 [] s). Qed.
Print Assumptions C16_eof.

(* total: on every byte string the decoder returns, with one of three outcomes *)
Theorem C16_load_total : forall s,
  (exists x, load_varint s = Ok x) \/ load_varint s = Err EEof \/ load_varint s = Err ETooLong.
Proof. intros s. exact (load_go_total 10 0 0 [] s). Qed.
Print Assumptions C16_load_total.

(* zig-zag: equals the documented mapping, is inverted by the decoder side, stays in range *)
Theorem C16_zigzag_spec : forall v, zigzag v = zigzag_spec v.
Proof. exact zigzag_is_spec. Qed.
Print Assumptions C16_zigzag_spec.

Theorem C16_zigzag_inverse : forall v, unzigzag (zigzag v) = v.
Proof. exact unzigzag_zigzag. Qed.
Print Assumptions C16_zigzag_inverse.

Theorem C16_zigzag_range : forall bits v, 0 < bits ->
  - 2 ^ (bits - 1) <= v < 2 ^ (bits - 1) -> 0 <= zigzag v < 2 ^ bits.
Proof. exact zigzag_range. Qed.
Print Assumptions C16_zigzag_range.

(* int32 / int64 sign recovery undoes the 64-bit two's-complement wrap of the encoder *)
Theorem C16_signed : forall bits v, 0 < bits <= 64 ->
  - 2 ^ (bits - 1) <= v < 2 ^ (bits - 1) -> sign_recover bits (v mod 2 ^ 64) = v.
Proof. exact sign_recover_correct. Qed.
Print Assumptions C16_signed.

(* fixed-width integers: little-endian two's complement, inverse, range-checked *)
Theorem C16_fixed : forall f lo hi n v, fmt_int_range f = Some (lo, hi, n) -> lo <= v < hi ->
  exists bs, pack_int f v = Ok bs /\ bs = twos_le n v /\ length bs = n /\ unpack_int f bs = Ok v.
Proof. exact pack_unpack_int. Qed.
Print Assumptions C16_fixed.

Theorem C16_fixed_reject : forall f lo hi n v, fmt_int_range f = Some (lo, hi, n) ->
  ~ (lo <= v < hi) -> pack_int f v = Err EStruct.
Proof. exact pack_int_out_of_range. Qed.
Print Assumptions C16_fixed_reject.

Theorem C16_fixed_onto : forall f lo hi n bs, fmt_int_range f = Some (lo, hi, n) -> length bs = n ->
  exists v, unpack_int f bs = Ok v /\ lo <= v < hi /\ pack_int f v = Ok bs.
Proof. exact unpack_pack_int. Qed.
Print Assumptions C16_fixed_onto.

(* the regenerated _pack_fmt table gives each fixed-width proto type the format of its width
   and signedness (finite; re-checked against the live table on every run) *)
Theorem C16_pack_fmt_table :
  Tables.pack_fmt TFixed32 = Some FmtI /\ Tables.pack_fmt TSFixed32 = Some Fmti /\
  Tables.pack_fmt TFixed64 = Some FmtQ /\ Tables.pack_fmt TSFixed64 = Some Fmtq /\
  Tables.pack_fmt TFloat = Some FmtF /\ Tables.pack_fmt TDouble = Some FmtD /\
  forallb (fun t => match Tables.pack_fmt t with
                    | Some _ => tmem t Tables.FIXED_TYPES
                    | None => negb (tmem t Tables.FIXED_TYPES) end) all_ptypes = true.
Proof. vm_compute. repeat split. Qed.
Print Assumptions C16_pack_fmt_table.

(* non-vacuity: concrete values meet the hypotheses and show the expected bytes *)
Example C16_ex_300 : encode_varint 300 = Ok [xac; x02].
Proof. vm_compute. reflexivity. Qed.
Example C16_ex_m1 : encode_varint (-1) = Ok [xff; xff; xff; xff; xff; xff; xff; xff; xff; x01].
Proof. vm_compute. reflexivity. Qed.
Example C16_ex_padded : VarintRep 1 [x81; x80; x00] /\ load_varint [x81; x80; x00; x07] = Ok (1, [x81; x80; x00], [x07]).
Proof. split; [|vm_compute; reflexivity]. repeat split; cbn; lia. Qed.
Example C16_ex_fixed : pack_int Fmti (-2) = Ok [xfe; xff; xff; xff].
Proof. vm_compute. reflexivity. Qed.

(* ---- float clause: refuted for -0.0 in a singular field (known finding K14); everywhere else the float
        encodings are compared bit for bit with struct and the reference by the correspondence ---- *)
From BP Require Import Model.Float Model.Object Model.Encode Model.WellFormed Proofs.C16Extra.
Theorem C16_neg_zero_skipped_refuted :
  exists sc o b,
    wf_schema sc = true /\ in_range sc o = true /\ oraw o = [PFloat b] /\ b <> 0 /\
    pack_value TDouble (PFloat b) = Ok [x00; x00; x00; x00; x00; x00; x00; x80] /\
    enc_obj sc o = Ok [].
Proof. exact neg_zero_skipped. Qed.
Print Assumptions C16_neg_zero_skipped_refuted.
