(* C15 - source-translation tie, part "dur_json": _Duration.delta_to_json.  gen/C15Src.v holds src_delta_to_json obtained
   MECHANICALLY (harness/gen_c15_src.py) from the CURRENT source text; it IS the model's delta_to_json (Model/Time.v) for
   every timedelta, f-string formatting included (f"{i}" = Spec/Time.v dec, f"{i:0kd}" = Model/Time.v fmt0 on the
   non-negative values that occur; Model/C15SrcLib.v).  The JSON statements of Properties/C15.v are restated over it.
   BUILT ONLY BY THE "source tie" STAGE of harness/props/c15.py (non-alarming; see Properties/C15Src.v).
   Only statements here; every proof is one [exact] of a lemma of Proofs/C15SrcDurJson.v. *)
From BP Require Import Base.Prelude Model.Time Spec.Time Model.C16SrcLib Model.C15SrcLib gen.C15Src.
From BP Require Import Proofs.TimeP Proofs.C15SrcDurJson.

Theorem C15_src_delta_to_json_is_model : forall d, src_delta_to_json d = Ok (delta_to_json d).
Proof. exact src_delta_to_json_is_model. Qed.
Print Assumptions C15_src_delta_to_json_is_model.

(* C15_json_dur: the reference's decimal-seconds string, except for whole seconds (known finding K15-1, Properties/C15.v) *)
Theorem C15_src_json_dur : forall d, d mod 1000000 <> 0 ->
  src_delta_to_json d = Ok (dur_json (fst (dur_of_us d)) (snd (dur_of_us d))).
Proof. exact src_json_dur. Qed.
Print Assumptions C15_src_json_dur.

(* C15_json_dur_read_by_reference: every string written is read by a conforming reader as the reference's pair *)
Theorem C15_src_json_dur_read_by_reference : forall d,
  bind (src_delta_to_json d) (fun t => Ok (dur_parse t)) = Ok (Some (dur_of_us d)).
Proof. exact src_json_dur_read_by_reference. Qed.
Print Assumptions C15_src_json_dur_read_by_reference.

(* C15_json_dur_roundtrip (for every timedelta Python can hold): from_dict's reader (model) reads back what the source wrote *)
Theorem C15_src_json_dur_roundtrip : forall d, Z.abs (td_days d) <= 999999999 ->
  bind (src_delta_to_json d) parse_duration = Ok d.
Proof. exact src_json_dur_roundtrip. Qed.
Print Assumptions C15_src_json_dur_roundtrip.

Example C15_src_ex_dur_json :
  src_c15_dur_json_translated = true /\
  src_delta_to_json (-1500000) = Ok [x2d; x31; x2e; x35; x30; x30; x73] (* "-1.500s" *) /\
  src_delta_to_json 1 = Ok [x30; x2e; x30; x30; x30; x30; x30; x31; x73] (* "0.000001s" *) /\
  src_delta_to_json (-1) = Ok [x2d; x30; x2e; x30; x30; x30; x30; x30; x31; x73] (* "-0.000001s" *) /\
  (-1500000) mod 1000000 <> 0 /\ Z.abs (td_days (-1500000)) <= 999999999.
Proof. vm_compute. repeat split; try reflexivity; discriminate. Qed.
