(* C16 - source-translation tie of the varint primitives (second, tighter tie next to the sampled correspondence).
   gen/C16Src.v holds Gallina definitions src_* obtained MECHANICALLY (harness/gen_c16_src.py, Python `ast`) from the
   CURRENT source text of dump_varint / encode_varint / size_varint / load_varint / decode_varint.  The theorems below
   say that each translated function IS the hand-written model function of Model/Varint.v, for every input and every
   fuel above an explicit bound (the out-of-fuel arm is unreachable), so every theorem of Properties/C16.v about
   encode_varint / size_varint / load_varint / decode_varint is a theorem about the translated source; the headline
   ones are restated here directly over src_*.
   `err_class` renames the model's ETooLong to EValue and is the identity otherwise: both are Python's ValueError and
   differ in the message text only, which the translator drops (same identification as Prelude.errkind_eqb);
   EOFError (EEof) stays apart.
   THIS FILE IS BUILT ONLY BY THE "source tie" STAGE of harness/props/c16.py.  A behaviour-preserving rewrite of the
   Python functions can make the translator reject or these proofs fail although C16 still holds; the stage then
   records "source-translation tie did not hold" in the evidence and the sampled correspondence and the oracles
   decide.  Properties/C16.v does not depend on this file.
   Only statements here; every proof is one [exact] of a lemma of Proofs/C16Src.v. *)
From BP Require Import Base.Prelude Model.Varint Spec.Varint Model.C16SrcLib gen.C16Src.
From BP Require Import Proofs.VarintP Proofs.C16Src.

Theorem C16_src_size_varint_is_model : forall v, src_size_varint v = size_varint v.
Proof. exact src_size_is_model. Qed.
Print Assumptions C16_src_size_varint_is_model.

Theorem C16_src_encode_varint_is_model : forall v fuel,
  (src_fuel_encode v <= fuel)%nat -> src_encode_varint fuel v = encode_varint v.
Proof. exact src_encode_is_model. Qed.
Print Assumptions C16_src_encode_varint_is_model.

(* dump_varint appends exactly the bytes of encode_varint to what the stream already holds *)
Theorem C16_src_dump_varint_is_model : forall v out fuel,
  (src_fuel_encode v <= fuel)%nat ->
  src_dump_varint fuel v out = match encode_varint v with Ok bs => Ok (tt, out ++ bs) | Err k => Err k end.
Proof. exact src_dump_is_model. Qed.
Print Assumptions C16_src_dump_varint_is_model.

(* a fuel bound that does not mention the model: 3 + floor(log2(max(v, 2^64))) iterations are never used up *)
Theorem C16_src_fuel_int_enough : forall v, - 2 ^ 63 <= v -> (src_fuel_encode v <= src_fuel_int v)%nat.
Proof. exact src_fuel_int_enough. Qed.
Print Assumptions C16_src_fuel_int_enough.

Theorem C16_src_fuel_in_range : forall v, - 2 ^ 63 <= v < 2 ^ 64 -> (src_fuel_encode v <= 66)%nat.
Proof. exact src_fuel_encode_in_range. Qed.
Print Assumptions C16_src_fuel_in_range.

Theorem C16_src_load_varint_is_model : forall s fuel,
  (10 < fuel)%nat -> src_load_varint fuel s = err_class (load_varint s).
Proof. exact src_load_is_model. Qed.
Print Assumptions C16_src_load_varint_is_model.

Theorem C16_src_decode_varint_is_model : forall buf pos fuel,
  (10 < fuel)%nat -> src_decode_varint fuel buf pos = err_class (decode_varint buf pos).
Proof. exact src_decode_is_model. Qed.
Print Assumptions C16_src_decode_varint_is_model.

(* err_class is invisible on successes and on EOF; a ValueError of the source is EValue or ETooLong of the model *)
Theorem C16_src_err_class_ok : forall (A : Type) (r : result A) (a : A), err_class r = Ok a <-> r = Ok a.
Proof. exact @err_class_ok. Qed.
Print Assumptions C16_src_err_class_ok.

Theorem C16_src_err_class_eof : forall (A : Type) (r : result A), err_class r = Err EEof <-> r = Err EEof.
Proof. exact @err_class_eof. Qed.
Print Assumptions C16_src_err_class_eof.

Theorem C16_src_err_class_value : forall (A : Type) (r : result A),
  err_class r = Err EValue <-> (r = Err EValue \/ r = Err ETooLong).
Proof. exact @err_class_value. Qed.
Print Assumptions C16_src_err_class_value.

(* with the stated fuel no translated loop runs out of fuel *)
Theorem C16_src_encode_fuel_unreachable : forall v fuel,
  (src_fuel_encode v <= fuel)%nat -> src_encode_varint fuel v <> Err EFuel.
Proof. exact src_encode_fuel_ok. Qed.
Print Assumptions C16_src_encode_fuel_unreachable.

Theorem C16_src_load_fuel_unreachable : forall s fuel, (10 < fuel)%nat -> src_load_varint fuel s <> Err EFuel.
Proof. exact src_load_fuel_ok. Qed.
Print Assumptions C16_src_load_fuel_unreachable.

Theorem C16_src_decode_fuel_unreachable : forall buf pos fuel,
  (10 < fuel)%nat -> src_decode_varint fuel buf pos <> Err EFuel.
Proof. exact src_decode_fuel_ok. Qed.
Print Assumptions C16_src_decode_fuel_unreachable.

(* ---- the headline statements of C16, directly about the translated source ---- *)
Theorem C16_src_canonical : forall v fuel, - 2 ^ 63 <= v < 2 ^ 64 -> (66 <= fuel)%nat ->
  exists bs, src_encode_varint fuel v = Ok bs /\ canonical (v mod 2 ^ 64) bs /\ (length bs <= 10)%nat.
Proof. exact src_canonical. Qed.
Print Assumptions C16_src_canonical.

Theorem C16_src_inverse_load : forall v rest fuel fuel',
  - 2 ^ 63 <= v < 2 ^ 64 -> (66 <= fuel)%nat -> (10 < fuel')%nat ->
  exists bs, src_encode_varint fuel v = Ok bs /\ src_load_varint fuel' (bs ++ rest) = Ok (v mod 2 ^ 64, bs, rest).
Proof. exact src_inverse_load. Qed.
Print Assumptions C16_src_inverse_load.

Theorem C16_src_inverse_decode : forall v pre rest fuel fuel',
  - 2 ^ 63 <= v < 2 ^ 64 -> (66 <= fuel)%nat -> (10 < fuel')%nat ->
  exists bs, src_encode_varint fuel v = Ok bs /\
    src_decode_varint fuel' (pre ++ bs ++ rest) (Zlength pre) = Ok (v mod 2 ^ 64, Zlength pre + Zlength bs).
Proof. exact src_inverse_decode. Qed.
Print Assumptions C16_src_inverse_decode.

Theorem C16_src_size_total : forall v fuel, (src_fuel_encode v <= fuel)%nat ->
  match src_encode_varint fuel v, src_size_varint v with
  | Ok bs, Ok n => n = Zlength bs
  | Err a, Err b => a = b
  | _, _ => False
  end.
Proof. exact src_size_total. Qed.
Print Assumptions C16_src_size_total.

(* below -2^63: ValueError from both, whatever the fuel *)
Theorem C16_src_reject_low : forall v fuel, v < - 2 ^ 63 ->
  src_encode_varint fuel v = Err EValue /\ src_size_varint v = Err EValue.
Proof. exact src_reject_low. Qed.
Print Assumptions C16_src_reject_low.

Theorem C16_src_load_sound : forall s v raw rest fuel, (10 < fuel)%nat ->
  src_load_varint fuel s = Ok (v, raw, rest) -> s = raw ++ rest /\ VarintRep v raw.
Proof. exact src_load_sound. Qed.
Print Assumptions C16_src_load_sound.

(* more than ten bytes: ValueError; premature end: EOFError; nothing else *)
Theorem C16_src_too_long : forall s fuel, (10 < fuel)%nat -> (10 <= length s)%nat ->
  Forall (fun b => 128 <= Z_of_byte b) (firstn 10 s) -> src_load_varint fuel s = Err EValue.
Proof. exact src_too_long. Qed.
Print Assumptions C16_src_too_long.

Theorem C16_src_eof : forall s fuel, (10 < fuel)%nat -> (length s < 10)%nat ->
  Forall (fun b => 128 <= Z_of_byte b) s -> src_load_varint fuel s = Err EEof.
Proof. exact src_eof. Qed.
Print Assumptions C16_src_eof.

Theorem C16_src_load_total : forall s fuel, (10 < fuel)%nat ->
  (exists x, src_load_varint fuel s = Ok x) \/ src_load_varint fuel s = Err EEof \/ src_load_varint fuel s = Err EValue.
Proof. exact src_load_total. Qed.
Print Assumptions C16_src_load_total.

(* non-vacuity: concrete values meet the fuel hypotheses, the translated source computes the expected bytes, and the
   fuel hypothesis is not idle (too little fuel does reach the out-of-fuel arm) *)
Example C16_src_ex_fuel : (src_fuel_encode 300 <= 11)%nat /\ (src_fuel_encode (-1) <= 66)%nat /\ (src_fuel_int 300 <= 67)%nat.
Proof. vm_compute. repeat split; lia. Qed.
Example C16_src_ex_300 : src_encode_varint 11 300 = Ok [xac; x02] /\ src_size_varint 300 = Ok 2.
Proof. vm_compute. split; reflexivity. Qed.
Example C16_src_ex_m1 : src_encode_varint 66 (-1) = Ok [xff; xff; xff; xff; xff; xff; xff; xff; xff; x01].
Proof. vm_compute. reflexivity. Qed.
Example C16_src_ex_dump : src_dump_varint 11 300 [x07] = Ok (tt, [x07; xac; x02]).
Proof. vm_compute. reflexivity. Qed.
Example C16_src_ex_load : src_load_varint 11 [x81; x80; x00; x07] = Ok (1, [x81; x80; x00], [x07]) /\
  src_decode_varint 11 [x09; xac; x02; x07] 1 = Ok (300, 3) /\ src_decode_varint 11 [x09] (-1) = Err EValue.
Proof. vm_compute. repeat split; reflexivity. Qed.
Example C16_src_ex_errors : src_load_varint 11 [x80; x80] = Err EEof /\
  src_load_varint 11 [x80; x80; x80; x80; x80; x80; x80; x80; x80; x80; x01] = Err EValue /\
  load_varint [x80; x80; x80; x80; x80; x80; x80; x80; x80; x80; x01] = Err ETooLong.
Proof. vm_compute. repeat split; reflexivity. Qed.
Example C16_src_ex_fuel_needed : src_encode_varint 1 300 = Err EFuel /\ src_load_varint 2 [x80; x80; x01] = Err EFuel.
Proof. vm_compute. split; reflexivity. Qed.
