(* C17 — malformed or truncated input is rejected or isolated, never mis-decoded.
   All statements are about the shared decoder model Model/Decode.v ([parse] = Cls().parse(bs) =
   Cls.FromString(bs), [parse_into] = m.parse(bs) on an existing message, [load_delimited]) for
   EVERY byte string and every well-formed schema.  "Complete record" is the independent
   specification Model/C17Wire.v ([wpayload] / [wrecs] / [wrec]: tag, payload by wire type,
   groups nested, any legal varint padding).
   Second part (after the non-vacuity examples of the first): below the top level - ragged / cut / over-long
   packed payloads, invalid UTF-8, nested payloads the nested class rejects (any depth), and the exact
   acceptance criterion  parse accepts <-> [valid] / [valid_s]  (Model/C17Nested.v, Model/C17NestedTime.v).
   No theorem of this file is partial. *)
From BP Require Import Base.Prelude Model.Types Model.Varint Model.Float Model.Object Model.Encode Model.Decode.
From BP Require Import Model.WellFormed Model.C17Typed Model.C17Wire Model.C17Step Spec.Varint.
From BP Require Import Proofs.C17FieldP Proofs.C17TotalP Proofs.C17FloatP Proofs.C17MainP.
From BP Require Import Proofs.C17ComposeP Proofs.C17Main2P.
From BP Require Import Model.Utf8 Model.C17Nested Proofs.C17NestedP Proofs.C17NestedAcceptP Proofs.C17NestedMainP.
From BP Require Import Model.Scalar Model.TimeCore Model.C17NestedTime Proofs.C17NestedTimeP.
From BP Require Import gen.Tables.

(* ---- termination: the fuel parse supplies (length of the input + 1) is never exhausted:
        every recursive call (nested message, map entry, Timestamp / Duration / wrapper, nested
        group, packed run) is on a strictly shorter byte list.  No hypothesis at all. ---- *)
Theorem C17_total : forall sc c bs, parse sc c bs <> Err EFuel.
Proof. exact parse_total. Qed.
Print Assumptions C17_total.

Theorem C17_total_into : forall sc o bs, parse_into sc o bs <> Err EFuel.
Proof. exact parse_into_total. Qed.
Print Assumptions C17_total_into.

Theorem C17_total_delimited : forall sc c s, load_delimited sc c s <> Err EFuel.
Proof. exact load_delimited_total. Qed.
Print Assumptions C17_total_delimited.

(* fuel sufficiency / monotonicity of _load_field (groups nested to any depth) *)
Theorem C17_load_field_fuel : forall fuel s nw raw, (length s < fuel)%nat -> load_field fuel s nw raw <> Err EFuel.
Proof. exact load_field_fuel_ok. Qed.
Print Assumptions C17_load_field_fuel.

Theorem C17_load_field_fuel_mono : forall fuel s nw raw x,
  load_field fuel s nw raw = Ok x -> forall fuel2, (fuel <= fuel2)%nat -> load_field fuel2 s nw raw = Ok x.
Proof. exact load_field_fuel_mono. Qed.
Print Assumptions C17_load_field_fuel_mono.

(* ---- whatever parse returns is well typed, inside the decoder's ranges, of the requested
        class, and can be encoded again ---- *)
Theorem C17_welltyped : forall sc c bs m,
  wf_schema sc = true -> has_builtins sc -> entries_agree sc = true ->
  parse sc c bs = Ok m ->
  well_typed sc m = true /\ decoded_range sc m = true /\ ocls m = c /\
  exists bs', enc_obj sc m = Ok bs'.
Proof. exact welltyped. Qed.
Print Assumptions C17_welltyped.

(* the same for m.parse(bs) on an existing well-typed message *)
Theorem C17_welltyped_into : forall sc o bs m,
  wf_schema sc = true -> has_builtins sc -> entries_agree sc = true ->
  well_typed sc o = true -> decoded_range sc o = true ->
  parse_into sc o bs = Ok m ->
  well_typed sc m = true /\ decoded_range sc m = true /\ ocls m = ocls o /\
  exists bs', enc_obj sc m = Ok bs'.
Proof. exact welltyped_into. Qed.
Print Assumptions C17_welltyped_into.

(* the exact invariant behind "can be encoded again": typed + decoder ranges => bytes() succeeds *)
Theorem C17_reencodable : forall sc m,
  wf_schema sc = true -> decoded_range sc m = true -> exists bs, enc_obj sc m = Ok bs.
Proof. exact reencodable. Qed.
Print Assumptions C17_reencodable.

(* ... of which the float32 part is: pack("<f", unpack("<f", w)) never overflows, all 2^32 patterns *)
Theorem C17_float32_repack : forall w, 0 <= w < 2 ^ 32 -> f32_reencodable w = true.
Proof. exact f32_reencodable_all. Qed.
Print Assumptions C17_float32_repack.

(* ---- a record cut in the middle (inside the tag, a varint, a fixed or length-delimited payload,
        a group, at any depth of group nesting) is rejected, whatever complete records precede it ---- *)
Theorem C17_prefix : forall sc c pre nw r k,
  wrecs pre -> wrec nw r -> (0 < k < length r)%nat ->
  exists e, parse sc c (pre ++ firstn k r) = Err e.
Proof. exact prefix_rejected. Qed.
Print Assumptions C17_prefix.

Theorem C17_prefix_into : forall sc o pre nw r k,
  wrecs pre -> wrec nw r -> (0 < k < length r)%nat ->
  exists e, parse_into sc o (pre ++ firstn k r) = Err e.
Proof. exact prefix_rejected_into. Qed.
Print Assumptions C17_prefix_into.

(* the payload level, used for nested cuts: _load_field rejects every proper prefix of a complete payload *)
Theorem C17_payload_cut : forall nw pl x y fuel raw,
  wpayload nw pl -> pl = x ++ y -> y <> [] -> exists e, load_field fuel x nw raw = Err e.
Proof. exact load_field_cut. Qed.
Print Assumptions C17_payload_cut.

(* ---- field number 0, wire types 6 / 7, an end-group tag outside a group ---- *)
Theorem C17_bad_tag : forall sc c pre nw tag rest,
  wrecs pre -> VarintRep nw tag ->
  (tag_num nw = 0 \/ tag_wt nw = 4 \/ tag_wt nw = 6 \/ tag_wt nw = 7) ->
  exists e, parse sc c (pre ++ tag ++ rest) = Err e.
Proof. exact bad_tag_rejected. Qed.
Print Assumptions C17_bad_tag.

(* ... and an end-group tag that closes a group of another field number *)
Theorem C17_bad_end_group : forall sc c pre nw tag enw etag rest,
  wrecs pre -> VarintRep nw tag -> tag_num nw <> 0 -> tag_wt nw = 3 ->
  VarintRep enw etag -> tag_wt enw = 4 -> tag_num enw <> tag_num nw ->
  exists e, parse sc c (pre ++ tag ++ etag ++ rest) = Err e.
Proof. exact group_end_mismatch_rejected. Qed.
Print Assumptions C17_bad_end_group.

(* ---- a complete record of a KNOWN field number whose wire type does not fit the declared type
        goes, byte for byte, to _unknown_fields; nothing else changes (raw attributes, group
        selection), for ANY state of the message it is parsed into ---- *)
Theorem C17_mismatch : forall sc o nw r i f,
  wrec nw r -> field_by_number (get_class sc (ocls o)) (tag_num nw) = Some (i, f) ->
  wire_type_fits f (tag_wt nw) = false ->
  parse_into sc o r = Ok (add_unknown (mark_on_wire o) r).
Proof. exact mismatch_isolated. Qed.
Print Assumptions C17_mismatch.

(* ---- a group record (everything inside it, nested groups included), whatever its field number ---- *)
Theorem C17_group : forall sc o nw r,
  wrec nw r -> tag_wt nw = 3 -> parse_into sc o r = Ok (add_unknown (mark_on_wire o) r).
Proof. exact group_isolated. Qed.
Print Assumptions C17_group.

(* ---- the same two, in the middle of any stream: parsing is compositional over complete records
        (m.parse(pre ++ rest) = m.parse(pre).parse(rest)), so a mismatching record or a group found
        after the complete records [pre] and before any [post] is exactly "append r to _unknown_fields" ---- *)
Theorem C17_parse_compositional : forall sc o pre rest,
  wrecs pre ->
  parse_into sc o (pre ++ rest) = (do o1 <- parse_into sc o pre; parse_into sc o1 rest).
Proof. exact parse_into_app. Qed.
Print Assumptions C17_parse_compositional.

Theorem C17_mismatch_in_stream : forall sc o pre nw r post i f,
  wrecs pre -> wrec nw r ->
  field_by_number (get_class sc (ocls o)) (tag_num nw) = Some (i, f) ->
  wire_type_fits f (tag_wt nw) = false ->
  parse_into sc o (pre ++ r ++ post) =
  (do o1 <- parse_into sc o pre; parse_into sc (add_unknown o1 r) post).
Proof. exact mismatch_in_stream. Qed.
Print Assumptions C17_mismatch_in_stream.

Theorem C17_group_in_stream : forall sc o pre nw r post,
  wrecs pre -> wrec nw r -> tag_wt nw = 3 ->
  parse_into sc o (pre ++ r ++ post) =
  (do o1 <- parse_into sc o pre; parse_into sc (add_unknown o1 r) post).
Proof. exact group_in_stream. Qed.
Print Assumptions C17_group_in_stream.

(* the result of Message.load does not depend on the fuel once it exceeds the length of the input *)
Theorem C17_load_fuel_irrelevant : forall sc f1 f2 o s size,
  (length s < f1)%nat -> (length s < f2)%nat -> load f1 sc o s size = load f2 sc o s size.
Proof. exact load_fuel_irrelevant. Qed.
Print Assumptions C17_load_fuel_irrelevant.

(* ---- the reader against the record specification ---- *)
(* whatever _load_field accepts is a complete payload, consumed exactly, and raw = the bytes read *)
Theorem C17_reader_sound : forall fuel s nw raw p s',
  load_field fuel s nw raw = Ok (p, s') -> field_ok nw raw s p s'.
Proof. exact load_field_sound. Qed.
Print Assumptions C17_reader_sound.

(* every complete payload is read, whatever follows it *)
Theorem C17_reader_complete : forall nw pl fuel rest raw,
  wpayload nw pl -> (length (pl ++ rest) < fuel)%nat ->
  exists p, load_field fuel (pl ++ rest) nw raw = Ok (p, rest) /\ field_ok nw raw (pl ++ rest) p rest.
Proof. exact load_field_complete. Qed.
Print Assumptions C17_reader_complete.

(* the specification is a prefix-free code: no complete payload is a proper prefix of another *)
Theorem C17_spec_prefix_free : forall nw a b x y, wpayload nw a -> wpayload nw b -> a ++ x = b ++ y -> a = b.
Proof. intros nw a b x y Wa Wb. exact (proj1 wire_prefix_free nw a Wa b x y Wb). Qed.
Print Assumptions C17_spec_prefix_free.

(* ================= non-vacuity ================= *)
(* class 11: x int32 = 1; s string = 2; rec (class 11) = 3; o optional int32 = 4; f float = 5;
             r repeated sint64 = 6; m map<string, class 11> = 7 (entry class 12); u1/u2 oneof {uint64 = 8, bytes = 9};
             w wrapper(Int32Value) = 10; t Timestamp = 11 *)
Definition ex_sc : schema :=
  mkS (builtin_classes ++
       [mkC [mkF [x78] 1 TInt32 None None None false (HPlain PyInt) 0;
             mkF [x73] 2 TString None None None false (HPlain PyStr) 0;
             mkF [x72] 3 TMessage None None None false (HPlain (PyMsg 11)) 0;
             mkF [x6f] 4 TInt32 None None None true (HOptional PyInt) 0;
             mkF [x66] 5 TFloat None None None false (HPlain PyFloat) 0;
             mkF [x71] 6 TSInt64 None None None false (HList PyInt) 0;
             mkF [x6d] 7 TMap (Some (TString, TMessage)) None None false (HDict PyStr (PyMsg 11)) 12;
             mkF [x75] 8 TUInt64 None (Some 0%nat) None false (HPlain PyInt) 0;
             mkF [x76] 9 TBytes None (Some 0%nat) None false (HPlain PyBytes) 0;
             mkF [x77] 10 TMessage None None (Some TInt32) false (HOptional PyInt) 0;
             mkF [x74] 11 TMessage None None None false (HPlain PyDatetime) 0] 1;
        mkC [mkF [x6b] 1 TString None None None false (HPlain PyStr) 0;
             mkF [x76] 2 TMessage None None None false (HPlain (PyMsg 11)) 0] 0]) [].

Example C17_schema_side_conditions : wf_schema ex_sc = true /\ entries_agree ex_sc = true /\ has_builtins ex_sc.
Proof. split; [vm_compute; reflexivity|]. split; [vm_compute; reflexivity|]. eexists. reflexivity. Qed.

(* x = -1 (ten bytes), s = "é", nested rec {x = 5}, float 1.5, packed sint64 [-1, 150], map {"k": {x=1}},
   oneof member u = 7, wrapper 3, Timestamp(1 s), a group with unknown number 15 holding a field numbered 1,
   a varint on the string field's number (mismatch) *)
Definition ex_bytes : list byte :=
  [x08; xff; xff; xff; xff; xff; xff; xff; xff; xff; x01;
   x12; x02; xc3; xa9;
   x1a; x02; x08; x05;
   x2d; x00; x00; xc0; x3f;
   x32; x03; x01; xac; x02;
   x3a; x07; x0a; x01; x6b; x12; x02; x08; x01;
   x40; x07;
   x52; x02; x08; x03;
   x5a; x02; x08; x01;
   x7b; x08; x63; x7c;
   x10; x2a].

Definition ex_inner (x : Z) : pv :=
  PMsg (Obj 11 [PInt x; PPlaceholder; PPlaceholder; PNone; PPlaceholder; PPlaceholder; PPlaceholder;
                PPlaceholder; PPlaceholder; PPlaceholder; PPlaceholder] true [] [None]).
Definition ex_msg : obj :=
  Obj 11 [PInt (-1); PStr [xc3; xa9]; ex_inner 5; PNone; PFloat 4609434218613702656; PList [PInt (-1); PInt 150];
          PDict [(PStr [x6b], ex_inner 1)]; PInt 7; PPlaceholder; PInt 3; PDatetime 1000000]
      true [x7b; x08; x63; x7c; x10; x2a] [Some 7%nat].

Example C17_welltyped_nonvacuous :
  parse ex_sc 11 ex_bytes = Ok ex_msg /\ well_typed ex_sc ex_msg = true /\ decoded_range ex_sc ex_msg = true /\
  enc_obj ex_sc ex_msg = Ok ex_bytes.
Proof. vm_compute. repeat split. Qed.

(* an ill-typed object is NOT well_typed (the predicate is not trivially true) *)
Example C17_welltyped_discriminates :
  well_typed ex_sc (Obj 11 [PList [PInt 1]; PInt 7; PPlaceholder; PNone; PPlaceholder; PPlaceholder; PPlaceholder;
                            PPlaceholder; PPlaceholder; PPlaceholder; PPlaceholder] true [] [None]) = false
  /\ decoded_range ex_sc (Obj 11 [PInt (2 ^ 31); PPlaceholder; PPlaceholder; PNone; PPlaceholder; PPlaceholder; PPlaceholder;
                                  PPlaceholder; PPlaceholder; PPlaceholder; PPlaceholder] true [] [None]) = false.
Proof. vm_compute. split; reflexivity. Qed.

Ltac vrep := split; [cbn; lia | split; [reflexivity | cbn; lia]].

(* the record  08 96 01  (field 1, varint 150) and every cut of it *)
Example C17_wrec_varint : wrec 8 [x08; x96; x01].
Proof. exists [x08], [x96; x01]. split; [vrep|]. split; [|reflexivity]. apply (PVarint 8 150); try (cbn; lia). vrep. Qed.

Example C17_prefix_nonvacuous :
  parse ex_sc 11 ([x10; x2a] ++ firstn 1 [x08; x96; x01]) = Err EEof /\
  parse ex_sc 11 ([x10; x2a] ++ firstn 2 [x08; x96; x01]) = Err EEof /\
  parse ex_sc 11 [x12; x05; x41] = Err EEof /\
  parse ex_sc 11 [x1a; x03; x12; x05; x41] = Err EEof.
Proof. vm_compute. repeat split. Qed.

Example C17_bad_tag_nonvacuous :
  parse ex_sc 11 [x00; x01] = Err EValue /\ parse ex_sc 11 [x0e; x01] = Err EValue /\
  parse ex_sc 11 [x0f] = Err EValue /\ parse ex_sc 11 [x0c] = Err EValue /\
  parse ex_sc 11 [x0b; x14] = Err EValue.
Proof. vm_compute. repeat split. Qed.

(* a group carrying the KNOWN field number 1, with a field numbered 1 inside and a nested group: skipped whole *)
Example C17_wrec_group : wrec 11 [x0b; x08; x09; x13; x14; x0c].
Proof.
  exists [x0b], [x08; x09; x13; x14; x0c]. split; [vrep|]. split; [|reflexivity].
  apply (PGroup 11 [x08; x09; x13; x14] 12 [x0c]); try (cbn; lia); [|vrep].
  apply (WCons 8 [x08] [x09] [x13; x14]); [vrep | apply (PVarint 8 9); try (cbn; lia); vrep|].
  apply (WCons 19 [x13] [x14] []); [vrep | | constructor].
  apply (PGroup 19 [] 20 [x14]); try (cbn; lia); [constructor | vrep].
Qed.

Example C17_group_nonvacuous :
  parse_into ex_sc (Obj 11 [PInt 5; PPlaceholder; PPlaceholder; PNone; PPlaceholder; PPlaceholder; PPlaceholder;
                            PPlaceholder; PPlaceholder; PPlaceholder; PPlaceholder] true [x01] [None])
             [x0b; x08; x09; x13; x14; x0c]
  = Ok (Obj 11 [PInt 5; PPlaceholder; PPlaceholder; PNone; PPlaceholder; PPlaceholder; PPlaceholder;
                PPlaceholder; PPlaceholder; PPlaceholder; PPlaceholder] true [x01; x0b; x08; x09; x13; x14; x0c] [None]).
Proof. vm_compute. reflexivity. Qed.

(* a length-delimited record on the int32 field 1 (the former "int field becomes a list") *)
Example C17_mismatch_nonvacuous :
  field_by_number (get_class ex_sc 11) (tag_num 10) <> None /\
  parse ex_sc 11 [x0a; x02; x01; x02] =
  Ok (Obj 11 [PPlaceholder; PPlaceholder; PPlaceholder; PNone; PPlaceholder; PPlaceholder; PPlaceholder;
              PPlaceholder; PPlaceholder; PPlaceholder; PPlaceholder] true [x0a; x02; x01; x02] [None]).
Proof. vm_compute. split; [discriminate | reflexivity]. Qed.


(* the mismatching record and the group in the middle of a stream: x = 5, then the two foreign records, then s = "A" *)
Example C17_in_stream_nonvacuous :
  parse ex_sc 11 ([x08; x05] ++ [x0a; x02; x01; x02] ++ [x0b; x08; x09; x13; x14; x0c] ++ [x12; x01; x41]) =
  Ok (Obj 11 [PInt 5; PStr [x41]; PPlaceholder; PNone; PPlaceholder; PPlaceholder; PPlaceholder;
              PPlaceholder; PPlaceholder; PPlaceholder; PPlaceholder] true
          ([x0a; x02; x01; x02] ++ [x0b; x08; x09; x13; x14; x0c]) [None]).
Proof. vm_compute. reflexivity. Qed.

(* the decoder's range for uint64 is tight: a ten-byte varint carries 70 bits and is not masked *)
Example C17_uint64_wide_witness :
  parse ex_sc 11 [x40; xff; xff; xff; xff; xff; xff; xff; xff; xff; x7f] =
  Ok (Obj 11 [PPlaceholder; PPlaceholder; PPlaceholder; PNone; PPlaceholder; PPlaceholder; PPlaceholder;
              PInt (2 ^ 70 - 1); PPlaceholder; PPlaceholder; PPlaceholder] true [] [Some 7%nat]).
Proof. vm_compute. reflexivity. Qed.


(* =====================================================================================================
   Below the top level: a COMPLETE length-delimited record  tag ++ lb ++ d  (lb = the length varint of d)
   of a KNOWN field whose wire type fits ([known_fit sc c nw = Some f]: number declared in class c, and
   Message._wire_type_fits holds) whose payload d is not valid for the declared type makes parse raise,
   whatever complete records [pre] precede it and whatever bytes [post] follow it.  Then the exact
   acceptance criterion [valid] (Model/C17Nested.v).  All byte strings, all schemas, no bounds.
   ===================================================================================================== *)

(* (1) repeated fixed32 / sfixed32 / float (w = 4), fixed64 / sfixed64 / double (w = 8): a payload that is not
       a whole number of elements.  (A length-delimited record fits such a type only on a repeated field.) *)
Theorem C17_packed_ragged : forall sc c pre tag lb d post nw f w,
  wrecs pre -> VarintRep nw tag -> tag_num nw <> 0 -> tag_wt nw = 2 -> VarintRep (Zlength d) lb ->
  known_fit sc c nw = Some f -> fixed_width (fty f) = Some w -> Zlength d mod w <> 0 ->
  exists e, parse sc c (pre ++ tag ++ lb ++ d ++ post) = Err e.
Proof. exact (fun sc c pre tag lb d post nw f w Wp Rt Hn Hw Rl => packed_ragged_i sc pre tag lb d post nw f Wp Rt Hn Hw Rl (new sc c) w). Qed.
Print Assumptions C17_packed_ragged.

Theorem C17_packed_ragged_into : forall sc o pre tag lb d post nw f w,
  wrecs pre -> VarintRep nw tag -> tag_num nw <> 0 -> tag_wt nw = 2 -> VarintRep (Zlength d) lb ->
  known_fit sc (ocls o) nw = Some f -> fixed_width (fty f) = Some w -> Zlength d mod w <> 0 ->
  exists e, parse_into sc o (pre ++ tag ++ lb ++ d ++ post) = Err e.
Proof. exact (fun sc o pre tag lb d post nw f w Wp Rt Hn Hw Rl => packed_ragged_i sc pre tag lb d post nw f Wp Rt Hn Hw Rl o w). Qed.
Print Assumptions C17_packed_ragged_into.

(* (2) repeated varint-kind scalar (int32 .. sint64, bool, enum): the payload is a run of whole varints [good]
       followed by a non-empty proper prefix [x] of a varint (it ends inside an element) ... *)
Theorem C17_packed_varint_cut : forall sc c pre tag lb d post nw f good x n a y,
  wrecs pre -> VarintRep nw tag -> tag_num nw <> 0 -> tag_wt nw = 2 -> VarintRep (Zlength d) lb ->
  known_fit sc c nw = Some f -> tmem (fty f) WIRE_VARINT_TYPES = true ->
  d = good ++ x -> varints good -> x <> [] -> VarintRep n a -> a = x ++ y -> y <> [] ->
  exists e, parse sc c (pre ++ tag ++ lb ++ d ++ post) = Err e.
Proof. exact (fun sc c pre tag lb d post nw f good x n a y Wp Rt Hn Hw Rl => packed_varint_cut_i sc pre tag lb d post nw f Wp Rt Hn Hw Rl (new sc c) good x n a y). Qed.
Print Assumptions C17_packed_varint_cut.

Theorem C17_packed_varint_cut_into : forall sc o pre tag lb d post nw f good x n a y,
  wrecs pre -> VarintRep nw tag -> tag_num nw <> 0 -> tag_wt nw = 2 -> VarintRep (Zlength d) lb ->
  known_fit sc (ocls o) nw = Some f -> tmem (fty f) WIRE_VARINT_TYPES = true ->
  d = good ++ x -> varints good -> x <> [] -> VarintRep n a -> a = x ++ y -> y <> [] ->
  exists e, parse_into sc o (pre ++ tag ++ lb ++ d ++ post) = Err e.
Proof. exact (fun sc o pre tag lb d post nw f good x n a y Wp Rt Hn Hw Rl => packed_varint_cut_i sc pre tag lb d post nw f Wp Rt Hn Hw Rl o good x n a y). Qed.
Print Assumptions C17_packed_varint_cut_into.

(* ... or followed by ten bytes that all carry the continuation bit (an element of more than ten bytes),
   whatever comes after them inside the payload *)
Theorem C17_packed_varint_overlong : forall sc c pre tag lb d post nw f good hi rest,
  wrecs pre -> VarintRep nw tag -> tag_num nw <> 0 -> tag_wt nw = 2 -> VarintRep (Zlength d) lb ->
  known_fit sc c nw = Some f -> tmem (fty f) WIRE_VARINT_TYPES = true ->
  d = good ++ hi ++ rest -> varints good -> length hi = 10%nat -> Forall (fun b => 128 <= Z_of_byte b) hi ->
  exists e, parse sc c (pre ++ tag ++ lb ++ d ++ post) = Err e.
Proof. exact (fun sc c pre tag lb d post nw f good hi rest Wp Rt Hn Hw Rl => packed_varint_overlong_i sc pre tag lb d post nw f Wp Rt Hn Hw Rl (new sc c) good hi rest). Qed.
Print Assumptions C17_packed_varint_overlong.

Theorem C17_packed_varint_overlong_into : forall sc o pre tag lb d post nw f good hi rest,
  wrecs pre -> VarintRep nw tag -> tag_num nw <> 0 -> tag_wt nw = 2 -> VarintRep (Zlength d) lb ->
  known_fit sc (ocls o) nw = Some f -> tmem (fty f) WIRE_VARINT_TYPES = true ->
  d = good ++ hi ++ rest -> varints good -> length hi = 10%nat -> Forall (fun b => 128 <= Z_of_byte b) hi ->
  exists e, parse_into sc o (pre ++ tag ++ lb ++ d ++ post) = Err e.
Proof. exact (fun sc o pre tag lb d post nw f good hi rest Wp Rt Hn Hw Rl => packed_varint_overlong_i sc pre tag lb d post nw f Wp Rt Hn Hw Rl o good hi rest). Qed.
Print Assumptions C17_packed_varint_overlong_into.

(* both are instances of: the payload is not a concatenation of varints of at most ten bytes each *)
Theorem C17_packed_varint_invalid : forall sc c pre tag lb d post nw f,
  wrecs pre -> VarintRep nw tag -> tag_num nw <> 0 -> tag_wt nw = 2 -> VarintRep (Zlength d) lb ->
  known_fit sc c nw = Some f -> tmem (fty f) WIRE_VARINT_TYPES = true -> ~ varints d ->
  exists e, parse sc c (pre ++ tag ++ lb ++ d ++ post) = Err e.
Proof. exact (fun sc c pre tag lb d post nw f Wp Rt Hn Hw Rl => packed_varint_invalid_i sc pre tag lb d post nw f Wp Rt Hn Hw Rl (new sc c)). Qed.
Print Assumptions C17_packed_varint_invalid.

(* (3) the payload of a record of a message-typed field - [nested_cls f = Some c']: the declared class of a plain /
       optional / oneof-member / repeated message field, the synthetic Entry class of a map field, the bundled
       Timestamp / Duration / wrapper class - is rejected by the parser of that class: the outer parse raises *)
Theorem C17_nested_malformed : forall sc c pre tag lb d post nw f c' e',
  wrecs pre -> VarintRep nw tag -> tag_num nw <> 0 -> tag_wt nw = 2 -> VarintRep (Zlength d) lb ->
  known_fit sc c nw = Some f -> nested_cls f = Some c' -> parse sc c' d = Err e' ->
  exists e, parse sc c (pre ++ tag ++ lb ++ d ++ post) = Err e.
Proof. exact (fun sc c pre tag lb d post nw f c' e' Wp Rt Hn Hw Rl Hk => nested_malformed_into sc (new sc c) pre tag lb d post nw f Wp Rt Hn Hw Rl Hk c' e'). Qed.
Print Assumptions C17_nested_malformed.

Theorem C17_nested_malformed_into : forall sc o pre tag lb d post nw f c' e',
  wrecs pre -> VarintRep nw tag -> tag_num nw <> 0 -> tag_wt nw = 2 -> VarintRep (Zlength d) lb ->
  known_fit sc (ocls o) nw = Some f -> nested_cls f = Some c' -> parse sc c' d = Err e' ->
  exists e, parse_into sc o (pre ++ tag ++ lb ++ d ++ post) = Err e.
Proof. exact (fun sc o pre tag lb d post nw f c' e' Wp Rt Hn Hw Rl Hk => nested_malformed_into sc o pre tag lb d post nw f Wp Rt Hn Hw Rl Hk c' e'). Qed.
Print Assumptions C17_nested_malformed_into.

(* ... at any depth: [nests sc c bs c0 d0] = d0 is reached from bs through any number of such records (a map VALUE
   is two levels: the entry record, then field 2 of the Entry class) *)
Theorem C17_nested_malformed_deep : forall sc c bs c0 d0 e0,
  nests sc c bs c0 d0 -> parse sc c0 d0 = Err e0 -> exists e, parse sc c bs = Err e.
Proof. exact nests_rejected. Qed.
Print Assumptions C17_nested_malformed_deep.

(* (4) a string field (a map key / value and StringValue are string fields of the Entry / wrapper class: combine with (3))
       whose payload the model's UTF-8 decoder (Model/Utf8.v [utf8_valid]) rejects *)
Theorem C17_bad_utf8 : forall sc c pre tag lb d post nw f,
  wrecs pre -> VarintRep nw tag -> tag_num nw <> 0 -> tag_wt nw = 2 -> VarintRep (Zlength d) lb ->
  known_fit sc c nw = Some f -> fty f = TString -> utf8_valid d = false ->
  exists e, parse sc c (pre ++ tag ++ lb ++ d ++ post) = Err e.
Proof. exact (fun sc c pre tag lb d post nw f Wp Rt Hn Hw Rl Hk => bad_utf8_into sc (new sc c) pre tag lb d post nw f Wp Rt Hn Hw Rl Hk). Qed.
Print Assumptions C17_bad_utf8.

Theorem C17_bad_utf8_into : forall sc o pre tag lb d post nw f,
  wrecs pre -> VarintRep nw tag -> tag_num nw <> 0 -> tag_wt nw = 2 -> VarintRep (Zlength d) lb ->
  known_fit sc (ocls o) nw = Some f -> fty f = TString -> utf8_valid d = false ->
  exists e, parse_into sc o (pre ++ tag ++ lb ++ d ++ post) = Err e.
Proof. exact (fun sc o pre tag lb d post nw f Wp Rt Hn Hw Rl Hk => bad_utf8_into sc o pre tag lb d post nw f Wp Rt Hn Hw Rl Hk). Qed.
Print Assumptions C17_bad_utf8_into.

(* (5) the exact acceptance criterion, every field kind, every depth: parse returns a message exactly for the
       [valid] byte strings.  The Timestamp / Duration leaf ([time_range]: inside datetime's / timedelta's range,
       OverflowError otherwise) is stated on the (seconds, nanos) the model's own decoder reads from the payload. *)
Theorem C17_accept_iff : forall sc, wf_schema sc = true -> has_builtins sc -> entries_agree sc = true ->
  forall c bs, (exists m, parse sc c bs = Ok m) <-> valid sc c bs.
Proof. exact accept_iff. Qed.
Print Assumptions C17_accept_iff.

Theorem C17_accept_iff_into : forall sc, wf_schema sc = true -> has_builtins sc -> entries_agree sc = true ->
  forall o bs, well_typed sc o = true -> ((exists m, parse_into sc o bs = Ok m) <-> valid sc (ocls o) bs).
Proof. exact accept_iff_into. Qed.
Print Assumptions C17_accept_iff_into.

Theorem C17_invalid_rejected : forall sc c bs, wf_schema sc = true -> has_builtins sc -> entries_agree sc = true ->
  ~ valid sc c bs -> exists e, parse sc c bs = Err e.
Proof. exact invalid_rejected. Qed.
Print Assumptions C17_invalid_rejected.

(* valid strings are concatenations of complete records of Model/C17Wire.v *)
Theorem C17_valid_complete_records : forall sc c bs, valid sc c bs -> wrecs bs.
Proof. exact valid_wrecs. Qed.
Print Assumptions C17_valid_complete_records.

Theorem C17_valid_decidable : forall sc c bs, wf_schema sc = true -> has_builtins sc -> entries_agree sc = true ->
  valid sc c bs \/ ~ valid sc c bs.
Proof. exact valid_decidable. Qed.
Print Assumptions C17_valid_decidable.

(* ---- the Timestamp / Duration leaf without the decoder (Model/C17NestedTime.v): the (seconds, nanos) parse reads from a
        payload of the bundled classes are the int64 / int32 readings of the LAST varint record of field 1 / field 2
        ([last_varint]: a relation over the record specification only; 0 when there is none) ---- *)
Theorem C17_time_numbers : forall sc d s n,
  has_builtins sc -> last_varint 1 d 0 s -> last_varint 2 d 0 n ->
  time_numbers sc timestamp_cls d = Some (sign_recover 64 s, sign_recover 32 n) /\
  time_numbers sc duration_cls d = Some (sign_recover 64 s, sign_recover 32 n).
Proof. exact time_numbers_builtin. Qed.
Print Assumptions C17_time_numbers.

Theorem C17_last_varint_total : forall num bs, wrecs bs -> forall z, exists z', last_varint num bs z z'.
Proof. exact last_varint_total. Qed.
Print Assumptions C17_last_varint_total.

Theorem C17_timestamp_range_exact : forall sc d, wf_schema sc = true -> has_builtins sc -> entries_agree sc = true ->
  (ts_range sc d = true <-> ts_range_spec d).
Proof. exact ts_range_iff. Qed.
Print Assumptions C17_timestamp_range_exact.

Theorem C17_duration_range_exact : forall sc d, wf_schema sc = true -> has_builtins sc -> entries_agree sc = true ->
  (dur_range sc d = true <-> dur_range_spec d).
Proof. exact dur_range_iff. Qed.
Print Assumptions C17_duration_range_exact.

(* hence the acceptance criterion with nothing of the decoder left in it: [valid_s] is [valid] with the range leaf
   stated on the records ([ts_range_spec] / [dur_range_spec]) *)
Theorem C17_valid_spec_iff : forall sc, wf_schema sc = true -> has_builtins sc -> entries_agree sc = true ->
  forall c bs, valid sc c bs <-> valid_s sc c bs.
Proof. exact valid_s_iff. Qed.
Print Assumptions C17_valid_spec_iff.

Theorem C17_accept_iff_spec : forall sc, wf_schema sc = true -> has_builtins sc -> entries_agree sc = true ->
  forall c bs, (exists m, parse sc c bs = Ok m) <-> valid_s sc c bs.
Proof. exact accept_iff_spec. Qed.
Print Assumptions C17_accept_iff_spec.

(* ================= non-vacuity, below the top level ================= *)
(* ex_sc plus class 13: p repeated fixed32 = 1; q repeated double = 2; s StringValue = 3; m map<string, string> = 4 (entry class 14);
   d Duration = 5; b repeated bool = 6; r repeated class 11 = 7 *)
Definition ex_sc2 : schema :=
  mkS (classes ex_sc ++
       [mkC [mkF [x70] 1 TFixed32 None None None false (HList PyInt) 0;
             mkF [x71] 2 TDouble None None None false (HList PyFloat) 0;
             mkF [x73] 3 TMessage None None (Some TString) false (HOptional PyStr) 0;
             mkF [x6d] 4 TMap (Some (TString, TString)) None None false (HDict PyStr PyStr) 14;
             mkF [x64] 5 TMessage None None None false (HPlain PyTimedelta) 0;
             mkF [x62] 6 TBool None None None false (HList PyBool) 0;
             mkF [x72] 7 TMessage None None None false (HList (PyMsg 11)) 0] 0;
        mkC [mkF [x6b] 1 TString None None None false (HPlain PyStr) 0;
             mkF [x76] 2 TString None None None false (HPlain PyStr) 0] 0]) [].

Example C17_schema2_side_conditions : wf_schema ex_sc2 = true /\ entries_agree ex_sc2 = true /\ has_builtins ex_sc2.
Proof. split; [vm_compute; reflexivity|]. split; [vm_compute; reflexivity|]. eexists. reflexivity. Qed.

(* the complete foreign record 38 01 (a varint on the repeated-message field 7 of class 13) used as [pre] / [post] *)
Example C17_pre_record : wrecs [x38; x01].
Proof. apply (WCons 56 [x38] [x01] []); [vrep | apply (PVarint 56 1); try (cbn; lia); vrep | constructor]. Qed.

(* (1) five bytes on the repeated fixed32 field, nine on the repeated double field; four bytes are accepted *)
Example C17_packed_ragged_nonvacuous :
  (exists f, known_fit ex_sc2 13 10 = Some f /\ fixed_width (fty f) = Some 4 /\
             VarintRep 10 [x0a] /\ tag_num 10 <> 0 /\ tag_wt 10 = 2 /\
             VarintRep (Zlength [x01; x00; x00; x00; x02]) [x05] /\ Zlength [x01; x00; x00; x00; x02] mod 4 <> 0) /\
  parse ex_sc2 13 ([x38; x01] ++ [x0a] ++ [x05] ++ [x01; x00; x00; x00; x02] ++ [x38; x01]) = Err EStruct /\
  (exists f, known_fit ex_sc2 13 18 = Some f /\ fixed_width (fty f) = Some 8) /\
  parse ex_sc2 13 [x12; x09; x01; x00; x00; x00; x00; x00; x00; x00; x00] = Err EStruct /\
  parse ex_sc2 13 ([x38; x01] ++ [x0a] ++ [x04] ++ [x01; x00; x00; x00] ++ [x38; x01]) =
  Ok (Obj 13 [PList [PInt 1]; PPlaceholder; PPlaceholder; PPlaceholder; PPlaceholder; PPlaceholder; PPlaceholder] true
          [x38; x01; x38; x01] []).
Proof.
  split. { eexists. split; [vm_compute; reflexivity|]. split; [reflexivity|]. split; [vrep|].
           split; [cbn; lia|]. split; [reflexivity|]. split; [vrep | vm_compute; discriminate]. }
  split; [vm_compute; reflexivity|].
  split. { eexists. split; [vm_compute; reflexivity | reflexivity]. }
  split; vm_compute; reflexivity.
Qed.

(* (2) the repeated sint64 field 6 of class 11: 01 then AC without its second byte; 01 then eleven bytes FF..FF 01;
       the ten-byte neighbour FF x 9, 01 is accepted *)
Example C17_varints_example : varints [x01; xac; x02].
Proof. apply (VsCons 1 [x01] [xac; x02]); [vrep|]. apply (VsCons 300 [xac; x02] []); [vrep | constructor]. Qed.

Example C17_packed_varint_cut_nonvacuous :
  (exists f, known_fit ex_sc 11 50 = Some f /\ tmem (fty f) WIRE_VARINT_TYPES = true) /\
  varints [x01] /\ VarintRep 300 [xac; x02] /\ [xac; x02] = [xac] ++ [x02] /\
  VarintRep (Zlength ([x01] ++ [xac])) [x02] /\
  parse ex_sc 11 ([x32] ++ [x02] ++ ([x01] ++ [xac])) = Err EEof.
Proof.
  split. { eexists. split; vm_compute; reflexivity. }
  split. { apply (VsCons 1 [x01] []); [vrep | constructor]. }
  split; [vrep|]. split; [reflexivity|]. split; [vrep | vm_compute; reflexivity].
Qed.

Example C17_packed_varint_overlong_nonvacuous :
  Forall (fun b => 128 <= Z_of_byte b) [xff; xff; xff; xff; xff; xff; xff; xff; xff; xff] /\
  VarintRep (Zlength ([x01] ++ [xff; xff; xff; xff; xff; xff; xff; xff; xff; xff] ++ [x01])) [x0c] /\
  parse ex_sc 11 ([x32] ++ [x0c] ++ ([x01] ++ [xff; xff; xff; xff; xff; xff; xff; xff; xff; xff] ++ [x01])) = Err ETooLong /\
  parse ex_sc 11 ([x32] ++ [x0b] ++ ([x01] ++ [xff; xff; xff; xff; xff; xff; xff; xff; xff] ++ [x01])) =
  Ok (Obj 11 [PPlaceholder; PPlaceholder; PPlaceholder; PNone; PPlaceholder; PList [PInt (-1); PInt (- 2 ^ 63)]; PPlaceholder;
              PPlaceholder; PPlaceholder; PPlaceholder; PPlaceholder] true [] [None]).
Proof.
  split; [repeat constructor; cbn; lia|]. split; [vrep|]. split; vm_compute; reflexivity.
Qed.

(* (3) the string field of the nested class cut short: directly in field 3 (rec), in a repeated element, in a map VALUE
       (two levels), in the Int32Value wrapper field 10, the Timestamp field 11, the Duration field 5 of class 13 *)
Example C17_nested_malformed_nonvacuous :
  parse ex_sc 11 [x12; x05; x41] = Err EEof /\
  (exists f, known_fit ex_sc 11 26 = Some f /\ nested_cls f = Some 11%nat) /\
  parse ex_sc 11 ([x08; x05] ++ [x1a] ++ [x03] ++ [x12; x05; x41] ++ [x08; x07]) = Err EEof /\
  (exists f, known_fit ex_sc2 13 58 = Some f /\ nested_cls f = Some 11%nat) /\
  parse ex_sc2 13 [x3a; x03; x12; x05; x41] = Err EEof /\
  (exists f, known_fit ex_sc 11 82 = Some f /\ nested_cls f = Some 6%nat) /\
  parse ex_sc 6 [x08] = Err EEof /\ parse ex_sc 11 [x52; x01; x08] = Err EEof /\
  (exists f, known_fit ex_sc 11 90 = Some f /\ nested_cls f = Some 0%nat) /\
  parse ex_sc 0 [x08] = Err EEof /\ parse ex_sc 11 [x5a; x01; x08] = Err EEof /\
  (exists f, known_fit ex_sc2 13 42 = Some f /\ nested_cls f = Some 1%nat) /\
  parse ex_sc2 13 [x2a; x01; x08] = Err EEof.
Proof.
  repeat match goal with
         | |- _ /\ _ => split
         | |- exists f, _ => eexists; split; vm_compute; reflexivity
         | |- _ = _ => vm_compute; reflexivity
         end.
Qed.

(* the map VALUE, two levels below class 11: entry record 3A 08 { key "k"; value record 12 03 { 12 05 41 } } *)
Example C17_nests_map_value :
  nests ex_sc 11 [x3a; x08; x0a; x01; x6b; x12; x03; x12; x05; x41] 11 [x12; x05; x41] /\
  parse ex_sc 11 [x3a; x08; x0a; x01; x6b; x12; x03; x12; x05; x41] = Err EEof.
Proof.
  split; [|vm_compute; reflexivity].
  eapply (NStep ex_sc 11 [] 58 [x3a] [x08] [x0a; x01; x6b; x12; x03; x12; x05; x41] [] _ 12 11 [x12; x05; x41]);
    [constructor | vrep | cbn; lia | reflexivity | vrep | vm_compute; reflexivity | reflexivity|].
  eapply (NStep ex_sc 12 [x0a; x01; x6b] 18 [x12] [x03] [x12; x05; x41] [] _ 11 11 [x12; x05; x41]);
    [ | vrep | cbn; lia | reflexivity | vrep | vm_compute; reflexivity | reflexivity | constructor].
  apply (WCons 10 [x0a] [x01; x6b] []); [vrep | | constructor].
  apply (PLen 10 [x01] [x6b]); try (cbn; lia). vrep.
Qed.

(* (4) FF is not UTF-8: the string field 2 of class 11, a map key (class 11 field 7), a map value and the StringValue
       wrapper (class 13 fields 4 and 3); E2 82 is a three-byte sequence cut after two bytes *)
Example C17_bad_utf8_nonvacuous :
  (exists f, known_fit ex_sc 11 18 = Some f /\ fty f = TString) /\ utf8_valid [xff] = false /\
  parse ex_sc 11 ([x08; x05] ++ [x12] ++ [x01] ++ [xff] ++ [x08; x07]) = Err EUnicode /\
  parse ex_sc 11 [x3a; x03; x0a; x01; xff] = Err EUnicode /\
  parse ex_sc2 13 [x22; x05; x12; x03; xe2; x82; x41] = Err EUnicode /\
  parse ex_sc2 13 [x1a; x03; x0a; x01; xff] = Err EUnicode /\
  parse ex_sc 11 [x12; x02; xc3; xa9] =
  Ok (Obj 11 [PPlaceholder; PStr [xc3; xa9]; PPlaceholder; PNone; PPlaceholder; PPlaceholder; PPlaceholder;
              PPlaceholder; PPlaceholder; PPlaceholder; PPlaceholder] true [] [None]).
Proof.
  split. { eexists. split; vm_compute; reflexivity. }
  repeat split; vm_compute; reflexivity.
Qed.

(* (5) a derivation of [valid] built by hand from the specification alone: x = 5; rec { x = 5 }; packed r = [-1, 150] *)
Example C17_valid_example : valid ex_sc 11 [x08; x05; x1a; x02; x08; x05; x32; x03; x01; xac; x02].
Proof.
  assert (V5 : valid ex_sc 11 [x08; x05]).
  { apply (VOther ex_sc 11 8 [x08] [x05] []); [vrep | apply (PVarint 8 5); try (cbn; lia); vrep | right; cbn; lia | constructor]. }
  apply (VOther ex_sc 11 8 [x08] [x05] [x1a; x02; x08; x05; x32; x03; x01; xac; x02]);
    [vrep | apply (PVarint 8 5); try (cbn; lia); vrep | right; cbn; lia|].
  eapply (VLen ex_sc 11 26 [x1a] [x02] [x08; x05] [x32; x03; x01; xac; x02]);
    [vrep | cbn; lia | reflexivity | vrep | vm_compute; reflexivity | |].
  { apply (CNested _ _ _ _ 11%nat); [reflexivity | exact V5 | reflexivity]. }
  eapply (VLen ex_sc 11 50 [x32] [x03] [x01; xac; x02] []);
    [vrep | cbn; lia | reflexivity | vrep | vm_compute; reflexivity | | constructor].
  apply CVarints; [reflexivity | reflexivity | exact C17_varints_example].
Qed.

(* ... the theorem turns it into acceptance, and the full example message of the top-level section is valid *)
Example C17_accept_nonvacuous :
  (exists m, parse ex_sc 11 [x08; x05; x1a; x02; x08; x05; x32; x03; x01; xac; x02] = Ok m) /\ valid ex_sc 11 ex_bytes.
Proof.
  destruct C17_schema_side_conditions as (W & E & B).
  split; [apply (C17_accept_iff ex_sc W B E); exact C17_valid_example|].
  apply (C17_accept_iff ex_sc W B E). eexists. exact (proj1 C17_welltyped_nonvacuous).
Qed.

(* [valid] discriminates: the ragged / cut / non-UTF-8 strings above are not valid *)
Example C17_valid_discriminates :
  ~ valid ex_sc 11 [x12; x01; xff] /\ ~ valid ex_sc 11 [x32; x02; x01; xac] /\
  ~ valid ex_sc2 13 [x0a; x05; x01; x00; x00; x00; x02] /\
  ~ valid ex_sc 11 [x3a; x08; x0a; x01; x6b; x12; x03; x12; x05; x41].
Proof.
  destruct C17_schema_side_conditions as (W & E & B). destruct C17_schema2_side_conditions as (W2 & E2 & B2).
  repeat split; intros V;
    [apply (C17_accept_iff ex_sc W B E) in V | apply (C17_accept_iff ex_sc W B E) in V |
     apply (C17_accept_iff ex_sc2 W2 B2 E2) in V | apply (C17_accept_iff ex_sc W B E) in V];
    destruct V as [m Hm]; vm_compute in Hm; discriminate Hm.
Qed.

(* Timestamp beyond datetime.max: the nested Timestamp payload 08 <2^62> is valid for the Timestamp class, the field is not:
   OverflowError.  The same seconds in the Duration field of class 13. *)
Example C17_time_range_nonvacuous :
  (exists m, parse ex_sc 0 [x08; x80; x80; x80; x80; x80; x80; x80; x80; x40] = Ok m) /\
  ts_range ex_sc [x08; x80; x80; x80; x80; x80; x80; x80; x80; x40] = false /\ ts_range ex_sc [x08; x01] = true /\
  parse ex_sc 11 [x5a; x0a; x08; x80; x80; x80; x80; x80; x80; x80; x80; x40] = Err EOverflow /\
  parse ex_sc2 13 [x2a; x0a; x08; x80; x80; x80; x80; x80; x80; x80; x80; x40] = Err EOverflow /\
  parse ex_sc 11 [x5a; x02; x08; x01] =
  Ok (Obj 11 [PPlaceholder; PPlaceholder; PPlaceholder; PNone; PPlaceholder; PPlaceholder; PPlaceholder;
              PPlaceholder; PPlaceholder; PPlaceholder; PDatetime 1000000] true [] [None]).
Proof. split; [eexists; vm_compute; reflexivity|]. repeat split; vm_compute; reflexivity. Qed.

(* the two numbers of  08 01 10 02 08 03 : seconds = 3 (the last record of field 1 wins), nanos = 2 *)
Example C17_last_varint_example :
  last_varint 1 [x08; x01; x10; x02; x08; x03] 0 3 /\ last_varint 2 [x08; x01; x10; x02; x08; x03] 0 2 /\
  time_numbers ex_sc timestamp_cls [x08; x01; x10; x02; x08; x03] = Some (3, 2) /\
  ts_range_spec [x08; x01] /\ valid_s ex_sc 11 [x5a; x02; x08; x01].
Proof.
  assert (P1 : wpayload 8 [x01]) by (apply (PVarint 8 1); try (cbn; lia); vrep).
  assert (P2 : wpayload 16 [x02]) by (apply (PVarint 16 2); try (cbn; lia); vrep).
  assert (P3 : wpayload 8 [x03]) by (apply (PVarint 8 3); try (cbn; lia); vrep).
  split.
  { apply (LHit 1 8 [x08] 1 [x01] [x10; x02; x08; x03]); [vrep | reflexivity | reflexivity | vrep|].
    apply (LMiss 1 16 [x10] [x02] [x08; x03]); [vrep | exact P2 | left; cbn; lia|].
    apply (LHit 1 8 [x08] 3 [x03] []); [vrep | reflexivity | reflexivity | vrep | constructor]. }
  split.
  { apply (LMiss 2 8 [x08] [x01] [x10; x02; x08; x03]); [vrep | exact P1 | left; cbn; lia|].
    apply (LHit 2 16 [x10] 2 [x02] [x08; x03]); [vrep | reflexivity | reflexivity | vrep|].
    apply (LMiss 2 8 [x08] [x03] []); [vrep | exact P3 | left; cbn; lia | constructor]. }
  split; [vm_compute; reflexivity|].
  assert (T : ts_range_spec [x08; x01]).
  { exists 1, 0. split; [|split; [|vm_compute; reflexivity]].
    - apply (LHit 1 8 [x08] 1 [x01] []); [vrep | reflexivity | reflexivity | vrep | constructor].
    - apply (LMiss 2 8 [x08] [x01] []); [vrep | exact P1 | left; cbn; lia | constructor]. }
  split; [exact T|].
  eapply (SLen ex_sc 11 90 [x5a] [x02] [x08; x01] []);
    [vrep | cbn; lia | reflexivity | vrep | vm_compute; reflexivity | | constructor].
  apply (SNested _ _ _ 0%nat); [reflexivity | | exact T].
  apply (SOther ex_sc 0 8 [x08] [x01] []); [vrep | exact P1 | right; cbn; lia | constructor].
Qed.

(* =====================================================================================================
   Gap closing (Proofs/C17GapA.v: the clause-by-clause table is its header).  New vocabulary, specification
   side only (Model/C17GapDefs.v): [kept cd nw] - class cd keeps a record with tag value nw verbatim (number
   declared by no field, or Message._wire_type_fits false; groups included); [unk_of cd bs u] - u is the
   concatenation, in order, of the complete top-level records of bs that cd keeps.
   ===================================================================================================== *)
From BP Require Import Model.C17GapDefs Proofs.C17GapA.

(* ---- "isolated": exactly which bytes end up in _unknown_fields, for every byte string of complete records,
        every schema, every state of the message parsed into ---- *)
Theorem C17_unknown_exact : forall sc c bs u m,
  unk_of (get_class sc c) bs u -> parse sc c bs = Ok m -> ounk m = u.
Proof. exact unknown_exact. Qed.
Print Assumptions C17_unknown_exact.

Theorem C17_unknown_exact_into : forall sc o bs u m,
  unk_of (get_class sc (ocls o)) bs u -> parse_into sc o bs = Ok m -> ounk m = ounk o ++ u.
Proof. exact unknown_exact_into. Qed.
Print Assumptions C17_unknown_exact_into.

(* [unk_of] is a total function of the bytes on record sequences; what is kept is again a record sequence, all kept *)
Theorem C17_unk_of_total : forall cd bs, wrecs bs -> exists u, unk_of cd bs u.
Proof. exact unk_of_total. Qed.
Print Assumptions C17_unk_of_total.

Theorem C17_unk_of_unique : forall cd bs u u', unk_of cd bs u -> unk_of cd bs u' -> u = u'.
Proof. exact unk_of_unique. Qed.
Print Assumptions C17_unk_of_unique.

Theorem C17_unk_of_kept_again : forall cd bs u, unk_of cd bs u -> unk_of cd u u.
Proof. exact unk_of_kept_again. Qed.
Print Assumptions C17_unk_of_kept_again.

Theorem C17_unk_of_app : forall cd a ua b ub, unk_of cd a ua -> unk_of cd b ub -> unk_of cd (a ++ b) (ua ++ ub).
Proof. exact unk_of_app. Qed.
Print Assumptions C17_unk_of_app.

(* composed with the acceptance criterion and the typing theorem: every [valid] input is decoded, typed, re-encodable,
   and its _unknown_fields are exactly the kept records *)
Theorem C17_valid_unknown_exact : forall sc c bs,
  wf_schema sc = true -> has_builtins sc -> entries_agree sc = true -> valid sc c bs ->
  exists m u, parse sc c bs = Ok m /\ unk_of (get_class sc c) bs u /\ ounk m = u /\
              well_typed sc m = true /\ decoded_range sc m = true /\ ocls m = c /\ exists bs', enc_obj sc m = Ok bs'.
Proof. exact valid_unknown_exact. Qed.
Print Assumptions C17_valid_unknown_exact.

(* ---- one statement for every record the class keeps (unknown number, misfit, group), and the converse: a complete
        record is appended to _unknown_fields EXACTLY when the class keeps it ---- *)
Theorem C17_kept_isolated : forall sc o nw r,
  wrec nw r -> kept (get_class sc (ocls o)) nw = true -> parse_into sc o r = Ok (add_unknown (mark_on_wire o) r).
Proof. exact kept_isolated. Qed.
Print Assumptions C17_kept_isolated.

Theorem C17_kept_in_stream : forall sc o pre nw r post,
  wrecs pre -> wrec nw r -> kept (get_class sc (ocls o)) nw = true ->
  parse_into sc o (pre ++ r ++ post) = (do o1 <- parse_into sc o pre; parse_into sc (add_unknown o1 r) post).
Proof. exact kept_in_stream. Qed.
Print Assumptions C17_kept_in_stream.

Theorem C17_record_unknown_iff : forall sc o nw r m,
  wrec nw r -> parse_into sc o r = Ok m ->
  ounk m = ounk o ++ (if kept (get_class sc (ocls o)) nw then r else []).
Proof. exact record_unknown_iff. Qed.
Print Assumptions C17_record_unknown_iff.

(* ---- the third entry point, Cls().load(stream, SIZE_DELIMITED): acceptance criterion over the specification alone,
        typing, unknown bytes; agreement of the entry points ---- *)
Theorem C17_delimited_accept_iff : forall sc, wf_schema sc = true -> has_builtins sc -> entries_agree sc = true ->
  forall c s, (exists m s', load_delimited sc c s = Ok (m, s')) <->
              (exists pre p s', s = pre ++ p ++ s' /\ VarintRep (Zlength p) pre /\ valid sc c p).
Proof. exact delimited_accept_iff. Qed.
Print Assumptions C17_delimited_accept_iff.

Theorem C17_delimited_welltyped : forall sc c s m s',
  wf_schema sc = true -> has_builtins sc -> entries_agree sc = true ->
  load_delimited sc c s = Ok (m, s') ->
  well_typed sc m = true /\ decoded_range sc m = true /\ ocls m = c /\ exists bs', enc_obj sc m = Ok bs'.
Proof. exact delimited_welltyped. Qed.
Print Assumptions C17_delimited_welltyped.

Theorem C17_delimited_unknown : forall sc c s m s',
  load_delimited sc c s = Ok (m, s') ->
  exists pre p, s = pre ++ p ++ s' /\ VarintRep (Zlength p) pre /\
                forall u, unk_of (get_class sc c) p u -> ounk m = u.
Proof. exact delimited_unknown. Qed.
Print Assumptions C17_delimited_unknown.

Theorem C17_entry_points_agree : forall sc c pre p rest,
  VarintRep (Zlength p) pre ->
  (forall m, load_delimited sc c (pre ++ p ++ rest) = Ok (m, rest) <-> parse sc c p = Ok m) /\
  (forall m r', load_delimited sc c (pre ++ p ++ rest) = Ok (m, r') -> r' = rest) /\
  ((exists e, load_delimited sc c (pre ++ p ++ rest) = Err e) <-> (exists e, parse sc c p = Err e)).
Proof. exact entry_points_agree. Qed.
Print Assumptions C17_entry_points_agree.

(* ... on accept / reject and on the message, NOT on the exception class *)
Theorem C17_entry_points_err_class_refuted :
  exists sc c pre p rest e e',
    VarintRep (Zlength p) pre /\ parse sc c p = Err e /\ load_delimited sc c (pre ++ p ++ rest) = Err e' /\ e <> e'.
Proof. exact entry_points_err_class_refuted. Qed.
Print Assumptions C17_entry_points_err_class_refuted.

(* ================= non-vacuity, gap closing ================= *)
(* x = 5; a length-delimited record on the int32 field 1 (misfit); a group numbered 1; a varint on the undeclared number 15;
   s = "A": the three foreign records are kept, in order *)
Example C17_unk_of_example :
  unk_of (get_class ex_sc 11)
    ([x08] ++ [x05] ++ [x0a] ++ [x02; x01; x02] ++ [x0b] ++ [x08; x09; x0c] ++ [x78] ++ [x01] ++ [x12] ++ [x01; x41] ++ [])
    ([x0a] ++ [x02; x01; x02] ++ [x0b] ++ [x08; x09; x0c] ++ [x78] ++ [x01] ++ []) /\
  kept (get_class ex_sc 11) 8 = false /\ kept (get_class ex_sc 11) 10 = true /\ kept (get_class ex_sc 11) 11 = true /\
  kept (get_class ex_sc 11) 120 = true /\
  (exists m, parse ex_sc 11 [x08; x05; x0a; x02; x01; x02; x0b; x08; x09; x0c; x78; x01; x12; x01; x41] = Ok m /\
             ounk m = [x0a; x02; x01; x02; x0b; x08; x09; x0c; x78; x01]).
Proof.
  split.
  { apply (UDrop _ 8); [vrep | apply (PVarint 8 5); try (cbn; lia); vrep | vm_compute; reflexivity|].
    apply (UKeep _ 10); [vrep | apply (PLen 10 [x02] [x01; x02]); try (cbn; lia); vrep | vm_compute; reflexivity|].
    apply (UKeep _ 11); [vrep | | vm_compute; reflexivity|].
    { apply (PGroup 11 [x08; x09] 12 [x0c]); try (cbn; lia); [|vrep].
      apply (WCons 8 [x08] [x09] []); [vrep | apply (PVarint 8 9); try (cbn; lia); vrep | constructor]. }
    apply (UKeep _ 120); [vrep | apply (PVarint 120 1); try (cbn; lia); vrep | vm_compute; reflexivity|].
    apply (UDrop _ 18); [vrep | apply (PLen 18 [x01] [x41]); try (cbn; lia); vrep | vm_compute; reflexivity | constructor]. }
  repeat (split; [vm_compute; reflexivity|]).
  eexists. split; vm_compute; reflexivity.
Qed.

(* the frame 02 08 05 followed by FF: accepted, FF left unread; the frame 01 08 is rejected *)
Example C17_delimited_nonvacuous :
  VarintRep (Zlength [x08; x05]) [x02] /\ valid ex_sc 11 [x08; x05] /\
  (exists m, load_delimited ex_sc 11 ([x02] ++ [x08; x05] ++ [xff]) = Ok (m, [xff])) /\
  load_delimited ex_sc 11 [x01; x08] = Err EEof /\ load_delimited ex_sc 11 [x01; x08; x05] = Err EValue /\
  parse ex_sc 11 [x08] = Err EEof.
Proof.
  split; [vrep|]. split.
  { apply (VOther ex_sc 11 8 [x08] [x05] []); [vrep | apply (PVarint 8 5); try (cbn; lia); vrep | right; cbn; lia | constructor]. }
  split; [eexists; vm_compute; reflexivity|]. repeat split; vm_compute; reflexivity.
Qed.

(* ---- second group (Proofs/C17GapB.v): exception CLASS of the tag-level rejections, after any run of complete records
        that parse accepts; and "a valid encoding" = what betterproto itself writes ---- *)
From BP Require Import Model.C01Def Proofs.C17GapB.

Theorem C17_bad_tag_class : forall sc o pre o1 nw tag rest,
  wrecs pre -> parse_into sc o pre = Ok o1 -> VarintRep nw tag ->
  (tag_num nw = 0 \/ tag_wt nw = 4 \/ tag_wt nw = 6 \/ tag_wt nw = 7) ->
  parse_into sc o (pre ++ tag ++ rest) = Err EValue.
Proof. exact bad_tag_class. Qed.
Print Assumptions C17_bad_tag_class.

Theorem C17_bad_tag_class_valid : forall sc c pre nw tag rest,
  wf_schema sc = true -> has_builtins sc -> entries_agree sc = true ->
  valid sc c pre -> VarintRep nw tag ->
  (tag_num nw = 0 \/ tag_wt nw = 4 \/ tag_wt nw = 6 \/ tag_wt nw = 7) ->
  parse sc c (pre ++ tag ++ rest) = Err EValue.
Proof. exact bad_tag_class_valid. Qed.
Print Assumptions C17_bad_tag_class_valid.

Theorem C17_cut_tag_class : forall sc o pre o1 nw tag x y,
  wrecs pre -> parse_into sc o pre = Ok o1 -> VarintRep nw tag -> tag = x ++ y -> x <> [] -> y <> [] ->
  parse_into sc o (pre ++ x) = Err EEof.
Proof. exact cut_tag_class. Qed.
Print Assumptions C17_cut_tag_class.

(* whatever load_varint raises on the next tag (EOFError: cut; ValueError: more than ten bytes) is what parse raises *)
Theorem C17_tag_error_class : forall sc o pre o1 rest e,
  wrecs pre -> parse_into sc o pre = Ok o1 -> rest <> [] -> load_varint rest = Err e ->
  parse_into sc o (pre ++ rest) = Err e.
Proof. exact long_tag_class. Qed.
Print Assumptions C17_tag_error_class.

(* bytes(m) of every message meeting C01's decidable value condition (C01_reachable_value_ok_parse: every message a history of
   public-API operations produces) is [valid] for its class: "a valid encoding" of the property text covers betterproto's own output *)
Theorem C17_own_encoding_valid : forall sc m bs,
  c01_schema_ok sc = true -> has_builtins sc -> entries_agree sc = true ->
  c01_value_ok sc m = true -> enc_obj sc m = Ok bs -> Zlength bs < 2 ^ 64 ->
  valid sc (ocls m) bs.
Proof. exact own_encoding_valid. Qed.
Print Assumptions C17_own_encoding_valid.

(* ... and a cut of bytes(m) anywhere strictly inside one of its top-level records is rejected by the class of m *)
Theorem C17_own_encoding_cut_rejected : forall sc m pre nw r post k,
  wrecs pre -> wrec nw r -> (0 < k < length r)%nat ->
  enc_obj sc m = Ok (pre ++ r ++ post) ->
  exists e, parse sc (ocls m) (firstn (length pre + k) (pre ++ r ++ post)) = Err e.
Proof. exact own_encoding_cut_rejected. Qed.
Print Assumptions C17_own_encoding_cut_rejected.

(* non-vacuity: after the accepted record 08 05 - tag 00 (field number 0): ValueError; F8 01 cut after its first byte: EOFError;
   eleven continuation bytes: ValueError (too many bytes) *)
Example C17_tag_class_nonvacuous :
  (exists o1, parse_into ex_sc (new ex_sc 11) [x08; x05] = Ok o1) /\ VarintRep 0 [x00] /\ tag_num 0 = 0 /\
  parse ex_sc 11 ([x08; x05] ++ [x00] ++ [x01]) = Err EValue /\
  VarintRep 248 [xf8; x01] /\ parse ex_sc 11 ([x08; x05] ++ [xf8]) = Err EEof /\
  load_varint [xff; xff; xff; xff; xff; xff; xff; xff; xff; xff; xff] = Err ETooLong /\
  parse ex_sc 11 ([x08; x05] ++ [xff; xff; xff; xff; xff; xff; xff; xff; xff; xff; xff]) = Err ETooLong.
Proof.
  split; [eexists; vm_compute; reflexivity|]. split; [vrep|]. split; [reflexivity|]. split; [vm_compute; reflexivity|].
  split; [vrep|]. repeat split; vm_compute; reflexivity.
Qed.

(* x = 5, s = "A", r = [-1, 150]: meets C01's condition; its bytes, their validity through the theorem, a cut inside the s record *)
Definition ex_own : obj :=
  Obj 11 [PInt 5; PStr [x41]; PPlaceholder; PNone; PPlaceholder; PList [PInt (-1); PInt 150]; PPlaceholder;
          PPlaceholder; PPlaceholder; PPlaceholder; PPlaceholder] true [] [None].

Example C17_own_encoding_nonvacuous :
  c01_schema_ok ex_sc = true /\ c01_value_ok ex_sc ex_own = true /\
  enc_obj ex_sc ex_own = Ok ([x08; x05] ++ [x12; x01; x41] ++ [x32; x03; x01; xac; x02]) /\
  valid ex_sc 11 ([x08; x05] ++ [x12; x01; x41] ++ [x32; x03; x01; xac; x02]) /\
  parse ex_sc 11 (firstn (2 + 2) ([x08; x05] ++ [x12; x01; x41] ++ [x32; x03; x01; xac; x02])) = Err EEof.
Proof.
  destruct C17_schema_side_conditions as (W & E & B).
  assert (S : c01_schema_ok ex_sc = true) by (vm_compute; reflexivity).
  assert (V : c01_value_ok ex_sc ex_own = true) by (vm_compute; reflexivity).
  assert (N : enc_obj ex_sc ex_own = Ok ([x08; x05] ++ [x12; x01; x41] ++ [x32; x03; x01; xac; x02]))
    by (vm_compute; reflexivity).
  split; [exact S|]. split; [exact V|]. split; [exact N|]. split.
  - apply (C17_own_encoding_valid ex_sc ex_own _ S B E V N). vm_compute. reflexivity.
  - vm_compute. reflexivity.
Qed.

(* ---- the executable reading of [unk_of] that the check evaluates by vm_compute on every accepted input and compares with the
        real _unknown_fields (Model/C17GapCv.v, stage "gap" of harness/props/c17.py): what it returns IS the u of the specification ---- *)
From BP Require Import Model.C17GapCv Proofs.C17GapCvP.

Theorem C17_unk_fn_sound : forall cd s u, unk_of_bytes cd s = Some u -> unk_of cd s u.
Proof. exact unk_of_bytes_sound. Qed.
Print Assumptions C17_unk_fn_sound.

Example C17_unk_fn_nonvacuous :
  unk_of_bytes (get_class ex_sc 11) [x08; x05; x0a; x02; x01; x02; x0b; x08; x09; x0c; x78; x01; x12; x01; x41]
  = Some [x0a; x02; x01; x02; x0b; x08; x09; x0c; x78; x01].
Proof. vm_compute. reflexivity. Qed.
