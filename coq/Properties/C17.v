(* C17 — malformed or truncated input is rejected or isolated, never mis-decoded.
   All statements are about the shared decoder model Model/Decode.v ([parse] = Cls().parse(bs) =
   Cls.FromString(bs), [parse_into] = m.parse(bs) on an existing message, [load_delimited]) for
   EVERY byte string and every well-formed schema.  "Complete record" is the independent
   specification Model/C17Wire.v ([wpayload] / [wrecs] / [wrec]: tag, payload by wire type,
   groups nested, any legal varint padding). *)
From BP Require Import Base.Prelude Model.Types Model.Varint Model.Float Model.Object Model.Encode Model.Decode.
From BP Require Import Model.WellFormed Model.C17Typed Model.C17Wire Model.C17Step Spec.Varint.
From BP Require Import Proofs.C17FieldP Proofs.C17TotalP Proofs.C17FloatP Proofs.C17MainP.
From BP Require Import Proofs.C17ComposeP Proofs.C17Main2P.

(* ---- termination: the fuel parse supplies (length of the input + 1) is never exhausted:
        every recursive call (nested message, map entry, Timestamp / Duration / wrapper, nested
        group, packed run) is on a strictly shorter byte list.  No hypothesis at all. ---- *)
Theorem C17_total : forall sc c bs, parse sc c bs <> Err EFuel.
Proof. exact parse_total. Qed.
Print Assumptions C17_total.

Theorem C17_total_into : forall sc o bs, parse_into sc o bs <> Err EFuel.
Proof. exact parse_into_total. Qed.
Print Assumptions C17_total_into.

Theorem C17_total_delimited : forall sc c s, load_delimited sc c s <> Err EFuel.
Proof. exact load_delimited_total. Qed.
Print Assumptions C17_total_delimited.

(* fuel sufficiency / monotonicity of _load_field (groups nested to any depth) *)
Theorem C17_load_field_fuel : forall fuel s nw raw, (length s < fuel)%nat -> load_field fuel s nw raw <> Err EFuel.
Proof. exact load_field_fuel_ok. Qed.
Print Assumptions C17_load_field_fuel.

Theorem C17_load_field_fuel_mono : forall fuel s nw raw x,
  load_field fuel s nw raw = Ok x -> forall fuel2, (fuel <= fuel2)%nat -> load_field fuel2 s nw raw = Ok x.
Proof. exact load_field_fuel_mono. Qed.
Print Assumptions C17_load_field_fuel_mono.

(* ---- whatever parse returns is well typed, inside the decoder's ranges, of the requested
        class, and can be encoded again ---- *)
Theorem C17_welltyped : forall sc c bs m,
  wf_schema sc = true -> has_builtins sc -> entries_agree sc = true ->
  parse sc c bs = Ok m ->
  well_typed sc m = true /\ decoded_range sc m = true /\ ocls m = c /\
  exists bs', enc_obj sc m = Ok bs'.
Proof. exact welltyped. Qed.
Print Assumptions C17_welltyped.

(* the same for m.parse(bs) on an existing well-typed message *)
Theorem C17_welltyped_into : forall sc o bs m,
  wf_schema sc = true -> has_builtins sc -> entries_agree sc = true ->
  well_typed sc o = true -> decoded_range sc o = true ->
  parse_into sc o bs = Ok m ->
  well_typed sc m = true /\ decoded_range sc m = true /\ ocls m = ocls o /\
  exists bs', enc_obj sc m = Ok bs'.
Proof. exact welltyped_into. Qed.
Print Assumptions C17_welltyped_into.

(* the exact invariant behind "can be encoded again": typed + decoder ranges => bytes() succeeds *)
Theorem C17_reencodable : forall sc m,
  wf_schema sc = true -> decoded_range sc m = true -> exists bs, enc_obj sc m = Ok bs.
Proof. exact reencodable. Qed.
Print Assumptions C17_reencodable.

(* ... of which the float32 part is: pack("<f", unpack("<f", w)) never overflows, all 2^32 patterns *)
Theorem C17_float32_repack : forall w, 0 <= w < 2 ^ 32 -> f32_reencodable w = true.
Proof. exact f32_reencodable_all. Qed.
Print Assumptions C17_float32_repack.

(* ---- a record cut in the middle (inside the tag, a varint, a fixed or length-delimited payload,
        a group, at any depth of group nesting) is rejected, whatever complete records precede it ---- *)
Theorem C17_prefix : forall sc c pre nw r k,
  wrecs pre -> wrec nw r -> (0 < k < length r)%nat ->
  exists e, parse sc c (pre ++ firstn k r) = Err e.
Proof. exact prefix_rejected. Qed.
Print Assumptions C17_prefix.

Theorem C17_prefix_into : forall sc o pre nw r k,
  wrecs pre -> wrec nw r -> (0 < k < length r)%nat ->
  exists e, parse_into sc o (pre ++ firstn k r) = Err e.
Proof. exact prefix_rejected_into. Qed.
Print Assumptions C17_prefix_into.

(* the payload level, used for nested cuts: _load_field rejects every proper prefix of a complete payload *)
Theorem C17_payload_cut : forall nw pl x y fuel raw,
  wpayload nw pl -> pl = x ++ y -> y <> [] -> exists e, load_field fuel x nw raw = Err e.
Proof. exact load_field_cut. Qed.
Print Assumptions C17_payload_cut.

(* ---- field number 0, wire types 6 / 7, an end-group tag outside a group ---- *)
Theorem C17_bad_tag : forall sc c pre nw tag rest,
  wrecs pre -> VarintRep nw tag ->
  (tag_num nw = 0 \/ tag_wt nw = 4 \/ tag_wt nw = 6 \/ tag_wt nw = 7) ->
  exists e, parse sc c (pre ++ tag ++ rest) = Err e.
Proof. exact bad_tag_rejected. Qed.
Print Assumptions C17_bad_tag.

(* ... and an end-group tag that closes a group of another field number *)
Theorem C17_bad_end_group : forall sc c pre nw tag enw etag rest,
  wrecs pre -> VarintRep nw tag -> tag_num nw <> 0 -> tag_wt nw = 3 ->
  VarintRep enw etag -> tag_wt enw = 4 -> tag_num enw <> tag_num nw ->
  exists e, parse sc c (pre ++ tag ++ etag ++ rest) = Err e.
Proof. exact group_end_mismatch_rejected. Qed.
Print Assumptions C17_bad_end_group.

(* ---- a complete record of a KNOWN field number whose wire type does not fit the declared type
        goes, byte for byte, to _unknown_fields; nothing else changes (raw attributes, group
        selection), for ANY state of the message it is parsed into ---- *)
Theorem C17_mismatch : forall sc o nw r i f,
  wrec nw r -> field_by_number (get_class sc (ocls o)) (tag_num nw) = Some (i, f) ->
  wire_type_fits f (tag_wt nw) = false ->
  parse_into sc o r = Ok (add_unknown (mark_on_wire o) r).
Proof. exact mismatch_isolated. Qed.
Print Assumptions C17_mismatch.

(* ---- a group record (everything inside it, nested groups included), whatever its field number ---- *)
Theorem C17_group : forall sc o nw r,
  wrec nw r -> tag_wt nw = 3 -> parse_into sc o r = Ok (add_unknown (mark_on_wire o) r).
Proof. exact group_isolated. Qed.
Print Assumptions C17_group.

(* ---- the same two, in the middle of any stream: parsing is compositional over complete records
        (m.parse(pre ++ rest) = m.parse(pre).parse(rest)), so a mismatching record or a group found
        after the complete records [pre] and before any [post] is exactly "append r to _unknown_fields" ---- *)
Theorem C17_parse_compositional : forall sc o pre rest,
  wrecs pre ->
  parse_into sc o (pre ++ rest) = (do o1 <- parse_into sc o pre; parse_into sc o1 rest).
Proof. exact parse_into_app. Qed.
Print Assumptions C17_parse_compositional.

Theorem C17_mismatch_in_stream : forall sc o pre nw r post i f,
  wrecs pre -> wrec nw r ->
  field_by_number (get_class sc (ocls o)) (tag_num nw) = Some (i, f) ->
  wire_type_fits f (tag_wt nw) = false ->
  parse_into sc o (pre ++ r ++ post) =
  (do o1 <- parse_into sc o pre; parse_into sc (add_unknown o1 r) post).
Proof. exact mismatch_in_stream. Qed.
Print Assumptions C17_mismatch_in_stream.

Theorem C17_group_in_stream : forall sc o pre nw r post,
  wrecs pre -> wrec nw r -> tag_wt nw = 3 ->
  parse_into sc o (pre ++ r ++ post) =
  (do o1 <- parse_into sc o pre; parse_into sc (add_unknown o1 r) post).
Proof. exact group_in_stream. Qed.
Print Assumptions C17_group_in_stream.

(* the result of Message.load does not depend on the fuel once it exceeds the length of the input *)
Theorem C17_load_fuel_irrelevant : forall sc f1 f2 o s size,
  (length s < f1)%nat -> (length s < f2)%nat -> load f1 sc o s size = load f2 sc o s size.
Proof. exact load_fuel_irrelevant. Qed.
Print Assumptions C17_load_fuel_irrelevant.

(* ---- the reader against the record specification ---- *)
(* whatever _load_field accepts is a complete payload, consumed exactly, and raw = the bytes read *)
Theorem C17_reader_sound : forall fuel s nw raw p s',
  load_field fuel s nw raw = Ok (p, s') -> field_ok nw raw s p s'.
Proof. exact load_field_sound. Qed.
Print Assumptions C17_reader_sound.

(* every complete payload is read, whatever follows it *)
Theorem C17_reader_complete : forall nw pl fuel rest raw,
  wpayload nw pl -> (length (pl ++ rest) < fuel)%nat ->
  exists p, load_field fuel (pl ++ rest) nw raw = Ok (p, rest) /\ field_ok nw raw (pl ++ rest) p rest.
Proof. exact load_field_complete. Qed.
Print Assumptions C17_reader_complete.

(* the specification is a prefix-free code: no complete payload is a proper prefix of another *)
Theorem C17_spec_prefix_free : forall nw a b x y, wpayload nw a -> wpayload nw b -> a ++ x = b ++ y -> a = b.
Proof. intros nw a b x y Wa Wb. exact (proj1 wire_prefix_free nw a Wa b x y Wb). Qed.
Print Assumptions C17_spec_prefix_free.

(* ================= non-vacuity ================= *)
(* class 11: x int32 = 1; s string = 2; rec (class 11) = 3; o optional int32 = 4; f float = 5;
             r repeated sint64 = 6; m map<string, class 11> = 7 (entry class 12); u1/u2 oneof {uint64 = 8, bytes = 9};
             w wrapper(Int32Value) = 10; t Timestamp = 11 *)
Definition ex_sc : schema :=
  mkS (builtin_classes ++
       [mkC [mkF [x78] 1 TInt32 None None None false (HPlain PyInt) 0;
             mkF [x73] 2 TString None None None false (HPlain PyStr) 0;
             mkF [x72] 3 TMessage None None None false (HPlain (PyMsg 11)) 0;
             mkF [x6f] 4 TInt32 None None None true (HOptional PyInt) 0;
             mkF [x66] 5 TFloat None None None false (HPlain PyFloat) 0;
             mkF [x71] 6 TSInt64 None None None false (HList PyInt) 0;
             mkF [x6d] 7 TMap (Some (TString, TMessage)) None None false (HDict PyStr (PyMsg 11)) 12;
             mkF [x75] 8 TUInt64 None (Some 0%nat) None false (HPlain PyInt) 0;
             mkF [x76] 9 TBytes None (Some 0%nat) None false (HPlain PyBytes) 0;
             mkF [x77] 10 TMessage None None (Some TInt32) false (HOptional PyInt) 0;
             mkF [x74] 11 TMessage None None None false (HPlain PyDatetime) 0] 1;
        mkC [mkF [x6b] 1 TString None None None false (HPlain PyStr) 0;
             mkF [x76] 2 TMessage None None None false (HPlain (PyMsg 11)) 0] 0]) [].

Example C17_schema_side_conditions : wf_schema ex_sc = true /\ entries_agree ex_sc = true /\ has_builtins ex_sc.
Proof. split; [vm_compute; reflexivity|]. split; [vm_compute; reflexivity|]. eexists. reflexivity. Qed.

(* x = -1 (ten bytes), s = "é", nested rec {x = 5}, float 1.5, packed sint64 [-1, 150], map {"k": {x=1}},
   oneof member u = 7, wrapper 3, Timestamp(1 s), a group with unknown number 15 holding a field numbered 1,
   a varint on the string field's number (mismatch) *)
Definition ex_bytes : list byte :=
  [x08; xff; xff; xff; xff; xff; xff; xff; xff; xff; x01;
   x12; x02; xc3; xa9;
   x1a; x02; x08; x05;
   x2d; x00; x00; xc0; x3f;
   x32; x03; x01; xac; x02;
   x3a; x07; x0a; x01; x6b; x12; x02; x08; x01;
   x40; x07;
   x52; x02; x08; x03;
   x5a; x02; x08; x01;
   x7b; x08; x63; x7c;
   x10; x2a].

Definition ex_inner (x : Z) : pv :=
  PMsg (Obj 11 [PInt x; PPlaceholder; PPlaceholder; PNone; PPlaceholder; PPlaceholder; PPlaceholder;
                PPlaceholder; PPlaceholder; PPlaceholder; PPlaceholder] true [] [None]).
Definition ex_msg : obj :=
  Obj 11 [PInt (-1); PStr [xc3; xa9]; ex_inner 5; PNone; PFloat 4609434218613702656; PList [PInt (-1); PInt 150];
          PDict [(PStr [x6b], ex_inner 1)]; PInt 7; PPlaceholder; PInt 3; PDatetime 1000000]
      true [x7b; x08; x63; x7c; x10; x2a] [Some 7%nat].

Example C17_welltyped_nonvacuous :
  parse ex_sc 11 ex_bytes = Ok ex_msg /\ well_typed ex_sc ex_msg = true /\ decoded_range ex_sc ex_msg = true /\
  enc_obj ex_sc ex_msg = Ok ex_bytes.
Proof. vm_compute. repeat split. Qed.

(* an ill-typed object is NOT well_typed (the predicate is not trivially true) *)
Example C17_welltyped_discriminates :
  well_typed ex_sc (Obj 11 [PList [PInt 1]; PInt 7; PPlaceholder; PNone; PPlaceholder; PPlaceholder; PPlaceholder;
                            PPlaceholder; PPlaceholder; PPlaceholder; PPlaceholder] true [] [None]) = false
  /\ decoded_range ex_sc (Obj 11 [PInt (2 ^ 31); PPlaceholder; PPlaceholder; PNone; PPlaceholder; PPlaceholder; PPlaceholder;
                                  PPlaceholder; PPlaceholder; PPlaceholder; PPlaceholder] true [] [None]) = false.
Proof. vm_compute. split; reflexivity. Qed.

Ltac vrep := split; [cbn; lia | split; [reflexivity | cbn; lia]].

(* the record  08 96 01  (field 1, varint 150) and every cut of it *)
Example C17_wrec_varint : wrec 8 [x08; x96; x01].
Proof. exists [x08], [x96; x01]. split; [vrep|]. split; [|reflexivity]. apply (PVarint 8 150); try (cbn; lia). vrep. Qed.

Example C17_prefix_nonvacuous :
  parse ex_sc 11 ([x10; x2a] ++ firstn 1 [x08; x96; x01]) = Err EEof /\
  parse ex_sc 11 ([x10; x2a] ++ firstn 2 [x08; x96; x01]) = Err EEof /\
  parse ex_sc 11 [x12; x05; x41] = Err EEof /\
  parse ex_sc 11 [x1a; x03; x12; x05; x41] = Err EEof.
Proof. vm_compute. repeat split. Qed.

Example C17_bad_tag_nonvacuous :
  parse ex_sc 11 [x00; x01] = Err EValue /\ parse ex_sc 11 [x0e; x01] = Err EValue /\
  parse ex_sc 11 [x0f] = Err EValue /\ parse ex_sc 11 [x0c] = Err EValue /\
  parse ex_sc 11 [x0b; x14] = Err EValue.
Proof. vm_compute. repeat split. Qed.

(* a group carrying the KNOWN field number 1, with a field numbered 1 inside and a nested group: skipped whole *)
Example C17_wrec_group : wrec 11 [x0b; x08; x09; x13; x14; x0c].
Proof.
  exists [x0b], [x08; x09; x13; x14; x0c]. split; [vrep|]. split; [|reflexivity].
  apply (PGroup 11 [x08; x09; x13; x14] 12 [x0c]); try (cbn; lia); [|vrep].
  apply (WCons 8 [x08] [x09] [x13; x14]); [vrep | apply (PVarint 8 9); try (cbn; lia); vrep|].
  apply (WCons 19 [x13] [x14] []); [vrep | | constructor].
  apply (PGroup 19 [] 20 [x14]); try (cbn; lia); [constructor | vrep].
Qed.

Example C17_group_nonvacuous :
  parse_into ex_sc (Obj 11 [PInt 5; PPlaceholder; PPlaceholder; PNone; PPlaceholder; PPlaceholder; PPlaceholder;
                            PPlaceholder; PPlaceholder; PPlaceholder; PPlaceholder] true [x01] [None])
             [x0b; x08; x09; x13; x14; x0c]
  = Ok (Obj 11 [PInt 5; PPlaceholder; PPlaceholder; PNone; PPlaceholder; PPlaceholder; PPlaceholder;
                PPlaceholder; PPlaceholder; PPlaceholder; PPlaceholder] true [x01; x0b; x08; x09; x13; x14; x0c] [None]).
Proof. vm_compute. reflexivity. Qed.

(* a length-delimited record on the int32 field 1 (the former "int field becomes a list") *)
Example C17_mismatch_nonvacuous :
  field_by_number (get_class ex_sc 11) (tag_num 10) <> None /\
  parse ex_sc 11 [x0a; x02; x01; x02] =
  Ok (Obj 11 [PPlaceholder; PPlaceholder; PPlaceholder; PNone; PPlaceholder; PPlaceholder; PPlaceholder;
              PPlaceholder; PPlaceholder; PPlaceholder; PPlaceholder] true [x0a; x02; x01; x02] [None]).
Proof. vm_compute. split; [discriminate | reflexivity]. Qed.


(* the mismatching record and the group in the middle of a stream: x = 5, then the two foreign records, then s = "A" *)
Example C17_in_stream_nonvacuous :
  parse ex_sc 11 ([x08; x05] ++ [x0a; x02; x01; x02] ++ [x0b; x08; x09; x13; x14; x0c] ++ [x12; x01; x41]) =
  Ok (Obj 11 [PInt 5; PStr [x41]; PPlaceholder; PNone; PPlaceholder; PPlaceholder; PPlaceholder;
              PPlaceholder; PPlaceholder; PPlaceholder; PPlaceholder] true
          ([x0a; x02; x01; x02] ++ [x0b; x08; x09; x13; x14; x0c]) [None]).
Proof. vm_compute. reflexivity. Qed.

(* the decoder's range for uint64 is tight: a ten-byte varint carries 70 bits and is not masked *)
Example C17_uint64_wide_witness :
  parse ex_sc 11 [x40; xff; xff; xff; xff; xff; xff; xff; xff; xff; x7f] =
  Ok (Obj 11 [PPlaceholder; PPlaceholder; PPlaceholder; PNone; PPlaceholder; PPlaceholder; PPlaceholder;
              PInt (2 ^ 70 - 1); PPlaceholder; PPlaceholder; PPlaceholder] true [] [Some 7%nat]).
Proof. vm_compute. reflexivity. Qed.
