(* C17 — malformed or truncated input is rejected or isolated, never mis-decoded.
   All statements are about the shared decoder model Model/Decode.v ([parse] = Cls().parse(bs) =
   Cls.FromString(bs), [parse_into] = m.parse(bs) on an existing message) for EVERY byte string. *)
From BP Require Import Base.Prelude Model.Types Model.Varint Model.Object Model.Encode Model.Decode.
From BP Require Import Model.WellFormed Model.C17Typed Model.C17Wire Spec.Varint.
From BP Require Import Proofs.C17TotalP.

(* termination: the fuel [parse] supplies (length of the input + 1) is never exhausted *)
Theorem C17_total : forall sc c bs, parse sc c bs <> Err EFuel.
Proof. exact parse_total. Qed.
Print Assumptions C17_total.

Theorem C17_total_into : forall sc o bs, parse_into sc o bs <> Err EFuel.
Proof. exact parse_into_total. Qed.
Print Assumptions C17_total_into.

Theorem C17_total_delimited : forall sc c s, load_delimited sc c s <> Err EFuel.
Proof. exact load_delimited_total. Qed.
Print Assumptions C17_total_delimited.
