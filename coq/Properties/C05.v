(* C05 — JSON output and input follow the canonical proto3 JSON mapping (reference:
   google.protobuf.json_format).  Property-level statements only; every proof is a single
   [exact] of a lemma from Proofs/C05*.v, followed by Print Assumptions.

   Specification: Spec/JsonMap.v (protoc_json_name, json_spec, json_accepts), validated against the
   reference by tie T3 of harness/props/c05.py.  Model of betterproto's to_dict / from_dict:
   Model/Json.v (property C04's mirror, tied to the code by C04's correspondence).

   What is proved, and what is not:
   * key names: betterproto's key = protoc's json_name under the decidable condition json_name_safe,
     witnesses where they differ (K3), exactness of the condition on short names;
   * leaves, both directions, for ALL in-range values: every scalar betterproto emits is literally the canonical
     form (C05_emit_scalar_canonical), the canonical form is accepted by the specified reference parser as the
     same value (C05_spec_*_roundtrip), betterproto's reader takes the canonical form back (C05_accept_scalar);
     Timestamp / Duration strings at microsecond resolution likewise;
   * K13: -0.0 in an implicit-presence field (C05_emit_neg_zero_refuted).
   * PENDING (not stated as theorems, no admitted lemma anywhere): the message-level statements
       C05_emit   : json_supported sc o -> json_name_safe on every field name ->
                    model_emit_accepts sc (jschema_of sc) c o = Some (abs sc o)
       C05_accept : wf a -> model_reads_canonical sc (jschema_of sc) c cls a = Some a
     i.e. the composition of the leaf theorems over fields, repeated fields, maps, wrappers, oneofs and
     nested messages (object keys through protoc_json_name_agrees).  Their executable forms
     Proofs/C05Model.v model_emit_accepts / model_reads_canonical are evaluated inside Coq by the harness on every
     generated message (and on the instance Examples below); enum leaves (Model/Enum.v, property C20) are covered
     by those evaluations only. *)
From BP Require Import Base.Prelude Model.Types Model.Float Model.Object Model.WellFormed Model.TimeCore Model.Casing.
From BP Require Import Spec.Time.
From BP Require Model.Json Model.Time Spec.JsonMap.
From BP Require Proofs.C04Def.
From BP Require Import Proofs.C05Casing Proofs.C05Leaf Proofs.C05Model.

Module J := Model.Json.
Module S := Spec.JsonMap.

(* ====================================================================================== *)
(* key names                                                                               *)
(* ====================================================================================== *)
(* betterproto's JSON key of a field whose .proto name is [name] (the plugin names the attribute
   safe_snake_case name, to_dict emits camel_case(attribute).rstrip("_")) is protoc's json_name for
   every lower_snake name without a digit directly followed by a letter and without a letter right
   after leading underscores. *)
Theorem protoc_json_name_agrees : forall name,
  json_name_safe name = true -> camel_key (safe_snake_case name) = S.protoc_json_name name.
Proof. exact protoc_json_name_agrees_thm. Qed.
Print Assumptions protoc_json_name_agrees.

(* K3: names written with capitals: HTTPStatus -> "httpStatus" (protoc: "HTTPStatus"), fooBAR -> "fooBar", FooBar -> "fooBar" *)
Theorem protoc_json_name_mixed_case_refuted :
  proto_ident n_HTTPStatus = true /\ bp_json_key n_HTTPStatus <> S.protoc_json_name n_HTTPStatus /\
  proto_ident n_fooBAR = true /\ bp_json_key n_fooBAR <> S.protoc_json_name n_fooBAR /\
  proto_ident n_FooBar = true /\ bp_json_key n_FooBar <> S.protoc_json_name n_FooBar.
Proof. exact json_name_mixed_case_refuted_thm. Qed.
Print Assumptions protoc_json_name_mixed_case_refuted.

(* K3: lower_snake names outside the side condition: a1b -> "a1B" (protoc: "a1b"), _foo -> "foo" (protoc: "Foo") *)
Theorem protoc_json_name_lower_snake_refuted :
  (lower_snake n_a1b = true /\ no_leading_us_letter n_a1b = true /\ bp_json_key n_a1b <> S.protoc_json_name n_a1b) /\
  (lower_snake n__foo = true /\ no_digit_letter n__foo = true /\ bp_json_key n__foo <> S.protoc_json_name n__foo).
Proof. exact json_name_lower_snake_refuted_thm. Qed.
Print Assumptions protoc_json_name_lower_snake_refuted.

(* the side condition is exact (safe <-> keys agree) on every string of length <= 6 over {a, b, 1, _} *)
Theorem protoc_json_name_side_condition_exact_len6 :
  all_strings [x61; x62; x31; x5f] 6 [] safe_exact = true.
Proof. exact json_name_safe_exact_len6. Qed.
Print Assumptions protoc_json_name_side_condition_exact_len6.

Example protoc_json_name_agrees_nonvacuous :
  json_name_safe n_foo_bar_2 = true /\ bp_json_key n_foo_bar_2 = [x66; x6f; x6f; x42; x61; x72; x32].
Proof. exact json_name_safe_ex. Qed.

(* ====================================================================================== *)
(* the specification is coherent: canonical leaves are accepted as the same value           *)
(* ====================================================================================== *)
Theorem C05_spec_scalar_roundtrip : forall k v, wf_scalar k v = true ->
  exists j, S.spec_scalar k v = Some j /\ S.acc_scalar k j = Some v.
Proof. exact spec_scalar_accepted. Qed.
Print Assumptions C05_spec_scalar_roundtrip.

Theorem C05_spec_map_key_roundtrip : forall k v, wf_key k v = true ->
  exists s, S.key_str k v = Some s /\ S.acc_key k s = Some v.
Proof. exact spec_key_accepted. Qed.
Print Assumptions C05_spec_map_key_roundtrip.

Theorem C05_spec_base64_roundtrip : forall bs, S.b64_decode (S.b64_encode bs) = Some bs.
Proof. exact b64_decode_encode. Qed.
Print Assumptions C05_spec_base64_roundtrip.

Theorem C05_spec_timestamp_roundtrip : forall s u,
  S.TS_MIN_S <= s <= S.TS_MAX_S -> 0 <= u < 1000000 ->
  S.ts_parse (S.ts_str s (u * 1000)) = Some (s, u * 1000).
Proof. exact spec_timestamp_accepted. Qed.
Print Assumptions C05_spec_timestamp_roundtrip.

Theorem C05_spec_duration_roundtrip : forall d,
  - (DUR_MAX_S * 1000000) <= d <= DUR_MAX_S * 1000000 ->
  let '(s, n) := dur_of_us d in
  dur_parse (dur_json s n) = Some (s, n) /\ S.dur_in_range s n = true.
Proof. exact spec_duration_accepted. Qed.
Print Assumptions C05_spec_duration_roundtrip.

Example C05_spec_scalar_roundtrip_nonvacuous :
  wf_scalar S.KUInt64 (S.AInt (2 ^ 64 - 1)) = true /\ wf_scalar S.KFloat (S.AFloat f64_neg_inf) = true /\
  wf_scalar S.KDouble (S.AFloat S.nan_bits) = true /\ wf_key S.KBool (S.ABool true) = true /\
  S.spec_scalar S.KUInt64 (S.AInt (2 ^ 64 - 1)) =
    Some (S.JStr [x31; x38; x34; x34; x36; x37; x34; x34; x30; x37; x33; x37; x30; x39; x35; x35; x31; x36; x31; x35]).
Proof. repeat split; vm_compute; reflexivity. Qed.

(* ====================================================================================== *)
(* EMIT, leaves: what betterproto (as modelled) writes                                     *)
(* ====================================================================================== *)
(* every in-range scalar is written in exactly the canonical form (64-bit integers as decimal strings,
   base64 with padding, "NaN" / "Infinity" / "-Infinity", plain numbers otherwise).  The 64-bit table and the
   three float strings are the regenerated ones (gen/Tables.v): a changed table breaks this proof. *)
Theorem C05_emit_scalar_canonical : forall sc t k p v,
  skind_of t = Some k -> scalar_in_range t v = true ->
  exists a, abs_scalar v = Some a /\ conv (J.scalar_to_json sc t p v) = S.spec_scalar k a.
Proof. exact model_scalar_is_canonical. Qed.
Print Assumptions C05_emit_scalar_canonical.

(* ... and is therefore accepted by the reference parser (as specified) as the same value *)
Theorem C05_emit_scalar_partial : forall sc t k p v,
  skind_of t = Some k -> scalar_in_range t v = true -> C04Def.nan_canonical v = true ->
  exists a j, abs_scalar v = Some a /\ conv (J.scalar_to_json sc t p v) = Some j /\ S.acc_scalar k j = Some a.
Proof. exact model_scalar_emit_accepted. Qed.
Print Assumptions C05_emit_scalar_partial.

(* Timestamp: RFC 3339 UTC "Z" with 0/3/6 fractional digits = the canonical string; accepted as (seconds, nanos) of the instant *)
Theorem C05_emit_timestamp : forall us,
  (dt_min_us <=? us) && (us <=? dt_max_us) = true ->
  J.ts_text us = S.ts_str (fst (ts_of_us us)) (snd (ts_of_us us)) /\
  S.ts_parse (J.ts_text us) = Some (ts_of_us us) /\
  S.ts_in_range (fst (ts_of_us us)) (snd (ts_of_us us)) = true.
Proof. intros us R. split; [apply model_timestamp_is_canonical | apply model_timestamp_emit_accepted, R]. Qed.
Print Assumptions C05_emit_timestamp.

(* Duration: decimal seconds with "s", accepted as the Duration of the span; canonical except that whole seconds
   carry ".000" *)
Theorem C05_emit_duration : forall us,
  (- 315576000000000000 <=? us) && (us <=? 315576000000000000) = true ->
  dur_parse (Model.Time.delta_to_json us) = Some (dur_of_us us) /\
  S.dur_in_range (fst (dur_of_us us)) (snd (dur_of_us us)) = true /\
  (us mod 1000000 <> 0 -> Model.Time.delta_to_json us = dur_json (fst (dur_of_us us)) (snd (dur_of_us us))).
Proof. exact model_duration_emit_accepted. Qed.
Print Assumptions C05_emit_duration.

(* K13: a plain double holding -0.0 is left out by to_dict; the canonical printer writes it and the parser
   reads +0.0 from betterproto's text *)
Theorem C05_emit_neg_zero_refuted :
  scalar_in_range TDouble (PFloat (2 ^ 63)) = true /\
  J.to_dict J.CAMEL false nz_sc nz_obj = J.JObj [] /\
  S.json_spec nz_js 0 nz_aval = Some (S.JObj [(nz_name, S.JFloat (2 ^ 63))]) /\
  model_emit_accepts nz_sc nz_js 0 nz_obj = Some (S.AMsg [S.FOne (S.AFloat 0)]) /\
  S.AMsg [S.FOne (S.AFloat 0)] <> nz_aval.
Proof. exact neg_zero_refuted_thm. Qed.
Print Assumptions C05_emit_neg_zero_refuted.

(* ====================================================================================== *)
(* ACCEPT, leaves: what betterproto (as modelled) reads                                    *)
(* ====================================================================================== *)
Theorem C05_accept_scalar_partial : forall sc t k p v a j,
  skind_of t = Some k -> pyty_fits (length (classes sc)) (length (enums sc)) t p = true ->
  scalar_in_range t v = true -> C04Def.nan_canonical v = true ->
  abs_scalar v = Some a -> S.spec_scalar k a = Some j ->
  J.scalar_from_json sc t p (unconv j) = Ok v.
Proof. exact model_scalar_accepts_canonical. Qed.
Print Assumptions C05_accept_scalar_partial.

Theorem C05_accept_timestamp : forall us,
  (dt_min_us <=? us) && (us <=? dt_max_us) = true ->
  J.iso_parse (S.ts_str (fst (ts_of_us us)) (snd (ts_of_us us))) = Ok us.
Proof. exact model_timestamp_accepts_canonical. Qed.
Print Assumptions C05_accept_timestamp.

Example C05_leaf_theorems_nonvacuous :
  skind_of TSFixed64 = Some S.KSFixed64 /\ scalar_in_range TSFixed64 (PInt (- 2 ^ 63)) = true /\
  scalar_in_range TFloat (PFloat f64_pos_inf) = true /\ C04Def.nan_canonical (PFloat f64_pos_inf) = true /\
  (dt_min_us <=? 1583020799250000) && (1583020799250000 <=? dt_max_us) = true /\
  J.ts_text 1583020799250000 =
    [x32; x30; x32; x30; x2d; x30; x32; x2d; x32; x39; x54; x32; x33; x3a; x35; x39; x3a; x35; x39; x2e; x32; x35; x30; x5a].
Proof. repeat split; vm_compute; reflexivity. Qed.

(* ====================================================================================== *)
(* the pending message-level statements, on one message holding every leaf form            *)
(* ====================================================================================== *)
Example C05_emit_instance :
  option_map S.cv_of_aval (model_emit_accepts Ex.ex_sc Ex.ex_js 0 Ex.ex_obj) = Some (S.cv_of_aval Ex.ex_aval).
Proof. exact model_emit_instance. Qed.
Example C05_accept_instance :
  option_map S.cv_of_aval (model_reads_canonical Ex.ex_sc Ex.ex_js 0 (length builtin_classes) Ex.ex_aval) =
  Some (S.cv_of_aval Ex.ex_aval).
Proof. exact model_accept_instance. Qed.
