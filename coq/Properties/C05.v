(* C05 — JSON output and input follow the canonical proto3 JSON mapping (reference:
   google.protobuf.json_format).  Property-level statements only; every proof is a single
   [exact] of a lemma from Proofs/C05*.v, followed by Print Assumptions.

   Specification: Spec/JsonMap.v (protoc_json_name, json_spec, json_accepts), validated against the
   reference by tie T3 of harness/props/c05.py.  Model of betterproto's to_dict / from_dict:
   Model/Json.v (property C04's mirror, tied to the code by C04's correspondence).

   What is proved, and what is not:
   * key names: betterproto's key = protoc's json_name under the decidable condition json_name_safe,
     witnesses where they differ (K3), exactness of the condition on short names;
   * leaves, both directions, for ALL in-range values: every scalar betterproto emits is literally the canonical
     form (C05_emit_scalar_canonical), the canonical form is accepted by the specified reference parser as the
     same value (C05_spec_*_roundtrip), betterproto's reader takes the canonical form back (C05_accept_scalar);
     Timestamp / Duration strings at microsecond resolution likewise;
   * K13: -0.0 in an implicit-presence field (C05_emit_neg_zero_refuted).
   * message level (proved; definitions in Proofs/C05MsgDef.v and Proofs/C05AccDef.v):
       C05_emit    for ANY object of ANY well-formed schema matched by the reference-side schema (js_matches: json_name_safe
                   on every proto field name = K3, distinct json names, same kinds / cardinalities / oneofs / enums), in range,
                   selected oneof members set, NaN-canonical and without -0.0 in an implicit float (K13):
                     the text of to_dict(CAMEL) is accepted by json_accepts as the abstract message the object denotes
                   (fields, optional, repeated, maps, wrappers, oneofs, enums, nested / recursive messages, Timestamp, Duration);
       C05_accept  for ANY well-formed abstract message (wf_aval: microsecond resolution, K13, and PLAIN-ZERO-TIME below):
                     from_dict reads the canonical JSON json_spec writes back to that message;
       both also for the reference-side schema a runtime schema determines (jschema_of), and C05_emit under C04's [good];
       C05_accept_plain_zero_time_refuted: a PRESENT Timestamp == epoch / Duration == 0 in a field that is neither optional
                   nor a oneof member comes back absent (betterproto keeps no presence for such a field).  wf_aval leaves out
                   exactly: K13, this class, values below microsecond resolution (the quantifier of C05) and Durations a
                   fraction of a second beyond +-315 576 000 000 s (the bound of WellFormed.in_range is on the whole span);
       C05_msg_hypotheses_satisfiable / C05_msg_nonvacuous: one hand-written schema with every field shape. *)
From BP Require Import Base.Prelude Model.Types Model.Float Model.Object Model.WellFormed Model.TimeCore Model.Casing.
From BP Require Import Spec.Time.
From BP Require Model.Json Model.Time Spec.JsonMap.
From BP Require Proofs.C04Def.
From BP Require Import Proofs.C05Casing Proofs.C05Leaf Proofs.C05Model.
From BP Require Import Proofs.C05MsgDef Proofs.C05AccDef Proofs.C05MsgEmit Proofs.C05AccMain Proofs.C05MsgFinal Proofs.C05MsgEx.

Module J := Model.Json.
Module S := Spec.JsonMap.

(* ====================================================================================== *)
(* key names                                                                               *)
(* ====================================================================================== *)
(* betterproto's JSON key of a field whose .proto name is [name] (the plugin names the attribute
   safe_snake_case name, to_dict emits camel_case(attribute).rstrip("_")) is protoc's json_name for
   every lower_snake name without a digit directly followed by a letter and without a letter right
   after leading underscores. *)
Theorem protoc_json_name_agrees : forall name,
  json_name_safe name = true -> camel_key (safe_snake_case name) = S.protoc_json_name name.
Proof. exact protoc_json_name_agrees_thm. Qed.
Print Assumptions protoc_json_name_agrees.

(* K3: names written with capitals: HTTPStatus -> "httpStatus" (protoc: "HTTPStatus"), fooBAR -> "fooBar", FooBar -> "fooBar" *)
Theorem protoc_json_name_mixed_case_refuted :
  proto_ident n_HTTPStatus = true /\ bp_json_key n_HTTPStatus <> S.protoc_json_name n_HTTPStatus /\
  proto_ident n_fooBAR = true /\ bp_json_key n_fooBAR <> S.protoc_json_name n_fooBAR /\
  proto_ident n_FooBar = true /\ bp_json_key n_FooBar <> S.protoc_json_name n_FooBar.
Proof. exact json_name_mixed_case_refuted_thm. Qed.
Print Assumptions protoc_json_name_mixed_case_refuted.

(* K3: lower_snake names outside the side condition: a1b -> "a1B" (protoc: "a1b"), _foo -> "foo" (protoc: "Foo") *)
Theorem protoc_json_name_lower_snake_refuted :
  (lower_snake n_a1b = true /\ no_leading_us_letter n_a1b = true /\ bp_json_key n_a1b <> S.protoc_json_name n_a1b) /\
  (lower_snake n__foo = true /\ no_digit_letter n__foo = true /\ bp_json_key n__foo <> S.protoc_json_name n__foo).
Proof. exact json_name_lower_snake_refuted_thm. Qed.
Print Assumptions protoc_json_name_lower_snake_refuted.

(* the side condition is exact (safe <-> keys agree) on every string of length <= 6 over {a, b, 1, _} *)
Theorem protoc_json_name_side_condition_exact_len6 :
  all_strings [x61; x62; x31; x5f] 6 [] safe_exact = true.
Proof. exact json_name_safe_exact_len6. Qed.
Print Assumptions protoc_json_name_side_condition_exact_len6.

Example protoc_json_name_agrees_nonvacuous :
  json_name_safe n_foo_bar_2 = true /\ bp_json_key n_foo_bar_2 = [x66; x6f; x6f; x42; x61; x72; x32].
Proof. exact json_name_safe_ex. Qed.

(* ====================================================================================== *)
(* the specification is coherent: canonical leaves are accepted as the same value           *)
(* ====================================================================================== *)
Theorem C05_spec_scalar_roundtrip : forall k v, wf_scalar k v = true ->
  exists j, S.spec_scalar k v = Some j /\ S.acc_scalar k j = Some v.
Proof. exact spec_scalar_accepted. Qed.
Print Assumptions C05_spec_scalar_roundtrip.

Theorem C05_spec_map_key_roundtrip : forall k v, wf_key k v = true ->
  exists s, S.key_str k v = Some s /\ S.acc_key k s = Some v.
Proof. exact spec_key_accepted. Qed.
Print Assumptions C05_spec_map_key_roundtrip.

Theorem C05_spec_base64_roundtrip : forall bs, S.b64_decode (S.b64_encode bs) = Some bs.
Proof. exact b64_decode_encode. Qed.
Print Assumptions C05_spec_base64_roundtrip.

Theorem C05_spec_timestamp_roundtrip : forall s u,
  S.TS_MIN_S <= s <= S.TS_MAX_S -> 0 <= u < 1000000 ->
  S.ts_parse (S.ts_str s (u * 1000)) = Some (s, u * 1000).
Proof. exact spec_timestamp_accepted. Qed.
Print Assumptions C05_spec_timestamp_roundtrip.

Theorem C05_spec_duration_roundtrip : forall d,
  - (DUR_MAX_S * 1000000) <= d <= DUR_MAX_S * 1000000 ->
  let '(s, n) := dur_of_us d in
  dur_parse (dur_json s n) = Some (s, n) /\ S.dur_in_range s n = true.
Proof. exact spec_duration_accepted. Qed.
Print Assumptions C05_spec_duration_roundtrip.

Example C05_spec_scalar_roundtrip_nonvacuous :
  wf_scalar S.KUInt64 (S.AInt (2 ^ 64 - 1)) = true /\ wf_scalar S.KFloat (S.AFloat f64_neg_inf) = true /\
  wf_scalar S.KDouble (S.AFloat S.nan_bits) = true /\ wf_key S.KBool (S.ABool true) = true /\
  S.spec_scalar S.KUInt64 (S.AInt (2 ^ 64 - 1)) =
    Some (S.JStr [x31; x38; x34; x34; x36; x37; x34; x34; x30; x37; x33; x37; x30; x39; x35; x35; x31; x36; x31; x35]).
Proof. repeat split; vm_compute; reflexivity. Qed.

(* ====================================================================================== *)
(* EMIT, leaves: what betterproto (as modelled) writes                                     *)
(* ====================================================================================== *)
(* every in-range scalar is written in exactly the canonical form (64-bit integers as decimal strings,
   base64 with padding, "NaN" / "Infinity" / "-Infinity", plain numbers otherwise).  The 64-bit table and the
   three float strings are the regenerated ones (gen/Tables.v): a changed table breaks this proof. *)
Theorem C05_emit_scalar_canonical : forall sc t k p v,
  skind_of t = Some k -> scalar_in_range t v = true ->
  exists a, abs_scalar v = Some a /\ conv (J.scalar_to_json sc t p v) = S.spec_scalar k a.
Proof. exact model_scalar_is_canonical. Qed.
Print Assumptions C05_emit_scalar_canonical.

(* ... and is therefore accepted by the reference parser (as specified) as the same value *)
Theorem C05_emit_scalar_partial : forall sc t k p v,
  skind_of t = Some k -> scalar_in_range t v = true -> C04Def.nan_canonical v = true ->
  exists a j, abs_scalar v = Some a /\ conv (J.scalar_to_json sc t p v) = Some j /\ S.acc_scalar k j = Some a.
Proof. exact model_scalar_emit_accepted. Qed.
Print Assumptions C05_emit_scalar_partial.

(* Timestamp: RFC 3339 UTC "Z" with 0/3/6 fractional digits = the canonical string; accepted as (seconds, nanos) of the instant *)
Theorem C05_emit_timestamp : forall us,
  (dt_min_us <=? us) && (us <=? dt_max_us) = true ->
  J.ts_text us = S.ts_str (fst (ts_of_us us)) (snd (ts_of_us us)) /\
  S.ts_parse (J.ts_text us) = Some (ts_of_us us) /\
  S.ts_in_range (fst (ts_of_us us)) (snd (ts_of_us us)) = true.
Proof. intros us R. split; [apply model_timestamp_is_canonical | apply model_timestamp_emit_accepted, R]. Qed.
Print Assumptions C05_emit_timestamp.

(* Duration: decimal seconds with "s", accepted as the Duration of the span; canonical except that whole seconds
   carry ".000" *)
Theorem C05_emit_duration : forall us,
  (- 315576000000000000 <=? us) && (us <=? 315576000000000000) = true ->
  dur_parse (Model.Time.delta_to_json us) = Some (dur_of_us us) /\
  S.dur_in_range (fst (dur_of_us us)) (snd (dur_of_us us)) = true /\
  (us mod 1000000 <> 0 -> Model.Time.delta_to_json us = dur_json (fst (dur_of_us us)) (snd (dur_of_us us))).
Proof. exact model_duration_emit_accepted. Qed.
Print Assumptions C05_emit_duration.

(* K13: a plain double holding -0.0 is left out by to_dict; the canonical printer writes it and the parser
   reads +0.0 from betterproto's text *)
Theorem C05_emit_neg_zero_refuted :
  scalar_in_range TDouble (PFloat (2 ^ 63)) = true /\
  J.to_dict J.CAMEL false nz_sc nz_obj = J.JObj [] /\
  S.json_spec nz_js 0 nz_aval = Some (S.JObj [(nz_name, S.JFloat (2 ^ 63))]) /\
  model_emit_accepts nz_sc nz_js 0 nz_obj = Some (S.AMsg [S.FOne (S.AFloat 0)]) /\
  S.AMsg [S.FOne (S.AFloat 0)] <> nz_aval.
Proof. exact neg_zero_refuted_thm. Qed.
Print Assumptions C05_emit_neg_zero_refuted.

(* ====================================================================================== *)
(* ACCEPT, leaves: what betterproto (as modelled) reads                                    *)
(* ====================================================================================== *)
Theorem C05_accept_scalar_partial : forall sc t k p v a j,
  skind_of t = Some k -> pyty_fits (length (classes sc)) (length (enums sc)) t p = true ->
  scalar_in_range t v = true -> C04Def.nan_canonical v = true ->
  abs_scalar v = Some a -> S.spec_scalar k a = Some j ->
  J.scalar_from_json sc t p (unconv j) = Ok v.
Proof. exact model_scalar_accepts_canonical. Qed.
Print Assumptions C05_accept_scalar_partial.

Theorem C05_accept_timestamp : forall us,
  (dt_min_us <=? us) && (us <=? dt_max_us) = true ->
  J.iso_parse (S.ts_str (fst (ts_of_us us)) (snd (ts_of_us us))) = Ok us.
Proof. exact model_timestamp_accepts_canonical. Qed.
Print Assumptions C05_accept_timestamp.

Example C05_leaf_theorems_nonvacuous :
  skind_of TSFixed64 = Some S.KSFixed64 /\ scalar_in_range TSFixed64 (PInt (- 2 ^ 63)) = true /\
  scalar_in_range TFloat (PFloat f64_pos_inf) = true /\ C04Def.nan_canonical (PFloat f64_pos_inf) = true /\
  (dt_min_us <=? 1583020799250000) && (1583020799250000 <=? dt_max_us) = true /\
  J.ts_text 1583020799250000 =
    [x32; x30; x32; x30; x2d; x30; x32; x2d; x32; x39; x54; x32; x33; x3a; x35; x39; x3a; x35; x39; x2e; x32; x35; x30; x5a].
Proof. repeat split; vm_compute; reflexivity. Qed.

(* ====================================================================================== *)
(* the message-level statements evaluated on one message holding every leaf form          *)
(* ====================================================================================== *)
Example C05_emit_instance :
  option_map S.cv_of_aval (model_emit_accepts Ex.ex_sc Ex.ex_js 0 Ex.ex_obj) = Some (S.cv_of_aval Ex.ex_aval).
Proof. exact model_emit_instance. Qed.
Example C05_accept_instance :
  option_map S.cv_of_aval (model_reads_canonical Ex.ex_sc Ex.ex_js 0 (length builtin_classes) Ex.ex_aval) =
  Some (S.cv_of_aval Ex.ex_aval).
Proof. exact model_accept_instance. Qed.

(* ====================================================================================== *)
(* MESSAGE LEVEL                                                                           *)
(* ====================================================================================== *)
(* Side conditions (all decidable; Proofs/C05MsgDef.v, Proofs/C05AccDef.v):
     wf_schema sc            the class table is what the plugin / the field API builds (C04)
     js_matches off sc js    js (descriptor-pool side: proto names, json_name, kinds, cardinalities, oneofs, enum values)
                             describes the classes of sc from index off on; per field: the attribute is
                             safe_snake_case(proto name) and json_name_safe(proto name) [K3]; json_name = protoc's default;
                             json names of a class pairwise distinct; enum value names distinct and not "__..."
     emit_good sc o          = in_range sc o                                (C01 / C04)
                               && oneof_sel sc o   a selected oneof member holds a value (implied by C04's oneof_ok)
                               && nan_canon o      every NaN is float("nan")          (C04 cls nan-payload)
                               && no_neg_zero sc o no -0.0 in an implicit-presence float / double   [K13]
     keys_ok CAMEL sc        every camelCase key addresses its own field again (C04 / C19)
     wf_aval sc js off k a   a is a well-formed abstract value: ranges, UTF-8, one NaN, microsecond Timestamps / Durations,
                             <= 1 member per oneof, distinct map keys, [K13], [PLAIN-ZERO-TIME]
   abs_obj sc o is the abstract message the object denotes (harness/c05_reference.py abs_bp), model_emit_accepts and
   model_reads_canonical are the executable forms in Proofs/C05Model.v. *)

(* C05_emit: what to_dict(CAMEL) + json.dumps emits is accepted by the reference parser (as specified) as the same message *)
Theorem C05_emit : forall sc js off c o,
  wf_schema sc = true -> js_matches off sc js = true -> emit_good sc o = true ->
  ocls o = (c + off)%nat -> (c < length (S.jclasses js))%nat ->
  model_emit_accepts sc js c o = Some (abs_obj sc o).
Proof. intros sc js off c o WF JM. exact (emit_accepted sc js off JM WF c o). Qed.
Print Assumptions C05_emit.

(* ... under C04's hypothesis on the value (good = in_range, oneof_ok, dicts_ok, json_supported) plus K13's *)
Theorem C05_emit_json_supported : forall sc js off c o,
  wf_schema sc = true -> js_matches off sc js = true -> C04Def.good sc o = true -> no_neg_zero sc o = true ->
  ocls o = (c + off)%nat -> (c < length (S.jclasses js))%nat ->
  model_emit_accepts sc js c o = Some (abs_obj sc o).
Proof. exact emit_accepted_good. Qed.
Print Assumptions C05_emit_json_supported.

(* ... and against the reference-side schema the runtime schema determines (proto name = attribute name) *)
Theorem C05_emit_jschema_of : forall sc o,
  wf_schema sc = true -> js_matches 0 sc (jschema_of sc) = true -> emit_good sc o = true ->
  (ocls o < length (classes sc))%nat ->
  model_emit_accepts sc (jschema_of sc) (ocls o) o = Some (abs_obj sc o).
Proof. exact emit_accepted_self. Qed.
Print Assumptions C05_emit_jschema_of.

(* C05_accept: from_dict reads the canonical JSON of any well-formed abstract message back to that message *)
Theorem C05_accept : forall sc js off c a,
  wf_schema sc = true -> js_matches off sc js = true -> C04Def.keys_ok J.CAMEL sc = true ->
  wf_aval sc js off (S.JMsg c) a = true ->
  model_reads_canonical sc js c (c + off) a = Some a.
Proof. exact reads_canonical. Qed.
Print Assumptions C05_accept.

Theorem C05_accept_jschema_of : forall sc c a,
  wf_schema sc = true -> js_matches 0 sc (jschema_of sc) = true -> C04Def.keys_ok J.CAMEL sc = true ->
  wf_aval sc (jschema_of sc) 0 (S.JMsg c) a = true ->
  model_reads_canonical sc (jschema_of sc) c c a = Some a.
Proof. exact reads_canonical_self. Qed.
Print Assumptions C05_accept_jschema_of.

(* PLAIN-ZERO-TIME: {"ts": "1970-01-01T00:00:00Z"} for `google.protobuf.Timestamp ts = 1;` (not optional, not in a oneof):
   every other hypothesis holds, the reference prints the member, betterproto reads it and loses it again *)
Theorem C05_accept_plain_zero_time_refuted :
  wf_schema pz_sc = true /\ js_matches (length builtin_classes) pz_sc pz_js = true /\ C04Def.keys_ok J.CAMEL pz_sc = true /\
  wf_time 0 0 = true /\ wf_aval pz_sc pz_js (length builtin_classes) (S.JMsg 0) pz_aval = false /\
  S.json_spec pz_js 0 pz_aval = Some (S.JObj [(pz_name, S.JStr pz_text)]) /\
  model_reads_canonical pz_sc pz_js 0 (length builtin_classes) pz_aval = Some (S.AMsg [S.FAbsent]) /\
  S.AMsg [S.FAbsent] <> pz_aval.
Proof. exact accept_plain_zero_time_refuted_thm. Qed.
Print Assumptions C05_accept_plain_zero_time_refuted.

(* K13 on the accept side: the canonical {"x": -0.0} is read and then emitted as {} *)
Theorem C05_accept_neg_zero_refuted :
  wf_schema nz_sc = true /\ js_matches (length builtin_classes) nz_sc nz_js = true /\ C04Def.keys_ok J.CAMEL nz_sc = true /\
  wf_aval nz_sc nz_js (length builtin_classes) (S.JMsg 0) nz_aval = false /\
  model_reads_canonical nz_sc nz_js 0 (length builtin_classes) nz_aval = Some (S.AMsg [S.FOne (S.AFloat 0)]) /\
  S.AMsg [S.FOne (S.AFloat 0)] <> nz_aval.
Proof. exact accept_neg_zero_refuted_thm. Qed.
Print Assumptions C05_accept_neg_zero_refuted.

(* ---- non-vacuity ---- *)
(* a hand-written schema with every field shape (Proofs/C05MsgEx.v: repeated scalar / message / enum, map<string, message>,
   map<bool, Timestamp>, map<int32, enum>, optional message / Timestamp / scalar holding their defaults, BytesValue and
   FloatValue wrappers (empty bytes, NaN), a oneof of message / Duration / enum whose selected member is the zero span,
   plain and recursive nested messages, a plain negative Duration, an unnamed and an aliased enum number, non-ASCII text) *)
Example C05_msg_hypotheses_satisfiable :
  wf_schema Ex2.sc = true /\ js_matches (length builtin_classes) Ex2.sc Ex2.js = true /\
  C04Def.keys_ok J.CAMEL Ex2.sc = true /\ emit_good Ex2.sc Ex2.m = true /\
  ocls Ex2.m = (0 + length builtin_classes)%nat /\
  wf_aval Ex2.sc Ex2.js (length builtin_classes) (S.JMsg 0) ex2_aval = true.
Proof. exact ex2_hypotheses. Qed.
Example C05_msg_nonvacuous :
  model_emit_accepts Ex2.sc Ex2.js 0 Ex2.m = Some ex2_aval /\
  model_reads_canonical Ex2.sc Ex2.js 0 (length builtin_classes) ex2_aval = Some ex2_aval /\
  match J.to_dict J.CAMEL false Ex2.sc Ex2.m with J.JObj d => length d = 16%nat | _ => False end.
Proof. exact ex2_evaluates. Qed.
(* the generated instance above (Ex.ex_sc / Ex.ex_js / Ex.ex_obj / Ex.ex_aval, written by the harness's printers) meets the
   same hypotheses, abs_obj is the harness's abstraction on it, and jschema_of matches its own schema *)
Example C05_msg_instance_hypotheses :
  wf_schema Ex.ex_sc = true /\ js_matches (length builtin_classes) Ex.ex_sc Ex.ex_js = true /\
  C04Def.keys_ok J.CAMEL Ex.ex_sc = true /\ emit_good Ex.ex_sc Ex.ex_obj = true /\
  abs_obj Ex.ex_sc Ex.ex_obj = Ex.ex_aval /\
  wf_aval Ex.ex_sc Ex.ex_js (length builtin_classes) (S.JMsg 0) Ex.ex_aval = true /\
  js_matches 0 Ex.ex_sc (jschema_of Ex.ex_sc) = true.
Proof. repeat split; vm_compute; reflexivity. Qed.
