(* C05 — JSON output and input follow the canonical proto3 JSON mapping (reference:
   google.protobuf.json_format).  Property-level statements only; every proof is a single
   [exact] of a lemma from Proofs/C05*.v, followed by Print Assumptions.

   Specification: Spec/JsonMap.v (protoc_json_name, json_spec, json_accepts), validated against the
   reference by tie T3 of harness/props/c05.py.  *)
From BP Require Import Base.Prelude Model.Casing Spec.JsonMap.
From BP Require Import Proofs.C05Casing.

(* ---- key names ----
   betterproto's JSON key of a field whose .proto name is [name] (the plugin names the attribute
   safe_snake_case name, to_dict emits camel_case(attribute).rstrip("_")) is protoc's json_name for
   every lower_snake name without a digit directly followed by a letter and without a letter right
   after leading underscores. *)
Theorem protoc_json_name_agrees : forall name,
  json_name_safe name = true -> camel_key (safe_snake_case name) = protoc_json_name name.
Proof. exact protoc_json_name_agrees_thm. Qed.
Print Assumptions protoc_json_name_agrees.

(* K3: names written with capitals: HTTPStatus -> "httpStatus" (protoc: "HTTPStatus"), fooBAR -> "fooBar", FooBar -> "fooBar" *)
Theorem protoc_json_name_mixed_case_refuted :
  proto_ident n_HTTPStatus = true /\ bp_json_key n_HTTPStatus <> protoc_json_name n_HTTPStatus /\
  proto_ident n_fooBAR = true /\ bp_json_key n_fooBAR <> protoc_json_name n_fooBAR /\
  proto_ident n_FooBar = true /\ bp_json_key n_FooBar <> protoc_json_name n_FooBar.
Proof. exact json_name_mixed_case_refuted_thm. Qed.
Print Assumptions protoc_json_name_mixed_case_refuted.

(* K3: lower_snake names outside the side condition: a1b -> "a1B" (protoc: "a1b"), _foo -> "foo" (protoc: "Foo") *)
Theorem protoc_json_name_lower_snake_refuted :
  (lower_snake n_a1b = true /\ no_leading_us_letter n_a1b = true /\ bp_json_key n_a1b <> protoc_json_name n_a1b) /\
  (lower_snake n__foo = true /\ no_digit_letter n__foo = true /\ bp_json_key n__foo <> protoc_json_name n__foo).
Proof. exact json_name_lower_snake_refuted_thm. Qed.
Print Assumptions protoc_json_name_lower_snake_refuted.

(* the side condition is exact (safe <-> keys agree) on every string of length <= 6 over {a, b, 1, _} *)
Theorem protoc_json_name_side_condition_exact_len6 :
  all_strings [x61; x62; x31; x5f] 6 [] safe_exact = true.
Proof. exact json_name_safe_exact_len6. Qed.
Print Assumptions protoc_json_name_side_condition_exact_len6.

Example protoc_json_name_agrees_nonvacuous :
  json_name_safe n_foo_bar_2 = true /\ bp_json_key n_foo_bar_2 = [x66; x6f; x6f; x42; x61; x72; x32].
Proof. exact json_name_safe_ex. Qed.
