(* C05 — JSON output and input follow the canonical proto3 JSON mapping (reference:
   google.protobuf.json_format).  Property-level statements only; every proof is a single
   [exact] of a lemma from Proofs/C05*.v, followed by Print Assumptions.

   Specification: Spec/JsonMap.v (protoc_json_name, json_spec, json_accepts), validated against the
   reference by tie T3 of harness/props/c05.py.  Model of betterproto's to_dict / from_dict:
   Model/Json.v (property C04's mirror, tied to the code by C04's correspondence).

   What is proved, and what is not:
   * key names: betterproto's key = protoc's json_name under the decidable condition json_name_safe,
     witnesses where they differ (K3), exactness of the condition on short names;
   * leaves, both directions, for ALL in-range values: every scalar betterproto emits is literally the canonical
     form (C05_emit_scalar_canonical), the canonical form is accepted by the specified reference parser as the
     same value (C05_spec_*_roundtrip), betterproto's reader takes the canonical form back (C05_accept_scalar);
     Timestamp / Duration strings at microsecond resolution likewise;
   * K13: -0.0 in an implicit-presence field (C05_emit_neg_zero_refuted).
   * message level (proved; definitions in Proofs/C05MsgDef.v and Proofs/C05AccDef.v):
       C05_emit    for ANY object of ANY well-formed schema matched by the reference-side schema (js_matches: json_name_safe
                   on every proto field name = K3, distinct json names, same kinds / cardinalities / oneofs / enums), in range,
                   selected oneof members set, NaN-canonical and without -0.0 in an implicit float (K13):
                     the text of to_dict(CAMEL) is accepted by json_accepts as the abstract message the object denotes
                   (fields, optional, repeated, maps, wrappers, oneofs, enums, nested / recursive messages, Timestamp, Duration);
       C05_accept  for ANY well-formed abstract message (wf_aval: microsecond resolution, K13, and PLAIN-ZERO-TIME below):
                     from_dict reads the canonical JSON json_spec writes back to that message;
       both also for the reference-side schema a runtime schema determines (jschema_of), and C05_emit under C04's [good];
       C05_accept_plain_zero_time_refuted: a PRESENT Timestamp == epoch / Duration == 0 in a field that is neither optional
                   nor a oneof member comes back absent (betterproto keeps no presence for such a field).  wf_aval leaves out
                   exactly: K13, this class, values below microsecond resolution (the quantifier of C05) and Durations a
                   fraction of a second beyond +-315 576 000 000 s (the bound of WellFormed.in_range is on the whole span);
       C05_msg_hypotheses_satisfiable / C05_msg_nonvacuous: one hand-written schema with every field shape.
   * generated classes (last section; Model/C05Desc.v, Proofs/C05Desc{A,B,C,Wit}.v): js_matches is no longer a hypothesis for
     what the plugin emits.  C05_generated_js_matches: for every descriptor set D with protoc_wf, names_ok (field naming =
     the real safe_snake_case), bridge_ok and the decidable name-level condition json_names_ok, the generated schema is
     matched (offset 11) by jschema_of_descriptor D, the reference-side reading of the SAME descriptor set;
     C05_generated_emit / C05_generated_accept: the conclusions of C05_emit / C05_accept for every generated message class;
     C05_generated_json_names_refuted (K3 on a descriptor) and C05_generated_enum_prefix_refuted (the plugin strips the
     enum's name from value names, JSON carries member names: a real defect in both directions). *)
From BP Require Import Base.Prelude Model.Types Model.Float Model.Object Model.WellFormed Model.TimeCore Model.Casing.
From BP Require Import Spec.Time.
From BP Require Model.Json Model.Time Spec.JsonMap.
From BP Require Proofs.C04Def.
From BP Require Import Proofs.C05Casing Proofs.C05Leaf Proofs.C05Model.
From BP Require Import Proofs.C05MsgDef Proofs.C05AccDef Proofs.C05MsgEmit Proofs.C05AccMain Proofs.C05MsgFinal Proofs.C05MsgEx.

Module J := Model.Json.
Module S := Spec.JsonMap.

(* ====================================================================================== *)
(* key names                                                                               *)
(* ====================================================================================== *)
(* betterproto's JSON key of a field whose .proto name is [name] (the plugin names the attribute
   safe_snake_case name, to_dict emits camel_case(attribute).rstrip("_")) is protoc's json_name for
   every lower_snake name without a digit directly followed by a letter and without a letter right
   after leading underscores. *)
Theorem protoc_json_name_agrees : forall name,
  json_name_safe name = true -> camel_key (safe_snake_case name) = S.protoc_json_name name.
Proof. exact protoc_json_name_agrees_thm. Qed.
Print Assumptions protoc_json_name_agrees.

(* K3: names written with capitals: HTTPStatus -> "httpStatus" (protoc: "HTTPStatus"), fooBAR -> "fooBar", FooBar -> "fooBar" *)
Theorem protoc_json_name_mixed_case_refuted :
  proto_ident n_HTTPStatus = true /\ bp_json_key n_HTTPStatus <> S.protoc_json_name n_HTTPStatus /\
  proto_ident n_fooBAR = true /\ bp_json_key n_fooBAR <> S.protoc_json_name n_fooBAR /\
  proto_ident n_FooBar = true /\ bp_json_key n_FooBar <> S.protoc_json_name n_FooBar.
Proof. exact json_name_mixed_case_refuted_thm. Qed.
Print Assumptions protoc_json_name_mixed_case_refuted.

(* K3: lower_snake names outside the side condition: a1b -> "a1B" (protoc: "a1b"), _foo -> "foo" (protoc: "Foo") *)
Theorem protoc_json_name_lower_snake_refuted :
  (lower_snake n_a1b = true /\ no_leading_us_letter n_a1b = true /\ bp_json_key n_a1b <> S.protoc_json_name n_a1b) /\
  (lower_snake n__foo = true /\ no_digit_letter n__foo = true /\ bp_json_key n__foo <> S.protoc_json_name n__foo).
Proof. exact json_name_lower_snake_refuted_thm. Qed.
Print Assumptions protoc_json_name_lower_snake_refuted.

(* the side condition is exact (safe <-> keys agree) on every string of length <= 6 over {a, b, 1, _} *)
Theorem protoc_json_name_side_condition_exact_len6 :
  all_strings [x61; x62; x31; x5f] 6 [] safe_exact = true.
Proof. exact json_name_safe_exact_len6. Qed.
Print Assumptions protoc_json_name_side_condition_exact_len6.

Example protoc_json_name_agrees_nonvacuous :
  json_name_safe n_foo_bar_2 = true /\ bp_json_key n_foo_bar_2 = [x66; x6f; x6f; x42; x61; x72; x32].
Proof. exact json_name_safe_ex. Qed.

(* ====================================================================================== *)
(* the specification is coherent: canonical leaves are accepted as the same value           *)
(* ====================================================================================== *)
Theorem C05_spec_scalar_roundtrip : forall k v, wf_scalar k v = true ->
  exists j, S.spec_scalar k v = Some j /\ S.acc_scalar k j = Some v.
Proof. exact spec_scalar_accepted. Qed.
Print Assumptions C05_spec_scalar_roundtrip.

Theorem C05_spec_map_key_roundtrip : forall k v, wf_key k v = true ->
  exists s, S.key_str k v = Some s /\ S.acc_key k s = Some v.
Proof. exact spec_key_accepted. Qed.
Print Assumptions C05_spec_map_key_roundtrip.

Theorem C05_spec_base64_roundtrip : forall bs, S.b64_decode (S.b64_encode bs) = Some bs.
Proof. exact b64_decode_encode. Qed.
Print Assumptions C05_spec_base64_roundtrip.

Theorem C05_spec_timestamp_roundtrip : forall s u,
  S.TS_MIN_S <= s <= S.TS_MAX_S -> 0 <= u < 1000000 ->
  S.ts_parse (S.ts_str s (u * 1000)) = Some (s, u * 1000).
Proof. exact spec_timestamp_accepted. Qed.
Print Assumptions C05_spec_timestamp_roundtrip.

Theorem C05_spec_duration_roundtrip : forall d,
  - (DUR_MAX_S * 1000000) <= d <= DUR_MAX_S * 1000000 ->
  let '(s, n) := dur_of_us d in
  dur_parse (dur_json s n) = Some (s, n) /\ S.dur_in_range s n = true.
Proof. exact spec_duration_accepted. Qed.
Print Assumptions C05_spec_duration_roundtrip.

Example C05_spec_scalar_roundtrip_nonvacuous :
  wf_scalar S.KUInt64 (S.AInt (2 ^ 64 - 1)) = true /\ wf_scalar S.KFloat (S.AFloat f64_neg_inf) = true /\
  wf_scalar S.KDouble (S.AFloat S.nan_bits) = true /\ wf_key S.KBool (S.ABool true) = true /\
  S.spec_scalar S.KUInt64 (S.AInt (2 ^ 64 - 1)) =
    Some (S.JStr [x31; x38; x34; x34; x36; x37; x34; x34; x30; x37; x33; x37; x30; x39; x35; x35; x31; x36; x31; x35]).
Proof. repeat split; vm_compute; reflexivity. Qed.

(* ====================================================================================== *)
(* EMIT, leaves: what betterproto (as modelled) writes                                     *)
(* ====================================================================================== *)
(* every in-range scalar is written in exactly the canonical form (64-bit integers as decimal strings,
   base64 with padding, "NaN" / "Infinity" / "-Infinity", plain numbers otherwise).  The 64-bit table and the
   three float strings are the regenerated ones (gen/Tables.v): a changed table breaks this proof. *)
Theorem C05_emit_scalar_canonical : forall sc t k p v,
  skind_of t = Some k -> scalar_in_range t v = true ->
  exists a, abs_scalar v = Some a /\ conv (J.scalar_to_json sc t p v) = S.spec_scalar k a.
Proof. exact model_scalar_is_canonical. Qed.
Print Assumptions C05_emit_scalar_canonical.

(* ... and is therefore accepted by the reference parser (as specified) as the same value *)
Theorem C05_emit_scalar_partial : forall sc t k p v,
  skind_of t = Some k -> scalar_in_range t v = true -> C04Def.nan_canonical v = true ->
  exists a j, abs_scalar v = Some a /\ conv (J.scalar_to_json sc t p v) = Some j /\ S.acc_scalar k j = Some a.
Proof. exact model_scalar_emit_accepted. Qed.
Print Assumptions C05_emit_scalar_partial.

(* Timestamp: RFC 3339 UTC "Z" with 0/3/6 fractional digits = the canonical string; accepted as (seconds, nanos) of the instant *)
Theorem C05_emit_timestamp : forall us,
  (dt_min_us <=? us) && (us <=? dt_max_us) = true ->
  J.ts_text us = S.ts_str (fst (ts_of_us us)) (snd (ts_of_us us)) /\
  S.ts_parse (J.ts_text us) = Some (ts_of_us us) /\
  S.ts_in_range (fst (ts_of_us us)) (snd (ts_of_us us)) = true.
Proof. intros us R. split; [apply model_timestamp_is_canonical | apply model_timestamp_emit_accepted, R]. Qed.
Print Assumptions C05_emit_timestamp.

(* Duration: decimal seconds with "s", accepted as the Duration of the span; canonical except that whole seconds
   carry ".000" *)
Theorem C05_emit_duration : forall us,
  (- 315576000000000000 <=? us) && (us <=? 315576000000000000) = true ->
  dur_parse (Model.Time.delta_to_json us) = Some (dur_of_us us) /\
  S.dur_in_range (fst (dur_of_us us)) (snd (dur_of_us us)) = true /\
  (us mod 1000000 <> 0 -> Model.Time.delta_to_json us = dur_json (fst (dur_of_us us)) (snd (dur_of_us us))).
Proof. exact model_duration_emit_accepted. Qed.
Print Assumptions C05_emit_duration.

(* K13: a plain double holding -0.0 is left out by to_dict; the canonical printer writes it and the parser
   reads +0.0 from betterproto's text *)
Theorem C05_emit_neg_zero_refuted :
  scalar_in_range TDouble (PFloat (2 ^ 63)) = true /\
  J.to_dict J.CAMEL false nz_sc nz_obj = J.JObj [] /\
  S.json_spec nz_js 0 nz_aval = Some (S.JObj [(nz_name, S.JFloat (2 ^ 63))]) /\
  model_emit_accepts nz_sc nz_js 0 nz_obj = Some (S.AMsg [S.FOne (S.AFloat 0)]) /\
  S.AMsg [S.FOne (S.AFloat 0)] <> nz_aval.
Proof. exact neg_zero_refuted_thm. Qed.
Print Assumptions C05_emit_neg_zero_refuted.

(* ====================================================================================== *)
(* ACCEPT, leaves: what betterproto (as modelled) reads                                    *)
(* ====================================================================================== *)
Theorem C05_accept_scalar_partial : forall sc t k p v a j,
  skind_of t = Some k -> pyty_fits (length (classes sc)) (length (enums sc)) t p = true ->
  scalar_in_range t v = true -> C04Def.nan_canonical v = true ->
  abs_scalar v = Some a -> S.spec_scalar k a = Some j ->
  J.scalar_from_json sc t p (unconv j) = Ok v.
Proof. exact model_scalar_accepts_canonical. Qed.
Print Assumptions C05_accept_scalar_partial.

Theorem C05_accept_timestamp : forall us,
  (dt_min_us <=? us) && (us <=? dt_max_us) = true ->
  J.iso_parse (S.ts_str (fst (ts_of_us us)) (snd (ts_of_us us))) = Ok us.
Proof. exact model_timestamp_accepts_canonical. Qed.
Print Assumptions C05_accept_timestamp.

Example C05_leaf_theorems_nonvacuous :
  skind_of TSFixed64 = Some S.KSFixed64 /\ scalar_in_range TSFixed64 (PInt (- 2 ^ 63)) = true /\
  scalar_in_range TFloat (PFloat f64_pos_inf) = true /\ C04Def.nan_canonical (PFloat f64_pos_inf) = true /\
  (dt_min_us <=? 1583020799250000) && (1583020799250000 <=? dt_max_us) = true /\
  J.ts_text 1583020799250000 =
    [x32; x30; x32; x30; x2d; x30; x32; x2d; x32; x39; x54; x32; x33; x3a; x35; x39; x3a; x35; x39; x2e; x32; x35; x30; x5a].
Proof. repeat split; vm_compute; reflexivity. Qed.

(* ====================================================================================== *)
(* the message-level statements evaluated on one message holding every leaf form          *)
(* ====================================================================================== *)
Example C05_emit_instance :
  option_map S.cv_of_aval (model_emit_accepts Ex.ex_sc Ex.ex_js 0 Ex.ex_obj) = Some (S.cv_of_aval Ex.ex_aval).
Proof. exact model_emit_instance. Qed.
Example C05_accept_instance :
  option_map S.cv_of_aval (model_reads_canonical Ex.ex_sc Ex.ex_js 0 (length builtin_classes) Ex.ex_aval) =
  Some (S.cv_of_aval Ex.ex_aval).
Proof. exact model_accept_instance. Qed.

(* ====================================================================================== *)
(* MESSAGE LEVEL                                                                           *)
(* ====================================================================================== *)
(* Side conditions (all decidable; Proofs/C05MsgDef.v, Proofs/C05AccDef.v):
     wf_schema sc            the class table is what the plugin / the field API builds (C04)
     js_matches off sc js    js (descriptor-pool side: proto names, json_name, kinds, cardinalities, oneofs, enum values)
                             describes the classes of sc from index off on; per field: the attribute is
                             safe_snake_case(proto name) and json_name_safe(proto name) [K3]; json_name = protoc's default;
                             json names of a class pairwise distinct; enum value names distinct and not "__..."
     emit_good sc o          = in_range sc o                                (C01 / C04)
                               && oneof_sel sc o   a selected oneof member holds a value (implied by C04's oneof_ok)
                               && nan_canon o      every NaN is float("nan")          (C04 cls nan-payload)
                               && no_neg_zero sc o no -0.0 in an implicit-presence float / double   [K13]
     keys_ok CAMEL sc        every camelCase key addresses its own field again (C04 / C19)
     wf_aval sc js off k a   a is a well-formed abstract value: ranges, UTF-8, one NaN, microsecond Timestamps / Durations,
                             <= 1 member per oneof, distinct map keys, [K13], [PLAIN-ZERO-TIME]
   abs_obj sc o is the abstract message the object denotes (harness/c05_reference.py abs_bp), model_emit_accepts and
   model_reads_canonical are the executable forms in Proofs/C05Model.v. *)

(* C05_emit: what to_dict(CAMEL) + json.dumps emits is accepted by the reference parser (as specified) as the same message *)
Theorem C05_emit : forall sc js off c o,
  wf_schema sc = true -> js_matches off sc js = true -> emit_good sc o = true ->
  ocls o = (c + off)%nat -> (c < length (S.jclasses js))%nat ->
  model_emit_accepts sc js c o = Some (abs_obj sc o).
Proof. intros sc js off c o WF JM. exact (emit_accepted sc js off JM WF c o). Qed.
Print Assumptions C05_emit.

(* ... under C04's hypothesis on the value (good = in_range, oneof_ok, dicts_ok, json_supported) plus K13's *)
Theorem C05_emit_json_supported : forall sc js off c o,
  wf_schema sc = true -> js_matches off sc js = true -> C04Def.good sc o = true -> no_neg_zero sc o = true ->
  ocls o = (c + off)%nat -> (c < length (S.jclasses js))%nat ->
  model_emit_accepts sc js c o = Some (abs_obj sc o).
Proof. exact emit_accepted_good. Qed.
Print Assumptions C05_emit_json_supported.

(* ... and against the reference-side schema the runtime schema determines (proto name = attribute name) *)
Theorem C05_emit_jschema_of : forall sc o,
  wf_schema sc = true -> js_matches 0 sc (jschema_of sc) = true -> emit_good sc o = true ->
  (ocls o < length (classes sc))%nat ->
  model_emit_accepts sc (jschema_of sc) (ocls o) o = Some (abs_obj sc o).
Proof. exact emit_accepted_self. Qed.
Print Assumptions C05_emit_jschema_of.

(* C05_accept: from_dict reads the canonical JSON of any well-formed abstract message back to that message *)
Theorem C05_accept : forall sc js off c a,
  wf_schema sc = true -> js_matches off sc js = true -> C04Def.keys_ok J.CAMEL sc = true ->
  wf_aval sc js off (S.JMsg c) a = true ->
  model_reads_canonical sc js c (c + off) a = Some a.
Proof. exact reads_canonical. Qed.
Print Assumptions C05_accept.

Theorem C05_accept_jschema_of : forall sc c a,
  wf_schema sc = true -> js_matches 0 sc (jschema_of sc) = true -> C04Def.keys_ok J.CAMEL sc = true ->
  wf_aval sc (jschema_of sc) 0 (S.JMsg c) a = true ->
  model_reads_canonical sc (jschema_of sc) c c a = Some a.
Proof. exact reads_canonical_self. Qed.
Print Assumptions C05_accept_jschema_of.

(* PLAIN-ZERO-TIME: {"ts": "1970-01-01T00:00:00Z"} for `google.protobuf.Timestamp ts = 1;` (not optional, not in a oneof):
   every other hypothesis holds, the reference prints the member, betterproto reads it and loses it again *)
Theorem C05_accept_plain_zero_time_refuted :
  wf_schema pz_sc = true /\ js_matches (length builtin_classes) pz_sc pz_js = true /\ C04Def.keys_ok J.CAMEL pz_sc = true /\
  wf_time 0 0 = true /\ wf_aval pz_sc pz_js (length builtin_classes) (S.JMsg 0) pz_aval = false /\
  S.json_spec pz_js 0 pz_aval = Some (S.JObj [(pz_name, S.JStr pz_text)]) /\
  model_reads_canonical pz_sc pz_js 0 (length builtin_classes) pz_aval = Some (S.AMsg [S.FAbsent]) /\
  S.AMsg [S.FAbsent] <> pz_aval.
Proof. exact accept_plain_zero_time_refuted_thm. Qed.
Print Assumptions C05_accept_plain_zero_time_refuted.

(* K13 on the accept side: the canonical {"x": -0.0} is read and then emitted as {} *)
Theorem C05_accept_neg_zero_refuted :
  wf_schema nz_sc = true /\ js_matches (length builtin_classes) nz_sc nz_js = true /\ C04Def.keys_ok J.CAMEL nz_sc = true /\
  wf_aval nz_sc nz_js (length builtin_classes) (S.JMsg 0) nz_aval = false /\
  model_reads_canonical nz_sc nz_js 0 (length builtin_classes) nz_aval = Some (S.AMsg [S.FOne (S.AFloat 0)]) /\
  S.AMsg [S.FOne (S.AFloat 0)] <> nz_aval.
Proof. exact accept_neg_zero_refuted_thm. Qed.
Print Assumptions C05_accept_neg_zero_refuted.

(* ---- non-vacuity ---- *)
(* a hand-written schema with every field shape (Proofs/C05MsgEx.v: repeated scalar / message / enum, map<string, message>,
   map<bool, Timestamp>, map<int32, enum>, optional message / Timestamp / scalar holding their defaults, BytesValue and
   FloatValue wrappers (empty bytes, NaN), a oneof of message / Duration / enum whose selected member is the zero span,
   plain and recursive nested messages, a plain negative Duration, an unnamed and an aliased enum number, non-ASCII text) *)
Example C05_msg_hypotheses_satisfiable :
  wf_schema Ex2.sc = true /\ js_matches (length builtin_classes) Ex2.sc Ex2.js = true /\
  C04Def.keys_ok J.CAMEL Ex2.sc = true /\ emit_good Ex2.sc Ex2.m = true /\
  ocls Ex2.m = (0 + length builtin_classes)%nat /\
  wf_aval Ex2.sc Ex2.js (length builtin_classes) (S.JMsg 0) ex2_aval = true.
Proof. exact ex2_hypotheses. Qed.
Example C05_msg_nonvacuous :
  model_emit_accepts Ex2.sc Ex2.js 0 Ex2.m = Some ex2_aval /\
  model_reads_canonical Ex2.sc Ex2.js 0 (length builtin_classes) ex2_aval = Some ex2_aval /\
  match J.to_dict J.CAMEL false Ex2.sc Ex2.m with J.JObj d => length d = 16%nat | _ => False end.
Proof. exact ex2_evaluates. Qed.
(* the generated instance above (Ex.ex_sc / Ex.ex_js / Ex.ex_obj / Ex.ex_aval, written by the harness's printers) meets the
   same hypotheses, abs_obj is the harness's abstraction on it, and jschema_of matches its own schema *)
Example C05_msg_instance_hypotheses :
  wf_schema Ex.ex_sc = true /\ js_matches (length builtin_classes) Ex.ex_sc Ex.ex_js = true /\
  C04Def.keys_ok J.CAMEL Ex.ex_sc = true /\ emit_good Ex.ex_sc Ex.ex_obj = true /\
  abs_obj Ex.ex_sc Ex.ex_obj = Ex.ex_aval /\
  wf_aval Ex.ex_sc Ex.ex_js (length builtin_classes) (S.JMsg 0) Ex.ex_aval = true /\
  js_matches 0 Ex.ex_sc (jschema_of Ex.ex_sc) = true.
Proof. repeat split; vm_compute; reflexivity. Qed.

(* ====================================================================================== *)
(* GENERATED CLASSES: js_matches discharged from the descriptor                            *)
(* ====================================================================================== *)
(* The last schema-level hypothesis of the chain (C03_generated_json_canonical kept `js_matches` as a hypothesis because the
   class table holds the pythonised names only).  Model/C05Desc.v reads the SAME descriptor set D the plugin compiles the way
   the reference does:
     jschema_of_descriptor D   one JSON class per message of a generated package (map-entry types excepted), in the order
                               schema_of_table numbers the message classes - so JSON class c is runtime class c + NB, NB = 11
                               bundled classes, and the synthetic map-Entry classes behind them have no JSON class (a map is
                               one field of cardinality MapOf key); per field the PROTO name, protoc's default json_name
                               (protoc_json_name; the descriptor model has no `[json_name = ...]` option), the kind by
                               descriptor.proto's type number / well-known type NAME / position of the referenced message
                               or enum, cardinality, oneof id numbered as schema_of_table numbers groups; per enum its
                               PROTO value names;
     json_names_ok emn D       (a) every field name json_name_safe [K3; protoc does not guarantee it]
                               (b) json names distinct per message [protoc guarantees it for proto3 files]
                               (c) enum value names distinct [protoc guarantees it]  (d) none starts with "__" [not guaranteed]
                               (e) the plugin leaves every enum value name alone: emn v (flattened enum name) = v [NOT
                                   guaranteed: pythonize_enum_member_name strips the enum's own name, `COLOR_RED` of
                                   `enum Color` becomes member RED - C05_generated_enum_prefix_refuted, a REAL defect in both
                                   directions, replayed against the real plugin and google.protobuf by stage T5 of the check].
   field_name is the real safe_snake_case; class_name and enum_member_name stay universally quantified (names_ok constrains
   them), json_names_ok (e) is the only place the enum naming enters.  The runtime side conditions protoc_wf / names_ok /
   bridge_ok are C03's; gen_keys_ok CAMEL (C03_keys_residual_refuted) stays the premise of the accept direction. *)
From BP Require Import Spec.Descriptor Model.Plugin Proofs.PluginP Proofs.PluginWitP Model.C03Bridge Model.C03Chain Proofs.C03BridgeWit.
From BP Require Import Model.C05Desc Proofs.C05DescC Proofs.C05DescWit.
From Coq Require String.
Import String.StringSyntax.

Theorem C05_generated_js_matches :
  forall (class_name : str -> str) (enum_member_name : str -> str -> str) (D : descriptor),
    protoc_wf D = true -> names_ok Casing.safe_snake_case class_name enum_member_name D = true -> bridge_ok D = true ->
    json_names_ok enum_member_name D = true ->
    exists t, class_table_of Casing.safe_snake_case class_name enum_member_name D = Some t
      /\ reflect (compile Casing.safe_snake_case class_name enum_member_name D) = Ok t
      /\ List.length (S.jclasses (jschema_of_descriptor D)) = n_msgs t
      /\ js_matches NB (schema_of_table t) (jschema_of_descriptor D) = true.
Proof. exact generated_js_matches. Qed.
Print Assumptions C05_generated_js_matches.

(* for everything the plugin emits: what a generated class writes with to_dict(CAMEL) + json.dumps is accepted by the specified
   reference parser FOR THE SAME .proto as the abstract message the object denotes (every generated message class c < n_msgs t,
   every emit_good value) ... *)
Theorem C05_generated_emit :
  forall (class_name : str -> str) (enum_member_name : str -> str -> str) (D : descriptor),
    protoc_wf D = true -> names_ok Casing.safe_snake_case class_name enum_member_name D = true -> bridge_ok D = true ->
    json_names_ok enum_member_name D = true ->
    exists t, reflect (compile Casing.safe_snake_case class_name enum_member_name D) = Ok t /\
      let sc := schema_of_table t in
      let js := jschema_of_descriptor D in
      forall c o, emit_good sc o = true -> ocls o = (c + NB)%nat -> (c < n_msgs t)%nat ->
        model_emit_accepts sc js c o = Some (abs_obj sc o).
Proof. exact generated_emit. Qed.
Print Assumptions C05_generated_emit.

(* ... and the generated class reads the canonical JSON the reference writes for any well-formed abstract message of that
   .proto back to that message *)
Theorem C05_generated_accept :
  forall (class_name : str -> str) (enum_member_name : str -> str -> str) (D : descriptor),
    protoc_wf D = true -> names_ok Casing.safe_snake_case class_name enum_member_name D = true -> bridge_ok D = true ->
    json_names_ok enum_member_name D = true -> gen_keys_ok J.CAMEL Casing.safe_snake_case D = true ->
    exists t, reflect (compile Casing.safe_snake_case class_name enum_member_name D) = Ok t /\
      let sc := schema_of_table t in
      let js := jschema_of_descriptor D in
      forall c a, wf_aval sc js NB (S.JMsg c) a = true -> model_reads_canonical sc js c (c + NB) a = Some a.
Proof. exact generated_accept. Qed.
Print Assumptions C05_generated_accept.

(* json_names_ok cannot be dropped (K3 at the level of descriptors): `message M { int32 HTTPStatus = 1; int32 a1b = 2; }`
   meets every other premise with the real naming; M(http_status=7) is written {"httpStatus": 7}, the reference rejects it
   (canonical: {"HTTPStatus": 7}); from_dict does read the canonical form, what it re-emits is rejected again *)
Theorem C05_generated_json_names_refuted :
  real_premises D_k3json = true
  /\ json_names_ok Casing.pythonize_enum_member_name D_k3json = false /\ json_names_ok (fun n _ => n) D_k3json = false
  /\ S_k3json = schema_of_table (real_table D_k3json) /\ JS_k3json = jschema_of_descriptor D_k3json
  /\ js_matches NB S_k3json JS_k3json = false
  /\ emit_good S_k3json o_k3json = true
  /\ J.to_dict J.CAMEL false S_k3json o_k3json = J.JObj [(J.JStr (b "httpStatus"), J.JInt 7)]
  /\ model_emit_accepts S_k3json JS_k3json 0 o_k3json = None
  /\ abs_obj S_k3json o_k3json = S.AMsg [S.FOne (S.AInt 7); S.FOne (S.AInt 0)]
  /\ wf_aval S_k3json JS_k3json NB (S.JMsg 0) (abs_obj S_k3json o_k3json) = true
  /\ S.json_spec JS_k3json 0 (abs_obj S_k3json o_k3json) = Some (S.JObj [(b "HTTPStatus", S.JNum 7)])
  /\ J.from_dict_cls S_k3json 11 (unconv (S.JObj [(b "HTTPStatus", S.JNum 7)])) = Ok (Obj 11 [PInt 7; PPlaceholder] true [] [])
  /\ model_reads_canonical S_k3json JS_k3json 0 (0 + NB) (abs_obj S_k3json o_k3json) = None.
Proof. exact json_names_needed. Qed.
Print Assumptions C05_generated_json_names_refuted.

(* conjunct (e) is a REAL defect of the plugin + runtime pair, not a modelling artefact: `enum Color { COLOR_UNSPECIFIED = 0;
   COLOR_RED = 1; } message M { Color c = 1; }` - every other premise holds and json_names_ok holds for a plugin that keeps the
   value names; with the real pythonize_enum_member_name the members are UNSPECIFIED / RED, M(c=Color.RED) is written
   {"c": "RED"} (reference: "Invalid enum value RED"), and from_dict raises ValueError on the canonical {"c": "COLOR_RED"} *)
Theorem C05_generated_enum_prefix_refuted :
  real_premises D_enum_prefix = true
  /\ json_names_ok (fun n _ => n) D_enum_prefix = true /\ json_names_ok Casing.pythonize_enum_member_name D_enum_prefix = false
  /\ S_enum_prefix = schema_of_table (real_table D_enum_prefix) /\ JS_enum_prefix = jschema_of_descriptor D_enum_prefix
  /\ map emembers (enums S_enum_prefix) = [[(b "UNSPECIFIED", 0); (b "RED", 1)]]
  /\ S.jenums JS_enum_prefix = [[(b "COLOR_UNSPECIFIED", 0); (b "COLOR_RED", 1)]]
  /\ js_matches NB S_enum_prefix JS_enum_prefix = false
  /\ emit_good S_enum_prefix o_enum_prefix = true
  /\ J.to_dict J.CAMEL false S_enum_prefix o_enum_prefix = J.JObj [(J.JStr (b "c"), J.JStr (b "RED"))]
  /\ model_emit_accepts S_enum_prefix JS_enum_prefix 0 o_enum_prefix = None
  /\ abs_obj S_enum_prefix o_enum_prefix = S.AMsg [S.FOne (S.AEnum 1)]
  /\ wf_aval S_enum_prefix JS_enum_prefix NB (S.JMsg 0) (abs_obj S_enum_prefix o_enum_prefix) = true
  /\ S.json_spec JS_enum_prefix 0 (abs_obj S_enum_prefix o_enum_prefix) = Some (S.JObj [(b "c", S.JStr (b "COLOR_RED"))])
  /\ J.from_dict_cls S_enum_prefix 11 (unconv (S.JObj [(b "c", S.JStr (b "COLOR_RED"))])) = Err EValue
  /\ model_reads_canonical S_enum_prefix JS_enum_prefix 0 (0 + NB) (abs_obj S_enum_prefix o_enum_prefix) = None.
Proof. exact enum_prefix_refuted. Qed.
Print Assumptions C05_generated_enum_prefix_refuted.

(* ---- non-vacuity: D_ok, the bridge's example descriptor (Proofs/PluginWitP.v), with the REAL naming functions ---- *)
(* every premise of the three theorems holds; the table and the schema are the bridge's T_ok / S_ok *)
Example C05_generated_premises :
  protoc_wf D_ok && names_ok Casing.safe_snake_case Casing.pascal_case Casing.pythonize_enum_member_name D_ok && bridge_ok D_ok
    && gen_keys_ok J.CAMEL Casing.safe_snake_case D_ok = true
  /\ json_names_ok Casing.pythonize_enum_member_name D_ok = true
  /\ class_table_of Casing.safe_snake_case Casing.pascal_case Casing.pythonize_enum_member_name D_ok = Some T_ok
  /\ schema_of_table T_ok = S_ok /\ JS_ok = jschema_of_descriptor D_ok /\ n_msgs T_ok = 2%nat.
Proof. vm_compute. repeat split; reflexivity. Qed.
(* the reference-side schema of D_ok is the expected non-trivial one (json name byName, a map of messages, a oneof of a scalar
   and an enum, a proto3 optional, a repeated message, Timestamp, a wrapper, a map of enums, a recursive reference) *)
Example C05_generated_jschema :
  map (fun c => List.length c) (S.jclasses JS_ok) = [8; 2]%nat /\ List.length (S.jenums JS_ok) = 2%nat
  /\ map (fun f => (S.jf_json f, S.jf_kind f, S.jf_card f, S.jf_oneof f)) (S.jclass JS_ok 0) =
     [(b "byName", S.JMsg 1, S.MapOf S.KString, None); (b "a", S.JScalar S.KInt32, S.Explicit, Some 0%nat);
      (b "c", S.JEnum 0, S.Explicit, Some 0%nat); (b "od", S.JScalar S.KDouble, S.Explicit, None);
      (b "rs", S.JMsg 1, S.Repeated, None); (b "ts", S.JTimestamp, S.Explicit, None);
      (b "bv", S.JWrapper S.KBool, S.Explicit, None); (b "colors", S.JEnum 0, S.MapOf S.KInt64, None)]
  /\ map (fun f => (S.jf_name f, S.jf_kind f, S.jf_card f)) (S.jclass JS_ok 1) =
     [(b "back", S.JMsg 0, S.Explicit); (b "k", S.JEnum 1, S.Implicit)].
Proof. exact JS_ok_shape. Qed.
(* the value ok_outer of the generated class Outer meets the value-level hypotheses, and both conclusions hold of it *)
Example C05_generated_instance :
  js_matches NB S_ok JS_ok = true /\ emit_good S_ok ok_outer = true /\ ocls ok_outer = (0 + NB)%nat
  /\ model_emit_accepts S_ok JS_ok 0 ok_outer = Some (abs_obj S_ok ok_outer)
  /\ wf_aval S_ok JS_ok NB (S.JMsg 0) (abs_obj S_ok ok_outer) = true
  /\ model_reads_canonical S_ok JS_ok 0 (0 + NB) (abs_obj S_ok ok_outer) = Some (abs_obj S_ok ok_outer)
  /\ match S.json_spec JS_ok 0 (abs_obj S_ok ok_outer) with Some (S.JObj d) => List.length d = 7%nat | _ => False end.
Proof. exact D_ok_json_instance. Qed.

(* ======================================================================================================================
   GAP CLOSING (Proofs/C05GapA.v - clause-by-clause table of the property text against the theorems above -, C05GapB.v).
   Nothing above is changed.
   ====================================================================================================================== *)
From BP Require Import Model.History Model.C07Ops Model.C01Def Model.C01Reach Model.C01Parse.
From BP Require Import Proofs.C05AccRead Proofs.C05AccObj Proofs.C05GapA.

(* ---- clause (2) "is accepted by betterproto and yields the same message", said about the OBJECT from_dict returns ---- *)
(* for every well-formed abstract message a: the reference's canonical text exists, Cls.from_dict does not raise on it, and the
   object it returns denotes exactly a, is of the right class, and meets every value-side premise of C05_emit (so that what it
   emits is accepted as a again).  C05_accept is the last conjunct composed with the first two. *)
Theorem C05_accept_object : forall sc js off c a,
  wf_schema sc = true -> js_matches off sc js = true -> C04Def.keys_ok J.CAMEL sc = true ->
  wf_aval sc js off (S.JMsg c) a = true ->
  exists j o, S.json_spec js c a = Some j /\ J.from_dict_cls sc (c + off) (unconv j) = Ok o /\
              abs_obj sc o = a /\ emit_good sc o = true /\ ocls o = (c + off)%nat /\
              model_emit_accepts sc js c o = Some a.
Proof. exact accept_object. Qed.
Print Assumptions C05_accept_object.

(* the reference's printer (as specified) is total on the well-formed abstract messages ... *)
Theorem C05_spec_total : forall sc js off c a,
  wf_schema sc = true -> js_matches off sc js = true -> C04Def.keys_ok J.CAMEL sc = true ->
  wf_aval sc js off (S.JMsg c) a = true -> exists j, S.json_spec js c a = Some j.
Proof. exact spec_total. Qed.
Print Assumptions C05_spec_total.

(* ... and injective on them: "the same message" is determined by the text (two different messages never share a text) *)
Theorem C05_spec_injective : forall sc js off c a a',
  wf_schema sc = true -> js_matches off sc js = true -> C04Def.keys_ok J.CAMEL sc = true ->
  wf_aval sc js off (S.JMsg c) a = true -> wf_aval sc js off (S.JMsg c) a' = true ->
  S.json_spec js c a = S.json_spec js c a' -> a = a'.
Proof. exact spec_injective. Qed.
Print Assumptions C05_spec_injective.

(* the chain reference -> betterproto -> reference -> betterproto: what from_dict built is emitted as a text the reference
   accepts as a, and the message that object denotes is read back once more *)
Theorem C05_accept_idempotent : forall sc js off c a,
  wf_schema sc = true -> js_matches off sc js = true -> C04Def.keys_ok J.CAMEL sc = true ->
  wf_aval sc js off (S.JMsg c) a = true ->
  exists j o, S.json_spec js c a = Some j /\ J.from_dict_cls sc (c + off) (unconv j) = Ok o /\
    model_emit_accepts sc js c o = Some a /\
    model_reads_canonical sc js c (c + off) (abs_obj sc o) = Some (abs_obj sc o).
Proof. exact accept_idempotent. Qed.
Print Assumptions C05_accept_idempotent.

(* ---- clause (1): the emitted text determines the message ---- *)
Theorem C05_emit_text_determines : forall sc js off c o1 o2,
  wf_schema sc = true -> js_matches off sc js = true -> emit_good sc o1 = true -> emit_good sc o2 = true ->
  ocls o1 = (c + off)%nat -> ocls o2 = (c + off)%nat -> (c < length (S.jclasses js))%nat ->
  J.to_dict J.CAMEL false sc o1 = J.to_dict J.CAMEL false sc o2 -> abs_obj sc o1 = abs_obj sc o2.
Proof. exact emit_text_determines. Qed.
Print Assumptions C05_emit_text_determines.

(* ---- quantifier "values as in C01": in_range is no longer a sampled premise for what the public API builds ---- *)
(* every object a history of public operations (setattr / getattr at any depth, parse of clean bytes, copy / deepcopy / pickle,
   bytes / len / dump, ==, bool, Cls(kwargs), from_dict) produces from Cls() under C01's operation-level conditions is in range
   (C01_reachable_value_ok_parse); the three remaining conjuncts of emit_good are exact (next four theorems) *)
Theorem C05_emit_reachable : forall sc js off c cls ops o,
  c01_schema_ok sc = true -> js_matches off sc js = true ->
  hist_ok op_value_ok_p sc (new sc cls) ops = true -> run7 sc (new sc cls) ops = Ok o ->
  oneof_sel sc o && nan_canon o && no_neg_zero sc o = true ->
  ocls o = (c + off)%nat -> (c < length (S.jclasses js))%nat ->
  model_emit_accepts sc js c o = Some (abs_obj sc o).
Proof. exact emit_reachable. Qed.
Print Assumptions C05_emit_reachable.

Example C05_emit_reachable_nonvacuous :
  c01_schema_ok nz_sc = true /\ js_matches gNB nz_sc nz_js = true /\
  hist_ok op_value_ok_p nz_sc (new nz_sc gNB) rc_ops = true /\
  match run7 nz_sc (new nz_sc gNB) rc_ops with
  | Ok o => oneof_sel nz_sc o && nan_canon o && no_neg_zero nz_sc o = true /\ ocls o = (0 + gNB)%nat /\
            model_emit_accepts nz_sc nz_js 0 o = Some (S.AMsg [S.FOne (S.AFloat 4609434218613702656)])
  | Err _ => False
  end.
Proof. exact emit_reachable_nonvacuous. Qed.

(* K13 is reachable within C01's conditions: Cls(); m.x = -0.0 *)
Theorem C05_emit_neg_zero_reachable_refuted :
  c01_schema_ok nz_sc = true /\ js_matches gNB nz_sc nz_js = true /\
  hist_ok op_value_ok_p nz_sc (new nz_sc gNB) nz_ops = true /\ run7 nz_sc (new nz_sc gNB) nz_ops = Ok nz_obj /\
  oneof_sel nz_sc nz_obj && nan_canon nz_obj = true /\ no_neg_zero nz_sc nz_obj = false /\
  model_emit_accepts nz_sc nz_js 0 nz_obj <> Some (abs_obj nz_sc nz_obj).
Proof. exact emit_neg_zero_reachable_refuted. Qed.
Print Assumptions C05_emit_neg_zero_reachable_refuted.

(* nan_canon: a NaN with a payload bit, assigned within C01's conditions: the text says "NaN", the reference reads the canonical
   quiet NaN, which is not the binary64 value the message holds *)
Theorem C05_emit_nan_payload_refuted :
  f64_is_nan np_bits = true /\
  hist_ok op_value_ok_p nz_sc (new nz_sc gNB) np_ops = true /\ run7 nz_sc (new nz_sc gNB) np_ops = Ok np_obj /\
  in_range nz_sc np_obj && oneof_sel nz_sc np_obj && no_neg_zero nz_sc np_obj = true /\ nan_canon np_obj = false /\
  model_emit_accepts nz_sc nz_js 0 np_obj = Some (S.AMsg [S.FOne (S.AFloat S.nan_bits)]) /\
  abs_obj nz_sc np_obj = S.AMsg [S.FOne (S.AFloat np_bits)] /\
  model_emit_accepts nz_sc nz_js 0 np_obj <> Some (abs_obj nz_sc np_obj).
Proof. exact emit_nan_payload_refuted. Qed.
Print Assumptions C05_emit_nan_payload_refuted.

(* in_range: m.x = 2**31 on an int32 field (outside C01's conditions; setattr and to_dict do not range-check): the reference
   REJECTS the text *)
Theorem C05_emit_out_of_range_refuted :
  c01_schema_ok ir_sc = true /\ js_matches gNB ir_sc ir_js = true /\
  run7 ir_sc (new ir_sc gNB) ir_ops = Ok ir_obj /\ hist_ok op_value_ok_p ir_sc (new ir_sc gNB) ir_ops = false /\
  oneof_sel ir_sc ir_obj && nan_canon ir_obj && no_neg_zero ir_sc ir_obj = true /\ in_range ir_sc ir_obj = false /\
  J.to_dict J.CAMEL false ir_sc ir_obj = J.JObj [(J.JStr nz_name, J.JInt (2 ^ 31))] /\
  model_emit_accepts ir_sc ir_js 0 ir_obj = None.
Proof. exact emit_out_of_range_refuted. Qed.
Print Assumptions C05_emit_out_of_range_refuted.

(* oneof_sel (state-level witness): the group selects a member whose raw attribute is PLACEHOLDER *)
Theorem C05_emit_oneof_sel_refuted :
  wf_schema os_sc = true /\ js_matches gNB os_sc os_js = true /\
  in_range os_sc os_obj && nan_canon os_obj && no_neg_zero os_sc os_obj = true /\ oneof_sel os_sc os_obj = false /\
  J.to_dict J.CAMEL false os_sc os_obj = J.JObj [(J.JStr [x61], J.JInt 0)] /\
  model_emit_accepts os_sc os_js 0 os_obj = Some (S.AMsg [S.FOne (S.AInt 0); S.FAbsent]) /\
  abs_obj os_sc os_obj = S.AMsg [S.FAbsent; S.FAbsent].
Proof. exact emit_oneof_sel_refuted. Qed.
Print Assumptions C05_emit_oneof_sel_refuted.

(* ---- quantifier "restricted to microsecond-resolution times" is needed: one nanosecond in an optional Timestamp ---- *)
Theorem C05_accept_nanosecond_refuted :
  wf_schema ns_sc = true /\ js_matches gNB ns_sc pz_js = true /\ C04Def.keys_ok J.CAMEL ns_sc = true /\
  wf_aval ns_sc pz_js gNB (S.JMsg 0) us_aval = true /\ model_reads_canonical ns_sc pz_js 0 gNB us_aval = Some us_aval /\
  wf_aval ns_sc pz_js gNB (S.JMsg 0) ns_aval = false /\
  model_reads_canonical ns_sc pz_js 0 gNB ns_aval = Some (S.AMsg [S.FOne (S.ATime 1 0)]) /\
  S.AMsg [S.FOne (S.ATime 1 0)] <> ns_aval.
Proof. exact accept_nanosecond_refuted. Qed.
Print Assumptions C05_accept_nanosecond_refuted.

(* ---- the "In particular" clauses as explicit shapes of what to_dict writes, with their converses (Proofs/C05GapB.v) ---- *)
From BP Require Proofs.EnumP Model.Enum.
From BP Require Import Proofs.C05GapB.

(* "64-bit integers are strings": for EVERY integer value (in range or not) of an integer-typed field, a JSON string holding the
   decimal numeral ("-"? digit+) EXACTLY when the type is one of int64 / uint64 / sint64 / fixed64 / sfixed64 - which are exactly
   the kinds the specification treats as 64-bit -, the bare JSON number for the five 32-bit types *)
Theorem C05_emit_int_shape : forall sc t p z, is_int_ptype t = true ->
  J.scalar_to_json sc t p (PInt z) = (if is_64bit t then J.JStr (J.str_of_Z z) else J.JInt z) /\
  numeral (J.str_of_Z z) /\
  (forall k, skind_of t = Some k -> S.is64 k = is_64bit t).
Proof. exact emit_int_shape. Qed.
Print Assumptions C05_emit_int_shape.

(* "bytes are base64": standard alphabet with padding, and the specified decoder takes it back, for every byte string *)
Theorem C05_emit_bytes_base64 : forall sc p b,
  J.scalar_to_json sc TBytes p (PBytes b) = J.JStr (S.b64_encode b) /\ S.b64_decode (S.b64_encode b) = Some b.
Proof. exact emit_bytes_base64. Qed.
Print Assumptions C05_emit_bytes_base64.

(* "NaN/Infinity are strings": a string EXACTLY for the non-finite binary64 values, and then the matching one of the three tokens;
   every finite value (-0.0, subnormals included) is a JSON number *)
Theorem C05_emit_float_shape : forall sc t p b, is_float_ptype t = true -> 0 <= b < 2 ^ 64 ->
  (S.f64_finite b = true -> J.scalar_to_json sc t p (PFloat b) = J.JFloat b) /\
  (S.f64_finite b = false ->
     (b = f64_pos_inf /\ J.scalar_to_json sc t p (PFloat b) = J.JStr S.s_Infinity) \/
     (b = f64_neg_inf /\ J.scalar_to_json sc t p (PFloat b) = J.JStr S.s_NegInfinity) \/
     (f64_is_nan b = true /\ J.scalar_to_json sc t p (PFloat b) = J.JStr S.s_NaN)).
Proof. exact emit_float_shape. Qed.
Print Assumptions C05_emit_float_shape.

(* "enums are value names": for EVERY number, the name of the first declared member carrying it (a member of the enum with that
   number) when there is one, the bare number exactly when no member carries it; never null *)
Theorem C05_emit_enum_shape : forall sc e z,
  let ms := Enum.members_of (emembers (nth e (enums sc) (mkE []))) in
  J.scalar_to_json sc TEnum (PyEnum e) (PInt z) =
    match EnumP.first_name ms z with Some n => J.JStr n | None => J.JInt z end /\
  (forall n, EnumP.first_name ms z = Some n -> In (n, z) ms) /\
  (EnumP.first_name ms z = None -> ~ In z (map snd ms)).
Proof. exact emit_enum_shape. Qed.
Print Assumptions C05_emit_enum_shape.

(* "Timestamp is RFC 3339 UTC": for EVERY instant, the calendar part, then nothing / "." + 3 digits / "." + 6 digits, then the
   literal "Z" (never a numeric offset, never 9 digits) *)
Theorem C05_timestamp_shape : forall us,
  exists fr, J.ts_text us = J.cal_text (us / 1000000) ++ fr ++ [cZ] /\
    (fr = [] \/ exists ds, fr = cDOT :: ds /\ Forall (fun b => is_digit b = true) ds /\ (length ds = 3 \/ length ds = 6)%nat).
Proof. exact timestamp_shape. Qed.
Print Assumptions C05_timestamp_shape.

(* "Duration is decimal seconds with an 's' suffix": for EVERY span, "-"? digit+ "." (3 or 6 digits) "s" *)
Theorem C05_duration_shape : forall us,
  exists ip fp, Model.Time.delta_to_json us = (if us <? 0 then [cMINUS] else []) ++ ip ++ [cDOT] ++ fp ++ [cS] /\
    ip <> [] /\ Forall (fun b => is_digit b = true) ip /\ Forall (fun b => is_digit b = true) fp /\
    (length fp = 3 \/ length fp = 6)%nat.
Proof. exact duration_shape. Qed.
Print Assumptions C05_duration_shape.

Example C05_shapes_nonvacuous :
  J.scalar_to_json Ex.ex_sc TUInt64 Object.PyInt (PInt (2 ^ 64 - 1)) =
    J.JStr [x31; x38; x34; x34; x36; x37; x34; x34; x30; x37; x33; x37; x30; x39; x35; x35; x31; x36; x31; x35] /\
  J.scalar_to_json Ex.ex_sc TUInt32 Object.PyInt (PInt (2 ^ 32 - 1)) = J.JInt 4294967295 /\
  J.scalar_to_json Ex.ex_sc TBytes Object.PyBytes (PBytes [xfb; xff]) = J.JStr [x2b; x2f; x38; x3d] /\
  S.f64_finite f64_neg_inf = false /\ S.f64_finite 4609434218613702656 = true /\
  J.scalar_to_json Ex.ex_sc TEnum (Object.PyEnum 0) (PInt (-1)) = J.JStr [x4e; x45; x47] /\
  J.scalar_to_json Ex.ex_sc TEnum (Object.PyEnum 0) (PInt 7) = J.JInt 7 /\
  Model.Time.delta_to_json (-1500000) = [x2d; x31; x2e; x35; x30; x30; x73].
Proof. exact shapes_nonvacuous. Qed.

(* ---- "keys are lowerCamelCase JSON names", about the keys of the emitted OBJECT (Proofs/C05GapC.v) ---- *)
From BP Require Import Proofs.C05GapC.

(* for ANY object (no value-side premise, either setting of include_default_values): every key of to_dict(CAMEL) is a string and is
   one of the camelCase keys of the fields of the object's class ... *)
Theorem C05_to_dict_keys_of_class : forall incl sc o,
  match J.to_dict J.CAMEL incl sc o with
  | J.JObj d => Forall (key_in (map (J.key_of_field J.CAMEL) (cfields (get_class sc (ocls o))))) d
  | _ => False
  end.
Proof. exact to_dict_keys_of_class. Qed.
Print Assumptions C05_to_dict_keys_of_class.

(* ... hence, for a matched schema, the json_name of a field of the reference-side class: protoc's lowerCamelCase of a proto field
   name (one that is json_name_safe - K3 is inside js_matches).  Nested objects: the same statement about them. *)
Theorem C05_emit_keys_are_json_names : forall incl sc js off c o,
  js_matches off sc js = true -> ocls o = (c + off)%nat -> (c < length (S.jclasses js))%nat ->
  match J.to_dict J.CAMEL incl sc o with
  | J.JObj d => Forall (fun kx => exists k jf, fst kx = J.JStr k /\ In jf (S.jclass js c) /\ k = S.jf_json jf /\
                                    k = S.protoc_json_name (S.jf_name jf) /\ json_name_safe (S.jf_name jf) = true) d
  | _ => False
  end.
Proof. exact emit_keys_are_json_names. Qed.
Print Assumptions C05_emit_keys_are_json_names.

(* non-vacuity: the hand-written schema with every field shape; its object emits 16 keys *)
Example C05_emit_keys_nonvacuous :
  js_matches (length builtin_classes) Ex2.sc Ex2.js = true /\ ocls Ex2.m = (0 + length builtin_classes)%nat /\
  Nat.ltb 0 (length (S.jclasses Ex2.js)) = true /\
  match J.to_dict J.CAMEL false Ex2.sc Ex2.m with J.JObj d => length d = 16%nat | _ => False end.
Proof. repeat split; vm_compute; try reflexivity. Qed.
