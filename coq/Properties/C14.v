(* C14 - observers are pure; copy, deepcopy and pickle are faithful.

   Model: Model/Object.v (raw state of a Message), Model/Eq.v (Message.__eq__ / __bool__), Model/Encode.v (dump),
   Model/History.v (touch = state after bytes/len/dump, get_in = attribute read at any depth, copy / deepcopy of
   commit 0ef9c00, pickle_rt = FromString(bytes(m))), Model/C14Ops.v (observers incl. to_dict / to_json / to_pydict,
   [mat], the presence report).

   [mat_obj sc o o'] (decidable) says: o' is o in which some PLACEHOLDER slots - at any depth, in any number - hold
   the default of their field, possibly itself written into by further reads; nothing else differs.  It is what
   reads can do to a message: every observer, and every finite sequence of observers, takes o to a state related
   to o by [mat_obj] (C14_observers_are_materialisations), and so do copy and deepcopy.  Nothing the property
   names can tell such a state from o (C14_materialisation_invisible): bytes (errors included), == in both operand
   positions against EVERY other value, bool, the presence report at every reachable message, unknown bytes.
   All statements hold for every well-formed schema and EVERY object state (no bound, no typing or range
   hypothesis); copy / deepcopy additionally need what every Python object has: one attribute per field.

   Independence ("mutating a deep copy or an unpickled copy never affects the original") is a statement about
   aliasing between Python objects; values are trees here, so it is checked on the implementation only
   (harness/props/c14.py mutates every copy through every path and re-snapshots the original): the claim is
   PARTIAL for that clause.  Equality / byte identity of a pickle round trip is the C01 round trip: taken as a
   premise in C14_pickle_faithful_partial. *)
From BP Require Import Base.Prelude Model.Types Model.Object Model.Eq Model.Encode Model.Decode Model.WellFormed.
From BP Require Import Model.History Model.C14Ops Model.Canon.
From BP Require Import Proofs.C14Mat Proofs.C14Eq Proofs.C14Enc Proofs.C14Obs Proofs.C14Pres Proofs.C14Thm Proofs.C14Refl.

(* ---- the key lemma: a stored default is invisible, field by field ---- *)
Theorem C14_materialisation_key_lemma : forall sc, wf_schema sc = true -> forall f v v',
  mat sc f v v' = true -> v <> PPlaceholder ->
  (forall g, is_default sc g v' = is_default sc g v) /\
  (forall y, pv_eq sc v' y = pv_eq sc v y /\ pv_eq sc y v' = pv_eq sc y v) /\
  (forall sel, skipped sc f sel v' = skipped sc f sel v) /\
  (v <> PNone -> forall sel, emit_field (enc_obj sc) sc f sel v' = emit_field (enc_obj sc) sc f sel v).
Proof. exact key_lemma. Qed.
Print Assumptions C14_materialisation_key_lemma.

(* the PLACEHOLDER itself against the default stored in its place (femit = what dump emits for the slot) *)
Theorem C14_materialisation_of_placeholder : forall sc, wf_schema sc = true -> forall f v',
  mat sc f PPlaceholder v' = true -> v' <> PPlaceholder ->
  is_default sc f v' = true /\
  (forall y, y <> PPlaceholder -> (pv_eq sc v' y || (pv_is_nan v' && pv_is_nan y)) = is_default sc f y /\
                                  (pv_eq sc y v' || (pv_is_nan y && pv_is_nan v')) = is_default sc f y) /\
  (forall sel, femit sc f sel v' = femit sc f sel PPlaceholder).
Proof. exact key_lemma_placeholder. Qed.
Print Assumptions C14_materialisation_of_placeholder.

(* ---- whatever reads did to a message cannot be observed (covers an observer that raised half-way) ---- *)
Theorem C14_materialisation_invisible : forall sc, wf_schema sc = true -> forall o o',
  mat_obj sc o o' = true ->
  enc_obj sc o' = enc_obj sc o /\
  (forall x, obj_eq sc o' x = obj_eq sc o x /\ obj_eq sc x o' = obj_eq sc x o) /\
  obj_bool sc o' = obj_bool sc o /\
  (forall p, presence_at sc o' p = presence_at sc o p) /\
  ounk o' = ounk o /\ ocls o' = ocls o.
Proof. exact mat_indistinguishable. Qed.
Print Assumptions C14_materialisation_invisible.

Theorem C14_observers_are_materialisations : forall sc bs o, mat_obj sc o (observe_all sc o bs) = true.
Proof. exact observe_all_mat. Qed.
Print Assumptions C14_observers_are_materialisations.

(* ---- one observer ---- *)
Theorem C14_observer_enc : forall sc, wf_schema sc = true -> forall o b,
  enc_obj sc (observe sc o b) = enc_obj sc o.
Proof. exact observer_enc. Qed.
Print Assumptions C14_observer_enc.

Theorem C14_observer_eq : forall sc, wf_schema sc = true -> forall o b x,
  obj_eq sc (observe sc o b) x = obj_eq sc o x /\ obj_eq sc x (observe sc o b) = obj_eq sc x o.
Proof. exact observer_eq. Qed.
Print Assumptions C14_observer_eq.

Theorem C14_observer_presence : forall sc o b p,
  presence_at sc (observe sc o b) p = presence_at sc o p.
Proof. exact observer_presence. Qed.
Print Assumptions C14_observer_presence.

(* ---- every finite sequence of observers ---- *)
Theorem C14_observers_pure : forall sc, wf_schema sc = true -> forall o bs,
  enc_obj sc (observe_all sc o bs) = enc_obj sc o /\
  (forall x, obj_eq sc (observe_all sc o bs) x = obj_eq sc o x /\ obj_eq sc x (observe_all sc o bs) = obj_eq sc x o) /\
  obj_bool sc (observe_all sc o bs) = obj_bool sc o /\
  (forall p, presence_at sc (observe_all sc o bs) p = presence_at sc o p) /\
  ounk (observe_all sc o bs) = ounk o /\ ocls (observe_all sc o bs) = ocls o.
Proof. exact observers_pure. Qed.
Print Assumptions C14_observers_pure.

(* is_set: untouched for every field whose raw attribute is not PLACEHOLDER - in particular for every proto3-optional
   field of a real object (dataclass default None) *)
Theorem C14_observer_is_set_optional : forall sc o b i,
  nth i (oraw o) PPlaceholder <> PPlaceholder -> is_set sc (observe sc o b) i = is_set sc o i.
Proof. exact observer_is_set. Qed.
Print Assumptions C14_observer_is_set_optional.

(* ---- copy / deepcopy: equal in every comparison, same bytes, same presence, same unknown fields, same flags ---- *)
Theorem C14_copy_faithful : forall sc, wf_schema sc = true -> forall o,
  shaped_top sc o = true ->
  (enc_obj sc (copy sc o) = enc_obj sc o /\
   (forall x, obj_eq sc (copy sc o) x = obj_eq sc o x /\ obj_eq sc x (copy sc o) = obj_eq sc x o) /\
   obj_bool sc (copy sc o) = obj_bool sc o /\
   (forall p, presence_at sc (copy sc o) p = presence_at sc o p) /\
   ounk (copy sc o) = ounk o /\ ocls (copy sc o) = ocls o) /\
  osow (copy sc o) = osow o /\ ocur (copy sc o) = ocur o.
Proof. exact copy_faithful. Qed.
Print Assumptions C14_copy_faithful.

(* missing from the property: independence of the deep copy (aliasing; harness-only) *)
Theorem C14_deepcopy_faithful_partial : forall sc, wf_schema sc = true -> forall o,
  shaped_obj sc o = true ->
  (enc_obj sc (deepcopy sc o) = enc_obj sc o /\
   (forall x, obj_eq sc (deepcopy sc o) x = obj_eq sc o x /\ obj_eq sc x (deepcopy sc o) = obj_eq sc x o) /\
   obj_bool sc (deepcopy sc o) = obj_bool sc o /\
   (forall p, presence_at sc (deepcopy sc o) p = presence_at sc o p) /\
   ounk (deepcopy sc o) = ounk o /\ ocls (deepcopy sc o) = ocls o) /\
  osow (deepcopy sc o) = osow o /\ ocur (deepcopy sc o) = ocur o.
Proof. exact deepcopy_faithful. Qed.
Print Assumptions C14_deepcopy_faithful_partial.

(* "equal to the original": == is reflexive when no NaN sits inside a container and dict keys are pairwise unequal *)
Theorem C14_eq_reflexive : forall sc o, eq_refl_ok sc (PMsg o) = true -> obj_eq sc o o = true.
Proof. exact obj_eq_refl. Qed.
Print Assumptions C14_eq_reflexive.

Theorem C14_copy_equal : forall sc, wf_schema sc = true -> forall o,
  shaped_top sc o = true -> eq_refl_ok sc (PMsg o) = true ->
  obj_eq sc (copy sc o) o = true /\ obj_eq sc o (copy sc o) = true.
Proof. exact copy_equal. Qed.
Print Assumptions C14_copy_equal.

Theorem C14_deepcopy_equal : forall sc, wf_schema sc = true -> forall o,
  shaped_obj sc o = true -> eq_refl_ok sc (PMsg o) = true ->
  obj_eq sc (deepcopy sc o) o = true /\ obj_eq sc o (deepcopy sc o) = true.
Proof. exact deepcopy_equal. Qed.
Print Assumptions C14_deepcopy_equal.

(* observers and copies in any order *)
Theorem C14_copy_after_observers : forall sc, wf_schema sc = true -> forall o bs,
  shaped_top sc (observe_all sc o bs) = true ->
  enc_obj sc (copy sc (observe_all sc o bs)) = enc_obj sc o /\
  (forall x, obj_eq sc (copy sc (observe_all sc o bs)) x = obj_eq sc o x /\
             obj_eq sc x (copy sc (observe_all sc o bs)) = obj_eq sc x o) /\
  obj_bool sc (copy sc (observe_all sc o bs)) = obj_bool sc o /\
  (forall p, presence_at sc (copy sc (observe_all sc o bs)) p = presence_at sc o p) /\
  ounk (copy sc (observe_all sc o bs)) = ounk o /\ ocls (copy sc (observe_all sc o bs)) = ocls o.
Proof. exact copy_after_observers. Qed.
Print Assumptions C14_copy_after_observers.

Theorem C14_deepcopy_after_observers : forall sc, wf_schema sc = true -> forall o bs,
  shaped_obj sc (observe_all sc o bs) = true ->
  enc_obj sc (deepcopy sc (observe_all sc o bs)) = enc_obj sc o /\
  (forall x, obj_eq sc (deepcopy sc (observe_all sc o bs)) x = obj_eq sc o x /\
             obj_eq sc x (deepcopy sc (observe_all sc o bs)) = obj_eq sc x o) /\
  obj_bool sc (deepcopy sc (observe_all sc o bs)) = obj_bool sc o /\
  (forall p, presence_at sc (deepcopy sc (observe_all sc o bs)) p = presence_at sc o p) /\
  ounk (deepcopy sc (observe_all sc o bs)) = ounk o /\ ocls (deepcopy sc (observe_all sc o bs)) = ocls o.
Proof. exact deepcopy_after_observers. Qed.
Print Assumptions C14_deepcopy_after_observers.

(* ---- pickle ---- *)
Theorem C14_pickle_is_parse_of_bytes : forall sc o,
  pickle_rt sc o = (do bs <- enc_obj sc o; parse sc (ocls o) bs).
Proof. reflexivity. Qed.
Print Assumptions C14_pickle_is_parse_of_bytes.

(* pickling after any observers gives exactly what pickling before would have given (result or error) *)
Theorem C14_pickle_after_observers : forall sc, wf_schema sc = true -> forall o bs,
  pickle_rt sc (observe_all sc o bs) = pickle_rt sc o.
Proof. exact pickle_after_observers. Qed.
Print Assumptions C14_pickle_after_observers.

(* faithful wherever the binary round trip is (C01, premise [roundtrip] over its own side condition [ok]);
   missing: the round trip itself (C01), unknown bytes through parse (C08), independence (harness-only) *)
Theorem C14_pickle_faithful_partial : forall sc (ok : obj -> bool),
  (forall o, ok o = true ->
     exists bs o', enc_obj sc o = Ok bs /\ parse sc (ocls o) bs = Ok o' /\
                   obj_eq sc o' o = true /\ obj_eq sc o o' = true /\ enc_obj sc o' = Ok bs) ->
  forall o, ok o = true ->
  exists o', pickle_rt sc o = Ok o' /\ obj_eq sc o' o = true /\ obj_eq sc o o' = true /\ enc_obj sc o' = enc_obj sc o.
Proof. exact pickle_faithful. Qed.
Print Assumptions C14_pickle_faithful_partial.

(* ================================================================================================== *)
(* witnesses                                                                                           *)
(* ================================================================================================== *)
(* Inner{x:int32=1, rec:Inner=2, o:optional int32=3}  Empty{}
   Holder{e:Empty=1, inner:Inner=2, oneof g0{a:int32=3, b:string=4}, r:repeated Inner=5, mm:map<string,Inner>=6,
          n:int32=7, oi:optional int32=8} *)
Definition ex_schema : schema :=
  mkS (builtin_classes ++
       [mkC [mkF [x78] 1 TInt32 None None None false (HPlain PyInt) 0;
             mkF [x72] 2 TMessage None None None false (HPlain (PyMsg 11)) 0;
             mkF [x6f] 3 TInt32 None None None true (HOptional PyInt) 0] 0;
        mkC [] 0;
        mkC [mkF [x65] 1 TMessage None None None false (HPlain (PyMsg 12)) 0;
             mkF [x69] 2 TMessage None None None false (HPlain (PyMsg 11)) 0;
             mkF [x61] 3 TInt32 None (Some 0%nat) None false (HPlain PyInt) 0;
             mkF [x62] 4 TString None (Some 0%nat) None false (HPlain PyStr) 0;
             mkF [x72] 5 TMessage None None None false (HList (PyMsg 11)) 0;
             mkF [x6d] 6 TMap (Some (TString, TMessage)) None None false (HDict PyStr (PyMsg 11)) 14;
             mkF [x6e] 7 TInt32 None None None false (HPlain PyInt) 0;
             mkF [x70] 8 TInt32 None None None true (HOptional PyInt) 0] 1;
        mkC [mkF [x6b; x65; x79] 1 TString None None None false (HPlain PyStr) 0;
             mkF [x76; x61; x6c; x75; x65] 2 TMessage None None None false (HPlain (PyMsg 11)) 0] 0]) [].

Example ex_schema_wf : wf_schema ex_schema = true.
Proof. vm_compute. reflexivity. Qed.

(* Holder(b="", r=[Inner(x=2)], mm={"k": Inner()}) decoded with an unknown field: nothing read yet *)
Definition ex_obj : obj :=
  Obj 13 [PPlaceholder; PPlaceholder; PPlaceholder; PStr [];
          PList [PMsg (Obj 11 [PInt 2; PPlaceholder; PNone] true [] [])];
          PDict [(PStr [x6b], PMsg (Obj 11 [PPlaceholder; PPlaceholder; PNone] false [] []))];
          PPlaceholder; PNone] true [x98; x06; x01] [Some 3%nat].

Definition ex_observers : list observer :=
  [BGet [1%nat; 1%nat] 0%nat; BBytes; BToDict 5 false; BGet [] 0%nat; BEq ex_obj; BBool; BRepr; BToPydict 5 false; BLen].

(* non-vacuity: the observers do change the raw state (four slots at three depths), the object is shaped, the
   bytes are there, == is reflexive on it *)
Example C14_nonvacuous :
  cv_eqb (cv_of_obj (observe_all ex_schema ex_obj ex_observers)) (cv_of_obj ex_obj) = false /\
  mat_obj ex_schema ex_obj (observe_all ex_schema ex_obj ex_observers) = true /\
  shaped_obj ex_schema (observe_all ex_schema ex_obj ex_observers) = true /\
  eq_refl_ok ex_schema (PMsg ex_obj) = true /\
  enc_obj ex_schema (observe_all ex_schema ex_obj ex_observers) =
    Ok [x22; x00; x2a; x02; x08; x02; x32; x03; x0a; x01; x6b; x98; x06; x01] /\
  enc_obj ex_schema ex_obj = Ok [x22; x00; x2a; x02; x08; x02; x32; x03; x0a; x01; x6b; x98; x06; x01] /\
  presence_at ex_schema ex_obj [SField 1%nat; SField 1%nat] = Some (false, [], [2; 2; 1]%nat) /\
  presence_at ex_schema ex_obj [SValue 5%nat 0%nat] = Some (false, [], [2; 2; 1]%nat) /\
  presence_at ex_schema ex_obj [] = Some (true, [Some 3%nat], [2; 2; 0; 2; 2; 2; 2; 1]%nat).
Proof. vm_compute. repeat split; reflexivity. Qed.

(* the materialised state, spelled out: m.inner.rec.x was read (three defaults stored, at depth 1, 2 and 3), bytes()
   stored the defaults of e and n (and did not descend into the skipped inner), to_dict walked into the list
   element and into the map value *)
Example C14_observed_state :
  observe_all ex_schema ex_obj ex_observers =
  Obj 13 [PMsg (Obj 12 [] false [] []);
          PMsg (Obj 11 [PPlaceholder; PMsg (Obj 11 [PInt 0; PPlaceholder; PNone] false [] []); PNone] false [] []);
          PPlaceholder; PStr [];
          PList [PMsg (Obj 11 [PInt 2; PMsg (Obj 11 [PPlaceholder; PPlaceholder; PNone] false [] []); PNone] true [] [])];
          PDict [(PStr [x6b], PMsg (Obj 11 [PInt 0; PMsg (Obj 11 [PPlaceholder; PPlaceholder; PNone] false [] []); PNone] false [] []))];
          PInt 0; PNone] true [x98; x06; x01] [Some 3%nat].
Proof. vm_compute. reflexivity. Qed.

(* ---- K4 (known finding): is_set of an implicit-presence field flips after a read, after bytes(), after to_dict() ---- *)
Theorem C14_is_set_refuted :
  exists sc o i, wf_schema sc = true /\
    is_set sc o i = false /\
    is_set sc (observe sc o (BGet [] i)) i = true /\
    is_set sc (observe sc o BBytes) i = true /\
    is_set sc (observe sc o (BToDict 5 false)) i = true.
Proof. exists ex_schema, ex_obj, 6%nat. vm_compute. repeat split; reflexivity. Qed.
Print Assumptions C14_is_set_refuted.

(* ---- the pinned tree's copy (through the constructor, before commit 0ef9c00) was NOT faithful: a field-less child
        that was merely read is emitted by the copy; repaired, witness kept in the regression corpus ---- *)
Theorem C14_copy_via_constructor_refuted :
  exists sc o, wf_schema sc = true /\ shaped_obj sc o = true /\
    enc_obj sc o = Ok [] /\ enc_obj sc (copy_ctor sc o) = Ok [x0a; x00] /\ enc_obj sc (copy sc o) = Ok [].
Proof.
  exists ex_schema, (observe ex_schema (new ex_schema 13) (BGet [] 0%nat)). vm_compute. repeat split; reflexivity.
Qed.
Print Assumptions C14_copy_via_constructor_refuted.

(* ---- outside the round trip's side conditions pickle is not faithful: Holder(a=1, b="x") keeps both raw members of
        the oneof (the constructor does no sibling reset), only the selected one is encoded, and == reads raw values ---- *)
Theorem C14_pickle_oneof_unclean_refuted :
  exists sc o, wf_schema sc = true /\ shaped_obj sc o = true /\ oneof_clean sc o = false /\
    match pickle_rt sc o with
    | Ok o' => obj_eq sc o' o = false /\ enc_obj sc o' = enc_obj sc o
    | Err _ => False
    end.
Proof.
  exists ex_schema, (construct ex_schema 13 [(2%nat, PInt 1); (3%nat, PStr [x78])]).
  vm_compute. repeat split; reflexivity.
Qed.
Print Assumptions C14_pickle_oneof_unclean_refuted.
