(* C14 - observers are pure; copy, deepcopy and pickle are faithful.

   Model: Model/Object.v (raw state of a Message), Model/Eq.v (Message.__eq__ / __bool__), Model/Encode.v (dump),
   Model/History.v (touch = state after bytes/len/dump, get_in = attribute read at any depth, copy / deepcopy of
   commit 0ef9c00, pickle_rt = FromString(bytes(m))), Model/C14Ops.v (observers incl. to_dict / to_json / to_pydict,
   [mat], the presence report).

   [mat_obj sc o o'] (decidable) says: o' is o in which some PLACEHOLDER slots - at any depth, in any number - hold
   the default of their field, possibly itself written into by further reads; nothing else differs.  It is what
   reads can do to a message: every observer, and every finite sequence of observers, takes o to a state related
   to o by [mat_obj] (C14_observers_are_materialisations), and so do copy and deepcopy.  Nothing the property
   names can tell such a state from o (C14_materialisation_invisible): bytes (errors included), == in both operand
   positions against EVERY other value, bool, the presence report at every reachable message, unknown bytes.
   All statements hold for every well-formed schema and EVERY object state (no bound, no typing or range
   hypothesis); copy / deepcopy additionally need what every Python object has: one attribute per field.

   Independence ("mutating a deep copy or an unpickled copy never affects the original") is a statement about
   aliasing between Python objects; the value model above is tree-valued and cannot express it.  It is proved over the
   HEAP model Model/C14Heap.v (last part of this file: C14_deepcopy_disjoint, C14_deepcopy_independent,
   C14_pickle_independent for every heap, depth and finite sequence of mutations through either root;
   C14_copy_shares_refuted / C14_copy_toplevel_independent for the shallow copy), tied to the code by the aliasing stage
   of harness/props/c14.py (sharing observed with id() and the effect of mutations, against the model).  What the tree
   model says about a copy and later operations: every
   operation of the history alphabet (assignment / read through any path, parse into the object, copy, deepcopy,
   pickle, bytes, len, dump, ==, bool) respects [mat] (C14_step_respects_materialisation), so a copy / deep copy
   taken at any point of a history behaves under the rest of the history exactly as the original would
   (C14_copy_commutes, C14_deepcopy_commutes, C14_copy_anywhere ...).

   Pickle = FromString(bytes(m)).  Its faithfulness is the C01 round trip (Properties/C01.v C01_roundtrip, fully
   proved) plus the other operand order of == (Proofs/C14PickleEq.v): C14_pickle_faithful, under C01's decidable side
   conditions; also after any observers (C14_pickle_faithful_after_observers), and for messages that carry
   unknown fields - at the top level (C14_pickle_unknown_fields, with C08's theorems) and at any depth
   (C14_pickle_unknown_any_depth: the C01 development re-run for a decoded form that keeps unknown bytes, Proofs/C14U*.v).  Outside the side conditions:
   C14_pickle_oneof_unclean_refuted, C14_pickle_nan_refuted, C14_pickle_map_value_flag_refuted. *)
From BP Require Import Base.Prelude Model.Types Model.Object Model.Eq Model.Encode Model.Decode Model.WellFormed.
From BP Require Import Model.History Model.C14Ops Model.Canon Model.C01Def Model.C14Pickle Model.C14Seq Model.C14UDef.
From BP Require Model.C08Step.
From BP Require Import Proofs.C14Mat Proofs.C14Eq Proofs.C14Enc Proofs.C14Obs Proofs.C14Pres Proofs.C14Thm Proofs.C14Refl.
From BP Require Import Proofs.C01Main Proofs.C14PickleEq Proofs.C14Pickle Proofs.C14PickleUnk Proofs.C14PicklePres Proofs.C14PicklePres2.
From BP Require Import Proofs.C14UFinal.
From BP Require Import Proofs.C14Sim1 Proofs.C14Sim2 Proofs.C14Sim3 Proofs.C14Sim4 Proofs.C14Sim5 Proofs.C14Sim6 Proofs.C14Seq Proofs.C14Seq2.
From BP Require Model.C14Heap Proofs.C14HeapA Proofs.C14HeapB Proofs.C14HeapC Proofs.C14HeapD Proofs.C14HeapE.

(* ---- the key lemma: a stored default is invisible, field by field ---- *)
Theorem C14_materialisation_key_lemma : forall sc, wf_schema sc = true -> forall f v v',
  mat sc f v v' = true -> v <> PPlaceholder ->
  (forall g, is_default sc g v' = is_default sc g v) /\
  (forall y, pv_eq sc v' y = pv_eq sc v y /\ pv_eq sc y v' = pv_eq sc y v) /\
  (forall sel, skipped sc f sel v' = skipped sc f sel v) /\
  (v <> PNone -> forall sel, emit_field (enc_obj sc) sc f sel v' = emit_field (enc_obj sc) sc f sel v).
Proof. exact key_lemma. Qed.
Print Assumptions C14_materialisation_key_lemma.

(* the PLACEHOLDER itself against the default stored in its place (femit = what dump emits for the slot) *)
Theorem C14_materialisation_of_placeholder : forall sc, wf_schema sc = true -> forall f v',
  mat sc f PPlaceholder v' = true -> v' <> PPlaceholder ->
  is_default sc f v' = true /\
  (forall y, y <> PPlaceholder -> (pv_eq sc v' y || (pv_is_nan v' && pv_is_nan y)) = is_default sc f y /\
                                  (pv_eq sc y v' || (pv_is_nan y && pv_is_nan v')) = is_default sc f y) /\
  (forall sel, femit sc f sel v' = femit sc f sel PPlaceholder).
Proof. exact key_lemma_placeholder. Qed.
Print Assumptions C14_materialisation_of_placeholder.

(* ---- whatever reads did to a message cannot be observed (covers an observer that raised half-way) ---- *)
Theorem C14_materialisation_invisible : forall sc, wf_schema sc = true -> forall o o',
  mat_obj sc o o' = true ->
  enc_obj sc o' = enc_obj sc o /\
  (forall x, obj_eq sc o' x = obj_eq sc o x /\ obj_eq sc x o' = obj_eq sc x o) /\
  obj_bool sc o' = obj_bool sc o /\
  (forall p, presence_at sc o' p = presence_at sc o p) /\
  ounk o' = ounk o /\ ocls o' = ocls o.
Proof. exact mat_indistinguishable. Qed.
Print Assumptions C14_materialisation_invisible.

Theorem C14_observers_are_materialisations : forall sc bs o, mat_obj sc o (observe_all sc o bs) = true.
Proof. exact observe_all_mat. Qed.
Print Assumptions C14_observers_are_materialisations.

(* ---- one observer ---- *)
Theorem C14_observer_enc : forall sc, wf_schema sc = true -> forall o b,
  enc_obj sc (observe sc o b) = enc_obj sc o.
Proof. exact observer_enc. Qed.
Print Assumptions C14_observer_enc.

Theorem C14_observer_eq : forall sc, wf_schema sc = true -> forall o b x,
  obj_eq sc (observe sc o b) x = obj_eq sc o x /\ obj_eq sc x (observe sc o b) = obj_eq sc x o.
Proof. exact observer_eq. Qed.
Print Assumptions C14_observer_eq.

Theorem C14_observer_presence : forall sc o b p,
  presence_at sc (observe sc o b) p = presence_at sc o p.
Proof. exact observer_presence. Qed.
Print Assumptions C14_observer_presence.

(* ---- every finite sequence of observers ---- *)
Theorem C14_observers_pure : forall sc, wf_schema sc = true -> forall o bs,
  enc_obj sc (observe_all sc o bs) = enc_obj sc o /\
  (forall x, obj_eq sc (observe_all sc o bs) x = obj_eq sc o x /\ obj_eq sc x (observe_all sc o bs) = obj_eq sc x o) /\
  obj_bool sc (observe_all sc o bs) = obj_bool sc o /\
  (forall p, presence_at sc (observe_all sc o bs) p = presence_at sc o p) /\
  ounk (observe_all sc o bs) = ounk o /\ ocls (observe_all sc o bs) = ocls o.
Proof. exact observers_pure. Qed.
Print Assumptions C14_observers_pure.

(* is_set: untouched for every field whose raw attribute is not PLACEHOLDER - in particular for every proto3-optional
   field of a real object (dataclass default None) *)
Theorem C14_observer_is_set_optional : forall sc o b i,
  nth i (oraw o) PPlaceholder <> PPlaceholder -> is_set sc (observe sc o b) i = is_set sc o i.
Proof. exact observer_is_set. Qed.
Print Assumptions C14_observer_is_set_optional.

(* ---- copy / deepcopy: equal in every comparison, same bytes, same presence, same unknown fields, same flags ---- *)
Theorem C14_copy_faithful : forall sc, wf_schema sc = true -> forall o,
  shaped_top sc o = true ->
  (enc_obj sc (copy sc o) = enc_obj sc o /\
   (forall x, obj_eq sc (copy sc o) x = obj_eq sc o x /\ obj_eq sc x (copy sc o) = obj_eq sc x o) /\
   obj_bool sc (copy sc o) = obj_bool sc o /\
   (forall p, presence_at sc (copy sc o) p = presence_at sc o p) /\
   ounk (copy sc o) = ounk o /\ ocls (copy sc o) = ocls o) /\
  osow (copy sc o) = osow o /\ ocur (copy sc o) = ocur o.
Proof. exact copy_faithful. Qed.
Print Assumptions C14_copy_faithful.

(* missing from THIS statement: independence of the deep copy (aliasing) - proved over the heap model as
   C14_deepcopy_disjoint / C14_deepcopy_independent at the end of this file; the name is kept *)
Theorem C14_deepcopy_faithful_partial : forall sc, wf_schema sc = true -> forall o,
  shaped_obj sc o = true ->
  (enc_obj sc (deepcopy sc o) = enc_obj sc o /\
   (forall x, obj_eq sc (deepcopy sc o) x = obj_eq sc o x /\ obj_eq sc x (deepcopy sc o) = obj_eq sc x o) /\
   obj_bool sc (deepcopy sc o) = obj_bool sc o /\
   (forall p, presence_at sc (deepcopy sc o) p = presence_at sc o p) /\
   ounk (deepcopy sc o) = ounk o /\ ocls (deepcopy sc o) = ocls o) /\
  osow (deepcopy sc o) = osow o /\ ocur (deepcopy sc o) = ocur o.
Proof. exact deepcopy_faithful. Qed.
Print Assumptions C14_deepcopy_faithful_partial.

(* "equal to the original": == is reflexive when no NaN sits inside a container and dict keys are pairwise unequal *)
Theorem C14_eq_reflexive : forall sc o, eq_refl_ok sc (PMsg o) = true -> obj_eq sc o o = true.
Proof. exact obj_eq_refl. Qed.
Print Assumptions C14_eq_reflexive.

Theorem C14_copy_equal : forall sc, wf_schema sc = true -> forall o,
  shaped_top sc o = true -> eq_refl_ok sc (PMsg o) = true ->
  obj_eq sc (copy sc o) o = true /\ obj_eq sc o (copy sc o) = true.
Proof. exact copy_equal. Qed.
Print Assumptions C14_copy_equal.

Theorem C14_deepcopy_equal : forall sc, wf_schema sc = true -> forall o,
  shaped_obj sc o = true -> eq_refl_ok sc (PMsg o) = true ->
  obj_eq sc (deepcopy sc o) o = true /\ obj_eq sc o (deepcopy sc o) = true.
Proof. exact deepcopy_equal. Qed.
Print Assumptions C14_deepcopy_equal.

(* observers and copies in any order *)
Theorem C14_copy_after_observers : forall sc, wf_schema sc = true -> forall o bs,
  shaped_top sc (observe_all sc o bs) = true ->
  enc_obj sc (copy sc (observe_all sc o bs)) = enc_obj sc o /\
  (forall x, obj_eq sc (copy sc (observe_all sc o bs)) x = obj_eq sc o x /\
             obj_eq sc x (copy sc (observe_all sc o bs)) = obj_eq sc x o) /\
  obj_bool sc (copy sc (observe_all sc o bs)) = obj_bool sc o /\
  (forall p, presence_at sc (copy sc (observe_all sc o bs)) p = presence_at sc o p) /\
  ounk (copy sc (observe_all sc o bs)) = ounk o /\ ocls (copy sc (observe_all sc o bs)) = ocls o.
Proof. exact copy_after_observers. Qed.
Print Assumptions C14_copy_after_observers.

Theorem C14_deepcopy_after_observers : forall sc, wf_schema sc = true -> forall o bs,
  shaped_obj sc (observe_all sc o bs) = true ->
  enc_obj sc (deepcopy sc (observe_all sc o bs)) = enc_obj sc o /\
  (forall x, obj_eq sc (deepcopy sc (observe_all sc o bs)) x = obj_eq sc o x /\
             obj_eq sc x (deepcopy sc (observe_all sc o bs)) = obj_eq sc x o) /\
  obj_bool sc (deepcopy sc (observe_all sc o bs)) = obj_bool sc o /\
  (forall p, presence_at sc (deepcopy sc (observe_all sc o bs)) p = presence_at sc o p) /\
  ounk (deepcopy sc (observe_all sc o bs)) = ounk o /\ ocls (deepcopy sc (observe_all sc o bs)) = ocls o.
Proof. exact deepcopy_after_observers. Qed.
Print Assumptions C14_deepcopy_after_observers.

(* ---- pickle ---- *)
Theorem C14_pickle_is_parse_of_bytes : forall sc o,
  pickle_rt sc o = (do bs <- enc_obj sc o; parse sc (ocls o) bs).
Proof. reflexivity. Qed.
Print Assumptions C14_pickle_is_parse_of_bytes.

(* pickling after any observers gives exactly what pickling before would have given (result or error) *)
Theorem C14_pickle_after_observers : forall sc, wf_schema sc = true -> forall o bs,
  pickle_rt sc (observe_all sc o bs) = pickle_rt sc o.
Proof. exact pickle_after_observers. Qed.
Print Assumptions C14_pickle_after_observers.

(* faithful wherever the binary round trip is (C01, premise [roundtrip] over its own side condition [ok]);
   missing: the round trip itself (C01), unknown bytes through parse (C08), independence (harness-only).
   Kept for reference: the premise is discharged in C14_pickle_faithful / C14_pickle_unknown_fields below. *)
Theorem C14_pickle_faithful_partial : forall sc (ok : obj -> bool),
  (forall o, ok o = true ->
     exists bs o', enc_obj sc o = Ok bs /\ parse sc (ocls o) bs = Ok o' /\
                   obj_eq sc o' o = true /\ obj_eq sc o o' = true /\ enc_obj sc o' = Ok bs) ->
  forall o, ok o = true ->
  exists o', pickle_rt sc o = Ok o' /\ obj_eq sc o' o = true /\ obj_eq sc o o' = true /\ enc_obj sc o' = enc_obj sc o.
Proof. exact pickle_faithful. Qed.
Print Assumptions C14_pickle_faithful_partial.

(* ================================================================================================== *)
(* witnesses                                                                                           *)
(* ================================================================================================== *)
(* Inner{x:int32=1, rec:Inner=2, o:optional int32=3}  Empty{}
   Holder{e:Empty=1, inner:Inner=2, oneof g0{a:int32=3, b:string=4}, r:repeated Inner=5, mm:map<string,Inner>=6,
          n:int32=7, oi:optional int32=8} *)
Definition ex_schema : schema :=
  mkS (builtin_classes ++
       [mkC [mkF [x78] 1 TInt32 None None None false (HPlain PyInt) 0;
             mkF [x72] 2 TMessage None None None false (HPlain (PyMsg 11)) 0;
             mkF [x6f] 3 TInt32 None None None true (HOptional PyInt) 0] 0;
        mkC [] 0;
        mkC [mkF [x65] 1 TMessage None None None false (HPlain (PyMsg 12)) 0;
             mkF [x69] 2 TMessage None None None false (HPlain (PyMsg 11)) 0;
             mkF [x61] 3 TInt32 None (Some 0%nat) None false (HPlain PyInt) 0;
             mkF [x62] 4 TString None (Some 0%nat) None false (HPlain PyStr) 0;
             mkF [x72] 5 TMessage None None None false (HList (PyMsg 11)) 0;
             mkF [x6d] 6 TMap (Some (TString, TMessage)) None None false (HDict PyStr (PyMsg 11)) 14;
             mkF [x6e] 7 TInt32 None None None false (HPlain PyInt) 0;
             mkF [x70] 8 TInt32 None None None true (HOptional PyInt) 0] 1;
        mkC [mkF [x6b; x65; x79] 1 TString None None None false (HPlain PyStr) 0;
             mkF [x76; x61; x6c; x75; x65] 2 TMessage None None None false (HPlain (PyMsg 11)) 0] 0]) [].

Example ex_schema_wf : wf_schema ex_schema = true.
Proof. vm_compute. reflexivity. Qed.

(* Holder(b="", r=[Inner(x=2)], mm={"k": Inner()}) decoded with an unknown field: nothing read yet *)
Definition ex_obj : obj :=
  Obj 13 [PPlaceholder; PPlaceholder; PPlaceholder; PStr [];
          PList [PMsg (Obj 11 [PInt 2; PPlaceholder; PNone] true [] [])];
          PDict [(PStr [x6b], PMsg (Obj 11 [PPlaceholder; PPlaceholder; PNone] false [] []))];
          PPlaceholder; PNone] true [x98; x06; x01] [Some 3%nat].

Definition ex_observers : list observer :=
  [BGet [1%nat; 1%nat] 0%nat; BBytes; BToDict 5 false; BGet [] 0%nat; BEq ex_obj; BBool; BRepr; BToPydict 5 false; BLen].

(* non-vacuity: the observers do change the raw state (four slots at three depths), the object is shaped, the
   bytes are there, == is reflexive on it *)
Example C14_nonvacuous :
  cv_eqb (cv_of_obj (observe_all ex_schema ex_obj ex_observers)) (cv_of_obj ex_obj) = false /\
  mat_obj ex_schema ex_obj (observe_all ex_schema ex_obj ex_observers) = true /\
  shaped_obj ex_schema (observe_all ex_schema ex_obj ex_observers) = true /\
  eq_refl_ok ex_schema (PMsg ex_obj) = true /\
  enc_obj ex_schema (observe_all ex_schema ex_obj ex_observers) =
    Ok [x22; x00; x2a; x02; x08; x02; x32; x03; x0a; x01; x6b; x98; x06; x01] /\
  enc_obj ex_schema ex_obj = Ok [x22; x00; x2a; x02; x08; x02; x32; x03; x0a; x01; x6b; x98; x06; x01] /\
  presence_at ex_schema ex_obj [SField 1%nat; SField 1%nat] = Some (false, [], [2; 2; 1]%nat) /\
  presence_at ex_schema ex_obj [SValue 5%nat 0%nat] = Some (false, [], [2; 2; 1]%nat) /\
  presence_at ex_schema ex_obj [] = Some (true, [Some 3%nat], [2; 2; 0; 2; 2; 2; 2; 1]%nat).
Proof. vm_compute. repeat split; reflexivity. Qed.

(* the materialised state, spelled out: m.inner.rec.x was read (three defaults stored, at depth 1, 2 and 3), bytes()
   stored the defaults of e and n (and did not descend into the skipped inner), to_dict walked into the list
   element and into the map value *)
Example C14_observed_state :
  observe_all ex_schema ex_obj ex_observers =
  Obj 13 [PMsg (Obj 12 [] false [] []);
          PMsg (Obj 11 [PPlaceholder; PMsg (Obj 11 [PInt 0; PPlaceholder; PNone] false [] []); PNone] false [] []);
          PPlaceholder; PStr [];
          PList [PMsg (Obj 11 [PInt 2; PMsg (Obj 11 [PPlaceholder; PPlaceholder; PNone] false [] []); PNone] true [] [])];
          PDict [(PStr [x6b], PMsg (Obj 11 [PInt 0; PMsg (Obj 11 [PPlaceholder; PPlaceholder; PNone] false [] []); PNone] false [] []))];
          PInt 0; PNone] true [x98; x06; x01] [Some 3%nat].
Proof. vm_compute. reflexivity. Qed.

(* ---- K4 (known finding): is_set of an implicit-presence field flips after a read, after bytes(), after to_dict() ---- *)
Theorem C14_is_set_refuted :
  exists sc o i, wf_schema sc = true /\
    is_set sc o i = false /\
    is_set sc (observe sc o (BGet [] i)) i = true /\
    is_set sc (observe sc o BBytes) i = true /\
    is_set sc (observe sc o (BToDict 5 false)) i = true.
Proof. exists ex_schema, ex_obj, 6%nat. vm_compute. repeat split; reflexivity. Qed.
Print Assumptions C14_is_set_refuted.

(* ---- the pinned tree's copy (through the constructor, before commit 0ef9c00) was NOT faithful: a field-less child
        that was merely read is emitted by the copy; repaired, witness kept in the regression corpus ---- *)
Theorem C14_copy_via_constructor_refuted :
  exists sc o, wf_schema sc = true /\ shaped_obj sc o = true /\
    enc_obj sc o = Ok [] /\ enc_obj sc (copy_ctor sc o) = Ok [x0a; x00] /\ enc_obj sc (copy sc o) = Ok [].
Proof.
  exists ex_schema, (observe ex_schema (new ex_schema 13) (BGet [] 0%nat)). vm_compute. repeat split; reflexivity.
Qed.
Print Assumptions C14_copy_via_constructor_refuted.

(* ---- outside the round trip's side conditions pickle is not faithful: Holder(a=1, b="x") keeps both raw members of
        the oneof (the constructor does no sibling reset), only the selected one is encoded, and == reads raw values ---- *)
Theorem C14_pickle_oneof_unclean_refuted :
  exists sc o, wf_schema sc = true /\ shaped_obj sc o = true /\ oneof_clean sc o = false /\
    match pickle_rt sc o with
    | Ok o' => obj_eq sc o' o = false /\ enc_obj sc o' = enc_obj sc o
    | Err _ => False
    end.
Proof.
  exists ex_schema, (construct ex_schema 13 [(2%nat, PInt 1); (3%nat, PStr [x78])]).
  vm_compute. repeat split; reflexivity.
Qed.
Print Assumptions C14_pickle_oneof_unclean_refuted.

(* ================================================================================================== *)
(* pickle: the premise discharged (C01 round trip), both operand orders of ==, presence, observers     *)
(* ================================================================================================== *)
(* Message.__eq__ with the decoded message as the LEFT operand (C01_decoded_equal has it on the right; __eq__ is not
   symmetric in general: dict comparison walks the left operand) *)
Theorem C14_decoded_equal_left : forall sc m,
  c01_schema_ok sc = true -> c01_value_ok sc m = true -> deep nan_free (PMsg m) = true ->
  obj_eq sc (norm_obj sc m) m = true.
Proof. exact c01_decoded_equal_r. Qed.
Print Assumptions C14_decoded_equal_left.

(* Hypotheses (all decidable): c01_schema_ok / c01_value_ok = C01's (Model/C01Def.v: in range, oneof-clean, no unknown
   bytes, dict keys distinct); enc_small = bytes(m) shorter than 2^64; nan_free only for ==; sow_ok (a selected or
   non-default sub-message carries its flag) only for the presence report.
   presence_below .. [] = (True, which_one_of for every group, None-ness / readability of every attribute);
   child_flag .. i = serialized_on_wire(m.<field i>).  [norm_obj] is compositional, so the statement holds at every
   nesting depth by instantiating it at the nested message. *)
Theorem C14_pickle_faithful : forall sc o,
  c01_schema_ok sc = true -> c01_value_ok sc o = true -> enc_small sc o = true ->
  exists o', pickle_rt sc o = Ok o' /\ o' = norm_obj sc o /\
    (deep nan_free (PMsg o) = true -> obj_eq sc o' o = true /\ obj_eq sc o o' = true) /\
    enc_obj sc o' = enc_obj sc o /\
    ocls o' = ocls o /\ ounk o' = ounk o /\ osow o' = true /\ ocur o' = ocur o /\
    (forall g, which_one_of o' g = which_one_of o g) /\
    (sow_ok sc o = true ->
     obs_top sc o o' = true /\ presence_below sc o' [] = presence_below sc o [] /\
     forall i, child_flag sc o' i = child_flag sc o i).
Proof. exact pickle_faithful_c01. Qed.
Print Assumptions C14_pickle_faithful.

(* ... and the same for ANY state o2 that reads have left behind (mat_obj o o2: after any observers, after copy,
   after deepcopy, in any order): pickling o2 gives the very object pickling o gives, and it is equal to o2, has o2's
   bytes, o2's presence.  Side conditions on the state before the reads. *)
Theorem C14_pickle_of_materialised : forall sc o o2,
  c01_schema_ok sc = true -> c01_value_ok sc o = true -> enc_small sc o = true ->
  mat_obj sc o o2 = true ->
  exists o', pickle_rt sc o2 = Ok o' /\ pickle_rt sc o = Ok o' /\
    (deep nan_free (PMsg o) = true -> obj_eq sc o' o2 = true /\ obj_eq sc o2 o' = true) /\
    enc_obj sc o' = enc_obj sc o2 /\
    ocls o' = ocls o2 /\ ounk o' = ounk o2 /\ osow o' = true /\ ocur o' = ocur o2 /\
    (forall g, which_one_of o' g = which_one_of o2 g) /\
    (sow_ok sc o = true ->
     presence_below sc o' [] = presence_below sc o2 [] /\ forall i, child_flag sc o' i = child_flag sc o2 i).
Proof. exact pickle_faithful_of_mat. Qed.
Print Assumptions C14_pickle_of_materialised.

Theorem C14_pickle_faithful_after_observers : forall sc o bs,
  c01_schema_ok sc = true -> c01_value_ok sc o = true -> enc_small sc o = true ->
  exists o', pickle_rt sc (observe_all sc o bs) = Ok o' /\ pickle_rt sc o = Ok o' /\
    (deep nan_free (PMsg o) = true ->
     obj_eq sc o' (observe_all sc o bs) = true /\ obj_eq sc (observe_all sc o bs) o' = true) /\
    enc_obj sc o' = enc_obj sc (observe_all sc o bs) /\
    ocls o' = ocls (observe_all sc o bs) /\ ounk o' = ounk (observe_all sc o bs) /\ osow o' = true /\
    ocur o' = ocur (observe_all sc o bs) /\
    (forall g, which_one_of o' g = which_one_of (observe_all sc o bs) g) /\
    (sow_ok sc o = true ->
     presence_below sc o' [] = presence_below sc (observe_all sc o bs) [] /\
     forall i, child_flag sc o' i = child_flag sc (observe_all sc o bs) i).
Proof. exact pickle_faithful_after_observers. Qed.
Print Assumptions C14_pickle_faithful_after_observers.

(* ---- presence at EVERY path (through singular fields, list elements, map values, to any depth): the same
        serialized_on_wire / which_one_of / None-ness at every reachable message, the flag of the top-level message
        excepted (always raised after unpickling).  Side conditions, decidable, at every depth: sow_ok (C01) and
        flags_ok (Model/C14Pickle.v: nested messages carry their flag unless they are fresh instances; a flagged map
        value does not encode to nothing - see C14_pickle_map_value_flag_refuted).  For any state o2 reads left behind. ---- *)
Theorem C14_pickle_presence_everywhere : forall sc o o2,
  c01_schema_ok sc = true -> c01_value_ok sc o = true -> enc_small sc o = true ->
  deep (sow_ok sc) (PMsg o) = true -> deep (flags_ok sc) (PMsg o) = true ->
  mat_obj sc o o2 = true ->
  exists o', pickle_rt sc o2 = Ok o' /\ forall p, presence_below sc o' p = presence_below sc o2 p.
Proof. exact pickle_presence_everywhere_of_mat. Qed.
Print Assumptions C14_pickle_presence_everywhere.

(* the decoded form itself, without the size hypothesis *)
Theorem C14_decoded_presence_everywhere : forall sc o,
  c01_schema_ok sc = true -> c01_value_ok sc o = true ->
  deep (sow_ok sc) (PMsg o) = true -> deep (flags_ok sc) (PMsg o) = true ->
  forall p, presence_below sc (norm_obj sc o) p = presence_below sc o p.
Proof. intros sc o Hs Hv. apply c01_value_ok_spec in Hv. exact (presence_everywhere sc Hs o Hv). Qed.
Print Assumptions C14_decoded_presence_everywhere.

(* ---- messages that carry unknown fields (excluded by c01_value_ok): _unknown_fields of the top-level message is any
        concatenation of complete records its class keeps verbatim (unk_records_ok: exactly what Message.parse leaves
        there, C08_raw_preserved); everything else is C01's domain.  The unpickled message holds the same unknown
        bytes, encodes to the same bytes, is == in both orders, reports the same presence.
        Unknown bytes inside NESTED messages: C14_pickle_unknown_any_depth below. ---- *)
Theorem C14_pickle_unknown_fields : forall sc o,
  c01_schema_ok sc = true -> c01_value_ok sc (C08Step.clear_unk o) = true -> unk_records_ok sc o = true ->
  enc_small sc o = true ->
  exists o', pickle_rt sc o = Ok o' /\ o' = C08Step.set_unk (norm_obj sc (C08Step.clear_unk o)) (ounk o) /\
    (deep nan_free (PMsg o) = true -> obj_eq sc o' o = true /\ obj_eq sc o o' = true) /\
    enc_obj sc o' = enc_obj sc o /\
    ocls o' = ocls o /\ ounk o' = ounk o /\ osow o' = true /\ ocur o' = ocur o /\
    (forall g, which_one_of o' g = which_one_of o g) /\
    (sow_ok sc o = true ->
     obs_top sc o o' = true /\ presence_below sc o' [] = presence_below sc o [] /\
     forall i, child_flag sc o' i = child_flag sc o i).
Proof. exact pickle_faithful_unknown. Qed.
Print Assumptions C14_pickle_unknown_fields.

Theorem C14_pickle_unknown_bytes : forall sc o,
  c01_schema_ok sc = true -> c01_value_ok sc (C08Step.clear_unk o) = true -> unk_records_ok sc o = true ->
  enc_small sc o = true ->
  exists o', pickle_rt sc o = Ok o' /\ enc_obj sc o' = enc_obj sc o /\ ounk o' = ounk o.
Proof. exact pickle_unknown_bytes. Qed.
Print Assumptions C14_pickle_unknown_bytes.

Theorem C14_pickle_unknown_of_materialised : forall sc o o2,
  c01_schema_ok sc = true -> c01_value_ok sc (C08Step.clear_unk o) = true -> unk_records_ok sc o = true ->
  enc_small sc o = true -> mat_obj sc o o2 = true ->
  exists o', pickle_rt sc o2 = Ok o' /\ pickle_rt sc o = Ok o' /\
    (deep nan_free (PMsg o) = true -> obj_eq sc o' o2 = true /\ obj_eq sc o2 o' = true) /\
    enc_obj sc o' = enc_obj sc o2 /\
    ocls o' = ocls o2 /\ ounk o' = ounk o2 /\ osow o' = true /\ ocur o' = ocur o2 /\
    (forall g, which_one_of o' g = which_one_of o2 g) /\
    (sow_ok sc o = true ->
     presence_below sc o' [] = presence_below sc o2 [] /\ forall i, child_flag sc o' i = child_flag sc o2 i).
Proof. exact pickle_unknown_of_mat. Qed.
Print Assumptions C14_pickle_unknown_of_materialised.

Theorem C14_pickle_unknown_presence_everywhere : forall sc o o2,
  c01_schema_ok sc = true -> c01_value_ok sc (C08Step.clear_unk o) = true -> unk_records_ok sc o = true ->
  enc_small sc o = true ->
  deep (sow_ok sc) (PMsg o) = true -> deep (flags_ok sc) (PMsg o) = true ->
  mat_obj sc o o2 = true ->
  exists o', pickle_rt sc o2 = Ok o' /\ forall p, presence_below sc o' p = presence_below sc o2 p.
Proof. exact pickle_unknown_presence_everywhere. Qed.
Print Assumptions C14_pickle_unknown_presence_everywhere.

(* ---- the pickle clause of the property in ONE statement.  pickle_pre (Model/C14Pickle.v) = c01_schema_ok, c01_value_ok
        of the message without its top-level unknown bytes, unk_records_ok, enc_small - evaluated by the check on every
        generated pickle case.  o: the state the side conditions are evaluated on; o2: ANY state reads have left behind
        (o itself, o after any observers, a copy / deep copy of either).  The unpickled message has the bytes of o2
        (unknown fields included), holds the same unknown bytes, selects the same oneof members; it is == o2 in both
        operand orders when no NaN sits in a container; it reports the presence of o2 at the top level (under sow_ok)
        and at EVERY path (under sow_ok and flags_ok at every depth).
        Unknown bytes inside nested messages: C14_pickle_unknown_any_depth.  Missing: independence (aliasing: harness only). ---- *)
Theorem C14_pickle : forall sc o o2,
  pickle_pre sc o = true -> mat_obj sc o o2 = true ->
  exists o', pickle_rt sc o2 = Ok o' /\
    enc_obj sc o' = enc_obj sc o2 /\ ounk o' = ounk o2 /\ ocls o' = ocls o2 /\ osow o' = true /\
    (forall g, which_one_of o' g = which_one_of o2 g) /\
    (deep nan_free (PMsg o) = true -> obj_eq sc o' o2 = true /\ obj_eq sc o2 o' = true) /\
    (sow_ok sc o = true ->
     presence_below sc o' [] = presence_below sc o2 [] /\ forall i, child_flag sc o' i = child_flag sc o2 i) /\
    (deep (sow_ok sc) (PMsg o) = true -> deep (flags_ok sc) (PMsg o) = true ->
     forall p, presence_below sc o' p = presence_below sc o2 p).
Proof. exact pickle_summary. Qed.
Print Assumptions C14_pickle.

(* ---- unknown fields at ANY depth.  pickle_pre_u (Model/C14UDef.v) = c01_schema_ok, enc_small and c14u_value_ok, which is
        c01_value_ok with "no unknown bytes" replaced, at every nesting depth, by unk_records_ok (the unknown bytes are
        complete records the class keeps verbatim: what Message.parse leaves there).  The unpickled message is
        normu_obj o: C01's decoded form in which EVERY message keeps its _unknown_fields.  Proof: the C01 development
        re-run for normu_obj (Proofs/C14U*.v), the unknown records of each message fed to the decoder by C08's
        known_undisturbed_conv.  Subsumes C14_pickle (same conclusions). ---- *)
Theorem C14_pickle_unknown_any_depth : forall sc o o2,
  pickle_pre_u sc o = true -> mat_obj sc o o2 = true ->
  exists o', pickle_rt sc o2 = Ok o' /\ o' = normu_obj sc o /\
    enc_obj sc o' = enc_obj sc o2 /\ ounk o' = ounk o2 /\ ocls o' = ocls o2 /\ osow o' = true /\
    (forall g, which_one_of o' g = which_one_of o2 g) /\
    (deep nan_free (PMsg o) = true -> obj_eq sc o' o2 = true /\ obj_eq sc o2 o' = true) /\
    (sow_ok sc o = true ->
     presence_below sc o' [] = presence_below sc o2 [] /\ forall i, child_flag sc o' i = child_flag sc o2 i) /\
    (deep (sow_ok sc) (PMsg o) = true -> deep (flags_ok sc) (PMsg o) = true ->
     forall p, presence_below sc o' p = presence_below sc o2 p).
Proof. exact pickle_summary_u. Qed.
Print Assumptions C14_pickle_unknown_any_depth.

(* the decoder on the bytes of such a message, and the bytes of what it returns *)
Theorem C14_roundtrip_unknown_any_depth : forall sc m,
  c01_schema_ok sc = true -> c14u_value_ok sc m = true ->
  exists bs, enc_obj sc m = Ok bs /\
    (Zlength bs < 2 ^ 64 -> parse sc (ocls m) bs = Ok (normu_obj sc m)) /\
    enc_obj sc (normu_obj sc m) = Ok bs.
Proof.
  intros sc m Hs Hv. destruct (C14UMain.c14u_decode_is_norm sc m Hs Hv) as (bs & Eb & Hp).
  exists bs. split; [exact Eb|]. split; [exact Hp|]. rewrite (C14UStable.c14u_reencode_stable sc m Hs Hv). exact Eb.
Qed.
Print Assumptions C14_roundtrip_unknown_any_depth.

(* parsing `body ++ unknown records` = parsing body, then holding the records verbatim (the C08 fact used) *)
Theorem C14_parse_with_unknown_suffix : forall sc c body u n,
  parse sc c body = Ok n -> ounk n = [] ->
  match C08Step.frames (S (length u)) u with
  | Some ps => forallb (C08Step.is_unknown (get_class sc c)) ps
  | None => false
  end = true ->
  parse sc c (body ++ u) = Ok (C08Step.set_unk n u).
Proof. exact parse_with_unknown. Qed.
Print Assumptions C14_parse_with_unknown_suffix.

(* ================================================================================================== *)
(* copies and the rest of the history                                                                  *)
(* ================================================================================================== *)
(* res_obj_rel r r' (Proofs/C14Sim1.v): both are the same error, or both are states, related by [mat];
   out_rel: same bytes / length / boolean, same error, read values related by [mat];
   step_rel: both raise the same error, or both return, states related by [mat], outputs by out_rel *)
Theorem C14_step_respects_materialisation : forall sc, wf_schema sc = true -> forall o o' p,
  mat_obj sc o o' = true -> step_rel sc (History.step sc o p) (History.step sc o' p).
Proof. exact step_respects_mat. Qed.
Print Assumptions C14_step_respects_materialisation.

Theorem C14_history_respects_materialisation : forall sc, wf_schema sc = true -> forall ops o o',
  mat_obj sc o o' = true -> res_obj_rel sc (History.run sc o ops) (History.run sc o' ops).
Proof. exact run_respects_mat. Qed.
Print Assumptions C14_history_respects_materialisation.

(* the pieces, each monotone for [mat] (no shape hypothesis) *)
Theorem C14_copy_monotone : forall sc, schema_opt_ok sc = true -> forall o o',
  mat_obj sc o o' = true -> mat_obj sc (copy sc o) (copy sc o') = true.
Proof. exact copy_mono. Qed.
Print Assumptions C14_copy_monotone.

Theorem C14_deepcopy_monotone : forall sc, schema_opt_ok sc = true -> forall o o',
  mat_obj sc o o' = true -> mat_obj sc (deepcopy sc o) (deepcopy sc o') = true.
Proof. exact deepcopy_mono. Qed.
Print Assumptions C14_deepcopy_monotone.

Theorem C14_bytes_walk_monotone : forall sc, schema_opt_ok sc = true -> forall o o',
  mat_obj sc o o' = true -> mat_obj sc (History.touch sc o) (History.touch sc o') = true.
Proof. exact touch_mono. Qed.
Print Assumptions C14_bytes_walk_monotone.

Theorem C14_parse_into_respects_materialisation : forall sc o o' bs,
  mat_obj sc o o' = true -> res_obj_rel sc (parse_into sc o bs) (parse_into sc o' bs).
Proof. exact parse_into_sim. Qed.
Print Assumptions C14_parse_into_respects_materialisation.

Theorem C14_setattr_path_respects_materialisation : forall sc path o o' i v,
  mat_obj sc o o' = true -> res_obj_rel sc (set_in sc o path i v) (set_in sc o' path i v).
Proof. exact set_in_sim. Qed.
Print Assumptions C14_setattr_path_respects_materialisation.

(* hist_rel: both histories raise the same error, or both end, in states related by [mat] and therefore
   indistinguishable (bytes, == against everything in both positions, bool, presence at every path, unknown bytes) *)
Theorem C14_copy_commutes : forall sc (Hwf : wf_schema sc = true) o ops,
  shaped_top sc o = true -> hist_rel sc (History.run sc o ops) (History.run sc (copy sc o) ops).
Proof. exact copy_commutes. Qed.
Print Assumptions C14_copy_commutes.

Theorem C14_deepcopy_commutes : forall sc (Hwf : wf_schema sc = true) o ops,
  shaped_obj sc o = true -> hist_rel sc (History.run sc o ops) (History.run sc (deepcopy sc o) ops).
Proof. exact deepcopy_commutes. Qed.
Print Assumptions C14_deepcopy_commutes.

Theorem C14_copy_step_commutes : forall sc, wf_schema sc = true -> forall o p,
  shaped_top sc o = true -> step_rel sc (History.step sc o p) (History.step sc (copy sc o) p).
Proof. exact copy_step_commutes. Qed.
Print Assumptions C14_copy_step_commutes.

Theorem C14_deepcopy_step_commutes : forall sc, wf_schema sc = true -> forall o p,
  shaped_obj sc o = true -> step_rel sc (History.step sc o p) (History.step sc (deepcopy sc o) p).
Proof. exact deepcopy_step_commutes. Qed.
Print Assumptions C14_deepcopy_step_commutes.

Theorem C14_copy_after_observers_commutes : forall sc (Hwf : wf_schema sc = true) o bs ops,
  shaped_top sc (observe_all sc o bs) = true ->
  hist_rel sc (History.run sc o ops) (History.run sc (copy sc (observe_all sc o bs)) ops).
Proof. exact copy_after_observers_commutes. Qed.
Print Assumptions C14_copy_after_observers_commutes.

Theorem C14_deepcopy_after_observers_commutes : forall sc (Hwf : wf_schema sc = true) o bs ops,
  shaped_obj sc (observe_all sc o bs) = true ->
  hist_rel sc (History.run sc o ops) (History.run sc (deepcopy sc (observe_all sc o bs)) ops).
Proof. exact deepcopy_after_observers_commutes. Qed.
Print Assumptions C14_deepcopy_after_observers_commutes.

(* a copy / deepcopy / observer sequence taken at ANY point of a history is invisible to the rest of it *)
Theorem C14_copy_anywhere : forall sc (Hwf : wf_schema sc = true) o ops1 o1 ops2,
  History.run sc o ops1 = Ok o1 -> shaped_top sc o1 = true ->
  hist_rel sc (History.run sc o (ops1 ++ ops2)) (History.run sc o (ops1 ++ OCopy :: ops2)).
Proof. exact copy_anywhere. Qed.
Print Assumptions C14_copy_anywhere.

Theorem C14_deepcopy_anywhere : forall sc (Hwf : wf_schema sc = true) o ops1 o1 ops2,
  History.run sc o ops1 = Ok o1 -> shaped_obj sc o1 = true ->
  hist_rel sc (History.run sc o (ops1 ++ ops2)) (History.run sc o (ops1 ++ ODeepcopy :: ops2)).
Proof. exact deepcopy_anywhere. Qed.
Print Assumptions C14_deepcopy_anywhere.

Theorem C14_observers_anywhere : forall sc (Hwf : wf_schema sc = true) o ops1 o1 bs ops2,
  History.run sc o ops1 = Ok o1 ->
  hist_rel sc (History.run sc o (ops1 ++ ops2))
              (do o2 <- History.run sc o ops1; History.run sc (observe_all sc o2 bs) ops2).
Proof. exact observers_anywhere. Qed.
Print Assumptions C14_observers_anywhere.

(* ================================================================================================== *)
(* "in any order": any interleaving of observers, copy and deepcopy, then pickle                        *)
(* ================================================================================================== *)
(* cops_shaped (Model/C14Seq.v, decidable): at each point where a copy / deepcopy is taken the object has one raw
   attribute per declared field (recursively for deepcopy) - true of every Python object *)
Theorem C14_observers_and_copies_any_order : forall sc, wf_schema sc = true -> forall l o,
  cops_shaped sc o l = true ->
  mat_obj sc o (apply_cops sc o l) = true /\
  (enc_obj sc (apply_cops sc o l) = enc_obj sc o /\
   (forall x, obj_eq sc (apply_cops sc o l) x = obj_eq sc o x /\ obj_eq sc x (apply_cops sc o l) = obj_eq sc x o) /\
   obj_bool sc (apply_cops sc o l) = obj_bool sc o /\
   (forall p, presence_at sc (apply_cops sc o l) p = presence_at sc o p) /\
   ounk (apply_cops sc o l) = ounk o /\ ocls (apply_cops sc o l) = ocls o) /\
  osow (apply_cops sc o l) = osow o /\ ocur (apply_cops sc o l) = ocur o.
Proof. intros sc Hwf l o H. split; [apply cops_mat; assumption | apply cops_indistinguishable; assumption]. Qed.
Print Assumptions C14_observers_and_copies_any_order.

Theorem C14_pickle_after_any_order : forall sc o l,
  pickle_pre sc o = true -> cops_shaped sc o l = true ->
  exists o', pickle_rt sc (apply_cops sc o l) = Ok o' /\
    enc_obj sc o' = enc_obj sc (apply_cops sc o l) /\ ounk o' = ounk (apply_cops sc o l) /\
    ocls o' = ocls (apply_cops sc o l) /\ osow o' = true /\
    (forall g, which_one_of o' g = which_one_of (apply_cops sc o l) g) /\
    (deep nan_free (PMsg o) = true -> obj_eq sc o' (apply_cops sc o l) = true /\ obj_eq sc (apply_cops sc o l) o' = true) /\
    (sow_ok sc o = true ->
     presence_below sc o' [] = presence_below sc (apply_cops sc o l) [] /\
     forall i, child_flag sc o' i = child_flag sc (apply_cops sc o l) i) /\
    (deep (sow_ok sc) (PMsg o) = true -> deep (flags_ok sc) (PMsg o) = true ->
     forall p, presence_below sc o' p = presence_below sc (apply_cops sc o l) p).
Proof. exact pickle_after_any_order. Qed.
Print Assumptions C14_pickle_after_any_order.

(* ---- every observer of Model/C14Ops.v (to_dict / to_json / to_pydict included) respects [mat]: observing a copy and
        observing the original leave related states ---- *)
Theorem C14_observer_respects_materialisation : forall sc, schema_opt_ok sc = true -> forall o o' b,
  mat_obj sc o o' = true -> mat_obj sc (observe sc o b) (observe sc o' b) = true.
Proof. exact observe_mono. Qed.
Print Assumptions C14_observer_respects_materialisation.

Theorem C14_observers_respect_materialisation : forall sc, schema_opt_ok sc = true -> forall bs o o',
  mat_obj sc o o' = true -> mat_obj sc (observe_all sc o bs) (observe_all sc o' bs) = true.
Proof. exact observe_all_mono. Qed.
Print Assumptions C14_observers_respect_materialisation.

(* ---- several pickles in one sequence: the unpickled message o' is a fixed point of pickling, and so is every state
        reads / copies leave behind from it: each later pickle returns o' itself.  eq_refl_ok (Model/C14Ops.v): == is
        reflexive on o' (no NaN inside a container, dict keys pairwise unequal) ---- *)
Theorem C14_pickle_fixed_point : forall sc o o',
  pickle_pre sc o = true -> pickle_rt sc o = Ok o' ->
  pickle_rt sc o' = Ok o' /\
  forall o2, mat_obj sc o' o2 = true ->
    pickle_rt sc o2 = Ok o' /\ enc_obj sc o2 = enc_obj sc o' /\ ounk o2 = ounk o' /\
    (forall p, presence_at sc o2 p = presence_at sc o' p) /\
    (eq_refl_ok sc (PMsg o') = true -> obj_eq sc o' o2 = true /\ obj_eq sc o2 o' = true).
Proof. exact pickle_fixed_point. Qed.
Print Assumptions C14_pickle_fixed_point.

(* ================================================================================================== *)
(* witnesses for the new statements                                                                    *)
(* ================================================================================================== *)
(* ex_obj carries unknown bytes (field 99, varint): every hypothesis of C14_pickle_unknown_fields holds, the object
   is not trivial, the unpickled message holds the unknown bytes; without them C14_pickle_faithful applies *)
Example C14_pickle_nonvacuous :
  c01_schema_ok ex_schema = true /\ c01_value_ok ex_schema (C08Step.clear_unk ex_obj) = true /\
  unk_records_ok ex_schema ex_obj = true /\ enc_small ex_schema ex_obj = true /\
  enc_small ex_schema (C08Step.clear_unk ex_obj) = true /\
  deep nan_free (PMsg ex_obj) = true /\ sow_ok ex_schema ex_obj = true /\ c01_value_ok ex_schema ex_obj = false /\
  deep (sow_ok ex_schema) (PMsg ex_obj) = true /\ deep (flags_ok ex_schema) (PMsg ex_obj) = true /\
  pickle_pre ex_schema ex_obj = true /\ pickle_pre_eq ex_schema ex_obj = true /\ pickle_pre_deep ex_schema ex_obj = true /\
  match pickle_rt ex_schema (observe_all ex_schema ex_obj ex_observers) with
  | Ok o' => ounk o' = [x98; x06; x01] /\ obj_eq ex_schema o' ex_obj = true /\
             enc_obj ex_schema o' = Ok [x22; x00; x2a; x02; x08; x02; x32; x03; x0a; x01; x6b; x98; x06; x01] /\
             cv_eqb (cv_of_obj o') (cv_of_obj (observe_all ex_schema ex_obj ex_observers)) = false
  | Err _ => False
  end.
Proof. vm_compute. repeat split; reflexivity. Qed.

(* a history with an assignment through a path, a read, parse into the object, a comparison: run on ex_obj and on the
   copy of the observed ex_obj it ends in two different raw states, related by mat *)
Definition ex_ops : list op :=
  [OSet [1%nat; 1%nat] 0%nat (PInt 5); OGet [4%nat] 0%nat; OParse [x38; x07; x98; x06; x02]; OEq ex_obj; OBool].
Example C14_commute_nonvacuous :
  shaped_top ex_schema (observe_all ex_schema ex_obj ex_observers) = true /\
  match History.run ex_schema ex_obj ex_ops,
        History.run ex_schema (copy ex_schema (observe_all ex_schema ex_obj ex_observers)) ex_ops with
  | Ok a, Ok b => cv_eqb (cv_of_obj a) (cv_of_obj b) = false /\ mat_obj ex_schema a b = true /\
                  cv_eqb (cv_of_obj a) (cv_of_obj ex_obj) = false
  | _, _ => False
  end.
Proof. vm_compute. repeat split; reflexivity. Qed.

(* Holder(inner=Inner(x=1) carrying an unknown record, r=[Inner(x=2) carrying another], mm={"k": Inner() with unknown bytes
   only}) itself carrying an unknown record: unknown bytes at four places, three of them nested *)
Definition ex_deep_unknown : obj :=
  Obj 13 [PPlaceholder;
          PMsg (Obj 11 [PInt 1; PPlaceholder; PNone] true [xa0; x06; x07] []);
          PPlaceholder; PPlaceholder;
          PList [PMsg (Obj 11 [PInt 2; PPlaceholder; PNone] true [x9d; x06; x01; x02; x03; x04] [])];
          PDict [(PStr [x6b], PMsg (Obj 11 [PPlaceholder; PPlaceholder; PNone] true [xa0; x06; x09] []))];
          PPlaceholder; PNone] true [x98; x06; x01] [None].
Example C14_deep_unknown_nonvacuous :
  pickle_pre_u ex_schema ex_deep_unknown = true /\ pickle_pre_u_deep ex_schema ex_deep_unknown = true /\
  pickle_pre ex_schema ex_deep_unknown = false /\
  deep nan_free (PMsg ex_deep_unknown) = true /\
  deep (sow_ok ex_schema) (PMsg ex_deep_unknown) = true /\ deep (flags_ok ex_schema) (PMsg ex_deep_unknown) = true /\
  pickle_rt ex_schema ex_deep_unknown = Ok (normu_obj ex_schema ex_deep_unknown) /\
  match pickle_rt ex_schema ex_deep_unknown with
  | Ok o' => presence_at ex_schema o' [SValue 5%nat 0%nat] = Some (true, [], [2; 2; 1]%nat) /\
             match nav ex_schema o' [SValue 5%nat 0%nat], nav ex_schema o' [SItem 4%nat 0%nat], nav ex_schema o' [SField 1%nat] with
             | Some a, Some b, Some c => ounk a = [xa0; x06; x09] /\ ounk b = [x9d; x06; x01; x02; x03; x04] /\ ounk c = [xa0; x06; x07]
             | _, _, _ => False
             end
  | Err _ => False
  end.
Proof. vm_compute. repeat split; reflexivity. Qed.

Definition ex_cops : list cop :=
  [CObserve (BGet [1%nat; 1%nat] 0%nat); CCopy; CObserve BBytes; CDeepcopy; CObserve (BToDict 5 false); CCopy; CObserve BLen].
Example C14_any_order_nonvacuous :
  cops_shaped ex_schema ex_obj ex_cops = true /\
  cv_eqb (cv_of_obj (apply_cops ex_schema ex_obj ex_cops)) (cv_of_obj ex_obj) = false.
Proof. vm_compute. split; reflexivity. Qed.

(* ---- outside the side conditions ---- *)
(* K7: a NaN inside a repeated field: the unpickled message has the same bytes but is not == *)
Theorem C14_pickle_nan_refuted :
  exists sc o, c01_schema_ok sc = true /\ c01_value_ok sc o = true /\ enc_small sc o = true /\
    deep nan_free (PMsg o) = false /\
    match pickle_rt sc o with
    | Ok o' => obj_eq sc o' o = false /\ obj_eq sc o o' = false /\ enc_obj sc o' = enc_obj sc o
    | Err _ => False
    end.
Proof. exists k7_schema, k7_obj. vm_compute. repeat split; reflexivity. Qed.
Print Assumptions C14_pickle_nan_refuted.

(* why flags_ok (C14_pickle_presence_everywhere) asks that a flagged map value does not encode to nothing: such a value
   is not put on the wire, so its serialized_on_wire flag (True after Holder.parse of an entry with an empty value)
   comes back False; everything else about the message survives *)
Theorem C14_pickle_map_value_flag_refuted :
  exists sc o, c01_schema_ok sc = true /\ c01_value_ok sc o = true /\ enc_small sc o = true /\
    deep nan_free (PMsg o) = true /\ deep (sow_ok sc) (PMsg o) = true /\
    match pickle_rt sc o with
    | Ok o' => presence_at sc o [SValue 5%nat 0%nat] = Some (true, [], [2; 2; 1]%nat) /\
               presence_at sc o' [SValue 5%nat 0%nat] = Some (false, [], [2; 2; 1]%nat) /\
               obj_eq sc o' o = true /\ enc_obj sc o' = enc_obj sc o
    | Err _ => False
    end.
Proof.
  exists ex_schema,
    (Obj 13 [PPlaceholder; PPlaceholder; PPlaceholder; PPlaceholder; PPlaceholder;
             PDict [(PStr [x6b], PMsg (Obj 11 [PPlaceholder; PPlaceholder; PNone] true [] []))];
             PPlaceholder; PNone] true [] [None]).
  vm_compute. repeat split; reflexivity.
Qed.
Print Assumptions C14_pickle_map_value_flag_refuted.

(* ================================================================================================== *)
(* INDEPENDENCE: the aliasing model (Model/C14Heap.v)                                                  *)
(* ================================================================================================== *)
(* Python objects with identity (Message, list, dict) are cells of a heap (an address = an index, allocation appends);
   a slot holds an immutable scalar or an address.  H.abs n h a reads the value tree back (fuel n = nesting depth; None for
   a dangling address or a cycle), H.reach n h a lists the cells the structure occupies.  "Well-formed" in the theorems
   below is the decidable equation  H.abs n h root = Some v  for SOME fuel n: the structure under root is finite and has
   no dangling reference.  Nothing else is assumed about the heap: any other cells, sharing inside the structure (the same
   child in two fields, the same message twice in a list), ill-typed cells, any schema.
   H.h_deepcopy mirrors Message.__deepcopy__ + copy.deepcopy (a memo per field value: a message held twice by ONE list is
   copied once, a child held by two fields twice), H.h_copy mirrors __copy__, H.h_pickle_rt = FromString(bytes(m)),
   H.h_mut / H.h_muts are mutations THROUGH A ROOT at any depth: attribute assignment (__setattr__ with flag and sibling
   reset), attribute read (the lazy default is created AND stored in its holder), list append / item assignment, dict
   store / delete, and appending an object reached from the same root to one of its lists (aliasing inside one structure);
   every navigation step is an attribute read / l[k] / d[key]. *)
Module H := BP.Model.C14Heap.
Module HA := BP.Proofs.C14HeapA.

(* deep copy: the copy occupies only new cells, the original's cells are untouched, the two do not meet, and the copy
   reads back as the value-level deepcopy of the original (the subject of C14_deepcopy_faithful_partial above) *)
Theorem C14_deepcopy_disjoint : forall sc n h root v h' root',
  H.abs n h root = Some v -> H.h_deepcopy sc n h root = Some (h', root') ->
  H.disjointb (H.reach n h' root') (H.reach n h' root) = true /\
  H.abs n h' root' = Some (deepcopy_pv sc v) /\
  (forall b, (b < length h)%nat -> nth_error h' b = nth_error h b) /\
  (forall k, H.abs k h' root = H.abs k h root) /\
  H.reach n h' root = H.reach n h root /\
  (forall b, In b (H.reach n h' root') -> (length h <= b)%nat) /\
  (forall b, In b (H.reach n h' root) -> (b < length h)%nat).
Proof. exact BP.Proofs.C14HeapD.deepcopy_disjoint. Qed.
Print Assumptions C14_deepcopy_disjoint.

(* ... and it exists whenever the original is well-formed (same fuel) *)
Theorem C14_deepcopy_total : forall sc n h root v,
  H.abs n h root = Some v -> exists h' root', H.h_deepcopy sc n h root = Some (h', root').
Proof. exact BP.Proofs.C14HeapE.deepcopy_total. Qed.
Print Assumptions C14_deepcopy_total.

(* "mutating a deep copy never affects the original": EVERY finite sequence of mutations through the copy's root, at any
   depth, leaves the value of the original what it was (at every fuel: also `None` stays `None`); and symmetrically *)
Theorem C14_deepcopy_independent : forall sc n h root v h' root',
  H.abs n h root = Some v -> H.h_deepcopy sc n h root = Some (h', root') ->
  forall ms,
  (forall k, H.abs k (H.h_muts sc h' root' ms) root = H.abs k h root) /\
  (forall k, H.abs k (H.h_muts sc h' root ms) root' = H.abs k h' root').
Proof. exact BP.Proofs.C14HeapD.deepcopy_independent. Qed.
Print Assumptions C14_deepcopy_independent.

(* the unpickled copy: it is the tree value-level pickle_rt returns (C14_pickle / C14_pickle_unknown_any_depth say what that
   is), built from new cells only; disjoint from the original; independent in both directions *)
Theorem C14_pickle_independent : forall sc n h root h' root',
  H.h_pickle_rt sc n h root = Some (h', root') ->
  exists o o', H.abs n h root = Some (PMsg o) /\ pickle_rt sc o = Ok o' /\
    (exists n', forall k, (n' <= k)%nat -> H.abs k h' root' = Some (PMsg o')) /\
    (forall b, (b < length h)%nat -> nth_error h' b = nth_error h b) /\
    (forall k, H.abs k h' root = H.abs k h root) /\
    (forall k b, In b (H.reach k h' root') -> (length h <= b)%nat) /\
    (forall b, In b (H.reach n h' root) -> (b < length h)%nat) /\
    H.disjointb (H.reach n h' root') (H.reach n h' root) = true /\
    forall ms,
      (forall k, H.abs k (H.h_muts sc h' root' ms) root = H.abs k h root) /\
      (forall k, H.abs k (H.h_muts sc h' root ms) root' = H.abs k h' root').
Proof. exact BP.Proofs.C14HeapD.pickle_independent. Qed.
Print Assumptions C14_pickle_independent.

(* the general fact behind both: a territory [own] that is closed under the heap and contains every address from L on
   (everything allocated later); mutations through a root inside it keep it closed and change no cell outside it *)
Theorem C14_mutations_stay_in_territory : forall (own : H.addr -> Prop) L sc ms h root,
  HA.inv own L h -> own root ->
  HA.inv own L (H.h_muts sc h root ms) /\ HA.pres own h (H.h_muts sc h root ms).
Proof. exact BP.Proofs.C14HeapB.muts_ok. Qed.
Print Assumptions C14_mutations_stay_in_territory.

(* a value whose footprint F is closed and untouched reads back the same *)
Theorem C14_frame : forall h h' F,
  HA.closed h F -> (forall a, In a F -> nth_error h' a = nth_error h a) ->
  forall k a, In a F -> H.abs k h' a = H.abs k h a.
Proof. exact HA.frame_abs. Qed.
Print Assumptions C14_frame.

(* building a structure from a value tree (what parse / FromString / a constructor call does): new cells only, referring to
   new cells only, and it reads back as the tree *)
Theorem C14_alloc_reads_back : forall h o h' a,
  H.alloc_tree h o = (h', a) ->
  HA.alloc_ok h h' /\ (length h <= a)%nat /\ exists n, forall k, (n <= k)%nat -> H.abs k h' a = Some (PMsg o).
Proof. exact BP.Proofs.C14HeapD.alloc_tree_spec. Qed.
Print Assumptions C14_alloc_reads_back.

(* the shallow copy: ONE new cell holding the same references; it reads back as the value-level copy *)
Theorem C14_copy_heap_faithful : forall sc h root h' root',
  H.h_copy sc h root = Some (h', root') ->
  root' = length h /\ BP.Proofs.C14HeapC.hext h h' /\
  forall k o, H.abs (S k) h root = Some (PMsg o) -> H.abs (S k) h' root' = Some (PMsg (copy sc o)).
Proof. exact BP.Proofs.C14HeapD.copy_faithful_heap. Qed.
Print Assumptions C14_copy_heap_faithful.

(* what does hold for it: any sequence of TOP-LEVEL assignments  c.<field> = v  on the shallow copy leaves the original alone *)
Theorem C14_copy_toplevel_independent : forall sc n h root v h' root',
  H.abs n h root = Some v -> H.h_copy sc h root = Some (h', root') ->
  forall l k, H.abs k (H.h_muts sc h' root' (BP.Proofs.C14HeapD.toplevel_sets l)) root = H.abs k h root.
Proof. exact BP.Proofs.C14HeapD.copy_toplevel_independent. Qed.
Print Assumptions C14_copy_toplevel_independent.

(* ---- witnesses.  Holder(inner=Inner(x=1), b="", r=[Inner(x=2)], mm={"k": Inner()}) with an unknown record ---- *)
Definition ex_hobj : obj :=
  Obj 13 [PPlaceholder; PMsg (Obj 11 [PInt 1; PPlaceholder; PNone] true [] []); PPlaceholder; PStr [];
          PList [PMsg (Obj 11 [PInt 2; PPlaceholder; PNone] true [] [])];
          PDict [(PStr [x6b], PMsg (Obj 11 [PPlaceholder; PPlaceholder; PNone] false [] []))];
          PPlaceholder; PNone] true [x98; x06; x01] [Some 3%nat].
Definition ex_heap : H.heap := fst (H.alloc_tree [] ex_hobj).
Definition ex_root : H.addr := snd (H.alloc_tree [] ex_hobj).
(* through the copy: nested assignment below a lazily created child, append to the repeated field, assignment inside a
   list element and inside a map value, a new map entry, a deleted one, a top-level assignment that resets the oneof,
   and the same list element appended again (aliasing inside the copy) *)
Definition ex_muts : list H.mut :=
  [H.MSet [H.PField 1%nat; H.PField 1%nat] 0%nat (PInt 7);
   H.MAppend [H.PField 4%nat] (PMsg (Obj 11 [PInt 3; PPlaceholder; PNone] true [] []));
   H.MSet [H.PField 4%nat; H.PItem 0%nat] 0%nat (PInt 9);
   H.MSet [H.PField 5%nat; H.PKey (PStr [x6b])] 0%nat (PInt 4);
   H.MDictSet [H.PField 5%nat] (PStr [x6a]) (PMsg (Obj 11 [PInt 5; PPlaceholder; PNone] true [] []));
   H.MDictDel [H.PField 5%nat] (PStr [x6b]);
   H.MSet [] 2%nat (PInt 1);
   H.MListSet [H.PField 4%nat] 1%nat (PMsg (Obj 11 [PInt 8; PPlaceholder; PNone] true [] []));
   H.MAppendRef [H.PField 4%nat] [H.PField 4%nat; H.PItem 0%nat];
   H.MRead [H.PField 0%nat]].

Definition pv_same_opt (a b : option pv) : bool :=
  match a, b with
  | Some x, Some y => cv_eqb (cv_of_pv x) (cv_of_pv y)
  | None, None => true
  | _, _ => false
  end.

(* non-vacuity: the heap is well-formed at fuel 4 (3 is enough, 2 is not), the deep copy and the unpickled copy exist, the mutations do
   change the structure they go through (six cells allocated, the value differs), the other one keeps its value *)
Example C14_heap_nonvacuous :
  H.abs 4 ex_heap ex_root = Some (PMsg ex_hobj) /\ H.abs 2 ex_heap ex_root = None /\ length ex_heap = 6%nat /\
  match H.h_deepcopy ex_schema 4 ex_heap ex_root with
  | Some (h', r') =>
      H.reach 4 h' ex_root = [5; 0; 2; 1; 4; 3]%nat /\ H.reach 4 h' r' = [11; 6; 8; 7; 10; 9]%nat /\
      pv_same_opt (H.abs 4 h' r') (Some (PMsg (deepcopy ex_schema ex_hobj))) = true /\
      pv_same_opt (H.abs 6 (H.h_muts ex_schema h' r' ex_muts) r') (H.abs 6 h' r') = false /\
      pv_same_opt (H.abs 6 (H.h_muts ex_schema h' r' ex_muts) ex_root) (Some (PMsg ex_hobj)) = true /\
      pv_same_opt (H.abs 6 (H.h_muts ex_schema h' ex_root ex_muts) ex_root) (Some (PMsg ex_hobj)) = false /\
      pv_same_opt (H.abs 6 (H.h_muts ex_schema h' ex_root ex_muts) r') (H.abs 6 h' r') = true /\
      H.shared 6 (H.h_muts ex_schema h' r' ex_muts) ex_root r' = [] /\
      H.shared_within 6 (H.h_muts ex_schema h' r' ex_muts) r' =
        [([H.PField 4; H.PItem 0], [H.PField 4; H.PItem 2])]%nat
  | None => False
  end /\
  match H.h_pickle_rt ex_schema 4 ex_heap ex_root with
  | Some (h', r') =>
      H.reach 4 h' r' = [11; 6; 8; 7; 10; 9]%nat /\
      pv_same_opt (H.abs 6 (H.h_muts ex_schema h' r' ex_muts) r') (H.abs 6 h' r') = false /\
      pv_same_opt (H.abs 6 (H.h_muts ex_schema h' r' ex_muts) ex_root) (Some (PMsg ex_hobj)) = true
  | None => False
  end.
Proof. vm_compute. repeat split; reflexivity. Qed.

(* ---- for the SHALLOW copy the independence statement is false: the copy holds the original's list, so appending to
        the repeated field of the copy (or assigning inside its nested message) is visible in the original; the same
        mutations through a deep copy are not ---- *)
Theorem C14_copy_shares_refuted :
  exists sc h root v h' root' m1 m2,
    wf_schema sc = true /\ H.abs 4 h root = Some v /\ H.h_copy sc h root = Some (h', root') /\
    pv_same_opt (H.abs 4 h' root') (Some (PMsg (copy sc ex_hobj))) = true /\
    pv_same_opt (H.abs 4 (H.h_mut sc h' root' m1) root) (H.abs 4 h root) = false /\
    pv_same_opt (H.abs 4 (H.h_mut sc h' root' m2) root) (H.abs 4 h root) = false /\
    H.shared 4 h' root root' <> [] /\
    match H.h_deepcopy sc 4 h root with
    | Some (h2, r2) => pv_same_opt (H.abs 4 (H.h_mut sc h2 r2 m1) root) (H.abs 4 h root) = true /\ H.shared 4 h2 root r2 = []
    | None => False
    end.
Proof.
  exists ex_schema, ex_heap, ex_root, (PMsg ex_hobj), (fst (match H.h_copy ex_schema ex_heap ex_root with Some p => p | None => ([], O) end)),
         6%nat, (H.MAppend [H.PField 4%nat] (PMsg (Obj 11 [PInt 3; PPlaceholder; PNone] true [] []))),
         (H.MSet [H.PField 1%nat] 0%nat (PInt 5)).
  vm_compute. repeat split; try reflexivity. discriminate.
Qed.
Print Assumptions C14_copy_shares_refuted.

(* the hypothesis of C14_copy_toplevel_independent holds on the witness and the assignments do change the copy *)
Example C14_copy_toplevel_nonvacuous :
  match H.h_copy ex_schema ex_heap ex_root with
  | Some (h', r') =>
      let h2 := H.h_muts ex_schema h' r' (BP.Proofs.C14HeapD.toplevel_sets
                  [(2%nat, PInt 1); (1%nat, PMsg (Obj 11 [PInt 6; PPlaceholder; PNone] true [] [])); (4%nat, PList [])]) in
      pv_same_opt (H.abs 4 h2 r') (H.abs 4 h' r') = false /\ pv_same_opt (H.abs 4 h2 ex_root) (Some (PMsg ex_hobj)) = true
  | None => False
  end.
Proof. vm_compute. split; reflexivity. Qed.

(* ================================================================================================== *)
(* GAP CLOSING against the property text (clause table: header of Proofs/C14GapA.v)                     *)
(* ================================================================================================== *)
From BP Require Import Model.Len Model.C07Ops Model.C01Reach Model.C01Parse Model.C17Typed Model.C17Nested.
From BP Require Proofs.C14GapA.
Module GA := BP.Proofs.C14GapA.

(* ---- (1) "never change what a message subsequently encodes to": every way of asking - bytes, len, dump (plain and
        delimited), bool, == in both positions - returns after any reads / copies what it returned before, errors included
        (composition with C09_two_walks_agree) ---- *)
Theorem C14_outputs_stable : forall sc, wf_schema sc = true -> forall o o', mat_obj sc o o' = true ->
  enc_obj sc o' = enc_obj sc o /\ len_obj sc o' = len_obj sc o /\ (forall d, dump sc o' d = dump sc o d) /\
  obj_bool sc o' = obj_bool sc o /\
  (forall x, obj_eq sc o' x = obj_eq sc o x /\ obj_eq sc x o' = obj_eq sc x o).
Proof. exact GA.outputs_stable. Qed.
Print Assumptions C14_outputs_stable.

Theorem C14_outputs_stable_after_observers : forall sc, wf_schema sc = true -> forall o bs,
  enc_obj sc (observe_all sc o bs) = enc_obj sc o /\ len_obj sc (observe_all sc o bs) = len_obj sc o /\
  (forall d, dump sc (observe_all sc o bs) d = dump sc o d) /\
  obj_bool sc (observe_all sc o bs) = obj_bool sc o /\
  (forall x, obj_eq sc (observe_all sc o bs) x = obj_eq sc o x /\ obj_eq sc x (observe_all sc o bs) = obj_eq sc x o).
Proof. exact GA.outputs_stable_observers. Qed.
Print Assumptions C14_outputs_stable_after_observers.

(* ---- (3) the flag of the message itself and its oneof selection, literally (no schema hypothesis) ---- *)
Theorem C14_materialisation_keeps_flag_selection : forall sc o o', mat_obj sc o o' = true ->
  osow o' = osow o /\ ocur o' = ocur o /\ (forall g, which_one_of o' g = which_one_of o g).
Proof. exact GA.keep_flag_selection. Qed.
Print Assumptions C14_materialisation_keeps_flag_selection.

Theorem C14_observers_keep_flag_selection : forall sc o bs,
  osow (observe_all sc o bs) = osow o /\ ocur (observe_all sc o bs) = ocur o /\
  (forall g, which_one_of (observe_all sc o bs) g = which_one_of o g).
Proof. exact GA.observers_keep_flag_selection. Qed.
Print Assumptions C14_observers_keep_flag_selection.

Theorem C14_any_order_keeps_flag_selection : forall sc, wf_schema sc = true -> forall l o, cops_shaped sc o l = true ->
  osow (apply_cops sc o l) = osow o /\ ocur (apply_cops sc o l) = ocur o /\
  (forall g, which_one_of (apply_cops sc o l) g = which_one_of o g).
Proof. exact GA.cops_keep_flag_selection. Qed.
Print Assumptions C14_any_order_keeps_flag_selection.

(* ---- (4) the shape hypothesis of the copy theorems, derived: every value within C01's condition is shaped at every
        depth, so copy / deepcopy are faithful for it without a shape premise ---- *)
Theorem C14_value_ok_shaped : forall sc o, c01_value_ok sc o = true -> shaped_obj sc o = true /\ shaped_top sc o = true.
Proof. exact GA.value_ok_shaped. Qed.
Print Assumptions C14_value_ok_shaped.

(* GA.faithful sc o oc = the conclusion of C14_copy_faithful with oc for the copy (bytes, == against everything in both
   positions, bool, presence at every path, unknown bytes, class, flag, selection) *)
Theorem C14_copies_faithful_value_ok : forall sc o, wf_schema sc = true -> c01_value_ok sc o = true ->
  GA.faithful sc o (copy sc o) /\ GA.faithful sc o (deepcopy sc o) /\
  mat_obj sc o (copy sc o) = true /\ mat_obj sc o (deepcopy sc o) = true.
Proof. exact GA.copies_faithful_value_ok. Qed.
Print Assumptions C14_copies_faithful_value_ok.

(* ... and for EVERY object a history of public-API operations produces (constructor, from_dict on the class and on an
   instance, assignments and reads through any path, parse of clean bytes into the object, copies, pickles, bytes / len / dump /
   == / bool): the quantifier's "constructed, decoded from bytes, loaded from dicts".  Conditions on the operations only
   (C01's op_value_ok_p). *)
Theorem C14_copies_faithful_reachable : forall sc c ops o,
  c01_schema_ok sc = true -> hist_ok op_value_ok_p sc (new sc c) ops = true -> run7 sc (new sc c) ops = Ok o ->
  shaped_obj sc o = true /\ GA.faithful sc o (copy sc o) /\ GA.faithful sc o (deepcopy sc o).
Proof. exact GA.copies_faithful_reachable. Qed.
Print Assumptions C14_copies_faithful_reachable.

(* ---- (4) pickle for reachable objects: pickle_pre and sow_ok discharged (C01_reachable_sow_ok_parse); the only premise on
        the value that is left is the size of bytes(m).  o2: any state reads / copies left behind from o. ---- *)
Theorem C14_pickle_reachable : forall sc c ops o o2,
  c01_schema_ok sc = true -> hist_ok op_reach_ok_p sc (new sc c) ops = true -> run7 sc (new sc c) ops = Ok o ->
  enc_small sc o = true -> mat_obj sc o o2 = true ->
  exists o', pickle_rt sc o2 = Ok o' /\ pickle_rt sc o = Ok o' /\ o' = norm_obj sc o /\
    (deep nan_free (PMsg o) = true -> obj_eq sc o' o2 = true /\ obj_eq sc o2 o' = true) /\
    enc_obj sc o' = enc_obj sc o2 /\
    ocls o' = ocls o2 /\ ounk o' = ounk o2 /\ ounk o' = [] /\ osow o' = true /\ ocur o' = ocur o2 /\
    (forall g, which_one_of o' g = which_one_of o2 g) /\
    presence_below sc o' [] = presence_below sc o2 [] /\ (forall i, child_flag sc o' i = child_flag sc o2 i).
Proof. exact GA.pickle_reachable. Qed.
Print Assumptions C14_pickle_reachable.

(* ---- (4) "each": the three copies against each other.  Pickling any state reads / copies left behind returns what pickling
        the original returns - result OR error, no side condition at all ---- *)
Theorem C14_pickle_of_materialised_exact : forall sc, wf_schema sc = true -> forall o o2,
  mat_obj sc o o2 = true -> pickle_rt sc o2 = pickle_rt sc o.
Proof. exact GA.pickle_of_mat_exact. Qed.
Print Assumptions C14_pickle_of_materialised_exact.

Theorem C14_pickle_after_any_order_exact : forall sc, wf_schema sc = true -> forall l o,
  cops_shaped sc o l = true -> pickle_rt sc (apply_cops sc o l) = pickle_rt sc o.
Proof. exact GA.pickle_after_cops_exact. Qed.
Print Assumptions C14_pickle_after_any_order_exact.

Theorem C14_three_copies_agree : forall sc o,
  pickle_pre sc o = true -> shaped_obj sc o = true ->
  exists o', pickle_rt sc o = Ok o' /\ pickle_rt sc (copy sc o) = Ok o' /\ pickle_rt sc (deepcopy sc o) = Ok o' /\
    pickle_rt sc o' = Ok o' /\
    enc_obj sc (copy sc o) = enc_obj sc o /\ enc_obj sc (deepcopy sc o) = enc_obj sc o /\ enc_obj sc o' = enc_obj sc o /\
    ounk (copy sc o) = ounk o /\ ounk (deepcopy sc o) = ounk o /\ ounk o' = ounk o /\
    (forall g, which_one_of (copy sc o) g = which_one_of o g /\ which_one_of (deepcopy sc o) g = which_one_of o g /\
               which_one_of o' g = which_one_of o g) /\
    (forall p, presence_at sc (copy sc o) p = presence_at sc o p /\ presence_at sc (deepcopy sc o) p = presence_at sc o p).
Proof. exact GA.three_copies_agree. Qed.
Print Assumptions C14_three_copies_agree.

(* ---- (4) WHEN the pickle round trip returns a message: exactly when bytes(m) exists and is [valid] for the class
        (composition with C17_accept_iff; has_builtins / entries_agree are C17's schema conditions) ---- *)
Theorem C14_pickle_accept_iff : forall sc, wf_schema sc = true -> has_builtins sc -> entries_agree sc = true -> forall o,
  (exists o', pickle_rt sc o = Ok o') <-> (exists bs, enc_obj sc o = Ok bs /\ valid sc (ocls o) bs).
Proof. exact GA.pickle_accept_iff. Qed.
Print Assumptions C14_pickle_accept_iff.

Theorem C14_pickle_err_iff : forall sc, wf_schema sc = true -> has_builtins sc -> entries_agree sc = true -> forall o,
  (exists e, pickle_rt sc o = Err e) <->
  ((exists e, enc_obj sc o = Err e) \/ (exists bs, enc_obj sc o = Ok bs /\ ~ valid sc (ocls o) bs)).
Proof. exact GA.pickle_err_iff. Qed.
Print Assumptions C14_pickle_err_iff.

Theorem C14_pickle_pre_valid : forall sc o, has_builtins sc -> entries_agree sc = true -> pickle_pre sc o = true ->
  exists bs, enc_obj sc o = Ok bs /\ valid sc (ocls o) bs.
Proof. exact GA.pickle_pre_valid. Qed.
Print Assumptions C14_pickle_pre_valid.

(* ---- witnesses.  A history over ex_schema: Holder(b="y", n=4); m.inner.x = 5; read m.inner.rec.x; m.parse(n = 7);
        m.from_dict({"oi": 2}); bytes(m) ---- *)
Definition ex_reach_hist : list op7 :=
  [OConstruct [(3%nat, PStr [x79]); (6%nat, PInt 4)];
   OBase (OSet [1%nat] 0%nat (PInt 5));
   OBase (OGet [1%nat; 1%nat] 0%nat);
   OBase (OParse [x38; x07]);
   OFromDictInst [(7%nat, PInt 2)];
   OBase OBytes].

Example C14_gap_reachable_nonvacuous :
  c01_schema_ok ex_schema = true /\ has_builtins ex_schema /\ entries_agree ex_schema = true /\
  hist_ok op_reach_ok_p ex_schema (new ex_schema 13) ex_reach_hist = true /\
  hist_ok op_value_ok_p ex_schema (new ex_schema 13) ex_reach_hist = true /\
  match run7 ex_schema (new ex_schema 13) ex_reach_hist with
  | Ok o => enc_small ex_schema o = true /\ c01_value_ok ex_schema o = true /\
            cv_eqb (cv_of_obj o) (cv_of_obj (new ex_schema 13)) = false /\
            mat_obj ex_schema o (deepcopy ex_schema (observe_all ex_schema o ex_observers)) = true /\
            enc_obj ex_schema o = Ok [x12; x02; x08; x05; x22; x01; x79; x38; x07; x40; x02] /\
            len_obj ex_schema o = Ok 11%Z /\
            which_one_of o 0 = Some 3%nat
  | Err _ => False
  end.
Proof.
  split; [vm_compute; reflexivity|]. split; [exists (skipn (length builtin_classes) (classes ex_schema)); reflexivity|].
  vm_compute. repeat split; reflexivity.
Qed.

(* the hypotheses of C14_three_copies_agree / C14_pickle_pre_valid on ex_obj (which carries unknown bytes) *)
Example C14_gap_three_copies_nonvacuous :
  pickle_pre ex_schema ex_obj = true /\ shaped_obj ex_schema ex_obj = true /\
  cops_shaped ex_schema ex_obj ex_cops = true /\
  match pickle_rt ex_schema (apply_cops ex_schema ex_obj ex_cops), pickle_rt ex_schema ex_obj with
  | Ok a, Ok b => cv_eqb (cv_of_obj a) (cv_of_obj b) = true /\ cv_eqb (cv_of_obj a) (cv_of_obj (apply_cops ex_schema ex_obj ex_cops)) = false
  | _, _ => False
  end.
Proof. vm_compute. repeat split; reflexivity. Qed.

(* both failing cases of C14_pickle_err_iff are inhabited: Holder(b=1) (an int in a string field: bytes() raises, so does the
   pickle, before and after observers), and Inner(x=2**70) (bytes() returns an 11-byte varint, which no reader accepts) *)
Example C14_gap_pickle_err_nonvacuous :
  let bad := Obj 13 [PPlaceholder; PPlaceholder; PPlaceholder; PInt 1; PPlaceholder; PPlaceholder; PPlaceholder; PNone] true [] [Some 3%nat] in
  let bad2 := Obj 11 [PInt (2 ^ 70); PPlaceholder; PNone] true [] [] in
  pickle_rt ex_schema bad = Err EAttribute /\ enc_obj ex_schema bad = Err EAttribute /\
  pickle_rt ex_schema (observe_all ex_schema bad ex_observers) = Err EAttribute /\
  pickle_rt ex_schema bad2 = Err ETooLong /\
  match enc_obj ex_schema bad2 with Ok bs => Zlength bs = 12%Z | Err _ => False end.
Proof. vm_compute. repeat split; reflexivity. Qed.

(* ---- (7) "in any order", with pickle round trips INTERLEAVED among observers, copy and deepcopy, any number of each
        (Model/C14GapDef.v: cop2 / run_cops2 / cops2_shaped, the shape condition at the points where a copy is taken).
        From a state within pickle_pre the whole sequence runs without raising; its final state is a materialisation of the
        start or of THE unpickled object o' (there is only one: every pickle in the sequence returns o'), has the bytes, the
        unknown bytes, the class and the oneof selection of the start, and pickles to o' again. ---- *)
From BP Require Import Model.C14GapDef.
From BP Require Proofs.C14GapB.
Module GB := BP.Proofs.C14GapB.

Theorem C14_any_order_with_pickles : forall sc o l,
  pickle_pre sc o = true -> cops2_shaped sc o l = true ->
  exists o' oF, pickle_rt sc o = Ok o' /\ run_cops2 sc o l = Ok oF /\
    (mat_obj sc o oF = true \/ mat_obj sc o' oF = true) /\
    enc_obj sc oF = enc_obj sc o /\ ounk oF = ounk o /\ ocls oF = ocls o /\
    (forall g, which_one_of oF g = which_one_of o g) /\
    pickle_rt sc oF = Ok o'.
Proof. exact GB.any_order_with_pickles. Qed.
Print Assumptions C14_any_order_with_pickles.

Theorem C14_pickles_in_sequence_agree : forall sc o l1 l2,
  pickle_pre sc o = true -> cops2_shaped sc o (l1 ++ C2Pickle :: l2) = true ->
  exists o', pickle_rt sc o = Ok o' /\ run_cops2 sc o (l1 ++ [C2Pickle]) = Ok o'.
Proof. exact GB.pickles_in_sequence_agree. Qed.
Print Assumptions C14_pickles_in_sequence_agree.

Definition ex_cops2 : list cop2 :=
  [C2 (CObserve BBytes); C2Pickle; C2 CDeepcopy; C2 (CObserve (BGet [1%nat; 1%nat] 0%nat)); C2Pickle; C2 CCopy;
   C2 (CObserve (BToDict 5 false))].
Example C14_gap_interleaved_nonvacuous :
  pickle_pre ex_schema ex_obj = true /\ cops2_shaped ex_schema ex_obj ex_cops2 = true /\
  match run_cops2 ex_schema ex_obj ex_cops2, pickle_rt ex_schema ex_obj with
  | Ok oF, Ok o' => cv_eqb (cv_of_obj oF) (cv_of_obj ex_obj) = false /\ cv_eqb (cv_of_obj oF) (cv_of_obj o') = false /\
                    mat_obj ex_schema o' oF = true
  | _, _ => False
  end.
Proof. vm_compute. repeat split; reflexivity. Qed.
