(* C14 - observers are pure; copies are faithful (work in progress: theorems are added as they are proved) *)
From BP Require Import Base.Prelude Model.Types Model.Object Model.Eq Model.Encode Model.Decode Model.History Model.C14Ops.

Theorem C14_pickle_is_parse_of_bytes : forall sc o,
  pickle_rt sc o = (do bs <- enc_obj sc o; parse sc (ocls o) bs).
Proof. reflexivity. Qed.
Print Assumptions C14_pickle_is_parse_of_bytes.
